package c18

import (
	"bytes"
	"encoding/binary"
	"fmt"
	"net"
	"net/netip"
	"os"
	"testing"

	"github.com/cilium/ebpf"
	"go.uber.org/zap"

	"github.com/codelaboratoryltd/bng/pkg/antispoof"

	"verif/harness/internal/cplane"
	"verif/harness/internal/vk"
)

var run *vk.Run

const (
	tcOK   = 0
	tcShot = 2
)

func TestMain(m *testing.M) {
	run = vk.Start("C18", "exploration")
	run.Rule("(default mode) x (binding absent / v4 / v6 / both in either order / removed) x (mode in force when the binding was written) x (allowed ranges) x probe frames (IPv4/IPv6 source = bound, one-bit and one-byte near misses, byte-reversed bound, random; ARP; 802.1Q; every truncation) — maps are written by the real antispoof.Manager into kernel maps of the loaded working-tree object, dumped into the natively compiled program (ASan+UBSan, guard pages) and judged by a decision function written from the property; the in-kernel run of every frame cross-checks the native run. non-trivial = distinct (configuration, frame class) on which an IP source address was actually judged")
	run.Assume("IPv6 in loose mode is not judged (the program has no IPv6 range table and the property's loose clause names ranges only); frames without a complete IP header are only required to be forwarded unmodified (C07); mode 'in force for a MAC' is the mode recorded in its binding, or the default mode when it has none")
	code := m.Run()
	ec := run.Finish()
	if code != 0 && ec == 0 {
		ec = 2
	}
	os.Exit(ec)
}

type bindState struct {
	present  bool
	mode     antispoof.Mode
	v4, v6   net.IP
	v4ok     bool
	v6ok     bool
	desc     string
}

// want: the reference decision from the property text. judged=false when the statement does not constrain the case.
func want(def antispoof.Mode, b bindState, ranges []netip.Prefix, ethertype uint16, src net.IP, complete bool) (forward bool, judged bool) {
	mode := def
	if b.present {
		mode = b.mode
	}
	if ethertype != 0x0800 && ethertype != 0x86dd {
		return true, true // non-IP traffic is not subject to source validation
	}
	if !complete {
		return true, false
	}
	switch mode {
	case antispoof.ModeDisabled, antispoof.ModeLogOnly:
		return true, true
	case antispoof.ModeStrict:
		if ethertype == 0x0800 {
			return b.present && b.v4ok && src.Equal(b.v4), true
		}
		return b.present && b.v6ok && src.Equal(b.v6), true
	case antispoof.ModeLoose:
		if ethertype == 0x0800 {
			a, _ := netip.AddrFromSlice(src.To4())
			for _, r := range ranges {
				if r.Contains(a) {
					return true, true
				}
			}
			return false, true
		}
		return true, false
	}
	return true, false
}

func modeName(m antispoof.Mode) string {
	return map[antispoof.Mode]string{0: "disabled", 1: "strict", 2: "loose", 3: "log-only"}[m]
}

type env struct {
	k   *cplane.Kernel
	nat *cplane.Runner
	mgr *antispoof.Manager
}

func (e *env) clearKernel(t *testing.T) {
	for _, name := range []string{"subscriber_bindings", "allowed_ranges_v4"} {
		m := e.k.Coll.Maps[name]
		var keys [][]byte
		it := m.Iterate()
		k := make([]byte, m.KeySize())
		v := make([]byte, m.ValueSize())
		for it.Next(&k, &v) {
			keys = append(keys, append([]byte(nil), k...))
		}
		for _, kk := range keys {
			m.Delete(kk)
		}
	}
}

// syncNative copies the kernel map contents (written by the Go manager) into the native runner.
func (e *env) syncNative(t *testing.T) {
	if err := e.nat.Reset(); err != nil {
		t.Fatal(err)
	}
	for _, name := range []string{"subscriber_bindings", "allowed_ranges_v4"} {
		m := e.k.Coll.Maps[name]
		it := m.Iterate()
		k := make([]byte, m.KeySize())
		v := make([]byte, m.ValueSize())
		for it.Next(&k, &v) {
			if rc, err := e.nat.Write(name, k, v, 0); err != nil || rc != 0 {
				t.Fatalf("native write %s rc=%d err=%v", name, rc, err)
			}
		}
	}
	cm := e.k.Coll.Maps["antispoof_config"]
	v := make([]byte, cm.ValueSize())
	key := uint32(0)
	if err := cm.Lookup(&key, &v); err == nil {
		kb := make([]byte, 4)
		e.nat.Write("antispoof_config", kb, v, 0)
	}
}

type probe struct {
	class string
	frame []byte
	etype uint16
	src   net.IP
	full  bool
}

func mkProbes(rng interface{ IntN(int) int }, mac net.HardwareAddr, b bindState, ranges []netip.Prefix) []probe {
	dst := net.HardwareAddr{0x02, 0, 0, 0, 0, 0xfe}
	var ps []probe
	v4 := func(class string, src net.IP) {
		f := cplane.Eth(dst, mac, 0x0800, nil, cplane.IPv4(src, net.IPv4(192, 0, 2, 1), 17, 5, cplane.UDP(1000, 2000, []byte("payload"))))
		ps = append(ps, probe{class, f, 0x0800, src.To4(), true})
	}
	v6 := func(class string, src net.IP) {
		f := cplane.Eth(dst, mac, 0x86dd, nil, cplane.IPv6(src, net.ParseIP("2001:db8:ffff::1"), 17, cplane.UDP(1000, 2000, []byte("payload"))))
		ps = append(ps, probe{class, f, 0x86dd, src.To16(), true})
	}
	bound4 := b.v4
	if bound4 == nil {
		bound4 = net.IPv4(10, 0, 1, 5)
	}
	bound4 = bound4.To4()
	v4("v4-bound", bound4)
	for i := 0; i < 4; i++ {
		p := append(net.IP(nil), bound4...)
		p[i]++
		v4(fmt.Sprintf("v4-byte%d+1", i), p)
		q := append(net.IP(nil), bound4...)
		q[i] ^= 1 << uint(rng.IntN(8))
		v4(fmt.Sprintf("v4-byte%d-bitflip", i), q)
	}
	v4("v4-byte-reversed-bound", net.IP{bound4[3], bound4[2], bound4[1], bound4[0]})
	v4("v4-random", net.IP{byte(rng.IntN(256)), byte(rng.IntN(256)), byte(rng.IntN(256)), byte(rng.IntN(256))})
	v4("v4-zero", net.IPv4zero)
	for _, r := range ranges {
		a := r.Masked().Addr().As4()
		v4("v4-range-base", net.IP(a[:]))
		// last address of the range and the one after it
		bits := r.Bits()
		last := binary.BigEndian.Uint32(a[:])
		if bits < 32 {
			last |= (1 << uint(32-bits)) - 1
		}
		lb := make(net.IP, 4)
		binary.BigEndian.PutUint32(lb, last)
		v4("v4-range-last", lb)
		nb := make(net.IP, 4)
		binary.BigEndian.PutUint32(nb, last+1)
		v4("v4-range-last+1", nb)
		rv := net.IP{a[3], a[2], a[1], a[0]}
		v4("v4-range-base-byte-reversed", rv)
	}
	bound6 := b.v6
	if bound6 == nil {
		bound6 = net.ParseIP("2001:db8::5")
	}
	v6("v6-bound", bound6)
	for _, i := range []int{0, 7, 8, 15} {
		p := append(net.IP(nil), bound6.To16()...)
		p[i] ^= 1 << uint(rng.IntN(8))
		v6(fmt.Sprintf("v6-byte%d-bitflip", i), p)
	}
	v6("v6-random", net.IP{0x20, 0x01, byte(rng.IntN(256)), byte(rng.IntN(256)), 0, 0, 0, 0, 0, 0, 0, 0, 0, 0, byte(rng.IntN(256)), byte(rng.IntN(256))})
	// non-IP
	ps = append(ps, probe{"arp", cplane.Eth(dst, mac, 0x0806, nil, make([]byte, 28)), 0x0806, nil, true})
	ps = append(ps, probe{"dot1q-ipv4", cplane.Eth(dst, mac, 0x0800, [][2]uint16{{0x8100, 100}}, cplane.IPv4(net.IPv4(1, 2, 3, 4), net.IPv4(192, 0, 2, 1), 17, 5, nil)), 0x8100, nil, true})
	// truncations of a v4 and a v6 frame at every length
	full4 := cplane.Eth(dst, mac, 0x0800, nil, cplane.IPv4(net.IPv4(9, 9, 9, 9), net.IPv4(192, 0, 2, 1), 17, 5, nil))
	for l := 0; l < len(full4); l++ {
		ps = append(ps, probe{fmt.Sprintf("v4-truncated"), full4[:l], 0x0800, net.IPv4(9, 9, 9, 9).To4(), false})
	}
	full6 := cplane.Eth(dst, mac, 0x86dd, nil, cplane.IPv6(net.ParseIP("2001:db8::99"), net.ParseIP("2001:db8::1"), 17, nil))
	for l := 0; l < len(full6); l += 3 {
		ps = append(ps, probe{"v6-truncated", full6[:l], 0x86dd, net.ParseIP("2001:db8::99"), false})
	}
	return ps
}

func TestAntispoof(t *testing.T) {
	k, err := cplane.LoadKernel("antispoof")
	if err != nil {
		// the working-tree program does not load: it cannot enforce anything
		run.Violation("bpf/antispoof.c", "program-loads", "verifier-or-load-error", fmt.Sprintf("loading the working-tree antispoof object into the kernel failed: %v", err), err.Error())
		return
	}
	defer k.Close()
	nat, err := cplane.Start("antispoof", os.Getenv("VERIF_BUILD")+"/C18.journal")
	if err != nil {
		t.Fatal(err)
	}
	defer nat.Close()
	e := &env{k: k, nat: nat}
	modes := []antispoof.Mode{antispoof.ModeDisabled, antispoof.ModeStrict, antispoof.ModeLoose, antispoof.ModeLogOnly}
	rangeSets := [][]string{nil, {"10.0.1.0/24"}, {"0.0.0.0/0"}, {"10.0.1.5/32"}, {"10.0.0.0/9", "172.16.0.0/12"}, {"10.0.1.4/30", "192.168.0.0/17"}}
	bindKinds := []string{"absent", "v4", "v6", "v4-then-v6", "v6-then-v4", "v4-removed", "v6-removed", "dual-removed", "v4-rebound-other"}
	scen := 0
	randomExtra := run.Pick(3, 12)
	for rep := 0; rep < randomExtra; rep++ {
		for _, def := range modes {
			for _, bmode := range modes {
				for _, bk := range bindKinds {
					if bk == "absent" && bmode != modes[0] {
						continue // binding mode is irrelevant without a binding
					}
					for ri, rs := range rangeSets {
						if (def != antispoof.ModeLoose && bmode != antispoof.ModeLoose) && ri > 1 {
							continue // ranges only matter in loose mode; keep two range sets elsewhere as noise
						}
						scen++
						rng := run.SubRand("scen", scen)
						e.clearKernel(t)
						mgr, err := antispoof.NewManager(antispoof.ManagerConfig{Interface: "lo", DefaultMode: antispoof.ModeStrict}, zap.NewNop())
						if err != nil {
							t.Fatal(err)
						}
						mgr.VerifSetMaps(k.Coll.Maps["subscriber_bindings"], k.Coll.Maps["antispoof_config"], k.Coll.Maps["antispoof_stats"], k.Coll.Maps["allowed_ranges_v4"])
						mac := net.HardwareAddr{0x02, byte(rng.IntN(256)), byte(rng.IntN(256)), byte(rng.IntN(256)), byte(rng.IntN(256)), byte(rng.IntN(256))}
						b := bindState{desc: bk}
						ip4 := net.IPv4(10, 0, 1, 5).To4()
						if rep > 0 {
							ip4 = net.IP{byte(1 + rng.IntN(222)), byte(rng.IntN(256)), byte(rng.IntN(256)), byte(1 + rng.IntN(254))}
						}
						ip6 := net.ParseIP("2001:db8::5")
						if rep > 0 {
							ip6 = net.IP{0x20, 0x01, 0x0d, 0xb8, byte(rng.IntN(256)), 0, 0, 0, 0, 0, 0, 0, byte(rng.IntN(256)), byte(rng.IntN(256)), byte(rng.IntN(256)), byte(1 + rng.IntN(255))}
						}
						var steps []string
						step := func(s string, err error) {
							steps = append(steps, s)
							if err != nil {
								steps = append(steps, "  -> error: "+err.Error())
							}
						}
						// the binding is written while bmode is the manager's mode
						step("SetMode("+modeName(bmode)+")", mgr.SetMode(bmode))
						switch bk {
						case "v4":
							step("AddBinding(v4)", mgr.AddBinding(mac, ip4))
							b.present, b.mode, b.v4, b.v4ok = true, bmode, ip4, true
						case "v6":
							step("AddBindingV6", mgr.AddBindingV6(mac, ip6))
							b.present, b.mode, b.v6, b.v6ok = true, bmode, ip6, true
						case "v4-then-v6":
							step("AddBinding(v4)", mgr.AddBinding(mac, ip4))
							step("AddBindingV6", mgr.AddBindingV6(mac, ip6))
							b.present, b.mode, b.v4, b.v4ok, b.v6, b.v6ok = true, bmode, ip4, true, ip6, true
						case "v6-then-v4":
							step("AddBindingV6", mgr.AddBindingV6(mac, ip6))
							step("AddBinding(v4)", mgr.AddBinding(mac, ip4))
							b.present, b.mode, b.v4, b.v4ok, b.v6, b.v6ok = true, bmode, ip4, true, ip6, true
						case "v4-removed":
							step("AddBinding(v4)", mgr.AddBinding(mac, ip4))
							step("RemoveBinding", mgr.RemoveBinding(mac))
						case "v6-removed":
							step("AddBindingV6", mgr.AddBindingV6(mac, ip6))
							step("RemoveBinding", mgr.RemoveBinding(mac))
						case "dual-removed":
							step("AddBindingV6", mgr.AddBindingV6(mac, ip6))
							step("AddBinding(v4)", mgr.AddBinding(mac, ip4))
							step("RemoveBinding", mgr.RemoveBinding(mac))
						case "v4-rebound-other":
							step("AddBinding(v4 old)", mgr.AddBinding(mac, net.IPv4(10, 9, 9, 9)))
							step("AddBinding(v4 new)", mgr.AddBinding(mac, ip4))
							b.present, b.mode, b.v4, b.v4ok = true, bmode, ip4, true
						}
						var ranges []netip.Prefix
						for _, r := range rs {
							_, n, _ := net.ParseCIDR(r)
							step("AddAllowedRange("+r+")", mgr.AddAllowedRange(n))
							ranges = append(ranges, netip.MustParsePrefix(r))
						}
						step("SetMode("+modeName(def)+")", mgr.SetMode(def))
						e.syncNative(t)
						cfgDesc := fmt.Sprintf("default=%s binding=%s(bmode=%s) ranges=%v", modeName(def), bk, modeName(bmode), rs)
						for _, p := range mkProbes(rng, mac, b, ranges) {
							fw, judged := want(def, b, ranges, p.etype, p.src, p.full)
							var verdicts [2]int64
							var outs [2][]byte
							for plc := 0; plc < 2; plc++ {
								res, err := nat.Run("antispoof_ingress", p.frame, cplane.RunOpt{Placement: plc})
								if err != nil {
									run.Violation("bpf/antispoof.c", "memory-safety", "sanitizer-or-guard-fault", fmt.Sprintf("native run died on %s frame (len %d, placement %d): %v", p.class, len(p.frame), plc, err), map[string]any{"config": cfgDesc, "steps": steps, "frame": fmt.Sprintf("%x", p.frame)})
									return
								}
								verdicts[plc], outs[plc] = res.Verdict, res.Out
							}
							run.Eval()
							run.Count("frames_"+p.class, 1)
							if verdicts[0] != verdicts[1] {
								run.Inconclusive("placement", fmt.Sprintf("native verdict differs between placements (%d vs %d) for %s", verdicts[0], verdicts[1], p.class))
								continue
							}
							v := verdicts[0]
							if v != tcOK && v != tcShot {
								run.Violation("bpf/antispoof.c", "defined-verdict", "undefined-verdict", fmt.Sprintf("verdict %d for %s under %s", v, p.class, cfgDesc), map[string]any{"steps": steps, "frame": fmt.Sprintf("%x", p.frame)})
								continue
							}
							if !bytes.Equal(outs[0], p.frame) {
								run.Violation("bpf/antispoof.c", "frame-unmodified", "frame-modified", fmt.Sprintf("frame bytes changed for %s", p.class), map[string]any{"steps": steps, "frame": fmt.Sprintf("%x", p.frame), "out": fmt.Sprintf("%x", outs[0])})
							}
							// kernel cross-check (needs >= 14 bytes)
							if len(p.frame) >= 14 {
								kv, _, kerr := k.Run("antispoof_ingress", p.frame)
								if kerr == nil {
									run.Count("kernel_runs", 1)
									if int64(kv) != v {
										run.Inconclusive("fidelity", fmt.Sprintf("kernel verdict %d != native verdict %d for %s under %s", kv, v, p.class, cfgDesc))
										continue
									}
								} else {
									run.Count("kernel_run_errors", 1)
								}
							}
							if v == tcOK {
								run.Count("verdict_forward", 1)
							} else {
								run.Count("verdict_drop", 1)
							}
							if !judged {
								run.Count("unjudged_frames", 1)
								continue
							}
							run.Distinct("config_x_class", cfgDesc+"|"+p.class)
							if p.full && (p.etype == 0x0800 || p.etype == 0x86dd) {
								run.Nontrivial(fmt.Sprintf("%s|%s|%d", cfgDesc, p.class, rep))
							}
							got := v == tcOK
							if got != fw {
								eff := def
								if b.present {
									eff = b.mode
								}
								fam := "v4"
								if p.etype == 0x86dd {
									fam = "v6"
								} else if p.etype != 0x0800 {
									fam = "non-ip"
								}
								dir := "legitimate-source-dropped"
								if got {
									dir = "illegitimate-source-forwarded"
								}
								class := fmt.Sprintf("%s/%s/%s/binding-%s", modeName(eff), fam, dir, bindClass(b))
								run.Violation("antispoof.Manager+bpf/antispoof.c", "decision-matches-property", class,
									fmt.Sprintf("%s: frame %s src=%v: program %s, property says %s", cfgDesc, p.class, p.src, fwd(got), fwd(fw)),
									map[string]any{"config": cfgDesc, "steps": steps, "mac": mac.String(), "bound_v4": fmt.Sprint(b.v4), "bound_v6": fmt.Sprint(b.v6), "frame": fmt.Sprintf("%x", p.frame), "src": fmt.Sprint(p.src)})
							}
						}
						if scen%97 == 1 {
							run.Sample(map[string]any{"config": cfgDesc, "control_plane_steps": steps, "mac": mac.String()})
						}
						run.Count("scenarios", 1)
					}
				}
			}
		}
	}
	run.Extra("exhaustive", false)
}

func bindClass(b bindState) string {
	switch {
	case !b.present:
		return "absent"
	case b.v4ok && b.v6ok:
		return "dual:" + b.desc
	case b.v4ok:
		return "v4"
	default:
		return "v6"
	}
}

func fwd(b bool) string {
	if b {
		return "FORWARD"
	}
	return "DROP"
}

var _ = ebpf.MapSpec{}
