package c18

// More subscribers than the binding table can hold. Whatever the control plane does when the table is full
// (refusing the new binding with an error is fine), a binding it ACCEPTED stays in force: the table of the loaded
// working-tree object keeps its declared type and flags, only its size is shrunk so that "full" is reached with a
// few hundred subscribers. Judged in the kernel (BPF_PROG_TEST_RUN) for every accepted subscriber, oldest ones
// included: a frame from its hardware address with the bound source is forwarded, one with another source is
// dropped (strict mode). Also after a churn phase (remove some, add others) on the full table.

import (
	"fmt"
	"net"
	"testing"

	"github.com/codelaboratoryltd/bng/pkg/antispoof"
	"go.uber.org/zap"

	"verif/harness/internal/cplane"
)

func TestCapacity(t *testing.T) {
	dst := net.HardwareAddr{0x02, 0, 0, 0, 0, 0xfe}
	for _, size := range []uint32{48, 200} {
		k, err := cplane.LoadKernelSized("antispoof", size)
		if err != nil {
			run.Violation("bpf/antispoof.c", "program-loads", "verifier-or-load-error", err.Error(), nil)
			return
		}
		mgr, err := antispoof.NewManager(antispoof.ManagerConfig{Interface: "lo", DefaultMode: antispoof.ModeStrict}, zap.NewNop())
		if err != nil {
			t.Fatal(err)
		}
		mgr.VerifSetMaps(k.Coll.Maps["subscriber_bindings"], k.Coll.Maps["antispoof_config"], k.Coll.Maps["antispoof_stats"], k.Coll.Maps["allowed_ranges_v4"])
		rng := run.SubRand("capacity", int(size))
		type sub struct {
			mac net.HardwareAddr
			ip  net.IP
		}
		var accepted []sub
		refused := 0
		mk := func(i int) sub {
			return sub{net.HardwareAddr{0x02, 0x42, byte(rng.IntN(256)), byte(size), byte(i >> 8), byte(i)}, net.IPv4(10, 42, byte(i>>8), byte(i)).To4()}
		}
		add := func(i int) {
			s := mk(i)
			if err := mgr.AddBinding(s.mac, s.ip); err != nil {
				refused++
				return
			}
			accepted = append(accepted, s)
		}
		judge := func(phase string) bool {
			gone, wrongDrop := 0, 0
			var first sub
			for _, s := range accepted {
				good := cplane.Eth(dst, s.mac, 0x0800, nil, cplane.IPv4(s.ip, net.IPv4(192, 0, 2, 1), 17, 5, cplane.UDP(1000, 2000, []byte("payload"))))
				other := append(net.IP(nil), s.ip...)
				other[3] ^= 0x80
				bad := cplane.Eth(dst, s.mac, 0x0800, nil, cplane.IPv4(other, net.IPv4(192, 0, 2, 1), 17, 5, cplane.UDP(1000, 2000, []byte("payload"))))
				vg, _, e1 := k.Run("antispoof_ingress", good)
				vb, _, e2 := k.Run("antispoof_ingress", bad)
				if e1 != nil || e2 != nil {
					run.Inconclusive("capacity", fmt.Sprint("kernel run failed: ", e1, e2))
					return false
				}
				run.Eval()
				if vb == 0 { // TC_ACT_OK for a spoofed source: the binding is not in force
					gone++
					if first.mac == nil {
						first = s
					}
				}
				if vg != 0 {
					wrongDrop++
					if first.mac == nil {
						first = s
					}
				}
			}
			run.Count("capacity_bindings_judged", len(accepted))
			if gone > 0 || wrongDrop > 0 {
				run.Violation("antispoof.Manager.AddBinding+bpf/antispoof.c", "binding-takes-effect-as-written", "accepted-binding-not-in-force-when-table-is-full/"+phase,
					fmt.Sprintf("binding table of %d entries, %d bindings accepted and %d refused with an error (%s): %d accepted subscribers can send from an address other than their bound one, %d have their own address dropped (first: %v bound to %v)", size, len(accepted), refused, phase, gone, wrongDrop, first.mac, first.ip),
					map[string]any{"table_entries": size, "phase": phase})
				return false
			}
			return true
		}
		n := int(size) * 3
		for i := 0; i < n; i++ {
			add(i)
		}
		run.Count("capacity_bindings_accepted", len(accepted))
		run.Count("capacity_bindings_refused_with_error", refused)
		ok := judge("fill")
		if ok {
			// churn on the full table: remove a third of the accepted subscribers, add new ones into the space
			var keep []sub
			for i, s := range accepted {
				if i%3 == 1 {
					if err := mgr.RemoveBinding(s.mac); err != nil {
						keep = append(keep, s)
					}
					continue
				}
				keep = append(keep, s)
			}
			accepted = keep
			for i := n; i < n+int(size); i++ {
				add(i)
			}
			judge("churn")
		}
		run.Nontrivial(fmt.Sprintf("capacity|%d", size))
		k.Close()
	}
	run.Floor("capacity_bindings_accepted", 100)
	run.Floor("capacity_bindings_refused_with_error", 50)
}
