package c02

import (
	"fmt"
	"runtime"
	"testing"
	"time"
)

// deep: reduced alphabet (2 clients x {DISCOVER, REQUEST selecting, REQUEST renew via ciaddr, RELEASE, DECLINE}
// + A:{REQUEST foreign, REQUEST gateway, DECLINE foreign} + {lease+1ns, cleanup tick} = 15 symbols).
func v4DeepConfigs() []v4cfg {
	return []v4cfg{
		{name: "29-direct-core", cidr: "10.0.0.0/29", gateway: "10.0.0.1", clients: 2, hostile: 1, core: true, transport: []string{"direct"}},
		{name: "30-relay82-core", cidr: "10.0.0.0/30", gateway: "10.0.0.1", clients: 2, hostile: 1, core: true, transport: []string{"relay82", "direct"}},
	}
}

// dr: the decline / release alphabet (2 clients x {DISCOVER, REQUEST selecting, RELEASE, DECLINE} + A:{DECLINE and
// RELEASE naming an address leased / offered to B, DECLINE of a free address, REQUEST init-reboot / selecting /
// renew naming B's address} + pool cycle (DISCOVER+REQUEST, then RELEASE) + cleanup tick = 18 symbols), as deep as core.
func v4DRConfigs() []v4cfg {
	return []v4cfg{
		{name: "29-direct-dr", cidr: "10.0.0.0/29", gateway: "10.0.0.1", clients: 2, hostile: 1, focus: "dr", transport: []string{"direct"}},
	}
}

// long: the core alphabet plus a step of three cleanup ticks, on a pool whose lease time (1 h) is much longer than
// the time an offer is held (minutes), so that cleanup ticks pass and offers lapse while leases stay valid; the
// second client has a 7-octet (AX.25) hardware address.
func v4LongConfigs() []v4cfg {
	return []v4cfg{
		{name: "30-long-core", cidr: "10.0.0.0/30", gateway: "10.0.0.1", clients: 2, hostile: 1, core: true, transport: []string{"direct"}, lease: time.Hour, hlens: []int{6, 7}},
		{name: "29-long-relay82-core", cidr: "10.0.0.0/29", gateway: "10.0.0.1", clients: 2, hostile: 1, core: true, transport: []string{"relay82", "direct"}, lease: time.Hour, hlens: []int{16, 6}},
	}
}

// wide: the full alphabet (35 symbols for 2 clients), shallower.
func v4WideConfigs() []v4cfg {
	return []v4cfg{
		{name: "29-relay82-wide", cidr: "10.0.0.0/29", gateway: "10.0.0.1", clients: 2, hostile: 1, transport: []string{"relay82"}},
		{name: "29-relay-wide", cidr: "10.0.0.0/29", gateway: "10.0.0.1", clients: 2, hostile: 1, transport: []string{"relay", "relay82"}},
	}
}

func v4WalkConfigs() []v4cfg {
	return []v4cfg{
		{name: "w29-4mix", cidr: "10.0.0.0/29", gateway: "10.0.0.1", clients: 4, fine: true, hostile: 2, transport: []string{"mix"}},
		{name: "w28-4mix", cidr: "10.0.0.0/28", gateway: "10.0.0.1", clients: 4, fine: true, hostile: 1, transport: []string{"mix"}},
		{name: "w30-3mix", cidr: "10.0.0.0/30", gateway: "10.0.0.1", clients: 3, fine: true, hostile: 1, transport: []string{"mix"}},
		{name: "w29-gwmid", cidr: "10.0.0.8/29", gateway: "10.0.0.11", clients: 4, fine: true, hostile: 1, transport: []string{"direct", "relay82", "relay", "mix"}},
		// lease times much longer than the offer hold, clients with 6-, 7-, 16- and 3-octet hardware addresses
		{name: "w29-long-4mix", cidr: "10.0.0.0/29", gateway: "10.0.0.1", clients: 4, fine: true, hostile: 1, transport: []string{"mix"}, lease: time.Hour, hlens: []int{6, 7, 16, 3}},
		{name: "w30-long-3", cidr: "10.0.0.0/30", gateway: "10.0.0.1", clients: 3, fine: true, hostile: 1, transport: []string{"direct", "relay82", "relay"}, lease: 20 * time.Minute, hlens: []int{7, 6, 8}},
	}
}

func TestV4Exhaustive(t *testing.T) {
	deep, wide := run.Pick(5, 6), run.Pick(3, 4)
	capLvl := run.Pick(1500, 6000)
	for _, cfg := range v4DeepConfigs() {
		t0 := time.Now()
		st := bfs(t, v4factory(cfg), deep, capLvl)
		t.Logf("bfs %s took %v executed=%d", cfg.name, time.Since(t0), st.executed)
		run.Extra("bfs_v4_"+cfg.name, fmt.Sprintf("depth=%d executed=%d applicable=%d distinct_states=%d", deep, st.executed, st.applicable, st.states))
	}
	for _, cfg := range v4DRConfigs() {
		t0 := time.Now()
		st := bfs(t, v4factory(cfg), deep, capLvl)
		t.Logf("bfs %s took %v executed=%d", cfg.name, time.Since(t0), st.executed)
		run.Extra("bfs_v4_"+cfg.name, fmt.Sprintf("depth=%d executed=%d applicable=%d distinct_states=%d", deep, st.executed, st.applicable, st.states))
	}
	for _, cfg := range v4LongConfigs() {
		t0 := time.Now()
		st := bfs(t, v4factory(cfg), deep, capLvl)
		t.Logf("bfs %s took %v executed=%d", cfg.name, time.Since(t0), st.executed)
		run.Extra("bfs_v4_"+cfg.name, fmt.Sprintf("depth=%d executed=%d applicable=%d distinct_states=%d", deep, st.executed, st.applicable, st.states))
	}
	for _, cfg := range v4WideConfigs() {
		t0 := time.Now()
		st := bfs(t, v4factory(cfg), wide, capLvl)
		t.Logf("bfs %s took %v executed=%d", cfg.name, time.Since(t0), st.executed)
		run.Extra("bfs_v4_"+cfg.name, fmt.Sprintf("depth=%d executed=%d applicable=%d distinct_states=%d", wide, st.executed, st.applicable, st.states))
	}
	run.Extra("bfs_depth_core_alphabet", deep)
	run.Extra("bfs_depth_full_alphabet", wide)
}

func TestV4RandomWalks(t *testing.T) {
	n := run.Pick(100, 2500)
	for _, cfg := range v4WalkConfigs() {
		walks(t, v4factory(cfg), "walk", n, 30, 200)
	}
}

// deep: 2 clients x {SOLICIT, SOLICIT+rapid-commit, REQUEST, RENEW, RELEASE, DECLINE} + A:{DECLINE naming B's address}
// + {valid/2, valid+1ns} = 15 symbols (12 for the prefix-only pool: a Decline names addresses only).
func v6DeepConfigs() []v6cfg {
	return []v6cfg{
		{name: "na126-core", addrPool: "2001:db8:1::/126", mode: "na", clients: 2, hostile: 1, core: true},
		{name: "pd4-core", pdPool: "2001:db8:100::/46", pdLen: 48, mode: "pd", clients: 2, hostile: 1, core: true},
	}
}

// wide: adds REBIND, CONFIRM, REQUEST with a wrong server-id, RENEW naming the other client's value; IA_NA and IA_PD together
// (without the decline / release / pool-cycling symbols, which dr and full carry).
func v6WideConfigs() []v6cfg {
	return []v6cfg{
		{name: "both-wide", addrPool: "2001:db8:1::/126", pdPool: "2001:db8:100::/47", pdLen: 48, mode: "both", clients: 2, hostile: 1, legacy: true},
	}
}

// dr: 2 clients x {SOLICIT, REQUEST, RELEASE, DECLINE} + A:{DECLINE naming an address leased / advertised to B or free, RELEASE
// naming B's leased / advertised values or the own values under unknown IAIDs, REQUEST naming B's values} + pool cycles
// {SOLICIT+REQUEST, rapid commit} + valid+1ns = 18 symbols, as deep as wide; full: every symbol (wide + dr + DECLINE / RELEASE
// naming free and out-of-pool values or unknown IAIDs), one level less.
func v6DRConfigs() []v6cfg {
	return []v6cfg{
		{name: "both-dr", addrPool: "2001:db8:1::/126", pdPool: "2001:db8:100::/47", pdLen: 48, mode: "both", clients: 2, hostile: 1, focus: "dr"},
	}
}

func v6FullConfigs() []v6cfg {
	return []v6cfg{
		{name: "both-full", addrPool: "2001:db8:1::/126", pdPool: "2001:db8:100::/47", pdLen: 48, mode: "both", clients: 2, hostile: 1},
	}
}

func v6WalkConfigs() []v6cfg {
	return []v6cfg{
		{name: "w-both-4", addrPool: "2001:db8:1::/125", pdPool: "2001:db8:100::/45", pdLen: 48, mode: "both", clients: 4, hostile: 2},
		{name: "w-na126-3", addrPool: "2001:db8:1::/126", mode: "na", clients: 3, hostile: 1},
		{name: "w-pd56-4", pdPool: "2001:db8:8000::/54", pdLen: 56, mode: "pd", clients: 4, hostile: 1},
	}
}

func needSocks(t *testing.T) {
	if err := makeSocks(runtime.NumCPU() + 2); err != nil {
		run.Inconclusive("v6-sockets", err.Error())
		t.Skip(err)
	}
}

func TestV6Exhaustive(t *testing.T) {
	needSocks(t)
	deep, wide := run.Pick(5, 6), run.Pick(3, 4)
	capLvl := run.Pick(1500, 6000)
	for _, cfg := range v6DeepConfigs() {
		t0 := time.Now()
		st := bfs(t, v6factory(cfg), deep, capLvl)
		t.Logf("bfs %s took %v executed=%d", cfg.name, time.Since(t0), st.executed)
		run.Extra("bfs_v6_"+cfg.name, fmt.Sprintf("depth=%d executed=%d applicable=%d distinct_states=%d", deep, st.executed, st.applicable, st.states))
	}
	for _, cfgs := range [][]v6cfg{v6WideConfigs(), v6DRConfigs()} {
		for _, cfg := range cfgs {
			t0 := time.Now()
			st := bfs(t, v6factory(cfg), wide+1, capLvl) // the DHCPv6 state space is smaller: one level deeper
			t.Logf("bfs %s took %v executed=%d", cfg.name, time.Since(t0), st.executed)
			run.Extra("bfs_v6_"+cfg.name, fmt.Sprintf("depth=%d executed=%d applicable=%d distinct_states=%d", wide+1, st.executed, st.applicable, st.states))
		}
	}
	for _, cfg := range v6FullConfigs() {
		t0 := time.Now()
		st := bfs(t, v6factory(cfg), wide, capLvl)
		t.Logf("bfs %s took %v executed=%d", cfg.name, time.Since(t0), st.executed)
		run.Extra("bfs_v6_"+cfg.name, fmt.Sprintf("depth=%d executed=%d applicable=%d distinct_states=%d", wide, st.executed, st.applicable, st.states))
	}
}

func TestV6RandomWalks(t *testing.T) {
	needSocks(t)
	n := run.Pick(100, 2500)
	for _, cfg := range v6WalkConfigs() {
		walks(t, v6factory(cfg), "walk", n, 30, 200)
	}
}
