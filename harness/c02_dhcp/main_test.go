// Package c02 is the runtime monitor for property C02: the DHCPv4 and DHCPv6
// servers never bind one address / delegated prefix to two clients.
//
// The real handlers (dhcp.(*Server).handleDHCP, dhcpv6.(*Server).handleMessage)
// are driven through verif-tagged wrappers; every reply written to the packet
// connection is decoded with the insomniacslk/dhcp library (independent of the
// code under test) and fed to a reference binding table. All histories run in
// testing/synctest bubbles (virtual time).
package c02

import (
	"os"
	"testing"

	"verif/harness/internal/vk"
)

var run *vk.Run

var anchored = []string{"pkg/dhcp/server.go", "pkg/dhcp/pool.go", "pkg/dhcpv6/server.go", "pkg/dhcpv6/protocol.go"}

func TestMain(m *testing.M) {
	run = vk.Start("C02", "exploration")
	run.Rule("message histories from k<=4 clients against the real DHCPv4 / DHCPv6 handlers on tiny pools (v4 /30 /29 /28, v6 /126 /125 and 4-8 delegated prefixes), interleaved with virtual-time steps {lease/2, lease+1ns, 61 s cleanup tick}: breadth-first exhaustive over the alphabet (every client action incl. REQUEST for a foreign / gateway / network / broadcast / out-of-pool / never-offered address, RELEASE and DECLINE of own and foreign addresses, wrong server-id) with pruning on the fingerprint (lease table + circuit-id index + pool snapshot + reference table + client memory + time offsets), seeded random walks beyond, every history ended by a 61 s step and a drain of the pool with fresh clients; v4 handlers additionally run from 4-8 goroutines under -race. A case = one distinct history (one new step after a known state, plus the drain). non-trivial = distinct history containing a REQUEST/RENEW whose address was at that moment bound or offered to a different client, or a request for an own binding after its expiry, or (concurrent part) a run in which an address changed owner")
	run.Assume("client identity is the MAC (v4) / DUID (v6); a circuit-id identifies exactly one client (two MACs never share an option-82 circuit-id)")
	run.Assume("local-pool mode: no Nexus client, HTTP allocator, RADIUS, QoS or NAT manager is attached; the DHCPv6 server uses its legacy AddressPool / PrefixPool")
	run.Assume("a binding is fed to the reference table only by an observed ACK / Reply carrying the value; its expiry is the reply's own lease time / valid lifetime; an OFFER / Advertise counts as outstanding until ACK, NAK, RELEASE, DECLINE or one lease time")
	run.Assume("expiry is judged at the handlers and the v4 cleanup loop (run for real on the virtual clock); a reclaim mechanism that lived only in goroutines started by Start() of the DHCPv6 server would not be observed (none exists)")
	run.Assume("DHCPv6 handlers are driven sequentially (receiveLoop is single-threaded); only DHCPv4 handlers are called concurrently (server4 dispatches one goroutine per packet)")
	if childMode() {
		// the concurrent parts run in a child process (a crash of the code under test must not take the
		// verdict with it); the child only reports to its parent
		code := m.Run()
		writeChildReport()
		os.Exit(code)
	}
	code := m.Run()
	run.JudgeRaces(anchored)
	ec := run.Finish()
	if code != 0 && ec == 0 {
		ec = 2
	}
	os.Exit(ec)
}
