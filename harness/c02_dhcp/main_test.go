// Package c02 is the runtime monitor for property C02: the DHCPv4 and DHCPv6
// servers never bind one address / delegated prefix to two clients.
//
// The real handlers (dhcp.(*Server).handleDHCP, dhcpv6.(*Server).handleMessage)
// are driven through verif-tagged wrappers; every reply written to the packet
// connection is decoded with the insomniacslk/dhcp library (independent of the
// code under test) and fed to a reference binding table. All histories run in
// testing/synctest bubbles (virtual time).
package c02

import (
	"os"
	"testing"

	"verif/harness/internal/vk"
)

var run *vk.Run

var anchored = []string{"pkg/dhcp/server.go", "pkg/dhcp/pool.go", "pkg/dhcpv6/server.go", "pkg/dhcpv6/protocol.go"}

func TestMain(m *testing.M) {
	run = vk.Start("C02", "exploration")
	run.Rule("message histories from k<=4 clients against the real DHCPv4 / DHCPv6 handlers on tiny pools (v4 /30 /29 /28, v6 /126 /125 and 2-8 delegated prefixes), interleaved with virtual-time steps {lease/2, lease+1ns, 61 s cleanup tick; 59 s and 1 s in scenarios and walks}: (1) directed minimal scenarios, (2) breadth-first exhaustive exploration - a 14-symbol core alphabet (2 clients x {DISCOVER/SOLICIT, REQUEST, renew, RELEASE, DECLINE, rapid-commit} + hostile REQUEST for a foreign address / the gateway + time) to depth 5 (quick) / 6 (thorough) and the full alphabet (also REQUEST for network / broadcast / out-of-pool / never-offered addresses, init-reboot, DECLINE and RELEASE of foreign addresses, INFORM, REBIND, CONFIRM, wrong server-id, RENEW naming a foreign value) to depth 3 / 4, a history being extended only if its end state (fingerprint: lease table + circuit-id index + pool snapshot + reference table + client memory + time offsets) is new, (3) seeded random walks of 30-200 steps with 3-4 clients and per-message transport {direct, relayed, relayed+option 82}; every history ends with a 61 s step and a drain of the pool by fresh clients (once per distinct end state); (4) the v4 handlers called from 4-8 goroutines together with the expiry sweep under -race, and late renewals racing the sweep over 800 lapsed leases (child process, so that a crash is a verdict). A case = one distinct history. non-trivial = distinct history containing a REQUEST/RENEW whose address was at that moment bound or offered to a different client, or a request for an own binding after its expiry / release; concurrent part: a run in which an address changed owner or both orders of sweep and renewal occurred")
	run.Assume("client identity is the MAC (v4) / DUID (v6); a circuit-id identifies exactly one client (two MACs never share an option-82 circuit-id)")
	run.Assume("local-pool mode: no Nexus client, HTTP allocator, RADIUS, QoS or NAT manager is attached; the DHCPv6 server uses its legacy AddressPool / PrefixPool (not the integrated allocator)")
	run.Assume("a binding enters the reference table only through an observed ACK / Reply carrying the value; its expiry is the reply's own lease time / valid lifetime (unexpired = now < expiry); replies are decoded with the insomniacslk/dhcp library, not with the code under test")
	run.Assume("an OFFER / Advertise counts as outstanding until ACK, NAK, RELEASE, DECLINE or one lease time (DESIGN 5b); an offer of the address the client is bound to at that moment adds nothing to that binding (an OFFER does not extend a lease); the property does not bound how long a server may keep an offered address reserved, so a value that was re-offered to its former holder after the binding lapsed creates no 'available again' obligation")
	run.Assume("'available again' is judged by draining the pool with fresh clients after expiry + one cleanup tick (v4: the real cleanup loop runs on the virtual clock; v6: any reclaim reachable from the message handlers; a reclaim that lived only in goroutines started by Start() would not be observed - none exists)")
	run.Assume("a DECLINE quarantines the value only if the decliner held it or was offered it (DESIGN 5b); a DHCPv6 Decline names addresses only, a delegated prefix of the same client stays bound")
	run.Assume("after the first violation on a value the remaining clauses are not judged on that value in that history; all other values keep being judged")
	run.Assume("DHCPv6 handlers are driven sequentially (receiveLoop is single-threaded); only DHCPv4 handlers are called concurrently (server4 dispatches one goroutine per packet)")
	if childMode() {
		// the concurrent parts run in a child process (a crash of the code under test must not take the
		// verdict with it); the child only reports to its parent
		code := m.Run()
		writeChildReport()
		os.Exit(code)
	}
	code := m.Run()
	run.JudgeRaces(anchored)
	ec := run.Finish()
	if code != 0 && ec == 0 {
		ec = 2
	}
	os.Exit(ec)
}
