// Package c02 is the runtime monitor for property C02: the DHCPv4 and DHCPv6
// servers never bind one address / delegated prefix to two clients.
//
// The real handlers (dhcp.(*Server).handleDHCP, dhcpv6.(*Server).handleMessage)
// are driven through verif-tagged wrappers; every reply written to the packet
// connection is decoded with the insomniacslk/dhcp library (independent of the
// code under test) and fed to a reference binding table. All histories run in
// testing/synctest bubbles (virtual time).
package c02

import (
	"os"
	"testing"

	"verif/harness/internal/vk"
)

var run *vk.Run

var anchored = []string{"pkg/dhcp/server.go", "pkg/dhcp/pool.go", "pkg/dhcpv6/server.go", "pkg/dhcpv6/protocol.go"}

func TestMain(m *testing.M) {
	run = vk.Start("C02", "exploration")
	run.Rule("message histories from k<=4 clients against the real DHCPv4 / DHCPv6 handlers on tiny pools (v4 /30 /29 /28, v6 /126 /125 and 2-8 delegated prefixes), interleaved with virtual-time steps {lease/2, lease+1ns, 61 s cleanup tick; 59 s and 1 s in scenarios and walks}: (1) directed minimal scenarios, (2) breadth-first exhaustive exploration - a 15-symbol core alphabet (2 clients x {DISCOVER/SOLICIT, REQUEST, renew, RELEASE, DECLINE, rapid-commit} + hostile REQUEST for a foreign address / the gateway, DECLINE naming the other client's address + time) and an 18-symbol DHCPv4 / DHCPv6 decline/release alphabet (DECLINE and RELEASE of the own value and naming an address leased to / offered but not acknowledged to the other client, DECLINE of a free address, REQUEST init-reboot / selecting / renew naming the other client's address, pool cycling, one time step) to depth 5 / 6 (DHCPv4) and 4 / 5 (DHCPv6), the core alphabet to depth 5 (quick) / 6 (thorough) and the full alphabet (also REQUEST for network / broadcast / out-of-pool / never-offered addresses, init-reboot, DECLINE and RELEASE naming free and out-of-pool values and, in DHCPv6, own values under unknown IAIDs, INFORM, REBIND, CONFIRM, wrong server-id, RENEW / REQUEST naming a foreign value) to depth 3 / 4; a pool-cycling step = k fresh clients DISCOVER (and REQUEST) / SOLICIT+REQUEST / SOLICIT+rapid-commit until the server has nothing left to hand out (k <= pool size + 1, so every free-list position is visited; pools have 2-14 usable values) and then RELEASE what they got, a history being extended only if its end state (fingerprint: lease table + circuit-id index + pool snapshot + reference table + client memory + time offsets) is new, (3) seeded random walks of 30-200 steps with 3-4 clients and per-message transport {direct, relayed, relayed+option 82}; DHCPv4 lease times are 2 min and, in the long-lease configurations (exhaustive core alphabet plus a step of three cleanup ticks, walks, scenarios), 20 min and 1 h - much longer than an offer is held - so that cleanup ticks pass and unrequested offers lapse while leases stay valid (a lease holder that sends DISCOVER again and then stays silent; an OFFER nobody follows up); DHCPv4 clients have hardware addresses of 6 (Ethernet), 7, 16, 8 and 3 octets (named clients in the long-lease configurations, fresh clients everywhere); every history ends with a 61 s step and a drain of the pool by fresh clients (once per distinct end state); (4) the v4 handlers called from 4-8 goroutines together with the expiry sweep under -race, and late renewals racing the sweep over 800 lapsed leases (child process, so that a crash is a verdict); (5) pool geometries: DHCPv4 pools /30 ... /22 x gateway {first, last, middle, just above / far above host number 255} x reserved ranges {none, head and tail, a window around the gateway} and DHCPv6 address pools /64 ... /126 and prefix pools with delegation lengths below, at, across and above /64 (/48->/56 ... /64->/72, /120->/124, /126->/128; bases with non-zero low bits), plus seeded random geometries; per geometry direct probes (REQUEST init-reboot / selecting / renew, DECLINE, RELEASE; DHCPv6 REQUEST, RENEW, REBIND, CONFIRM, DECLINE, RELEASE) naming the gateway, network, broadcast, reserved addresses and the addresses / prefixes just outside the pool, from a client the server never saw and from a lease holder, then fresh clients walking the free list - completely when the pool has <= 254 (v4) / <= 256 (v6) values or in the thorough tier, otherwise at least 8 clients beyond the number of usable addresses below the gateway (v4) / 300 clients (v6) - then, after a complete walk (quick tier: of a pool with <= 126 (v4) / <= 256 (v6) values), release of one half, expiry of the other and a second complete walk. A case = one distinct history. non-trivial = distinct history containing a REQUEST/RENEW whose address was at that moment bound or offered to a different client, or a request for an own binding after its expiry / release; concurrent part: a run in which an address changed owner or both orders of sweep and renewal occurred; geometry part: a geometry whose probes were sent and whose walk went beyond the gateway's slot or exhausted the pool (v4) / bound at least two fresh clients (v6)")
	run.Assume("PoolConfig.ReservedStart / ReservedEnd = N excludes the first / last N host numbers from the serving pool (the field's own documentation): a reserved address handed out is judged as outside the serving pool (class 'reserved'); the base address of a DHCPv6 address pool is its network (subnet-router anycast) address; a delegated prefix must have the configured delegation length, no host bits and lie inside the prefix pool, and prefixes held by different clients at the same moment must not overlap")
	run.Assume("client identity is the MAC (v4) / DUID (v6); a circuit-id identifies exactly one client (two MACs never share an option-82 circuit-id)")
	run.Assume("local-pool mode: no Nexus client, HTTP allocator, RADIUS, QoS or NAT manager is attached; the DHCPv6 server uses its legacy AddressPool / PrefixPool (not the integrated allocator)")
	run.Assume("a binding enters the reference table only through an observed ACK / Reply carrying the value; its expiry is the reply's own lease time / valid lifetime (unexpired = now < expiry); replies are decoded with the insomniacslk/dhcp library, not with the code under test")
	run.Assume("an OFFER / Advertise counts as outstanding (nobody else may be acknowledged the value) until ACK, NAK, RELEASE, DECLINE or one lease time (DESIGN 5b) - in DHCPv4 at most 2 min, the hold time the server documents, so that with lease times of hours a server that reclaims unrequested offers after minutes is not flagged; an offer of the address the client is bound to at that moment adds nothing to that binding (an OFFER does not extend a lease); a value that was re-offered to its former holder after the binding lapsed is in the offered state and creates no 'expired' obligation")
	run.Assume("DHCPv4: an OFFER its client never follows up (no REQUEST, RELEASE, DECLINE, no further DISCOVER) must lapse ('a released or expired one becomes available again'): one full lease time after the OFFER - the longest an offer could reasonably be honoured - plus one cleanup tick, the address must be obtainable by a fresh client when the pool is drained, unless it was handed out to somebody else since (the reservation had then ended), somebody is entitled to it, or it was named in a DECLINE; between the 2 min window and the lease time nothing is required. Not judged for DHCPv6 Advertise")
	run.Assume("'available again' is judged by draining the pool with fresh clients after expiry + one cleanup tick (v4: the real cleanup loop runs on the virtual clock; v6: any reclaim reachable from the message handlers; a reclaim that lived only in goroutines started by Start() would not be observed - none exists)")
	run.Assume("a DECLINE quarantines the value only if the decliner held it or was offered it (DESIGN 5b); a DHCPv6 Decline names addresses only, a delegated prefix of the same client stays bound")
	run.Assume("the value named in a DECLINE / RELEASE / REQUEST is classified (own-leased, own-offered, leased-to-other, offered-to-other, free, declined, outside-pool ...) from the reference table only; a DECLINE or RELEASE that does not name the sender's own value (or names it under an IAID the server never gave it) creates no obligation and the server may keep or end the sender's own binding: which it did is read from its lease table right after the message (kept = the binding goes on and keeps being judged, ended = nothing further is required); an OFFER / Advertise of a value on which another client holds an unexpired acknowledged binding is a violation (offer-unique), an OFFER of a value that is merely offered to another client is not (a server need not reserve what it offers; judged when one of them is acknowledged)")
	run.Assume("after the first violation on a value the remaining clauses are not judged on that value in that history; all other values keep being judged")
	run.Assume("every DHCPv6 SOLICIT / REQUEST / RENEW / REBIND carries one IA per configured kind (IA_NA and IA_PD in 'both' mode), so a Reply renews all of a client's values together; only RELEASE and DECLINE are also sent with a single IA")
	run.Assume("DHCPv6 handlers are driven sequentially (receiveLoop is single-threaded); only DHCPv4 handlers are called concurrently (server4 dispatches one goroutine per packet)")
	if childMode() {
		// the concurrent parts run in a child process (a crash of the code under test must not take the
		// verdict with it); the child only reports to its parent
		code := m.Run()
		writeChildReport()
		os.Exit(code)
	}
	setFloors()
	code := m.Run()
	run.JudgeRaces(anchored)
	// distinct observation sets that have a floor are mirrored into counters (floors are defined on counters)
	run.Count("distinct_message_classes", run.DistinctCount("message_classes"))
	run.Count("distinct_cycle_episodes", run.DistinctCount("cycle_episodes"))
	ec := run.Finish()
	if code != 0 && ec == 0 {
		ec = 2
	}
	os.Exit(ec)
}

// setFloors: the run is inconclusive unless every class of client message the property quantifies over
// (what a DECLINE / RELEASE / REQUEST names, by protocol) and complete cycles of the free list after
// such messages were actually observed. The numbers are well below what the quick tier observes at
// any seed (the exhaustive part does not depend on the seed).
func setFloors() {
	for _, c := range []string{"own-leased", "own-offered", "leased-to-other", "offered-to-other", "free", "outside-pool"} {
		run.Floor("v4_DECLINE_names_"+c, 80)
	}
	for _, c := range []string{"own-leased", "leased-to-other", "offered-to-other", "free", "outside-pool"} {
		run.Floor("v4_RELEASE_names_"+c, 80)
	}
	for _, mode := range []string{"init-reboot", "selecting", "renew"} {
		run.Floor("v4_REQUEST-"+mode+"_names_leased-to-other", 80)
		run.Floor("v4_REQUEST-"+mode+"_names_offered-to-other", 60)
	}
	for _, msg := range []string{"DECLINE", "RELEASE"} {
		run.Floor("v6_"+msg+"_names_own-leased", 150)
		run.Floor("v6_"+msg+"_names_leased-to-other", 60)
		run.Floor("v6_"+msg+"_names_offered-to-other", 20)
		run.Floor("v6_"+msg+"_names_free", 150)
		run.Floor("v6_"+msg+"_names_outside-pool", 50)
		run.Floor("v6_"+msg+"_names_unknown-iaid-own-leased", 15)
	}
	run.Floor("v6_REQUEST_names_leased-to-other", 150)
	run.Floor("v6_RENEW_names_leased-to-other", 100)
	run.Floor("free_list_full_cycles", 2000)
	run.Floor("free_list_full_cycles_discover", 60)
	run.Floor("free_list_full_cycles_discover-request", 150)
	run.Floor("free_list_full_cycles_solicit-request", 150)
	run.Floor("free_list_full_cycles_rapid-commit", 80)
	run.Floor("free_list_full_cycles_drain", 1500)
	run.Floor("free_list_fully_cycled_after_decline_or_release", 1500)
	for k, n := range map[string]int64{
		"DECLINE:own-leased": 200, "DECLINE:own-offered": 200, "DECLINE:leased-to-other": 50, "DECLINE:offered-to-other": 30, "DECLINE:free": 200, "DECLINE:outside-pool": 40,
		"RELEASE:own-leased": 800, "RELEASE:leased-to-other": 100, "RELEASE:offered-to-other": 60, "RELEASE:free": 150, "RELEASE:outside-pool": 50,
		"REQUEST-init-reboot:leased-to-other": 60, "REQUEST-selecting:leased-to-other": 25, "REQUEST-renew:leased-to-other": 25, "REQUEST:leased-to-other": 50,
	} {
		run.Floor("cycled_after_"+k, n)
	}
	run.Floor("available_again_released_value_handed_out_again", 2000)
	// pool geometries: every class of the grid was built, probed and walked (counts of the quick tier, which do not depend on the seed)
	run.Floor("geom_v4_geometries", 90)
	run.Floor("geom_v4_gateway_host_number_above_255", 15)
	run.Floor("geom_v4_probes_naming_gateway_with_host_number_above_255", 75)
	run.Floor("geom_v4_walks_across_gateway_slot_above_255", 15)
	run.Floor("geom_v4_exhaustive_walks_with_gateway_above_255", 6)
	run.Floor("geom_v4_walks_reaching_exhaustion", 60)
	run.Floor("geom_v4_second_walks_after_release_and_expiry", 40)
	run.Floor("geom_v4_walk_clients", 5000)
	for _, k := range []string{"REQUEST-init-reboot", "REQUEST-selecting", "REQUEST-renew", "DECLINE", "RELEASE"} {
		for _, c := range []string{"gateway", "network", "broadcast", "outside-pool", "reserved"} {
			run.Floor("geom_v4_probe_"+k+"_names_"+c+"_by_unknown_client", 40)
			run.Floor("geom_v4_probe_"+k+"_names_"+c+"_by_lease_holder", 30)
		}
	}
	for _, r := range []string{"none", "head-tail", "window"} {
		run.Floor("geom_v4_reserved_"+r, 20)
	}
	run.Floor("geom_v6_geometries", 30)
	run.Floor("geom_v6_address_pools_longer_than_64", 5)
	run.Floor("geom_v6_probes_by_unknown_client", 500)
	run.Floor("geom_v6_probes_by_lease_holder", 450)
	for _, side := range []string{"at_or_below_64", "across_64", "above_64"} {
		run.Floor("geom_v6_delegation_"+side, 3)
		run.Floor("geom_v6_walks_with_two_or_more_delegations_"+side, 3)
	}
	run.Floor("geom_v6_walk_clients", 1500)
	run.Floor("geom_v6_delegated_prefixes_compared_pairwise", 800)
	run.Floor("geom_v6_walks_reaching_exhaustion", 12)
	run.Floor("geom_v6_second_walks_after_release_and_expiry", 12)
	// lease times much longer than the offer hold: cleanup ticks passed under valid leases, lease holders re-DISCOVERed and
	// stayed silent beyond the offer window; unrequested offers lapsed (also of clients with non-Ethernet hardware addresses)
	// and the values were handed out again
	run.Floor("v4_cleanup_ticks_under_unexpired_lease_longer_than_offer_window", 2000)
	run.Floor("v4_lease_holder_discover_never_requested_older_than_offer_window_lease_still_valid", 40)
	run.Floor("v4_lease_holder_discover_never_requested_older_than_offer_window_non_ethernet", 20)
	run.Floor("offers_abandoned_until_lapse", 500)
	run.Floor("v4_offers_abandoned_until_lapse_non_ethernet_hwaddr", 100)
	run.Floor("available_again_offer-lapsed_value_handed_out_again", 400)
	run.Floor("v4_msg_non_ethernet_hwaddr", 20000)
	run.Floor("distinct_message_classes", 60)
	run.Floor("distinct_cycle_episodes", 300)
}
