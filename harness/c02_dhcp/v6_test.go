package c02

import (
	"fmt"
	"math/rand/v2"
	"net"
	"net/netip"
	"os"
	"sort"
	"strings"
	"sync"
	"syscall"
	"testing/synctest"
	"time"

	bng6 "github.com/codelaboratoryltd/bng/pkg/dhcpv6"
	d6 "github.com/insomniacslk/dhcp/dhcpv6"
	"github.com/insomniacslk/dhcp/iana"
	"go.uber.org/zap"
)

const (
	v6Valid     = 120 // seconds
	v6Preferred = 60
	// v6Enumerable: of a pool with more values than this the harness lists only the first ones (as targets of the
	// "free value" symbols and as the bound of a walk); the oracle never reads the list
	v6Enumerable = 4096
)

// ---- loopback socket pairs (created outside bubbles) ------------------------

// sockPair: the server's reply socket and the socket the replies arrive on. The DHCPv6 server
// always answers to <source address>:546, so every pair owns one 127.x.y.z address with port 546.
type sockPair struct {
	srv  *net.UDPConn
	rcv  *net.UDPConn
	addr *net.UDPAddr // the "client" source address handed to handleMessage
}

var (
	sockMu   sync.Mutex
	sockFree []*sockPair
	sockNext int
)

func getSock() *sockPair {
	sockMu.Lock()
	defer sockMu.Unlock()
	if n := len(sockFree); n > 0 {
		p := sockFree[n-1]
		sockFree = sockFree[:n-1]
		return p
	}
	return nil
}

func putSock(p *sockPair) {
	sockMu.Lock()
	sockFree = append(sockFree, p)
	sockMu.Unlock()
}

// makeSocks opens n pairs; must be called outside any bubble.
func makeSocks(n int) error {
	pid := os.Getpid()
	for made, tries := 0, 0; made < n; tries++ {
		if tries > 4000 {
			return fmt.Errorf("cannot bind %d loopback sockets on port 546", n)
		}
		sockNext++
		x := pid*131 + sockNext
		ip := net.IPv4(127, byte(2+x%250), byte((x/250)%250+1), byte((x/62500)%250+1))
		rcv, err := net.ListenUDP("udp4", &net.UDPAddr{IP: ip, Port: bng6.DHCPv6ClientPort})
		if err != nil {
			continue // address in use by another run
		}
		srv, err := net.ListenUDP("udp4", &net.UDPAddr{IP: net.IPv4(127, 0, 0, 1), Port: 0})
		if err != nil {
			rcv.Close()
			return err
		}
		putSock(&sockPair{srv: srv, rcv: rcv, addr: &net.UDPAddr{IP: ip, Port: bng6.DHCPv6ClientPort}})
		made++
	}
	return nil
}

// recvNow reads every datagram queued on the receive socket without blocking
// (loopback delivery is synchronous: a reply is queued before WriteToUDP returns).
func (p *sockPair) recvNow() [][]byte {
	var out [][]byte
	rc, err := p.rcv.SyscallConn()
	if err != nil {
		return nil
	}
	buf := make([]byte, 4096)
	rc.Read(func(fd uintptr) bool {
		for {
			n, _, err := syscall.Recvfrom(int(fd), buf, syscall.MSG_DONTWAIT)
			if err != nil || n <= 0 {
				return true
			}
			out = append(out, append([]byte(nil), buf[:n]...))
		}
	})
	return out
}

// ---- world ------------------------------------------------------------------

type v6cfg struct {
	name       string
	addrPool   string // CIDR ("" = none)
	pdPool     string
	pdLen      uint8
	mode       string // na | pd | both
	clients    int
	hostile    int
	core       bool
	focus      string // "dr": the decline / release / hostile-request / pool-cycling alphabet
	legacy     bool   // without the symbols naming foreign / free / out-of-pool values and without pool cycling
	walkCap    int    // > 0: how many fresh clients a pool cycle / the final drain may use (default 40: the tiny pools)
	stateEvery int    // > 1: the lease table / pool comparison runs on every stateEvery-th message only (large pools)
}

type v6client struct {
	name     string
	duid     d6.DUID
	key      string // raw client-id bytes (the server's map key)
	lastAddr net.IP
	lastPfx  *net.IPNet
	xid      uint32
}

// v6over replaces what a message names in its IAs (hostile symbols): an address / prefix that is not the
// client's own, and / or IAIDs the client never used.
type v6over struct {
	na     net.IP
	pd     *net.IPNet
	badIA  bool   // IAIDs 0xdead0001 / 0xdead0002 instead of 1 / 2
	onlyNA bool   // the message carries no IA_PD
	onlyPD bool   // the message carries no IA_NA
	class  string // what the named values are (worst class over the IAs), for the observation counters
}

type v6world struct {
	ov      *v6over
	cfg     v6cfg
	srv     *bng6.Server
	sock    *sockPair
	m       *mon
	clients []*v6client
	syms    []v4sym
	wsum    int
	rng     *rand.Rand
	sid     d6.DUID
	addrNet netip.Prefix
	pdNet   netip.Prefix
	nAddr   int
	nPfx    int
	fresh   int
	stateN  int
	allNA   []string // every address of the pool ("na:..."), computed independently of the pool's own arithmetic
	allPD   []string // every delegable prefix ("pd:...")
}

func v6factory(cfg v6cfg) factory {
	return factory{name: "v6/" + cfg.name, make: func(r *rand.Rand) world { return newV6World(cfg, r) }}
}

func v6iface() string {
	if _, err := net.InterfaceByName("eth0"); err == nil {
		return "eth0"
	}
	return "lo"
}

func newV6World(cfg v6cfg, r *rand.Rand) *v6world {
	sc := bng6.ServerConfig{Interface: v6iface(), PreferredLifetime: v6Preferred, ValidLifetime: v6Valid, DNSServers: []string{"2001:4860:4860::8888"}}
	if cfg.mode != "pd" {
		sc.AddressPool = cfg.addrPool
	}
	if cfg.mode != "na" {
		sc.PrefixPool, sc.DelegationLength = cfg.pdPool, cfg.pdLen
	}
	srv, err := bng6.NewServer(sc, zap.NewNop())
	if err != nil {
		panic(err)
	}
	w := &v6world{cfg: cfg, srv: srv, rng: r}
	w.sock = getSock()
	if w.sock == nil {
		panic("no loopback socket pair left")
	}
	w.sock.recvNow()
	srv.VerifC02SetConn(w.sock.srv)
	w.sid, err = d6.DUIDFromBytes(srv.VerifC02ServerDUID())
	if err != nil {
		panic(err)
	}
	if sc.AddressPool != "" {
		w.addrNet = netip.MustParsePrefix(cfg.addrPool).Masked()
		w.nAddr = v6Enumerable // the harness enumerates at most this many values of a large pool (targets and walk bounds only)
		if hb := 128 - w.addrNet.Bits(); hb < 12 {
			w.nAddr = 1<<hb - 1
		}
		for a, i := w.addrNet.Addr().Next(), 0; i < w.nAddr; a, i = a.Next(), i+1 {
			w.allNA = append(w.allNA, "na:"+a.String())
		}
	}
	if sc.PrefixPool != "" {
		w.pdNet = netip.MustParsePrefix(cfg.pdPool).Masked()
		w.nPfx = v6Enumerable
		if ib := int(cfg.pdLen) - w.pdNet.Bits(); ib < 12 {
			w.nPfx = 1 << ib
		}
		for i := 0; i < w.nPfx; i++ {
			b := w.pdNet.Addr().As16()
			for bit := 0; bit < int(cfg.pdLen)-w.pdNet.Bits(); bit++ { // index bit `bit` (from the right) sits at prefix bit pdLen-1-bit
				if i&(1<<bit) != 0 {
					pos := int(cfg.pdLen) - 1 - bit
					b[pos/8] |= 1 << (7 - pos%8)
				}
			}
			w.allPD = append(w.allPD, "pd:"+netip.PrefixFrom(netip.AddrFrom16(b), int(cfg.pdLen)).String())
		}
	}
	w.m = newMon("v6", "v6/"+cfg.name, v6Valid*time.Second, w.classify)
	for i := 0; i < cfg.clients; i++ {
		w.clients = append(w.clients, w.newClient(string(rune('A'+i)), byte(i+1)))
	}
	w.buildSyms()
	return w
}

func (w *v6world) newClient(name string, id byte) *v6client {
	du := &d6.DUIDLL{HWType: iana.HWTypeEthernet, LinkLayerAddr: net.HardwareAddr{0x02, 0xc0, 0x06, 0, 0, id}}
	return &v6client{name: name, duid: du, key: string(du.ToBytes())}
}

// freshClient is a client the server has never seen (pool cycling and the final drain): F1, F2, ...
func (w *v6world) freshClient() *v6client {
	w.fresh++
	du := &d6.DUIDLL{HWType: iana.HWTypeEthernet, LinkLayerAddr: net.HardwareAddr{0x02, 0xc0, 0x06, 1, byte(w.fresh >> 8), byte(w.fresh)}}
	return &v6client{name: fmt.Sprintf("F%d", w.fresh), duid: du, key: string(du.ToBytes())}
}

func (w *v6world) clientName(key string) string {
	for _, c := range w.clients {
		if c.key == key {
			return c.name
		}
	}
	if len(key) == 10 && key[7] == 1 {
		return fmt.Sprintf("F%d", int(key[8])<<8|int(key[9]))
	}
	return fmt.Sprintf("%x", key)
}

// classify: values are "na:<addr>" or "pd:<prefix>".
func (w *v6world) classify(v string) string {
	switch {
	case strings.HasPrefix(v, "na:"):
		a, err := netip.ParseAddr(v[3:])
		if err != nil || !w.addrNet.IsValid() || !w.addrNet.Contains(a) {
			return "outside-pool"
		}
		if a == w.addrNet.Addr() {
			return "network"
		}
		return ""
	case strings.HasPrefix(v, "pd:"):
		p, err := netip.ParsePrefix(v[3:])
		if err != nil || !w.pdNet.IsValid() || !w.pdNet.Contains(p.Addr()) || p.Bits() != int(w.cfg.pdLen) || p.Masked() != p {
			return "outside-pool"
		}
		return ""
	}
	return "outside-pool"
}

func (w *v6world) monitor() *mon        { return w.m }
func (w *v6world) nsyms() int           { return len(w.syms) }
func (w *v6world) symName(i int) string { return w.syms[i].name }
func (w *v6world) close() {
	putSock(w.sock)
	w.m.flush()
}

func (w *v6world) pick(r *rand.Rand) int {
	x := r.IntN(w.wsum)
	for i, s := range w.syms {
		if x < s.weight {
			return i
		}
		x -= s.weight
	}
	return 0
}

func (w *v6world) apply(i int) bool {
	ok := w.syms[i].fn()
	w.m.endStep()
	return ok
}

func (w *v6world) kinds() []string {
	switch w.cfg.mode {
	case "na":
		return []string{"na"}
	case "pd":
		return []string{"pd"}
	}
	return []string{"na", "pd"}
}

func (w *v6world) buildSyms() {
	coreSyms := map[string]bool{"SOLICIT": true, "REQUEST": true, "RENEW": true, "RELEASE": true, "DECLINE": true, "SOLICIT-RC": true, "valid+1ns": true, "valid/2": true,
		"DECLINE-FOREIGN": true}
	drSyms := map[string]bool{"SOLICIT": true, "REQUEST": true, "RELEASE": true, "DECLINE": true, "valid+1ns": true,
		"DECLINE-FOREIGN": true, "DECLINE-OFFERED": true, "DECLINE-FREE": true, "RELEASE-FOREIGN": true, "RELEASE-OFFERED": true, "RELEASE-BADIAID": true,
		"REQUEST-FOREIGN": true, "CYCLE-SRR": true, "CYCLE-RC": true}
	legacy := map[string]bool{"DECLINE-": true, "RELEASE-": true, "REQUEST-FOREIGN": true, "CYCLE-": true}
	add := func(name string, weight int, fn func() bool) {
		base := name[strings.Index(name, ":")+1:]
		if (w.cfg.core && !coreSyms[base]) || (w.cfg.focus == "dr" && !drSyms[base]) {
			return
		}
		if i := strings.Index(base, "-"); w.cfg.legacy && (legacy[base] || (i > 0 && legacy[base[:i+1]])) {
			return
		}
		w.syms = append(w.syms, v4sym{name, weight, fn})
		w.wsum += weight
	}
	for i, c := range w.clients {
		c := c
		add(c.name+":SOLICIT", 10, func() bool { return w.msg(c, "SOLICIT", d6.MessageTypeSolicit, w.sid, false) })
		add(c.name+":SOLICIT-RC", 3, func() bool { return w.msg(c, "SOLICIT-RC", d6.MessageTypeSolicit, nil, true) })
		add(c.name+":REQUEST", 12, func() bool { return w.msg(c, "REQUEST", d6.MessageTypeRequest, w.sid, false) })
		add(c.name+":RENEW", 8, func() bool { return w.msg(c, "RENEW", d6.MessageTypeRenew, w.sid, false) })
		add(c.name+":REBIND", 3, func() bool { return w.msg(c, "REBIND", d6.MessageTypeRebind, nil, false) })
		add(c.name+":CONFIRM", 2, func() bool { return w.msg(c, "CONFIRM", d6.MessageTypeConfirm, nil, false) })
		add(c.name+":RELEASE", 6, func() bool { return w.msg(c, "RELEASE", d6.MessageTypeRelease, w.sid, false) })
		if w.cfg.mode != "pd" { // a Decline names addresses only
			add(c.name+":DECLINE", 3, func() bool {
				if c.lastAddr == nil {
					return false
				}
				return w.msg(c, "DECLINE", d6.MessageTypeDecline, w.sid, false)
			})
		}
		if i >= w.cfg.hostile {
			continue
		}
		add(c.name+":REQUEST-WRONGSID", 1, func() bool {
			wrong := &d6.DUIDLL{HWType: iana.HWTypeEthernet, LinkLayerAddr: net.HardwareAddr{0x02, 0xee, 0xee, 0xee, 0xee, 0xee}}
			return w.msg(c, "REQUEST-WRONGSID", d6.MessageTypeRequest, wrong, false)
		})
		add(c.name+":RENEW-FOREIGN", 2, func() bool {
			// a RENEW naming the other client's address / prefix in the IA
			o := w.clients[(i+1)%len(w.clients)]
			if o == c || (o.lastAddr == nil && o.lastPfx == nil) {
				return false
			}
			sa, sp := c.lastAddr, c.lastPfx
			c.lastAddr, c.lastPfx = o.lastAddr, o.lastPfx
			ok := w.msg(c, "RENEW-FOREIGN", d6.MessageTypeRenew, w.sid, false)
			if c.lastAddr != nil && o.lastAddr != nil && c.lastAddr.Equal(o.lastAddr) {
				c.lastAddr = sa
			}
			if c.lastPfx != nil && o.lastPfx != nil && c.lastPfx.String() == o.lastPfx.String() {
				c.lastPfx = sp
			}
			return ok
		})
		// DECLINE / RELEASE / REQUEST naming values that are not the client's own: leased to another client,
		// advertised but not yet bound to another client, free, outside the pools; and the client's own values
		// under IAIDs it never used
		type tgt struct {
			name string
			pick func() *v6over
		}
		tgts := []tgt{
			{"FOREIGN", func() *v6over { return w.otherValues(c, w.m.bound) }},
			{"OFFERED", func() *v6over { return w.otherValues(c, w.m.offered) }},
			{"FREE", w.freeValues},
			{"OUTSIDE", func() *v6over {
				_, n, _ := net.ParseCIDR("2001:db8:ffff::/48")
				return &v6over{na: net.ParseIP("2001:db8:ffff::7"), pd: n}
			}},
			{"BADIAID", func() *v6over {
				if c.lastAddr == nil && c.lastPfx == nil {
					return nil
				}
				return &v6over{badIA: true}
			}},
		}
		for _, tg := range tgts {
			tg := tg
			if w.cfg.mode != "pd" {
				add(c.name+":DECLINE-"+tg.name, 1, func() bool {
					o := tg.pick()
					if o == nil || (o.na == nil && !o.badIA) || (o.badIA && c.lastAddr == nil) {
						return false
					}
					w.ov = o
					return w.msg(c, "DECLINE-"+tg.name, d6.MessageTypeDecline, w.sid, false)
				})
			}
			add(c.name+":RELEASE-"+tg.name, 1, func() bool {
				o := tg.pick()
				if o == nil {
					return false
				}
				w.ov = o
				return w.msg(c, "RELEASE-"+tg.name, d6.MessageTypeRelease, w.sid, false)
			})
		}
		add(c.name+":REQUEST-FOREIGN", 2, func() bool {
			o := w.otherValues(c, w.m.bound)
			if o == nil {
				o = w.otherValues(c, w.m.offered)
			}
			if o == nil {
				return false
			}
			// a binding message carries all IAs of the client, as a real client's does (the server keeps one
			// lifetime per client: a Reply that renewed one IA only would keep the other reserved beyond the
			// lifetime the client was told, which is safe and not what this symbol is about)
			o.onlyNA, o.onlyPD = false, false
			w.ov = o
			return w.msg(c, "REQUEST-FOREIGN", d6.MessageTypeRequest, w.sid, false)
		})
	}
	// pool cycling: fresh clients ask until the server has nothing left, then give everything back
	add("X:CYCLE-SRR", 3, func() bool { return w.cycle("X:CYCLE-SRR", false) })
	add("X:CYCLE-RC", 1, func() bool { return w.cycle("X:CYCLE-RC", true) })
	add("T:valid/2", 4, func() bool { return w.step("T:valid/2", v6Valid*time.Second/2) })
	add("T:valid+1ns", 4, func() bool { return w.step("T:valid+1ns", v6Valid*time.Second+1) })
}

// choose picks one candidate: the lowest in the exhaustive part, a random one in random walks.
func (w *v6world) choose(cands []string) string {
	if len(cands) == 0 {
		return ""
	}
	sort.Strings(cands)
	if w.rng != nil {
		return cands[w.rng.IntN(len(cands))]
	}
	return cands[0]
}

// over builds the override naming the given "na:..." / "pd:..." values ("" = keep the client's own).
func over(na, pd string) *v6over {
	if na == "" && pd == "" {
		return nil
	}
	o := &v6over{}
	if na != "" {
		o.na = net.ParseIP(na[3:])
	}
	if pd != "" {
		_, o.pd, _ = net.ParseCIDR(pd[3:])
	}
	return o
}

// otherValues: an address and / or prefix that table t (bound / offered) says belongs, unexpired, to a
// client other than c. Where only one kind has such a value the message carries that IA only.
func (w *v6world) otherValues(c *v6client, t map[string]map[string]bind) *v6over {
	now := time.Now()
	var nas, pds []string
	for d, ks := range t {
		if d == c.name {
			continue
		}
		for k, b := range ks {
			if !now.Before(b.exp) {
				continue
			}
			if k == "na" {
				nas = append(nas, b.v)
			} else {
				pds = append(pds, b.v)
			}
		}
	}
	o := over(w.choose(nas), w.choose(pds))
	if o != nil {
		o.onlyNA, o.onlyPD = o.pd == nil, o.na == nil
	}
	return o
}

// freeValues: an address and / or prefix of the pools that nobody holds, is offered or has declined.
func (w *v6world) freeValues() *v6over {
	now := time.Now()
	var nas, pds []string
	for _, v := range w.allNA {
		if w.m.isFree(v, now) {
			nas = append(nas, v)
		}
	}
	for _, v := range w.allPD {
		if w.m.isFree(v, now) {
			pds = append(pds, v)
		}
	}
	o := over(w.choose(nas), w.choose(pds))
	if o != nil {
		o.onlyNA, o.onlyPD = o.pd == nil, o.na == nil
	}
	return o
}

// cap: how many fresh clients a cycle / drain may use.
func (w *v6world) cap() int {
	if w.cfg.walkCap > 0 {
		return w.cfg.walkCap
	}
	return 40
}

// cycle: k fresh clients SOLICIT + REQUEST (or SOLICIT with rapid commit) until the server has nothing left
// for a new client - k is at most the size of the larger pool plus one, so every position of both free
// lists is visited - and then RELEASE what they got (in random order in random walks). A fresh client
// that was only advertised a value cannot give it back (the server keeps no lease for it), so every
// fresh client binds before it releases.
func (w *v6world) cycle(name string, rapid bool) bool {
	w.m.log("%s", name)
	var got []*v6client
	exhausted := false
	for i := 0; i <= max(w.nAddr, w.nPfx) && i < w.cap(); i++ {
		c := w.freshClient()
		if rapid {
			w.msg(c, "SOLICIT-RC", d6.MessageTypeSolicit, nil, true)
			w.m.endStep()
		} else {
			w.msg(c, "SOLICIT", d6.MessageTypeSolicit, w.sid, false)
			w.m.endStep()
		}
		if c.lastAddr == nil && c.lastPfx == nil {
			exhausted = true
			break
		}
		got = append(got, c)
		if !rapid {
			w.msg(c, "REQUEST", d6.MessageTypeRequest, w.sid, false)
			w.m.endStep()
		}
	}
	mode := "solicit-request"
	if rapid {
		mode = "rapid-commit"
	}
	if exhausted && len(got) > 0 {
		w.m.cycled(mode, len(got))
	} else if exhausted {
		w.m.count("cycles_on_an_exhausted_pool", 1)
	} else {
		w.m.count("cycles_not_reaching_exhaustion", 1)
	}
	if w.rng != nil {
		w.rng.Shuffle(len(got), func(i, j int) { got[i], got[j] = got[j], got[i] })
	}
	for _, c := range got {
		w.msg(c, "RELEASE", d6.MessageTypeRelease, w.sid, false)
		w.m.endStep()
	}
	return true
}

// msg sends one client message through the real handler and judges the reply.
func (w *v6world) msg(c *v6client, name string, mt d6.MessageType, sid d6.DUID, rapid bool) bool {
	now := time.Now()
	c.xid++
	m := &d6.Message{MessageType: mt, TransactionID: d6.TransactionID{c.key[len(c.key)-1], byte(c.xid >> 8), byte(c.xid)}}
	m.AddOption(d6.OptClientID(c.duid))
	if sid != nil && mt != d6.MessageTypeSolicit {
		m.AddOption(d6.OptServerID(sid))
	}
	if rapid {
		m.AddOption(&d6.OptionGeneric{OptionCode: d6.OptionRapidCommit})
	}
	m.AddOption(d6.OptElapsedTime(0))
	asked := ""
	ov := w.ov
	w.ov = nil
	if ov == nil {
		ov = &v6over{}
	}
	hostile := ov.na != nil || ov.pd != nil || ov.badIA // the IAs do not simply restate what the client was given
	namedNA, namedPD := c.lastAddr, c.lastPfx
	if ov.na != nil {
		namedNA = ov.na
	}
	if ov.pd != nil {
		namedPD = ov.pd
	}
	iaNA, iaPD := [4]byte{0, 0, 0, 1}, [4]byte{0, 0, 0, 2}
	if ov.badIA {
		iaNA, iaPD = [4]byte{0xde, 0xad, 0, 1}, [4]byte{0xde, 0xad, 0, 2}
	}
	for _, k := range w.kinds() {
		if mt == d6.MessageTypeDecline && k == "pd" {
			continue // prefixes are not declined
		}
		if (k == "na" && ov.onlyPD) || (k == "pd" && ov.onlyNA) {
			continue
		}
		if k == "na" {
			ia := &d6.OptIANA{IaId: iaNA}
			if namedNA != nil && mt != d6.MessageTypeSolicit {
				ia.Options.Add(&d6.OptIAAddress{IPv6Addr: namedNA, PreferredLifetime: v6Preferred * time.Second, ValidLifetime: v6Valid * time.Second})
				asked += " na:" + namedNA.String()
			}
			m.AddOption(ia)
		} else {
			ia := &d6.OptIAPD{IaId: iaPD}
			if namedPD != nil && mt != d6.MessageTypeSolicit {
				ia.Options.Add(&d6.OptIAPrefix{Prefix: namedPD, PreferredLifetime: v6Preferred * time.Second, ValidLifetime: v6Valid * time.Second})
				asked += " pd:" + namedPD.String()
			}
			m.AddOption(ia)
		}
	}
	// what the message names, by class (reference table only)
	if mt != d6.MessageTypeSolicit {
		base := map[d6.MessageType]string{d6.MessageTypeRequest: "REQUEST", d6.MessageTypeRenew: "RENEW", d6.MessageTypeRebind: "REBIND",
			d6.MessageTypeConfirm: "CONFIRM", d6.MessageTypeRelease: "RELEASE", d6.MessageTypeDecline: "DECLINE"}[mt]
		for _, v := range strings.Fields(asked) {
			cls := w.m.nameClass(c.name, v[:2], v, now)
			if ov.badIA {
				cls = "unknown-iaid-" + cls
			}
			w.m.named(base, cls, mt == d6.MessageTypeRelease || mt == d6.MessageTypeDecline || cls == "leased-to-other" || cls == "offered-to-other" || cls == "declined")
		}
	}
	binding := mt == d6.MessageTypeRequest || mt == d6.MessageTypeRenew || mt == d6.MessageTypeRebind
	rightSID := sid == nil || sid.Equal(w.sid)
	// non-trivial: the message names a value bound / offered to another client, or an own value after expiry
	if binding {
		for _, v := range strings.Fields(asked) {
			if w.m.holder(v, c.name, now) != "" || w.m.offeree(v, c.name, now) != "" {
				w.m.nontriv = true
				w.m.count("requests_for_value_of_other_client", 1)
			}
			k := v[:2]
			if b, ok := w.m.get(w.m.bound, c.name, k); (!ok || !now.Before(b.exp)) && w.m.everBound(c.name, k) {
				w.m.nontriv = true
				w.m.count("requests_after_own_expiry_or_release", 1)
			}
		}
	}
	heldBefore := map[string]string{} // the client's unexpired bindings before the message (reference table)
	for _, k := range w.kinds() {
		if v, ok := w.m.heldUnexpired(c.name, k, now); ok {
			heldBefore[k] = v
		}
	}
	// what the client holds right now (judged for "renewal answered with the same value")
	held := map[string]string{}
	if binding && rightSID && !hostile {
		for _, k := range w.kinds() {
			if v, ok := w.m.heldUnexpired(c.name, k, now); ok {
				held[k] = v
			}
		}
	}

	raw := m.ToBytes()
	in, err := bng6.ParseMessage(raw) // what receiveLoop does with the datagram
	if err != nil {
		panic(err)
	}
	w.sock.recvNow()
	w.srv.VerifC02HandleMessage(in, w.sock.addr)
	pkts := w.sock.recvNow()
	w.m.count("v6_msg_"+name, 1)

	comp := "dhcpv6.Server.handle" + map[d6.MessageType]string{d6.MessageTypeSolicit: "Solicit", d6.MessageTypeRequest: "Request", d6.MessageTypeRenew: "Renew",
		d6.MessageTypeRebind: "Rebind", d6.MessageTypeConfirm: "Confirm", d6.MessageTypeRelease: "Release", d6.MessageTypeDecline: "Decline"}[mt]
	var rep *d6.Message
	if len(pkts) > 1 {
		w.m.viol(comp, "one-reply", "several-replies", c.name, "%d replies to one %s", len(pkts), name)
	}
	if len(pkts) > 0 {
		rep, err = d6.MessageFromBytes(pkts[0])
		if err != nil {
			run.Inconclusive("v6-reply-decode", err.Error())
			rep = nil
		}
	}
	got := map[string]string{} // kind -> value in the reply
	life := map[string]time.Duration{}
	out := "-"
	if rep != nil {
		out = rep.MessageType.String()
		if cid := rep.Options.ClientID(); cid == nil || !cid.Equal(c.duid) {
			w.m.viol(comp, "reply-to-requester", "wrong-client-id", c.name, "reply carries client-id %v", cid)
		}
		for _, ia := range rep.Options.IANA() {
			for _, a := range ia.Options.Addresses() {
				got["na"] = "na:" + a.IPv6Addr.String()
				life["na"] = a.ValidLifetime
				out += " " + got["na"]
			}
			if st := ia.Options.Status(); st != nil && st.StatusCode != 0 {
				out += " na:" + st.StatusCode.String()
			}
		}
		for _, ia := range rep.Options.IAPD() {
			for _, p := range ia.Options.Prefixes() {
				got["pd"] = "pd:" + p.Prefix.String()
				life["pd"] = p.ValidLifetime
				out += " " + got["pd"]
			}
			if st := ia.Options.Status(); st != nil && st.StatusCode != 0 {
				out += " pd:" + st.StatusCode.String()
			}
		}
		if st := rep.Options.Status(); st != nil && st.StatusCode != 0 {
			out += " " + st.StatusCode.String()
		}
		w.m.count("v6_reply_"+rep.MessageType.String(), 1)
	} else {
		w.m.count("v6_reply_none", 1)
	}
	w.m.log("%s:%s(%s)->%s", c.name, name, strings.TrimSpace(asked), out)

	if rep != nil {
		switch {
		case rep.MessageType == d6.MessageTypeAdvertise:
			for _, k := range w.kinds() {
				if v, ok := got[k]; ok {
					w.m.onOffer(c.name, k, v, comp, now)
					w.remember(c, k, v)
				}
			}
		case rep.MessageType == d6.MessageTypeReply && (mt == d6.MessageTypeRelease):
			for _, k := range w.kinds() {
				own := false
				if b, ok := w.m.get(w.m.bound, c.name, k); ok && !ov.badIA {
					own = hasField(asked, b.v)
				}
				w.m.onRelease(c.name, k, own, now, !own && heldBefore[k] != "" && w.serverLease(c, k) == heldBefore[k]) // kept is only read when the message did not name the own value
				if own {
					w.m.count("releases_of_own_binding", 1)
				}
			}
		case rep.MessageType == d6.MessageTypeReply && mt == d6.MessageTypeDecline:
			before := len(w.m.declined)
			if namedNA != nil && !ov.onlyPD {
				if ov.badIA {
					// an IA the server never gave this client: it may ignore the message or act on the address;
					// nothing is required (like a DECLINE of a value the client was never given)
					w.m.onDecline(c.name, "na", "na:unknown-iaid", now, w.serverLease(c, "na") != "" && w.serverLease(c, "na") == heldBefore["na"])
				} else {
					w.m.onDecline(c.name, "na", "na:"+namedNA.String(), now, w.serverLease(c, "na") != "" && w.serverLease(c, "na") == heldBefore["na"])
				}
				if c.lastAddr != nil && c.lastAddr.Equal(namedNA) {
					c.lastAddr = nil
				}
			}
			if len(w.m.declined) > before {
				w.m.count("declines_of_own_value", 1)
			}
			// a DECLINE names addresses only: a delegated prefix the client holds stays bound
		case rep.MessageType == d6.MessageTypeReply:
			for _, k := range w.kinds() {
				if v, ok := got[k]; ok {
					w.m.onAck(c.name, k, v, comp, life[k], now)
					w.m.markBound(c.name, k)
					w.remember(c, k, v)
					if life[k] <= 0 {
						w.m.viol(comp, "ack-has-lease-time", "no-valid-lifetime", v, "Reply binds %s with valid lifetime 0", v)
					}
				}
			}
		}
	}
	for k, hv := range held {
		w.m.count("renewals_of_unexpired_binding", 1)
		if got[k] != hv && (rep == nil || rep.MessageType != d6.MessageTypeReply || got[k] == "") {
			w.m.viol(comp, "renew-same-value", "renew-refused", hv, "%s holds unexpired %s and its %s is answered %s", c.name, hv, name, out)
		}
	}
	w.checkState(comp)
	return true
}

// serverLease returns the value ("na:..." / "pd:...") of kind k in the lease the server's table carries for c ("" if none).
func (w *v6world) serverLease(c *v6client, k string) string {
	for _, l := range w.srv.VerifC02Leases() {
		if l.DUID != c.key {
			continue
		}
		if k == "na" && l.Address != nil {
			return "na:" + l.Address.String()
		}
		if k == "pd" && l.Prefix != "" {
			return "pd:" + l.Prefix
		}
	}
	return ""
}

// hasField: v is one of the space-separated fields of s.
func hasField(s, v string) bool {
	for _, f := range strings.Fields(s) {
		if f == v {
			return true
		}
	}
	return false
}

func (w *v6world) remember(c *v6client, k, v string) {
	if k == "na" {
		c.lastAddr = net.ParseIP(v[3:])
	} else if _, n, err := net.ParseCIDR(v[3:]); err == nil {
		c.lastPfx = n
	}
}

func (w *v6world) step(name string, d time.Duration) bool {
	w.m.log("%s", name)
	time.Sleep(d)
	synctest.Wait()
	now := time.Now()
	w.m.sweep(now.Add(1), now) // DHCPv6 has no tick: a binding may be reclaimed as soon as its valid lifetime is over
	w.m.count("time_steps", 1)
	w.checkState("dhcpv6.Server")
	return true
}

// finish: let a minute pass, move lapsed bindings to "must be obtainable again", drain both pools with fresh clients.
func (w *v6world) finish() {
	w.step("T:final+61s", cleanupGap)
	now := time.Now()
	w.m.sweep(now.Add(1), now)
	w.m.endStep()
	w.m.count("available_again_obligations_checked", len(w.m.oblig)) // pending when the drain starts
	obtained, exhausted := 0, false
	for i := 0; i < max(w.nAddr, w.nPfx)+2 && i < w.cap(); i++ {
		c := w.freshClient()
		w.msg(c, "SOLICIT", d6.MessageTypeSolicit, w.sid, false)
		w.m.endStep()
		if c.lastAddr == nil && c.lastPfx == nil {
			exhausted = true
			break
		}
		obtained++
		w.msg(c, "REQUEST", d6.MessageTypeRequest, w.sid, false)
		w.m.endStep()
	}
	if exhausted && obtained > 0 {
		w.m.cycled("drain", obtained)
	}
	w.m.count("drain_clients_served", obtained)
	w.m.finish("dhcpv6.Server.handleRelease", "dhcpv6.Server.leases")
}

// checkState compares lease table, pools and reference table.
func (w *v6world) checkState(comp string) {
	if w.cfg.stateEvery > 1 {
		if w.stateN++; w.stateN%w.cfg.stateEvery != 0 {
			return
		}
	}
	now := time.Now()
	leases := w.srv.VerifC02Leases()
	snap := w.srv.VerifC02Pools()
	w.m.count("state_snapshots_compared", 1)
	owner := map[string]string{}
	for _, l := range leases {
		cn := w.clientName(l.DUID)
		if l.Address != nil {
			v := "na:" + l.Address.String()
			if o, dup := owner[v]; dup {
				w.m.viol(comp, "table-unique", "two-leases-one-address", v, "lease table binds %s to %s and %s", v, o, cn)
			}
			owner[v] = cn
			if a, ok := snap.AddrAllocated[l.DUID]; snap.HasAddrPool && (!ok || !a.Equal(l.Address)) {
				w.m.viol(comp, "lease-pool-consistency", "lease-without-pool-allocation", v, "lease of %s on %s is not that client's allocation in the pool (pool says %v)", cn, v, a)
			}
		}
		if l.Prefix != "" {
			v := "pd:" + l.Prefix
			if o, dup := owner[v]; dup {
				w.m.viol(comp, "table-unique", "two-leases-one-prefix", v, "lease table binds %s to %s and %s", v, o, cn)
			}
			owner[v] = cn
			if p, ok := snap.PrefixAllocated[l.DUID]; snap.HasPrefixPool && (!ok || p != l.Prefix) {
				w.m.viol(comp, "lease-pool-consistency", "lease-without-pool-allocation", v, "lease of %s on %s is not that client's allocation in the pool (pool says %q)", cn, v, p)
			}
		}
	}
	for c, ks := range w.m.bound {
		for _, b := range ks {
			if now.Before(b.exp) && owner[b.v] != c {
				w.m.viol(comp, "lease-pool-consistency", "binding-without-lease", b.v, "%s was acknowledged %s (unexpired, not released) but the lease table has no such lease", c, b.v)
			}
		}
	}
	seen := map[string]string{}
	note := func(v, who string) {
		if o, dup := seen[v]; dup {
			cls := "pool-allocated-twice"
			if who == "avail" && o == "avail" {
				cls = "pool-available-twice"
			} else if who == "avail" || o == "avail" {
				cls = "pool-available-and-allocated"
			}
			w.m.viol(comp, "lease-pool-consistency", cls, v, "%s is in the pool as %s and as %s", v, o, who)
		}
		seen[v] = who
		if cl := w.classify(v); cl != "" {
			w.m.viol(comp, "lease-pool-consistency", "pool-holds-"+cl, v, "pool entry outside the usable range")
		}
	}
	ds := make([]string, 0, len(snap.AddrAllocated))
	for d := range snap.AddrAllocated {
		ds = append(ds, d)
	}
	sort.Strings(ds)
	for _, d := range ds {
		note("na:"+snap.AddrAllocated[d].String(), w.clientName(d))
	}
	for _, ip := range snap.AddrAvailable {
		note("na:"+ip.String(), "avail")
	}
	ds = ds[:0]
	for d := range snap.PrefixAllocated {
		ds = append(ds, d)
	}
	sort.Strings(ds)
	for _, d := range ds {
		note("pd:"+snap.PrefixAllocated[d], w.clientName(d))
	}
	for _, p := range snap.PrefixAvailable {
		note("pd:"+p, "avail")
	}
}

func (w *v6world) fingerprint() string {
	now := time.Now()
	var sb strings.Builder
	for _, l := range w.srv.VerifC02Leases() {
		fmt.Fprintf(&sb, "L%s=%v/%s@%d;", w.clientName(l.DUID), l.Address, l.Prefix, l.ValidEnd.Sub(now))
	}
	snap := w.srv.VerifC02Pools()
	var al []string
	for d, ip := range snap.AddrAllocated {
		al = append(al, w.clientName(d)+"="+ip.String())
	}
	for d, p := range snap.PrefixAllocated {
		al = append(al, w.clientName(d)+"="+p)
	}
	sort.Strings(al)
	sb.WriteString("P" + strings.Join(al, ",") + "|")
	for _, ip := range snap.AddrAvailable {
		sb.WriteString(ip.String() + ",")
	}
	sb.WriteString("|" + strings.Join(snap.PrefixAvailable, ",") + ";")
	for _, c := range w.clients {
		fmt.Fprintf(&sb, "C%s:%v/%v;", c.name, c.lastAddr, c.lastPfx)
	}
	sb.WriteString(w.m.key(now))
	return sb.String()
}
