package c02

import (
	"bytes"
	"encoding/json"
	"fmt"
	"os"
	"os/exec"
	"regexp"
	"strings"
	"sync"
	"testing"
	"time"
)

// The concurrent parts call the handlers from many goroutines. If the code under test crashes there
// (panic in a handler goroutine, "fatal error: concurrent map writes") the whole process dies, so they
// run in a child process of the same test binary; the parent turns the child's report - or its crash -
// into observations and violations.

type childViol struct {
	Component, Rule, Class, Desc string
	Witness                      any
	Count                        int
}

type childReport struct {
	Evals    int
	Counts   map[string]int
	Nontriv  []string
	Viols    []*childViol
	Finished bool
}

var (
	childMu  sync.Mutex
	childRep = childReport{Counts: map[string]int{}}
)

func childMode() bool { return os.Getenv("C02_CHILD_OUT") != "" }

func cviol(comp, rule, class, desc string, witness any) {
	childMu.Lock()
	defer childMu.Unlock()
	for _, v := range childRep.Viols {
		if v.Component == comp && v.Rule == rule && v.Class == class {
			v.Count++
			return
		}
	}
	childRep.Viols = append(childRep.Viols, &childViol{comp, rule, class, desc, witness, 1})
}
func ceval()                 { childMu.Lock(); childRep.Evals++; childMu.Unlock() }
func ccount(k string, n int) { childMu.Lock(); childRep.Counts[k] += n; childMu.Unlock() }
func cnontriv(k string) {
	childMu.Lock()
	childRep.Nontriv = append(childRep.Nontriv, k)
	childMu.Unlock()
}

func writeChildReport() {
	childMu.Lock()
	defer childMu.Unlock()
	childRep.Finished = true
	b, _ := json.Marshal(childRep)
	os.WriteFile(os.Getenv("C02_CHILD_OUT"), b, 0o644)
}

var digits = regexp.MustCompile(`[0-9]+`)

// runInChild re-executes this test binary for one test and merges what it reports.
func runInChild(t *testing.T, name string) {
	out, err := os.CreateTemp("", "c02-child-*.json")
	if err != nil {
		t.Fatal(err)
	}
	out.Close()
	defer os.Remove(out.Name())
	os.Remove(out.Name())
	cmd := exec.Command(os.Args[0], "-test.run=^"+name+"$", "-test.count=1", "-test.timeout=0")
	cmd.Env = append(os.Environ(), "C02_CHILD_OUT="+out.Name())
	var buf bytes.Buffer
	cmd.Stdout, cmd.Stderr = &buf, &buf
	if err := cmd.Start(); err != nil {
		run.Inconclusive(name, "cannot start child: "+err.Error())
		return
	}
	done := make(chan error, 1)
	go func() { done <- cmd.Wait() }()
	var werr error
	select {
	case werr = <-done:
	case <-time.After(30 * time.Minute): // watchdog only; never decides a verdict
		cmd.Process.Kill()
		<-done
		run.Inconclusive(name, "child watchdog (30 min)")
		return
	}
	var rep childReport
	if b, err := os.ReadFile(out.Name()); err == nil {
		json.Unmarshal(b, &rep)
	}
	run.Evals(rep.Evals)
	for k, n := range rep.Counts {
		run.Count(k, n)
	}
	for _, k := range rep.Nontriv {
		run.Nontrivial(k)
	}
	for _, v := range rep.Viols {
		for i := 0; i < v.Count; i++ {
			run.Violation(v.Component, v.Rule, v.Class, v.Desc, v.Witness)
		}
	}
	if rep.Finished && werr == nil {
		return
	}
	// the child died: a crash of the code under test while handlers ran concurrently
	text := buf.String()
	headline, frame := "", "unknown"
	lines := strings.Split(text, "\n")
	for i, l := range lines {
		if headline == "" && (strings.HasPrefix(l, "panic: ") || strings.HasPrefix(l, "fatal error: ")) {
			headline = strings.TrimSpace(l)
			for _, m := range lines[i:] {
				if strings.Contains(m, "github.com/codelaboratoryltd/bng/pkg/") && !strings.Contains(m, "Verif") {
					frame = strings.TrimSpace(m)
					if j := strings.LastIndex(frame, "("); j > 0 {
						frame = frame[:j]
					}
					frame = frame[strings.LastIndex(frame, "/")+1:]
					break
				}
			}
		}
	}
	if headline == "" {
		run.Inconclusive(name, fmt.Sprintf("child exited abnormally (%v) without a panic or fatal error", werr))
		return
	}
	if len(text) > 6000 {
		text = text[:6000]
	}
	run.Violation(frame, "handlers-survive-concurrent-calls", digits.ReplaceAllString(headline, "#"),
		fmt.Sprintf("%s: the process running the handlers concurrently died: %s", name, headline), map[string]any{"test": name, "output": text})
}
