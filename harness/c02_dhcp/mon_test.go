package c02

import (
	"fmt"
	"reflect"
	"sort"
	"strings"
	"sync"
	"time"
)

// bind is one entry of the reference table: a value (address / prefix) and the
// instant until which it is held (binding) or outstanding (offer).
type bind struct {
	v   string
	exp time.Time
}

// mon is the reference binding table of one history. It is written from the
// property statement only and is fed only by observed replies.
type mon struct {
	proto    string // "v4" / "v6"
	cfg      string // configuration name (for witnesses)
	offerTTL time.Duration
	classify func(v string) string // "" if v is a usable pool value, else gateway / network / broadcast / outside-pool

	bound    map[string]map[string]bind // client -> kind -> binding ("" for v4, "na"/"pd" for v6)
	offered  map[string]map[string]bind
	bIdx     map[string]map[string]bool // value -> clients with that value in bound (index for find; large pools)
	oIdx     map[string]map[string]bool // value -> clients with that value in offered
	declined map[string]string          // value -> decliner
	oblig    map[string]string          // value -> "released" / "expired": must become obtainable again
	taint    map[string]bool            // values on which a violation was already reported in this history
	pending  []string

	hist     []hent
	counting bool // false while a known prefix is being replayed
	nontriv  bool
	nviol    int
	cnt      map[string]int
	dist     map[string]bool // distinct observations of this history ("set\x00key"), merged by flush
	ever     map[string]bool

	// abandoned offers (enabled when offerLapse > 0): an OFFER / Advertise its client never follows up (no ACK, NAK,
	// RELEASE, DECLINE, no further offer) has lapsed offerLapse after it was made; once a cleanup tick has passed
	// since, the value must be obtainable again (judged with the other "available again" obligations)
	offerLapse   time.Duration
	compOffer    string
	onOfferLapse func(c string) // coverage hook
	declNamed    map[string]bool // values named in any DECLINE (no obligation is created on them)
	lastOut      map[string]time.Time // value -> instant it was last offered / acknowledged to anybody

	// cycling episodes: the decline / release / hostile-request events (message:class) seen since the free
	// list was last cycled completely. Coverage bookkeeping only - no clause reads it.
	events map[string]bool
}

func newMon(proto, cfg string, offerTTL time.Duration, classify func(string) string) *mon {
	return &mon{
		proto: proto, cfg: cfg, offerTTL: offerTTL, classify: classify,
		bound: map[string]map[string]bind{}, offered: map[string]map[string]bind{},
		bIdx: map[string]map[string]bool{}, oIdx: map[string]map[string]bool{},
		declined: map[string]string{}, oblig: map[string]string{}, taint: map[string]bool{},
	}
}

func (m *mon) count(key string, n int) {
	if m.counting {
		if m.cnt == nil {
			m.cnt = map[string]int{}
		}
		m.cnt[key] += n
	}
}

// distinct records one distinct observation (set, key) of this history.
func (m *mon) distinct(set, key string) {
	if m.counting {
		if m.dist == nil {
			m.dist = map[string]bool{}
		}
		m.dist[set+"\x00"+key] = true
	}
}

// flush merges the history's observation counters into the run (one lock per history).
func (m *mon) flush() {
	for k, n := range m.cnt {
		run.Count(k, n)
	}
	m.cnt = nil
	for k := range m.dist {
		i := strings.IndexByte(k, 0)
		run.Distinct(k[:i], k[i+1:])
	}
	m.dist = nil
}

// nameClass says what the value v named in a message of client c is at this moment, according to the
// reference table only: own-leased, own-offered, leased-to-other, offered-to-other, declined, own-lapsed,
// free (a usable pool value nobody holds, is offered or has declined), or gateway / network / broadcast /
// outside-pool.
func (m *mon) nameClass(c, kind, v string, now time.Time) string {
	if cls := m.classify(v); cls != "" {
		return cls
	}
	if hv, ok := m.heldUnexpired(c, kind, now); ok && hv == v {
		return "own-leased"
	}
	if ov, ok := m.offeredTo(c, kind, now); ok && ov == v {
		return "own-offered"
	}
	if m.holder(v, c, now) != "" {
		return "leased-to-other"
	}
	if m.offeree(v, c, now) != "" {
		return "offered-to-other"
	}
	if _, dec := m.declined[v]; dec {
		return "declined"
	}
	if b, ok := m.get(m.bound, c, kind); ok && b.v == v {
		return "own-lapsed"
	}
	return "free"
}

// isFree: v is a usable pool value that, according to the reference table, nobody holds, is offered or has declined.
func (m *mon) isFree(v string, now time.Time) bool {
	if m.classify(v) != "" || m.holder(v, "", now) != "" || m.offeree(v, "", now) != "" {
		return false
	}
	_, dec := m.declined[v]
	return !dec
}

// anyValue returns the lowest value of table t (bound / offered) that is unexpired, belongs to a client
// other than c, is of the given kind prefix ("" for v4, "na:" / "pd:" for v6) and satisfies ok.
func (m *mon) anyValue(t map[string]map[string]bind, c, prefix string, now time.Time, ok func(v string) bool) string {
	best := ""
	for d, ks := range t {
		if d == c {
			continue
		}
		for _, b := range ks {
			if now.Before(b.exp) && strings.HasPrefix(b.v, prefix) && (ok == nil || ok(b.v)) && (best == "" || b.v < best) {
				best = b.v
			}
		}
	}
	return best
}

// named counts one client message of type msg that names a value of class cls; with event set it is
// remembered as an event that a later complete cycle of the free list follows.
func (m *mon) named(msg, cls string, event bool) {
	m.count(m.proto+"_"+msg+"_names_"+cls, 1)
	m.distinct("message_classes", m.proto+"|"+msg+"|"+cls)
	if !event {
		return
	}
	if m.events == nil {
		m.events = map[string]bool{}
	}
	if msg == "REBIND" || msg == "CONFIRM" {
		return // the hostile symbols are DECLINE, RELEASE, REQUEST and RENEW
	}
	m.events[msg+":"+cls] = true
}

// cycled: the free list was visited completely (fresh clients asked until the server had nothing left to
// hand out; got = how many values they obtained). Every event since the previous complete cycle has now
// been followed by a visit of every free-list position.
func (m *mon) cycled(mode string, got int) {
	m.count("free_list_full_cycles", 1)
	m.count("free_list_full_cycles_"+mode, 1)
	m.count("free_list_positions_visited", got)
	if len(m.events) == 0 {
		return
	}
	evs := make([]string, 0, len(m.events))
	dr := false
	for e := range m.events {
		evs = append(evs, e)
		m.count("cycled_after_"+e, 1)
		if strings.HasPrefix(e, "DECLINE") || strings.HasPrefix(e, "RELEASE") {
			dr = true
		}
	}
	if dr {
		m.count("free_list_fully_cycled_after_decline_or_release", 1)
	}
	sort.Strings(evs)
	m.distinct("cycle_episodes", m.cfg+"|"+mode+"|"+strings.Join(evs, ","))
	m.events = nil
}

// hent is one history line, formatted only when a witness or sample is written.
type hent struct {
	f string
	a []any
}

func (m *mon) log(format string, a ...any) { m.hist = append(m.hist, hent{format, a}) }

// history renders the history so far.
func (m *mon) history() []string {
	out := make([]string, len(m.hist))
	for i, h := range m.hist {
		out[i] = fmt.Sprintf(h.f, h.a...)
	}
	return out
}

// reported remembers the (component, rule, class) triples that already have a witness in this run,
// so that further witnesses of the same class are only counted.
var reported sync.Map

// viol reports one witness; further clauses on the same value are not judged in
// this history (the state around that value is no longer one the property
// speaks about), all other values keep being judged.
func (m *mon) viol(comp, rule, class, v, format string, a ...any) {
	if m.taint[v] {
		m.count("judgements_skipped_on_already_reported_value", 1)
		return
	}
	m.nviol++
	m.pending = append(m.pending, v)
	if _, dup := reported.LoadOrStore(comp+"|"+rule+"|"+class, true); dup {
		run.Violation(comp, rule, class, "", nil) // counted; the first witness of the class is kept
		return
	}
	desc := fmt.Sprintf(format, a...)
	run.Violation(comp, rule, class, fmt.Sprintf("%s [%s] value=%s", desc, m.cfg, v), map[string]any{
		"config": m.cfg, "value": v, "history": m.history(), "detail": desc,
	})
}

// endStep applies the taints collected during one step (all clauses of a step are judged first).
func (m *mon) endStep() {
	for _, v := range m.pending {
		m.taint[v] = true
	}
	m.pending = m.pending[:0]
}

func (m *mon) get(t map[string]map[string]bind, c, kind string) (bind, bool) {
	b, ok := t[c][kind]
	return b, ok
}

func (m *mon) set(t map[string]map[string]bind, c, kind string, b bind) {
	if t[c] == nil {
		t[c] = map[string]bind{}
	}
	old, had := t[c][kind]
	t[c][kind] = b
	if had && old.v != b.v {
		m.unindex(t, c, old.v)
	}
	ix := m.idxOf(t)
	if ix[b.v] == nil {
		ix[b.v] = map[string]bool{}
	}
	ix[b.v][c] = true
}

func (m *mon) del(t map[string]map[string]bind, c, kind string) {
	if t[c] != nil {
		old, had := t[c][kind]
		delete(t[c], kind)
		if had {
			m.unindex(t, c, old.v)
		}
		if len(t[c]) == 0 {
			delete(t, c)
		}
	}
}

// idxOf returns the value index of table t (bound or offered); set and del are the only writers of both.
func (m *mon) idxOf(t map[string]map[string]bind) map[string]map[string]bool {
	if reflect.ValueOf(t).Pointer() == reflect.ValueOf(m.bound).Pointer() {
		return m.bIdx
	}
	return m.oIdx
}

// unindex: c's entry with value v was removed from t (unless another kind of c still carries v).
func (m *mon) unindex(t map[string]map[string]bind, c, v string) {
	for _, b := range t[c] {
		if b.v == v {
			return
		}
	}
	ix := m.idxOf(t)
	if s := ix[v]; s != nil {
		delete(s, c)
		if len(s) == 0 {
			delete(ix, v)
		}
	}
}

// holder returns a client other than c holding an unexpired binding on v.
func (m *mon) holder(v, c string, now time.Time) string {
	return m.find(m.bound, v, c, now)
}

// offeree returns a client other than c with an outstanding offer of v.
func (m *mon) offeree(v, c string, now time.Time) string {
	return m.find(m.offered, v, c, now)
}

func (m *mon) find(t map[string]map[string]bind, v, c string, now time.Time) string {
	best := ""
	for d := range m.idxOf(t)[v] {
		if d == c {
			continue
		}
		for _, b := range t[d] {
			if b.v == v && now.Before(b.exp) && (best == "" || d < best) {
				best = d
			}
		}
	}
	return best
}

func (m *mon) heldUnexpired(c, kind string, now time.Time) (string, bool) {
	if b, ok := m.get(m.bound, c, kind); ok && now.Before(b.exp) {
		return b.v, true
	}
	return "", false
}

func (m *mon) offeredTo(c, kind string, now time.Time) (string, bool) {
	if b, ok := m.get(m.offered, c, kind); ok && now.Before(b.exp) {
		return b.v, true
	}
	return "", false
}

// onOffer: an OFFER / Advertise of v to c was observed.
func (m *mon) onOffer(c, kind, v, comp string, now time.Time) {
	if cls := m.classify(v); cls != "" {
		m.viol(comp, "usable-range", "offer-"+cls, v, "%s offered to %s is %s", v, c, cls)
	}
	if by, ok := m.declined[v]; ok {
		who := "other"
		if by == c {
			who = "decliner"
		}
		m.viol(comp, "declined-not-reoffered", "offer-to-"+who, v, "%s was declined by %s and is offered again to %s", v, by, c)
	}
	if d := m.holder(v, c, now); d != "" {
		// an address with an unexpired acknowledged binding is not free to be offered to anybody else (an
		// offer of an address that is merely offered to somebody else is left alone: a server need not
		// reserve what it offers, that is judged when one of them is acknowledged)
		m.viol(comp, "offer-unique", "leased-to-other", v, "%s offered to %s while %s holds an unexpired binding on it", v, c, d)
	}
	if b, ok := m.get(m.bound, c, kind); ok && !now.Before(b.exp) {
		// c's binding has lapsed and the server answers it with an offer: the binding is over. If the same value
		// is offered again it is now in the offered state (whose length the property does not bound); any other
		// value leaves the lapsed one to become available again.
		if b.v == v {
			m.del(m.bound, c, kind)
		} else {
			m.lapse(c, kind, now)
		}
	}
	if hv, ok := m.heldUnexpired(c, kind, now); ok && hv == v {
		// an offer of the address the client is bound to adds nothing to that binding: the reservation
		// is the binding itself and ends with it (an OFFER does not extend a lease)
		m.del(m.offered, c, kind)
	} else {
		m.set(m.offered, c, kind, bind{v, now.Add(m.offerTTL)})
	}
	m.discharge(v)
	m.handedOut(v, now)
}

// handedOut remembers when v was last offered / acknowledged (only read by the abandoned-offer sweep).
func (m *mon) handedOut(v string, now time.Time) {
	if m.offerLapse > 0 {
		if m.lastOut == nil {
			m.lastOut = map[string]time.Time{}
		}
		m.lastOut[v] = now
	}
}

// discharge: v was handed out, so a pending "available again" obligation on it is met.
func (m *mon) discharge(v string) {
	if why, ok := m.oblig[v]; ok {
		m.count("available_again_"+why+"_value_handed_out_again", 1)
		delete(m.oblig, v)
	}
}

// onAck: an ACK / Reply binding v to c for life was observed.
func (m *mon) onAck(c, kind, v, comp string, life time.Duration, now time.Time) {
	if cls := m.classify(v); cls != "" {
		m.viol(comp, "usable-range", "ack-"+cls, v, "%s acknowledged to %s is %s", v, c, cls)
	}
	req := "requester-not-offered"
	if ov, ok := m.offeredTo(c, kind, now); ok && ov == v {
		req = "requester-was-offered"
	} else if hv, ok := m.heldUnexpired(c, kind, now); ok && hv == v {
		req = "requester-held"
	}
	if d := m.holder(v, c, now); d != "" {
		m.viol(comp, "ack-unique", "leased-to-other/"+req, v, "%s acknowledged to %s while %s holds an unexpired binding on it", v, c, d)
	} else if d := m.offeree(v, c, now); d != "" {
		m.viol(comp, "ack-unique", "offered-to-other/"+req, v, "%s acknowledged to %s while it is offered to %s", v, c, d)
	}
	if by, ok := m.declined[v]; ok {
		who := "other"
		if by == c {
			who = "decliner"
		}
		m.viol(comp, "declined-not-reoffered", "ack-to-"+who, v, "%s was declined by %s and is acknowledged to %s", v, by, c)
	}
	if hv, ok := m.heldUnexpired(c, kind, now); ok && hv != v {
		m.viol(comp, "renew-same-value", "ack-different-value", hv, "%s holds unexpired %s and is acknowledged %s", c, hv, v)
	}
	m.set(m.bound, c, kind, bind{v, now.Add(life)})
	m.del(m.offered, c, kind)
	m.discharge(v)
	m.handedOut(v, now)
}

// markBound / everBound remember that c was bound at some time (coverage classification only).
func (m *mon) markBound(c, kind string) {
	if m.ever == nil {
		m.ever = map[string]bool{}
	}
	m.ever[c+"/"+kind] = true
}
func (m *mon) everBound(c, kind string) bool { return m.ever[c+"/"+kind] }

// onNak: c's request was refused; an outstanding offer to c is over.
func (m *mon) onNak(c, kind string) { m.del(m.offered, c, kind) }

// onRelease: c released (own = the message named the value c holds). The
// released value must become obtainable again unless somebody else is entitled to it.
// kept (only read when the message did not name c's own value): the server's lease table still
// carries c's binding after the message - the server chose to ignore the message for that binding, so
// the binding goes on; otherwise the server chose to end it and nothing further is required.
func (m *mon) onRelease(c, kind string, own bool, now time.Time, kept bool) {
	b, ok := m.get(m.bound, c, kind)
	if ok && !now.Before(b.exp) {
		// the binding had already lapsed: it is the expiry, not this message, that frees it
		m.lapse(c, kind, now)
		ok = false
	}
	if ok && !own && kept {
		m.count("foreign_release_or_decline_left_own_binding_in_place", 1)
		m.del(m.offered, c, kind)
		return
	}
	m.del(m.bound, c, kind)
	m.del(m.offered, c, kind)
	if ok && own && m.classify(b.v) == "" && m.holder(b.v, c, now) == "" && m.offeree(b.v, c, now) == "" {
		if _, dec := m.declined[b.v]; !dec {
			m.oblig[b.v] = "released"
		}
	}
}

// onDecline: c declined v. If c held or was offered v it must not be handed out
// again; otherwise nothing is required and the server may or may not keep c's binding: kept says
// which it did (its lease table still carries c's binding), see onRelease.
func (m *mon) onDecline(c, kind, v string, now time.Time, kept bool) {
	if m.declNamed == nil {
		m.declNamed = map[string]bool{}
	}
	m.declNamed[v] = true
	hv, held := m.heldUnexpired(c, kind, now)
	ov, off := m.offeredTo(c, kind, now)
	if (held && hv == v) || (off && ov == v) {
		m.declined[v] = c
	} else if held && kept {
		m.count("foreign_release_or_decline_left_own_binding_in_place", 1)
		m.del(m.offered, c, kind)
		delete(m.oblig, v)
		return
	}
	m.del(m.bound, c, kind)
	m.del(m.offered, c, kind)
	delete(m.oblig, v)
}

// sweep removes bindings whose expiry lies before cut (the server was entitled
// to reclaim them) and records that they must be obtainable again.
func (m *mon) sweep(cut, now time.Time) {
	type ck struct{ c, k string }
	var gone []ck
	for c, ks := range m.bound {
		for k, b := range ks {
			if b.exp.Before(cut) {
				gone = append(gone, ck{c, k})
			}
		}
	}
	sort.Slice(gone, func(i, j int) bool { return gone[i].c+gone[i].k < gone[j].c+gone[j].k })
	for _, g := range gone {
		m.lapse(g.c, g.k, now)
	}
	if m.offerLapse <= 0 {
		return
	}
	// offers made more than offerLapse before the cut and never followed up: the reservation is over
	gone = gone[:0]
	for c, ks := range m.offered {
		for k, b := range ks {
			if b.exp.Add(m.offerLapse - m.offerTTL).Before(cut) { // b.exp = instant of the offer + offerTTL
				gone = append(gone, ck{c, k})
			}
		}
	}
	sort.Slice(gone, func(i, j int) bool { return gone[i].c+gone[i].k < gone[j].c+gone[j].k })
	for _, g := range gone {
		b, _ := m.get(m.offered, g.c, g.k)
		m.del(m.offered, g.c, g.k)
		if m.classify(b.v) != "" || m.declNamed[b.v] || m.holder(b.v, "", now) != "" || m.offeree(b.v, "", now) != "" {
			continue // somebody is entitled to it now, or it was named in a DECLINE (the server may keep it out of use)
		}
		if m.lastOut[b.v].After(b.exp.Add(-m.offerTTL)) {
			// the value was handed out to somebody else after this offer was made: the reservation had
			// demonstrably ended, and whatever reservation followed is that other client's
			continue
		}
		if _, dec := m.declined[b.v]; dec {
			continue
		}
		if _, pending := m.oblig[b.v]; !pending {
			m.oblig[b.v] = "offer-lapsed"
		}
		m.count("offers_abandoned_until_lapse", 1)
		if m.onOfferLapse != nil {
			m.onOfferLapse(g.c)
		}
	}
}

// lapse removes c's lapsed binding. Its value must become obtainable again, unless somebody is
// entitled to it now or the server has meanwhile offered it to the same client again (it is then
// in the offered state, whose length the property does not bound).
func (m *mon) lapse(c, k string, now time.Time) {
	b, ok := m.get(m.bound, c, k)
	if !ok {
		return
	}
	m.del(m.bound, c, k)
	if again, ok := m.get(m.offered, c, k); ok && again.v == b.v {
		return
	}
	if m.classify(b.v) == "" && m.holder(b.v, c, now) == "" && m.offeree(b.v, c, now) == "" {
		if _, dec := m.declined[b.v]; !dec {
			m.oblig[b.v] = "expired"
			m.count("bindings_expired", 1)
		}
	}
}

// finish judges the bounded "eventually available again" clause after the drain.
func (m *mon) finish(compReleased, compExpired string) {
	vs := make([]string, 0, len(m.oblig))
	for v := range m.oblig {
		vs = append(vs, v)
	}
	sort.Strings(vs)
	for _, v := range vs {
		why := m.oblig[v]
		comp := compReleased
		if why == "expired" {
			comp = compExpired
		}
		if why == "offer-lapsed" {
			m.viol(m.compOffer, "abandoned-offer-available-again", "offer-lapsed-not-obtainable", v, "%s was offered to a client that never requested it, more than one lease time and a cleanup tick have passed, and no fresh client could obtain it when the pool was drained", v)
			continue
		}
		m.viol(comp, "released-available-again", why+"-not-obtainable", v, "%s was %s and no fresh client could obtain it when the pool was drained", v, why)
	}
	m.endStep()
}

// key is the reference table's part of the state fingerprint (times relative to now).
func (m *mon) key(now time.Time) string {
	var sb strings.Builder
	dump := func(tag string, t map[string]map[string]bind, skipElapsed bool) {
		var ls []string
		for c, ks := range t {
			for k, b := range ks {
				d := b.exp.Sub(now)
				if d <= 0 {
					if skipElapsed && m.offerLapse <= 0 { // an elapsed offer behaves like no offer (unless its lapse is still to be judged)
						continue
					}
					d = -1 // elapsed, not yet swept
				}
				if skipElapsed && m.offerLapse > m.offerTTL { // offers: also the time left until the offer lapses
					ls = append(ls, fmt.Sprintf("%s/%s=%s@%d/%d", c, k, b.v, d, b.exp.Add(m.offerLapse-m.offerTTL).Sub(now)))
					continue
				}
				ls = append(ls, fmt.Sprintf("%s/%s=%s@%d", c, k, b.v, d))
			}
		}
		sort.Strings(ls)
		sb.WriteString(tag + strings.Join(ls, ",") + ";")
	}
	dump("B", m.bound, false)
	dump("O", m.offered, true)
	for _, mp := range []map[string]string{m.declined, m.oblig} {
		var ls []string
		for k, v := range mp {
			ls = append(ls, k+":"+v)
		}
		sort.Strings(ls)
		sb.WriteString("M" + strings.Join(ls, ",") + ";")
	}
	var ts []string
	for v := range m.taint {
		ts = append(ts, v)
	}
	sort.Strings(ts)
	sb.WriteString("T" + strings.Join(ts, ","))
	return sb.String()
}
