package c02

import (
	"encoding/binary"
	"fmt"
	"math/rand/v2"
	"net"
	"net/netip"
	"sort"
	"testing"
	"time"

	d6 "github.com/insomniacslk/dhcp/dhcpv6"
)

// Pool geometries as a dimension of the exploration. The property quantifies over pool configurations
// ("only hands out values inside the serving pool that are not the gateway, network or broadcast
// address", "never acknowledges an address or delegated prefix that is leased or offered to a different
// client"); the histories elsewhere in this package run on tiny pools whose gateway is the first address.
// Here the geometry varies: per geometry (a) direct probes - REQUEST (init-reboot, selecting, renew),
// DECLINE and RELEASE naming the gateway, network, broadcast and reserved addresses and the addresses
// just outside the pool, from clients the server has never seen and from a client that holds a lease -
// and (b) fresh clients walking the free list (all of it, or at least across the gateway's slot), then
// release / expiry of what they got and a second complete walk. Everything is judged by the same
// reference table as every other history (mon): usable-range, ack-unique, offer-unique, renew-same-value,
// released-available-again, lease-pool-consistency.

// ---- DHCPv4 -------------------------------------------------------------------

type v4geom struct {
	bits   int
	base   netip.Addr // network address
	gwHost int        // host number of the gateway (1 .. hosts)
	gwPos  string     // first | last | middle | above255 | above255-far | random
	head   int        // ReservedStart
	tail   int        // ReservedEnd
	res    string     // none | head-tail | window | random
}

func (g v4geom) hosts() int { return 1<<(32-g.bits) - 2 }

func addr4(base netip.Addr, off int) netip.Addr {
	b := base.As4()
	var o [4]byte
	binary.BigEndian.PutUint32(o[:], uint32(int64(binary.BigEndian.Uint32(b[:]))+int64(off)))
	return netip.AddrFrom4(o)
}

func (g v4geom) name() string {
	return fmt.Sprintf("geom/%d-gw-%s-res-%s", g.bits, g.gwPos, g.res)
}

// v4base: a network address of the given length with non-zero low octets where the length allows it.
func v4base(bits int) netip.Addr {
	switch {
	case bits >= 25:
		return netip.AddrFrom4([4]byte{10, byte(bits), 7, 128})
	case bits == 24:
		return netip.AddrFrom4([4]byte{10, 24, 7, 0})
	case bits == 23:
		return netip.AddrFrom4([4]byte{10, 23, 6, 0})
	}
	third := 256 - int(1)<<(24-bits)
	return netip.AddrFrom4([4]byte{10, byte(bits), byte(third), 0}) // the last block of that size in the second octet
}

// v4Geometries: the grid {/30 .. /22} x {gateway first, last, middle, just above host number 255, far above 255}
// x {no reserved range, reserved head and tail, reserved ranges leaving a window around the gateway} plus nRandom
// seeded geometries (length, base, gateway host number, reserved ranges).
func v4Geometries(r *rand.Rand, nRandom int) []v4geom {
	var out []v4geom
	for bits := 30; bits >= 22; bits-- {
		n := 1<<(32-bits) - 2
		type pos struct {
			name string
			h    int
		}
		ps := []pos{{"first", 1}, {"last", n}, {"middle", (n + 1) / 2}}
		if n > 256 {
			ps = append(ps, pos{"above255", 257}, pos{"above255-far", n - 200})
		}
		seen := map[int]bool{}
		for _, p := range ps {
			if seen[p.h] {
				continue
			}
			seen[p.h] = true
			out = append(out, v4geom{bits: bits, base: v4base(bits), gwHost: p.h, gwPos: p.name, res: "none"})
			if n >= 6 {
				k := max(1, n/8)
				out = append(out, v4geom{bits: bits, base: v4base(bits), gwHost: p.h, gwPos: p.name, head: k, tail: k, res: "head-tail"})
			}
			if n > 14 {
				out = append(out, v4geom{bits: bits, base: v4base(bits), gwHost: p.h, gwPos: p.name, head: max(0, p.h-4), tail: max(0, n-p.h-3), res: "window"})
			}
		}
	}
	for i := 0; i < nRandom; i++ {
		bits := 22 + r.IntN(9)
		n := 1<<(32-bits) - 2
		size := uint32(1) << (32 - bits)
		base := netip.AddrFrom4([4]byte{10, byte(100 + r.IntN(100)), 0, 0})
		base = addr4(base, int(size*uint32(r.IntN(int(65536/size)))))
		g := v4geom{bits: bits, base: base, gwHost: 1 + r.IntN(n), gwPos: "random", res: "random"}
		switch r.IntN(3) {
		case 1:
			g.head, g.tail = r.IntN(n/2+1), r.IntN(n/2+1)
		case 2: // a short serving range somewhere in the pool
			lo := r.IntN(n)
			g.head, g.tail = lo, max(0, n-lo-1-r.IntN(12))
		}
		out = append(out, g)
	}
	return out
}

func TestGeometryV4(t *testing.T) {
	geoms := v4Geometries(run.Rand("geom-v4"), run.Pick(16, 120))
	thorough := run.Pick(0, 1) == 1
	// the largest pools first (they take longest), each geometry keeping its own index (random streams, transport)
	order := make([]int, len(geoms))
	for i := range order {
		order[i] = i
	}
	sort.SliceStable(order, func(a, b int) bool { return geoms[order[a]].bits < geoms[order[b]].bits })
	inBubbles(t, len(geoms), 1, func(i int) {
		runV4Geom(geoms[order[i]], order[i], thorough)
	})
}

func runV4Geom(g v4geom, idx int, thorough bool) {
	r := run.SubRand("geom-v4-run", idx)
	tr := []string{"direct", "relay82", "relay"}[idx%3]
	n := g.hosts()
	pfx := netip.PrefixFrom(g.base, g.bits)
	cfg := v4cfg{name: g.name(), cidr: pfx.String(), gateway: addr4(g.base, g.gwHost).String(), clients: 1, hostile: 1,
		transport: []string{tr}, resHead: g.head, resTail: g.tail}
	if n > 30 {
		cfg.stateEvery = n / 8 // the lease table / pool comparison is linear in the pool size: about 8 per walk (and once at the end)
	}
	var w *v4world
	defer func() {
		if w != nil {
			guard(w, "v4/"+cfg.name, recover())
		} else {
			guard(nil, "v4/"+cfg.name, recover())
		}
	}()
	w = newV4World(cfg, r)
	defer w.close()
	m := w.m
	m.counting = true
	m.count("geom_v4_geometries", 1)
	m.distinct("geom_v4_shapes", fmt.Sprintf("/%d gw=%s res=%s", g.bits, g.gwPos, g.res))
	m.count(fmt.Sprintf("geom_v4_prefix_len_%d", g.bits), 1)
	m.count("geom_v4_gateway_"+g.gwPos, 1)
	m.count("geom_v4_reserved_"+g.res, 1)
	if g.gwHost > 255 {
		m.count("geom_v4_gateway_host_number_above_255", 1)
	}

	// (a) direct probes
	type target struct {
		cls string
		a   netip.Addr
	}
	bc := lastAddr(w.prefix)
	tgts := []target{{"gateway", w.gw}, {"network", w.prefix.Addr()}, {"broadcast", bc},
		{"below-pool", w.prefix.Addr().Prev()}, {"above-pool", bc.Next()}}
	if g.head > 0 {
		tgts = append(tgts, target{"reserved-head-first", addr4(g.base, 1)}, target{"reserved-head-last", addr4(g.base, min(g.head, n))})
	}
	if g.tail > 0 {
		tgts = append(tgts, target{"reserved-tail-first", addr4(g.base, max(n-g.tail+1, 1))}, target{"reserved-tail-last", addr4(g.base, n)})
	}
	send := func(c *v4client, kind string, ip net.IP) {
		switch kind {
		case "REQUEST-init-reboot":
			w.request(c, "REQ-PROBE", ip, nil, false)
		case "REQUEST-selecting":
			w.request(c, "REQSEL-PROBE", ip, nil, true)
		case "REQUEST-renew":
			w.request(c, "RENEW-PROBE", nil, ip, false)
		case "DECLINE":
			w.decline(c, "DECLINE-PROBE", ip)
		case "RELEASE":
			w.release(c, "RELEASE-PROBE", ip)
		}
		m.endStep()
	}
	kinds := []string{"REQUEST-init-reboot", "REQUEST-selecting", "REQUEST-renew", "DECLINE", "RELEASE"}
	a := w.clients[0]
	bindA := func() bool {
		if _, ok := m.heldUnexpired(a.name, "", time.Now()); ok {
			return true
		}
		w.discover(a)
		m.endStep()
		if a.lastOffer == nil {
			return false
		}
		w.request(a, "REQ-SELECT", a.lastOffer, nil, true)
		m.endStep()
		_, ok := m.heldUnexpired(a.name, "", time.Now())
		return ok
	}
	probes := 0
	for _, tg := range tgts {
		cls := m.classify(tg.a.String())
		if cls == "" { // e.g. a one-address reserved range that is the gateway's neighbour: a usable address, not a probe target
			continue
		}
		for _, k := range kinds {
			c := w.freshClient()
			c.transport = tr
			send(c, k, ip4(tg.a))
			m.count("geom_v4_probe_"+k+"_names_"+cls+"_by_unknown_client", 1)
			probes++
			if bindA() {
				send(a, k, ip4(tg.a))
				m.count("geom_v4_probe_"+k+"_names_"+cls+"_by_lease_holder", 1)
				probes++
			}
		}
		m.distinct("geom_v4_probe_targets", tg.cls)
		if tg.cls == "gateway" && g.gwHost > 255 {
			m.count("geom_v4_probes_naming_gateway_with_host_number_above_255", len(kinds))
		}
	}
	m.count("geom_v4_probes", probes)
	if v, ok := m.heldUnexpired(a.name, "", time.Now()); ok {
		w.release(a, "RELEASE", net.ParseIP(v).To4())
		m.endStep()
	}

	// (b) fresh clients walk the free list: all of it, or (large pools, quick tier) at least across the slot the
	// gateway would occupy in a list built in address order (computed from the geometry; the margin covers lists
	// that were rotated by the probes' releases)
	slot := 0
	for _, u := range w.usable {
		if u.Less(w.gw) {
			slot++
		}
	}
	full := thorough || len(w.usable) <= 254
	limit := len(w.usable) + 2
	if !full {
		limit = min(limit, slot+8)
		full = limit == len(w.usable)+2
	}
	var got []*v4client
	exhausted := false
	handed := map[string]bool{}
	for i := 0; i < limit; i++ {
		c := w.freshClient()
		c.transport = tr
		w.discover(c)
		m.endStep()
		if c.lastOffer == nil {
			exhausted = true
			break
		}
		got = append(got, c)
		handed[c.lastOffer.String()] = true
		w.request(c, "REQ-SELECT", c.lastOffer, nil, true)
		m.endStep()
	}
	m.count("geom_v4_walk_clients", len(got))
	m.count("geom_v4_distinct_addresses_handed_out_in_walks", len(handed))
	if len(got) > slot || exhausted { // exhausted: the whole list was walked, wherever the gateway's slot would be
		m.count("geom_v4_walks_across_gateway_slot", 1)
		if g.gwHost > 255 {
			m.count("geom_v4_walks_across_gateway_slot_above_255", 1)
		}
	}
	if exhausted {
		m.count("geom_v4_walks_reaching_exhaustion", 1)
		if len(got) > 0 {
			m.cycled("geometry-walk", len(got))
		}
		if len(handed) == len(w.usable) {
			m.count("geom_v4_walks_handing_out_every_usable_address", 1)
		} else if len(handed) < len(w.usable) {
			m.count("geom_v4_walks_handing_out_fewer_than_usable", 1) // allowed: the statement does not require every address to be served
		}
		if g.gwHost > 255 {
			m.count("geom_v4_exhaustive_walks_with_gateway_above_255", 1)
		}
	} else if full {
		m.count("geom_v4_walks_not_exhausting_the_pool", 1)
	} else {
		m.count("geom_v4_partial_walks", 1)
	}
	if exhausted && len(got) > 0 && (thorough || len(w.usable) <= 126) {
		// half of them release (random order), the other half let their leases run out; then the final
		// tick and a second complete walk (finish) judge "available again" and everything else once more
		// (quick tier: pools of up to 126 usable addresses)
		r.Shuffle(len(got), func(i, j int) { got[i], got[j] = got[j], got[i] })
		for _, c := range got[:len(got)/2] {
			if c.lastAck != nil {
				w.release(c, "RELEASE", c.lastAck)
				m.endStep()
			}
		}
		w.step("T:lease+1ns", v4Lease+1)
		m.endStep()
		w.finish()
		m.count("geom_v4_second_walks_after_release_and_expiry", 1)
	}
	w.stateN = cfg.stateEvery - 1
	w.checkState("dhcp.Server.handleRequest")
	m.endStep()
	run.Eval()
	if probes > 0 && (exhausted || len(got) > slot) {
		run.Nontrivial("geom|v4|" + cfg.name + "|" + cfg.cidr + "|" + cfg.gateway + fmt.Sprintf("|%d.%d", g.head, g.tail))
	}
	if idx%23 == 0 {
		h := m.history()
		if len(h) > 30 {
			h = h[:30]
		}
		run.Sample(map[string]any{"kind": "geometry", "config": cfg.name, "pool": cfg.cidr, "gateway": cfg.gateway, "reserved": []int{g.head, g.tail}, "history_head": h})
	}
}

// ---- DHCPv6 -------------------------------------------------------------------

type v6geom struct {
	label    string
	addrPool string
	pdPool   string
	pdLen    uint8
}

func (g v6geom) mode() string {
	switch {
	case g.addrPool != "" && g.pdPool != "":
		return "both"
	case g.pdPool != "":
		return "pd"
	}
	return "na"
}

// v6Geometries: address pools from /64 to /126 (also with non-zero low bits in the base), prefix pools whose
// delegation length lies below, at, across and above /64 (base prefixes up to /120), both kinds together, plus
// nRandom seeded ones.
func v6Geometries(r *rand.Rand, nRandom int) []v6geom {
	out := []v6geom{
		{label: "na-64", addrPool: "2001:db8:a::/64"},
		{label: "na-112", addrPool: "2001:db8:b::5:0/112"},
		{label: "na-120", addrPool: "2001:db8:c::1:ab00/120"},
		{label: "na-124", addrPool: "2001:db8:d::abc0/124"},
		{label: "na-126", addrPool: "2001:db8:e::fffc/126"},
		{label: "pd-48-56", pdPool: "2001:db8:100::/48", pdLen: 56},
		{label: "pd-56-60", pdPool: "2001:db8:a1:4500::/56", pdLen: 60},
		{label: "pd-60-64", pdPool: "2001:db8:a2:ab10::/60", pdLen: 64},
		{label: "pd-64-68", pdPool: "2001:db8:a3:ab11::/64", pdLen: 68},
		{label: "pd-64-72", pdPool: "2001:db8:a4:ab12::/64", pdLen: 72},
		{label: "pd-120-124", pdPool: "2001:db8:a5::1:2:3:ab00/120", pdLen: 124},
		{label: "pd-60-68", pdPool: "2001:db8:a6:ab20::/60", pdLen: 68},
		{label: "pd-62-66", pdPool: "2001:db8:a7:ab24::/62", pdLen: 66},
		{label: "pd-63-65", pdPool: "2001:db8:a8:ab26::/63", pdLen: 65},
		{label: "pd-72-80", pdPool: "2001:db8:a9:1:ff00::/72", pdLen: 80},
		{label: "pd-96-104", pdPool: "2001:db8:aa:1:2:3::/96", pdLen: 104},
		{label: "pd-44-56", pdPool: "2001:db8:b0::/44", pdLen: 56},
		{label: "pd-126-128", pdPool: "2001:db8:ab::fff4/126", pdLen: 128},
		{label: "both-120-64-68", addrPool: "2001:db8:c1::7:ab00/120", pdPool: "2001:db8:c2:ab11::/64", pdLen: 68},
		{label: "both-124-56-60", addrPool: "2001:db8:c3::abc0/124", pdPool: "2001:db8:c4:4500::/56", pdLen: 60},
		{label: "both-64-120-124", addrPool: "2001:db8:c5::/64", pdPool: "2001:db8:c6::9:ab00/120", pdLen: 124},
	}
	for i := 0; i < nRandom; i++ {
		var b [16]byte
		for j := range b {
			b[j] = byte(r.IntN(256))
		}
		b[0], b[1], b[2], b[3] = 0x20, 0x01, 0x0d, 0xb8
		a := netip.AddrFrom16(b)
		if r.IntN(3) == 0 {
			bits := 100 + r.IntN(27) // /100 .. /126
			out = append(out, v6geom{label: fmt.Sprintf("na-%d-random", bits), addrPool: netip.PrefixFrom(a, bits).Masked().String()})
			continue
		}
		bits := 40 + r.IntN(84)                   // /40 .. /123
		dl := bits + 1 + r.IntN(min(8, 128-bits)) // 1 .. 8 index bits
		out = append(out, v6geom{label: fmt.Sprintf("pd-%d-%d-random", bits, dl), pdPool: netip.PrefixFrom(a, bits).Masked().String(), pdLen: uint8(dl)})
	}
	return out
}

func TestGeometryV6(t *testing.T) {
	needSocks(t)
	geoms := v6Geometries(run.Rand("geom-v6"), run.Pick(12, 100))
	thorough := run.Pick(0, 1) == 1
	inBubbles(t, len(geoms), 1, func(i int) {
		runV6Geom(geoms[i], i, thorough)
	})
}

func lastAddr6(p netip.Prefix) netip.Addr {
	b := p.Addr().As16()
	for i := p.Bits(); i < 128; i++ {
		b[i/8] |= 1 << (7 - i%8)
	}
	return netip.AddrFrom16(b)
}

func ipnet6(p netip.Prefix) *net.IPNet {
	b := p.Addr().As16()
	return &net.IPNet{IP: net.IP(b[:]), Mask: net.CIDRMask(p.Bits(), 128)}
}

func ip6(a netip.Addr) net.IP { b := a.As16(); return net.IP(b[:]) }

func runV6Geom(g v6geom, idx int, thorough bool) {
	r := run.SubRand("geom-v6-run", idx)
	cfg := v6cfg{name: "geom/" + g.label, addrPool: g.addrPool, pdPool: g.pdPool, pdLen: g.pdLen, mode: g.mode(), clients: 1, hostile: 1, walkCap: 1200}
	var w *v6world
	defer func() {
		if w != nil {
			guard(w, "v6/"+cfg.name, recover())
		} else {
			guard(nil, "v6/"+cfg.name, recover())
		}
	}()
	w = newV6World(cfg, r)
	defer w.close()
	if sz := min(max(w.nAddr, w.nPfx), 1000); sz > 30 {
		w.cfg.stateEvery = sz / 8
	}
	m := w.m
	m.counting = true
	m.count("geom_v6_geometries", 1)
	m.count("geom_v6_mode_"+cfg.mode, 1)
	if w.addrNet.IsValid() {
		m.distinct("geom_v6_address_pool_lengths", fmt.Sprint(w.addrNet.Bits()))
		if w.addrNet.Bits() > 64 {
			m.count("geom_v6_address_pools_longer_than_64", 1)
		}
	}
	side := ""
	if w.pdNet.IsValid() {
		m.distinct("geom_v6_delegation_shapes", fmt.Sprintf("/%d->/%d", w.pdNet.Bits(), g.pdLen))
		switch {
		case g.pdLen <= 64:
			side = "at_or_below_64"
		case w.pdNet.Bits() < 64:
			side = "across_64"
		default:
			side = "above_64"
		}
		m.count("geom_v6_delegation_"+side, 1)
	}

	// (a) direct probes: every message type that can name a value, naming the pool's base address, the addresses just
	// outside it, the prefix pool itself, the blocks just outside it and a longer prefix inside it
	type target struct {
		cls string
		o   v6over
	}
	var tgts []target
	if w.addrNet.IsValid() {
		tgts = append(tgts, target{"na-network", v6over{na: ip6(w.addrNet.Addr())}},
			target{"na-below-pool", v6over{na: ip6(w.addrNet.Addr().Prev())}},
			target{"na-above-pool", v6over{na: ip6(lastAddr6(w.addrNet).Next())}})
	}
	if w.pdNet.IsValid() {
		tgts = append(tgts, target{"pd-the-pool-itself", v6over{pd: ipnet6(w.pdNet)}},
			target{"pd-block-above-pool", v6over{pd: ipnet6(netip.PrefixFrom(lastAddr6(w.pdNet).Next(), int(g.pdLen)))}},
			target{"pd-block-below-pool", v6over{pd: ipnet6(netip.PrefixFrom(w.pdNet.Addr().Prev(), int(g.pdLen)).Masked())}})
		if g.pdLen <= 124 {
			tgts = append(tgts, target{"pd-longer-prefix-inside", v6over{pd: ipnet6(netip.PrefixFrom(w.pdNet.Addr(), int(g.pdLen)+3))}})
		}
	}
	type mk struct {
		name string
		mt   d6.MessageType
		sid  bool
	}
	kinds := []mk{{"REQUEST", d6.MessageTypeRequest, true}, {"RENEW", d6.MessageTypeRenew, true}, {"REBIND", d6.MessageTypeRebind, false},
		{"CONFIRM", d6.MessageTypeConfirm, false}, {"DECLINE", d6.MessageTypeDecline, true}, {"RELEASE", d6.MessageTypeRelease, true}}
	a := w.clients[0]
	holdsAll := func() bool {
		for _, k := range w.kinds() {
			if _, ok := m.heldUnexpired(a.name, k, time.Now()); !ok {
				return false
			}
		}
		return true
	}
	bindA := func() bool {
		if holdsAll() {
			return true
		}
		w.msg(a, "SOLICIT", d6.MessageTypeSolicit, w.sid, false)
		m.endStep()
		w.msg(a, "REQUEST", d6.MessageTypeRequest, w.sid, false)
		m.endStep()
		return holdsAll()
	}
	send := func(c *v6client, k mk, o v6over) {
		ov := o
		w.ov = &ov
		var sid d6.DUID
		if k.sid {
			sid = w.sid
		}
		w.msg(c, k.name+"-PROBE", k.mt, sid, false)
		m.endStep()
	}
	probes := 0
	for _, tg := range tgts {
		for _, k := range kinds {
			if k.mt == d6.MessageTypeDecline && tg.o.na == nil {
				continue // a Decline names addresses only
			}
			send(w.freshClient(), k, tg.o)
			m.count("geom_v6_probe_"+k.name+"_names_"+tg.cls, 1)
			m.count("geom_v6_probes_by_unknown_client", 1)
			probes++
			if bindA() {
				send(a, k, tg.o)
				m.count("geom_v6_probe_"+k.name+"_names_"+tg.cls, 1)
				m.count("geom_v6_probes_by_lease_holder", 1)
				probes++
			}
		}
		m.distinct("geom_v6_probe_targets", tg.cls)
	}
	m.count("geom_v6_probes", probes)
	if holdsAll() {
		w.msg(a, "RELEASE", d6.MessageTypeRelease, w.sid, false)
		m.endStep()
	}

	// (b) fresh clients walk the pools (SOLICIT + REQUEST, every fourth by rapid commit) until the server has nothing left
	size := max(w.nAddr, w.nPfx)
	limit := min(size, 1100) + 2
	full := thorough || size <= 256
	if !full {
		limit = min(limit, 300)
	}
	var got []*v6client
	exhausted := false
	for i := 0; i < limit; i++ {
		c := w.freshClient()
		if i%4 == 3 {
			w.msg(c, "SOLICIT-RC", d6.MessageTypeSolicit, nil, true)
			m.endStep()
		} else {
			w.msg(c, "SOLICIT", d6.MessageTypeSolicit, w.sid, false)
			m.endStep()
		}
		if c.lastAddr == nil && c.lastPfx == nil {
			exhausted = true
			break
		}
		got = append(got, c)
		if i%4 != 3 {
			w.msg(c, "REQUEST", d6.MessageTypeRequest, w.sid, false)
			m.endStep()
		}
	}
	m.count("geom_v6_walk_clients", len(got))
	if side != "" {
		m.count("geom_v6_walk_clients_delegation_"+side, len(got))
	}
	// all delegated prefixes (and addresses) held at this moment are pairwise disjoint: judged on the decoded replies
	now := time.Now()
	var pds []netip.Prefix
	holderOf := map[netip.Prefix]string{}
	for c, ks := range m.bound {
		if b, ok := ks["pd"]; ok && now.Before(b.exp) {
			if p, err := netip.ParsePrefix(b.v[3:]); err == nil {
				if o, dup := holderOf[p]; dup && o != c {
					continue // the same value twice: reported by ack-unique when it happened
				}
				holderOf[p] = c
				pds = append(pds, p)
			}
		}
	}
	sort.Slice(pds, func(i, j int) bool {
		if c := pds[i].Addr().Compare(pds[j].Addr()); c != 0 {
			return c < 0
		}
		return pds[i].Bits() < pds[j].Bits()
	})
	for i := 1; i < len(pds); i++ {
		if pds[i-1].Overlaps(pds[i]) && pds[i-1] != pds[i] {
			m.viol("dhcpv6.Server.handleRequest", "ack-unique", "overlapping-prefixes", "pd:"+pds[i].String(),
				"%s is delegated to %s while the overlapping %s is delegated to %s", pds[i], holderOf[pds[i]], pds[i-1], holderOf[pds[i-1]])
		}
	}
	m.endStep()
	m.count("geom_v6_delegated_prefixes_compared_pairwise", len(pds))
	if len(pds) >= 2 {
		m.count("geom_v6_walks_with_two_or_more_delegations", 1)
		if side != "" {
			m.count("geom_v6_walks_with_two_or_more_delegations_"+side, 1)
		}
	}
	if exhausted {
		m.count("geom_v6_walks_reaching_exhaustion", 1)
		if len(got) > 0 {
			m.cycled("geometry-walk", len(got))
		}
	} else if full {
		m.count("geom_v6_walks_not_exhausting_the_pool", 1)
	} else {
		m.count("geom_v6_partial_walks", 1)
	}
	if exhausted {
		r.Shuffle(len(got), func(i, j int) { got[i], got[j] = got[j], got[i] })
		for _, c := range got[:len(got)/2] {
			w.msg(c, "RELEASE", d6.MessageTypeRelease, w.sid, false)
			m.endStep()
		}
		w.step("T:valid+1ns", v6Valid*time.Second+1)
		m.endStep()
		w.finish()
		m.count("geom_v6_second_walks_after_release_and_expiry", 1)
	}
	w.stateN = w.cfg.stateEvery - 1
	w.checkState("dhcpv6.Server.handleRequest")
	m.endStep()
	run.Eval()
	if probes > 0 && len(got) >= 2 {
		run.Nontrivial("geom|v6|" + cfg.name + "|" + g.addrPool + "|" + g.pdPool + fmt.Sprintf("|%d", g.pdLen))
	}
	if idx%11 == 0 {
		h := m.history()
		if len(h) > 30 {
			h = h[:30]
		}
		run.Sample(map[string]any{"kind": "geometry", "config": cfg.name, "address_pool": g.addrPool, "prefix_pool": g.pdPool, "delegation_length": g.pdLen, "history_head": h})
	}
}
