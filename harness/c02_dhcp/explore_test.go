package c02

import (
	"fmt"
	"hash/fnv"
	"math/rand/v2"
	"runtime"
	"runtime/debug"
	"strings"
	"sync"
	"sync/atomic"
	"testing"
	"testing/synctest"
)

// world is one server instance plus its reference table, living inside a synctest bubble.
type world interface {
	nsyms() int
	symName(i int) string
	apply(i int) bool      // perform symbol i (message or time step), judge; false = not applicable in this state
	pick(r *rand.Rand) int // weighted symbol choice for random walks
	fingerprint() string   // lease table + pool snapshot + reference table + client memory + time offsets
	finish()               // 61 s step, drain with fresh clients, judge "available again"
	close()
	monitor() *mon
}

type factory struct {
	name string
	make func(r *rand.Rand) world // called inside the bubble
}

func h64(s string) uint64 {
	h := fnv.New64a()
	h.Write([]byte(s))
	return h.Sum64()
}

// inBubbles runs fn(i) for i in [0,n) inside synctest bubbles, batch indices per bubble, on all cores.
// Bubbles run concurrently: the DHCP handlers never call sync.WaitGroup.Add (go1.25.0 restriction).
func inBubbles(t *testing.T, n, batch int, fn func(i int)) {
	var next atomic.Int64
	var wg sync.WaitGroup
	for w := 0; w < runtime.NumCPU(); w++ {
		wg.Add(1)
		go func() {
			defer wg.Done()
			for {
				lo := int(next.Add(int64(batch))) - batch
				if lo >= n {
					return
				}
				hi := min(lo+batch, n)
				synctest.Test(t, func(t *testing.T) {
					for i := lo; i < hi; i++ {
						fn(i)
					}
				})
			}
		}()
	}
	wg.Wait()
}

// guard turns a panic of the code under test into a violation instead of killing the run.
func guard(w world, where string, r any) {
	if r != nil {
		st := string(debug.Stack())
		frame := "unknown"
		for _, l := range strings.Split(st, "\n") {
			if strings.Contains(l, "github.com/codelaboratoryltd/bng/pkg/") && !strings.Contains(l, "Verif") {
				frame = strings.TrimSpace(l)
				if i := strings.LastIndex(frame, "("); i > 0 {
					frame = frame[:i]
				}
				frame = frame[strings.LastIndex(frame, "/")+1:]
				break
			}
		}
		var h []string
		if w != nil {
			h = append(h, w.monitor().history()...)
		}
		run.Violation(frame, "handler-panic", fmt.Sprint(r), fmt.Sprintf("panic in %s: %v", where, r), map[string]any{"history": h, "stack": st})
	}
}

type bfsStats struct{ executed, applicable, states int }

// bfs explores all histories over the world's alphabet breadth-first to the given depth; a
// history is extended only if its end state (fingerprint) was not reached before. Every
// history is re-executed from a fresh server (the server cannot be cloned).
func bfs(t *testing.T, f factory, depth, capPerLevel int) bfsStats {
	var st bfsStats
	nsym := 0
	rootFP := ""
	synctest.Test(t, func(t *testing.T) {
		w := f.make(nil)
		nsym = w.nsyms()
		rootFP = w.fingerprint()
		w.close()
	})
	seen := map[uint64]bool{h64(rootFP): true}
	var finished sync.Map
	run.Distinct("states", f.name+"|"+rootFP)
	frontier := [][]uint8{{}}
	fps := []uint64{h64(rootFP)} // fingerprint of each frontier node's end state
	type res struct {
		ok bool
		fp uint64
	}
	for lvl := 1; lvl <= depth && len(frontier) > 0; lvl++ {
		n := len(frontier) * nsym
		results := make([]res, n)
		inBubbles(t, n, 128, func(i int) {
			h, a := frontier[i/nsym], i%nsym
			var w world
			defer func() { guard(w, f.name, recover()) }()
			w = f.make(nil)
			defer w.close()
			m := w.monitor()
			for _, s := range h {
				w.apply(int(s))
			}
			m.counting = true
			if !w.apply(a) {
				return
			}
			fp := w.fingerprint()
			results[i] = res{true, h64(fp)}
			run.Eval()
			// the end-of-history phase is a function of the state: run it once per distinct state
			if _, done := finished.LoadOrStore(h64(f.name+"|"+fp), true); !done {
				w.finish()
				m.count("end_of_history_drains", 1)
			}
			run.Distinct("states", f.name+"|"+fp)
			run.Distinct("state_event_pairs", fmt.Sprintf("%s|%x|%d", f.name, fps[i/nsym], a))
			if m.nontriv {
				run.Nontrivial(fmt.Sprintf("%s|%v|%d", f.name, h, a))
				run.Count("nontrivial_histories", 1)
				if lvl >= 3 && i%97 == 0 {
					run.Sample(map[string]any{"kind": "bfs", "config": f.name, "history": m.history()})
				}
			}
		})
		var next [][]uint8
		var nextFP []uint64
		for i, r := range results {
			st.executed++
			if !r.ok {
				continue
			}
			st.applicable++
			if seen[r.fp] {
				continue
			}
			seen[r.fp] = true
			h := frontier[i/nsym]
			nh := make([]uint8, len(h)+1)
			copy(nh, h)
			nh[len(h)] = uint8(i % nsym)
			next = append(next, nh)
			nextFP = append(nextFP, r.fp)
		}
		if lvl < depth && len(next) > capPerLevel {
			// deterministic subsample of the frontier (count-defined tier bound); the dropped states are reported
			r := run.SubRand("bfs-cap-"+f.name, lvl)
			r.Shuffle(len(next), func(i, j int) { next[i], next[j] = next[j], next[i]; nextFP[i], nextFP[j] = nextFP[j], nextFP[i] })
			run.Count("bfs_frontier_states_not_extended", len(next)-capPerLevel)
			next, nextFP = next[:capPerLevel], nextFP[:capPerLevel]
		}
		run.Count(fmt.Sprintf("bfs_new_states_depth_%d", lvl), len(next))
		frontier, fps = next, nextFP
	}
	st.states = len(seen)
	run.Count("bfs_histories_executed", st.applicable)
	run.Count("bfs_symbols_not_applicable", st.executed-st.applicable)
	return st
}

// walks runs n seeded random histories of length lo..hi.
func walks(t *testing.T, f factory, tag string, n, lo, hi int) {
	inBubbles(t, n, 8, func(i int) {
		r := run.SubRand(tag+"-"+f.name, i)
		var w world
		defer func() { guard(w, f.name, recover()) }()
		w = f.make(r)
		defer w.close()
		m := w.monitor()
		m.counting = true
		steps := lo + r.IntN(hi-lo+1)
		for s := 0; s < steps; s++ {
			a := w.pick(r)
			before := ""
			if s%8 == 7 {
				before = w.fingerprint()
			}
			if !w.apply(a) {
				continue
			}
			if before != "" {
				run.Distinct("state_event_pairs", fmt.Sprintf("%s|%x|%d", f.name, h64(before), a))
				run.Distinct("states", f.name+"|"+w.fingerprint())
			}
		}
		w.finish()
		run.Eval()
		run.Count("random_walks", 1)
		run.Count("random_walk_steps", steps)
		if m.nontriv {
			run.Nontrivial(fmt.Sprintf("%s|%s|%d", tag, f.name, i))
			run.Count("nontrivial_histories", 1)
		}
		if i == 0 {
			h := m.history()
			if len(h) > 40 {
				h = h[:40]
			}
			run.Sample(map[string]any{"kind": "random-walk", "config": f.name, "history_head": h})
		}
	})
}
