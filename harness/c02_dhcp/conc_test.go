package c02

import (
	"fmt"
	"net"
	"runtime"
	"sort"
	"sync"
	"sync/atomic"
	"testing"
	"testing/synctest"
	"time"

	"github.com/codelaboratoryltd/bng/pkg/dhcp"
	"github.com/codelaboratoryltd/bng/pkg/ebpf"
	"github.com/insomniacslk/dhcp/dhcpv4"
	"go.uber.org/zap"
)

// plain4 is a minimal DHCPv4 client used by the concurrent parts: one exchange through the real handler.
type plain4 struct {
	srv *dhcp.Server
	gw  net.IP
}

func newPlainServer(cidr, gw string, lease time.Duration) (*dhcp.Server, *dhcp.Pool) {
	lg := zap.NewNop()
	loader, err := ebpf.NewLoader("lo", lg)
	if err != nil {
		panic(err)
	}
	pm := dhcp.NewPoolManager(nil, lg)
	pool, err := dhcp.NewPool(dhcp.PoolConfig{ID: 1, Name: "p", Network: cidr, Gateway: gw, DNSServers: []string{"9.9.9.9"}, LeaseTime: lease, ClientClass: dhcp.ClientClassResidential})
	if err != nil {
		panic(err)
	}
	if err := pm.AddPool(pool); err != nil {
		panic(err)
	}
	srv, err := dhcp.NewServer(dhcp.ServerConfig{Interface: "lo", ServerIP: net.ParseIP(gw)}, loader, pm, lg)
	if err != nil {
		panic(err)
	}
	return srv, pool
}

func (p *plain4) send(mac net.HardwareAddr, mt dhcpv4.MessageType, reqIP, ciaddr net.IP) *dhcpv4.DHCPv4 {
	mods := []dhcpv4.Modifier{dhcpv4.WithMessageType(mt), dhcpv4.WithHwAddr(mac)}
	if reqIP != nil {
		mods = append(mods, dhcpv4.WithOption(dhcpv4.OptRequestedIPAddress(reqIP)), dhcpv4.WithOption(dhcpv4.OptServerIdentifier(p.gw)))
	}
	if ciaddr != nil {
		mods = append(mods, dhcpv4.WithClientIP(ciaddr))
	}
	pk, err := dhcpv4.New(mods...)
	if err != nil {
		panic(err)
	}
	req, err := dhcpv4.FromBytes(pk.ToBytes())
	if err != nil {
		panic(err)
	}
	conn := &capConn{}
	p.srv.VerifC02HandleDHCP(conn, &net.UDPAddr{IP: net.IPv4zero, Port: 68}, req)
	pkts, _ := conn.take()
	if len(pkts) == 0 {
		return nil
	}
	rep, err := dhcpv4.FromBytes(pkts[0])
	if err != nil {
		return nil
	}
	return rep
}

// TestV4Concurrent: the handlers are called from several goroutines at once (server4 starts one
// goroutine per packet) while the cleanup sweep runs; well-behaved clients only, more clients
// than addresses. Judged: two clients never hold an acknowledged, unreleased binding on one
// address at the same time (intervals stamped by one atomic counter: from the return of the ACK
// to the sending of the RELEASE), and at quiescence lease table, pool and clients agree.
func TestV4Concurrent(t *testing.T) {
	if !childMode() {
		runInChild(t, "TestV4Concurrent")
		return
	}
	runs := run.Pick(24, 300)
	for r := 0; r < runs; r++ {
		rng := run.SubRand("conc", r)
		cidr, usable := "10.0.0.0/29", 5
		if r%3 == 1 {
			cidr, usable = "10.0.0.0/28", 13
		}
		G := []int{4, 6, 8}[r%3]
		perG := 2
		srv, pool := newPlainServer(cidr, "10.0.0.1", time.Hour)
		pc := &plain4{srv: srv, gw: net.ParseIP("10.0.0.1")}
		var stamp atomic.Int64
		type hold struct {
			client   string
			ip       string
			from, to int64
		}
		var mu sync.Mutex
		var holds []hold
		final := map[string]string{} // client -> ip still held at the end
		var wg sync.WaitGroup
		stop := make(chan struct{})
		var sweeps atomic.Int64
		go func() { // the cleanup sweep, concurrently with the handlers (nothing is expired: it must not remove anything)
			for {
				select {
				case <-stop:
					return
				default:
					srv.VerifC02CleanupExpired()
					srv.VerifC02Leases()
					sweeps.Add(1)
				}
			}
		}()
		seeds := make([]uint64, G)
		for g := range seeds {
			seeds[g] = rng.Uint64()
		}
		var ops atomic.Int64
		for g := 0; g < G; g++ {
			wg.Add(1)
			go func(g int) {
				defer wg.Done()
				x := seeds[g] | 1
				next := func(n int) int { x ^= x << 13; x ^= x >> 7; x ^= x << 17; return int(x>>33) % n }
				type cl struct {
					mac   net.HardwareAddr
					name  string
					offer net.IP
					held  net.IP
					from  int64
				}
				var cls []*cl
				for i := 0; i < perG; i++ {
					cls = append(cls, &cl{mac: net.HardwareAddr{0x02, 0xc0, 0x0c, 0, byte(g), byte(i)}, name: fmt.Sprintf("g%dc%d", g, i)})
				}
				for op := 0; op < 40; op++ {
					c := cls[next(len(cls))]
					ops.Add(1)
					switch {
					case c.held != nil && next(3) == 0: // renew
						rep := pc.send(c.mac, dhcpv4.MessageTypeRequest, nil, c.held)
						if rep == nil || rep.MessageType() != dhcpv4.MessageTypeAck || !rep.YourIPAddr.Equal(c.held) {
							cviol("dhcp.Server.handleRequest", "renew-same-value", "renew-refused/concurrent", fmt.Sprintf("%s renewing %s got %v", c.name, c.held, rep), nil)
						}
					case c.held != nil: // release
						to := stamp.Add(1)
						pc.send(c.mac, dhcpv4.MessageTypeRelease, nil, c.held)
						mu.Lock()
						holds = append(holds, hold{c.name, c.held.String(), c.from, to})
						mu.Unlock()
						c.held, c.offer = nil, nil
					case c.offer != nil: // request the offered address
						rep := pc.send(c.mac, dhcpv4.MessageTypeRequest, c.offer, nil)
						if rep != nil && rep.MessageType() == dhcpv4.MessageTypeAck && !rep.YourIPAddr.IsUnspecified() {
							c.held, c.from = rep.YourIPAddr.To4(), stamp.Add(1)
						}
						c.offer = nil
					default:
						rep := pc.send(c.mac, dhcpv4.MessageTypeDiscover, nil, nil)
						if rep != nil && rep.MessageType() == dhcpv4.MessageTypeOffer {
							c.offer = rep.YourIPAddr.To4()
						}
					}
				}
				mu.Lock()
				for _, c := range cls {
					if c.held != nil {
						holds = append(holds, hold{c.name, c.held.String(), c.from, 1 << 62})
						final[c.mac.String()] = c.held.String()
					}
				}
				mu.Unlock()
			}(g)
		}
		wg.Wait()
		close(stop)
		// judge overlaps
		sort.Slice(holds, func(i, j int) bool { return holds[i].from < holds[j].from })
		owners := map[string]map[string]bool{}
		for i, a := range holds {
			if owners[a.ip] == nil {
				owners[a.ip] = map[string]bool{}
			}
			owners[a.ip][a.client] = true
			for _, b := range holds[i+1:] {
				if b.from >= a.to {
					break
				}
				if b.ip == a.ip && b.client != a.client {
					cviol("dhcp.Server.handleRequest", "ack-unique", "concurrent-overlapping-bindings",
						fmt.Sprintf("%s and %s both held %s (acknowledged, not released) at the same time", a.client, b.client, a.ip),
						map[string]any{"a": fmt.Sprintf("%+v", a), "b": fmt.Sprintf("%+v", b), "goroutines": G, "pool": cidr})
				}
			}
		}
		changed := 0
		for _, o := range owners {
			if len(o) > 1 {
				changed++
			}
		}
		// quiescent state: every client still holding is in the lease table with that address, which is its pool allocation
		leases := map[string]string{}
		for _, l := range srv.VerifC02Leases() {
			leases[l.MAC] = l.IP.String()
		}
		snap := pool.VerifC02Snapshot()
		for mac, ip := range final {
			if leases[mac] != ip {
				cviol("dhcp.Server.handleRequest", "lease-pool-consistency", "binding-without-lease/concurrent", fmt.Sprintf("client %s holds %s but the lease table says %q", mac, ip, leases[mac]), nil)
			}
			if a, ok := snap.Allocated[mac]; !ok || a.String() != ip {
				cviol("dhcp.Server.handleRequest", "lease-pool-consistency", "lease-without-pool-allocation/concurrent", fmt.Sprintf("client %s holds %s but the pool says %v", mac, ip, a), nil)
			}
		}
		seen := map[string]bool{}
		for _, ip := range snap.Allocated {
			if seen[ip.String()] {
				cviol("dhcp.Pool", "lease-pool-consistency", "pool-allocated-twice/concurrent", ip.String()+" allocated twice", nil)
			}
			seen[ip.String()] = true
		}
		for _, ip := range snap.Available {
			if seen[ip.String()] {
				cviol("dhcp.Pool", "lease-pool-consistency", "pool-available-and-allocated/concurrent", ip.String()+" available and allocated / twice", nil)
			}
			seen[ip.String()] = true
		}
		if len(seen) != usable {
			cviol("dhcp.Pool", "lease-pool-consistency", "pool-lost-addresses/concurrent", fmt.Sprintf("pool has %d of %d usable addresses after the run", len(seen), usable), nil)
		}
		ceval()
		ccount("concurrent_runs", 1)
		ccount("concurrent_handler_calls", int(ops.Load()))
		ccount("concurrent_cleanup_sweeps", int(sweeps.Load()))
		ccount("concurrent_bindings_observed", len(holds))
		ccount("concurrent_addresses_that_changed_owner", changed)
		if changed > 0 {
			cnontriv(fmt.Sprintf("conc-%d", r))
		}
	}
}

// TestV4CleanupVsRenewal: many leases lapse, the cleanup sweep starts, and at the same moment some of
// those clients renew (late). Whatever the schedule, a client that was acknowledged must afterwards be
// in the lease table with that address allocated to it in the pool.
func TestV4CleanupVsRenewal(t *testing.T) {
	if !childMode() {
		runInChild(t, "TestV4CleanupVsRenewal")
		return
	}
	trials := run.Pick(12, 200)
	const nClients = 800
	var lost, renewedAfter, renewedBefore atomic.Int64
	inBubbles(t, trials, 1, func(trial int) {
		lease := 120 * time.Second
		srv, pool := newPlainServer("10.8.0.0/22", "10.8.0.1", lease)
		pc := &plain4{srv: srv, gw: net.ParseIP("10.8.0.1")}
		macs := make([]net.HardwareAddr, nClients)
		ips := make([]net.IP, nClients)
		for i := range macs {
			macs[i] = net.HardwareAddr{0x02, 0xc0, 0x0d, 0, byte(i >> 8), byte(i)}
			off := pc.send(macs[i], dhcpv4.MessageTypeDiscover, nil, nil)
			if off == nil {
				panic("no offer")
			}
			ack := pc.send(macs[i], dhcpv4.MessageTypeRequest, off.YourIPAddr, nil)
			if ack == nil || ack.MessageType() != dhcpv4.MessageTypeAck {
				panic("no ack")
			}
			ips[i] = ack.YourIPAddr.To4()
		}
		time.Sleep(lease + 1) // every lease has lapsed; no sweep has seen them yet
		r := run.SubRand("cleanup-vs-renew", trial)
		var renewers, spins []int
		for k := 0; k < 8; k++ {
			renewers = append(renewers, (k*nClients/8+r.IntN(nClients/8))%nClients) // distinct clients
			spins = append(spins, r.IntN(400))
		}
		done := make(chan [2]any, len(renewers)+1)
		var started atomic.Bool
		go func() { started.Store(true); srv.VerifC02CleanupExpired(); done <- [2]any{-1, nil} }()
		for k, i := range renewers {
			go func(i, spin int) {
				for !started.Load() { // arrive while the sweep is running, at a seeded offset
					runtime.Gosched()
				}
				for ; spin > 0; spin-- {
					runtime.Gosched()
				}
				rep := pc.send(macs[i], dhcpv4.MessageTypeRequest, nil, ips[i])
				done <- [2]any{i, rep}
			}(i, spins[k])
		}
		acked := map[int]bool{}
		for range len(renewers) + 1 {
			d := <-done
			if i := d[0].(int); i >= 0 {
				if rep, _ := d[1].(*dhcpv4.DHCPv4); rep != nil && rep.MessageType() == dhcpv4.MessageTypeAck && rep.YourIPAddr.Equal(ips[i]) {
					acked[i] = true
				}
			}
		}
		synctest.Wait()
		leases := map[string]string{}
		for _, l := range srv.VerifC02Leases() {
			leases[l.MAC] = l.IP.String()
		}
		snap := pool.VerifC02Snapshot()
		for i := range acked {
			mac, ip := macs[i].String(), ips[i].String()
			a, inPool := snap.Allocated[mac]
			switch {
			case leases[mac] != ip:
				lost.Add(1)
				cviol("dhcp.Server.cleanupExpiredLeases", "lease-pool-consistency", "renewed-lease-removed-by-concurrent-sweep",
					fmt.Sprintf("client %d renewed %s (ACK) while the expiry sweep ran; afterwards the lease table has %q for it", i, ip, leases[mac]),
					map[string]any{"clients_with_lapsed_leases": nClients, "renewer": i, "ip": ip})
			case !inPool || a.String() != ip:
				// the sweep won: the renewal was handled as a new session; judged by the sequential part (REQUEST without pool allocation)
				renewedAfter.Add(1)
			default:
				renewedBefore.Add(1)
			}
		}
		ceval()
		ccount("cleanup_vs_renewal_trials", 1)
	})
	ccount("cleanup_vs_renewal_lease_lost", int(lost.Load()))
	ccount("cleanup_vs_renewal_renewed_after_sweep", int(renewedAfter.Load()))
	ccount("cleanup_vs_renewal_renewed_before_or_kept", int(renewedBefore.Load()))
	if lost.Load() > 0 || (renewedAfter.Load() > 0 && renewedBefore.Load() > 0) {
		cnontriv("cleanup-vs-renewal-both-orders")
	}
}
