package c02

import (
	"context"
	"encoding/hex"
	"fmt"
	"math/rand/v2"
	"net"
	"net/netip"
	"sort"
	"strings"
	"sync"
	"testing/synctest"
	"time"

	"github.com/codelaboratoryltd/bng/pkg/dhcp"
	"github.com/codelaboratoryltd/bng/pkg/ebpf"
	"github.com/insomniacslk/dhcp/dhcpv4"
	"github.com/insomniacslk/dhcp/iana"
	"go.uber.org/zap"
)

const (
	v4Lease    = 120 * time.Second
	cleanupGap = 61 * time.Second // one period of the server's cleanup ticker plus a second
	// offerWindow: the longest an OFFER is judged as outstanding (nobody else may be acknowledged the address):
	// one lease time (DESIGN 5b), but never more than two minutes, so that with lease times of hours a server
	// that reclaims unrequested offers after minutes (the DHCPv4 server documents a hold of two minutes) is not flagged
	offerWindow = 2 * time.Minute
	threeTicks  = 3*time.Minute + time.Second // three periods of the cleanup ticker plus a second: beyond any offer window
)

// the hardware-address lengths fresh clients cycle through (BOOTP hlen 1..16 is legal; Ethernet, AX.25, IEEE 1394,
// EUI-64, Frame Relay) and the hardware type sent with each
var freshHwLens = []int{6, 7, 16, 8, 3}

func hwTypeFor(n int) iana.HWType {
	switch n {
	case 6:
		return iana.HWTypeEthernet
	case 7:
		return iana.HWTypeAmateurRadioAX25
	case 8:
		return iana.HWTypeEUI64
	case 16:
		return iana.HWTypeIEEE1394
	}
	return iana.HWTypeFrameRelay
}

// hwAddr builds a hardware address of n octets (3 <= n <= 16) that is unique per (n, group, id).
func hwAddr(n int, group byte, id int) net.HardwareAddr {
	a := make(net.HardwareAddr, n)
	a[0] = 0x02 | group<<4
	for i := 1; i < n-2; i++ {
		a[i] = byte(0xc0 + i)
	}
	a[n-2], a[n-1] = byte(id>>8), byte(id)
	return a
}

// capConn is the net.PacketConn handed to the handler; it records what the server writes.
type capConn struct {
	mu   sync.Mutex
	pkts [][]byte
	dsts []net.Addr
}

func (c *capConn) WriteTo(b []byte, a net.Addr) (int, error) {
	c.mu.Lock()
	c.pkts = append(c.pkts, append([]byte(nil), b...))
	c.dsts = append(c.dsts, a)
	c.mu.Unlock()
	return len(b), nil
}
func (c *capConn) take() ([][]byte, []net.Addr) {
	c.mu.Lock()
	defer c.mu.Unlock()
	p, d := c.pkts, c.dsts
	c.pkts, c.dsts = nil, nil
	return p, d
}
func (c *capConn) ReadFrom([]byte) (int, net.Addr, error) { return 0, nil, net.ErrClosed }
func (c *capConn) Close() error                           { return nil }
func (c *capConn) LocalAddr() net.Addr                    { return &net.UDPAddr{IP: net.IPv4zero, Port: 67} }
func (c *capConn) SetDeadline(time.Time) error            { return nil }
func (c *capConn) SetReadDeadline(time.Time) error        { return nil }
func (c *capConn) SetWriteDeadline(time.Time) error       { return nil }

// v4cfg is one DHCPv4 configuration: pool geometry, number of clients and how each reaches the server.
type v4cfg struct {
	name       string
	cidr       string
	gateway    string
	clients    int
	hostile    int      // the first `hostile` clients also send the hostile / rare symbols
	fine       bool     // adds the time steps 59 s and 1 s
	core       bool     // reduced alphabet (15 symbols for 2 clients) for the deep exhaustive part
	focus      string   // "dr": the decline / release / hostile-request / pool-cycling alphabet (18 symbols for 2 clients)
	transport  []string // per client: direct | relay | relay82 | mix (per message, random walks only)
	resHead    int      // PoolConfig.ReservedStart: the first resHead host numbers are excluded from allocation
	resTail    int      // PoolConfig.ReservedEnd: the last resTail host numbers are excluded from allocation
	stateEvery int      // > 1: the lease table / pool comparison runs on every stateEvery-th message only (large pools)
	lease      time.Duration // pool lease time (0: v4Lease); longer than offerWindow in the long-lease configurations
	hlens      []int         // per client: length of the hardware address in octets (nil: 6, Ethernet)
}

func (c v4cfg) leaseTime() time.Duration {
	if c.lease > 0 {
		return c.lease
	}
	return v4Lease
}

type v4client struct {
	name      string
	mac       net.HardwareAddr
	cid       []byte
	transport string
	lastOffer net.IP
	lastAck   net.IP
	everBound bool
	xid       uint32
	// rediscovered: when this client, holding an unexpired binding, sent a DISCOVER, was offered its own address and
	// has not sent a REQUEST / RELEASE / DECLINE since (zero: no such DISCOVER pending). Coverage bookkeeping only.
	rediscovered time.Time
}

type v4sym struct {
	name   string
	weight int
	fn     func() bool
}

type v4world struct {
	cfg     v4cfg
	srv     *dhcp.Server
	pool    *dhcp.Pool
	m       *mon
	conn    *capConn
	clients []*v4client
	syms    []v4sym
	wsum    int
	rng     *rand.Rand
	cancel  context.CancelFunc
	t0      time.Time
	prefix  netip.Prefix
	gw      netip.Addr
	usable  []netip.Addr
	fresh   int
	stateN  int
	resLo   netip.Addr // last reserved head address (invalid if none)
	resHi   netip.Addr // first reserved tail address (invalid if none)
	lease   time.Duration
	names   map[string]*v4client // hardware address (as the server prints it) -> client
	byName  map[string]*v4client
}

func v4factory(cfg v4cfg) factory {
	return factory{name: "v4/" + cfg.name, make: func(r *rand.Rand) world { return newV4World(cfg, r) }}
}

func newV4World(cfg v4cfg, r *rand.Rand) *v4world {
	lg := zap.NewNop()
	loader, err := ebpf.NewLoader("lo", lg) // as in cmd/bng: a Loader is always present (maps not loaded here)
	if err != nil {
		panic(err)
	}
	pm := dhcp.NewPoolManager(nil, lg)
	pool, err := dhcp.NewPool(dhcp.PoolConfig{ID: 1, Name: "p", Network: cfg.cidr, Gateway: cfg.gateway, DNSServers: []string{"9.9.9.9"}, LeaseTime: cfg.leaseTime(), ClientClass: dhcp.ClientClassResidential,
		ReservedStart: cfg.resHead, ReservedEnd: cfg.resTail})
	if err != nil {
		panic(err)
	}
	if err := pm.AddPool(pool); err != nil {
		panic(err)
	}
	srv, err := dhcp.NewServer(dhcp.ServerConfig{Interface: "lo", ServerIP: net.ParseIP(cfg.gateway)}, loader, pm, lg)
	if err != nil {
		panic(err)
	}
	w := &v4world{cfg: cfg, srv: srv, pool: pool, conn: &capConn{}, rng: r, lease: cfg.leaseTime(), names: map[string]*v4client{}, byName: map[string]*v4client{}}
	w.prefix = netip.MustParsePrefix(cfg.cidr).Masked()
	w.gw = netip.MustParseAddr(cfg.gateway)
	// usable addresses, computed independently of the pool's own arithmetic
	// (PoolConfig: "first N IPs reserved (e.g., 10 for .1-.10)", "last N IPs reserved": host numbers 1..N and the last N before the broadcast address)
	bc := lastAddr(w.prefix)
	var hosts []netip.Addr
	for a := w.prefix.Addr().Next(); a.IsValid() && w.prefix.Contains(a) && a != bc; a = a.Next() {
		hosts = append(hosts, a)
	}
	if cfg.resHead > 0 && len(hosts) > 0 {
		w.resLo = hosts[min(cfg.resHead, len(hosts))-1]
	}
	if cfg.resTail > 0 && len(hosts) > 0 {
		w.resHi = hosts[max(len(hosts)-cfg.resTail, 0)]
	}
	for _, a := range hosts {
		if a != w.gw && !w.reserved(a) {
			w.usable = append(w.usable, a)
		}
	}
	w.m = newMon("v4", "v4/"+cfg.name, min(w.lease, offerWindow), w.classify)
	// an OFFER that its client never follows up must lapse: one lease time after it (the longest an offer could
	// reasonably be honoured, DESIGN 5b) and one cleanup tick later the address has to be obtainable again
	w.m.offerLapse, w.m.compOffer = w.lease, "dhcp.Server.reclaimStaleOffers"
	w.m.onOfferLapse = func(c string) {
		if cl := w.byName[c]; cl != nil {
			w.m.count(fmt.Sprintf("v4_offers_abandoned_until_lapse_hwaddr_len_%d", len(cl.mac)), 1)
			if len(cl.mac) != 6 {
				w.m.count("v4_offers_abandoned_until_lapse_non_ethernet_hwaddr", 1)
			}
		}
	}
	for i := 0; i < cfg.clients; i++ {
		w.clients = append(w.clients, w.newClient(string(rune('A'+i)), byte(i+1), cfg.transport[i%len(cfg.transport)]))
	}
	w.buildSyms()
	ctx, cancel := context.WithCancel(context.Background())
	w.cancel = cancel
	w.t0 = time.Now()
	go srv.VerifC02LeaseCleanup(ctx) // the real cleanup loop, on the bubble's virtual clock
	synctest.Wait()                  // its ticker exists now (period 1 min from t0)
	return w
}

// reserved: a is one of the configured reserved head / tail host addresses.
func (w *v4world) reserved(a netip.Addr) bool {
	return (w.resLo.IsValid() && a.Compare(w.resLo) <= 0) || (w.resHi.IsValid() && a.Compare(w.resHi) >= 0)
}

func lastAddr(p netip.Prefix) netip.Addr {
	b := p.Addr().As4()
	bits := p.Bits()
	for i := bits; i < 32; i++ {
		b[i/8] |= 1 << (7 - i%8)
	}
	return netip.AddrFrom4(b)
}

func (w *v4world) newClient(name string, id byte, transport string) *v4client {
	mac := net.HardwareAddr{0x02, 0xc0, 0x02, 0, 0, id}
	if i := int(id) - 1; i < len(w.cfg.hlens) && w.cfg.hlens[i] != 6 {
		mac = hwAddr(w.cfg.hlens[i], 1, int(id))
	}
	c := &v4client{name: name, mac: mac, cid: []byte(fmt.Sprintf("port-%s/%d", name, id)), transport: transport}
	w.names[mac.String()], w.byName[name] = c, c
	return c
}

// freshClient is a client the server has never seen (pool cycling and the final drain): F1, F2, ...
func (w *v4world) freshClient() *v4client {
	w.fresh++
	name := fmt.Sprintf("F%d", w.fresh)
	mac := net.HardwareAddr{0x02, 0xc0, 0x02, 1, byte(w.fresh >> 8), byte(w.fresh)}
	if n := freshHwLens[w.fresh%len(freshHwLens)]; n != 6 {
		mac = hwAddr(n, 2, w.fresh)
	}
	c := &v4client{name: name, mac: mac, cid: []byte("port-" + name), transport: "direct"}
	w.names[mac.String()], w.byName[name] = c, c
	return c
}

func (w *v4world) classify(v string) string {
	a, err := netip.ParseAddr(v)
	if err != nil {
		return "outside-pool"
	}
	switch {
	case !w.prefix.Contains(a):
		return "outside-pool"
	case a == w.gw:
		return "gateway"
	case a == w.prefix.Addr():
		return "network"
	case a == lastAddr(w.prefix):
		return "broadcast"
	case w.reserved(a):
		return "reserved"
	}
	return ""
}

func (w *v4world) monitor() *mon        { return w.m }
func (w *v4world) nsyms() int           { return len(w.syms) }
func (w *v4world) symName(i int) string { return w.syms[i].name }
func (w *v4world) close() {
	w.cancel()
	synctest.Wait()
	w.m.flush()
}

func (w *v4world) pick(r *rand.Rand) int {
	x := r.IntN(w.wsum)
	for i, s := range w.syms {
		if x < s.weight {
			return i
		}
		x -= s.weight
	}
	return 0
}

func (w *v4world) apply(i int) bool {
	ok := w.syms[i].fn()
	w.m.endStep()
	return ok
}

func ip4(a netip.Addr) net.IP { b := a.As4(); return net.IP(b[:]) }

func (w *v4world) other(c *v4client) *v4client {
	for i, x := range w.clients {
		if x == c {
			return w.clients[(i+1)%len(w.clients)]
		}
	}
	return c
}

// outside4 is an address outside every configured pool.
var outside4 = net.IPv4(10, 77, 1, 7).To4()

// choose picks one candidate: the lowest in the exhaustive part (a symbol must be a function of the state),
// a random one in random walks.
func (w *v4world) choose(cands []string) net.IP {
	if len(cands) == 0 {
		return nil
	}
	sort.Strings(cands)
	if w.rng != nil {
		return net.ParseIP(cands[w.rng.IntN(len(cands))]).To4()
	}
	return net.ParseIP(cands[0]).To4()
}

// valuesOfOthers lists the values of table t (bound / offered) that are unexpired and belong to a client other than c.
func (w *v4world) valuesOfOthers(t map[string]map[string]bind, c *v4client, now time.Time) []string {
	var out []string
	for d, ks := range t {
		if d == c.name {
			continue
		}
		for _, b := range ks {
			if now.Before(b.exp) {
				out = append(out, b.v)
			}
		}
	}
	return out
}

// leasedToOther / offeredToOther / foreign / freeAddr: the targets of the hostile symbols, chosen from the
// reference table (what the harness saw acknowledged / offered), never from the server's own state.
func (w *v4world) leasedToOther(c *v4client) net.IP {
	return w.choose(w.valuesOfOthers(w.m.bound, c, time.Now()))
}
func (w *v4world) offeredToOther(c *v4client) net.IP {
	return w.choose(w.valuesOfOthers(w.m.offered, c, time.Now()))
}
func (w *v4world) foreign(c *v4client) net.IP {
	now := time.Now()
	if w.rng != nil {
		return w.choose(append(w.valuesOfOthers(w.m.bound, c, now), w.valuesOfOthers(w.m.offered, c, now)...))
	}
	if ip := w.leasedToOther(c); ip != nil {
		return ip
	}
	return w.offeredToOther(c)
}
func (w *v4world) freeAddr() net.IP {
	now := time.Now()
	var cands []string
	for _, a := range w.usable {
		if w.m.isFree(a.String(), now) {
			cands = append(cands, a.String())
		}
	}
	return w.choose(cands)
}

func (w *v4world) buildSyms() {
	coreSyms := map[string]bool{"DISCOVER": true, "REQ-SELECT": true, "REQ-RENEW": true, "RELEASE": true, "DECLINE": true,
		"REQ-FOREIGN": true, "REQ-GATEWAY": true, "lease+1ns": true, "tick": true, "3ticks": true, "DECLINE-FOREIGN": true}
	drSyms := map[string]bool{"DISCOVER": true, "REQ-SELECT": true, "RELEASE": true, "DECLINE": true,
		"DECLINE-FOREIGN": true, "DECLINE-OFFERED": true, "DECLINE-FREE": true, "RELEASE-FOREIGN": true, "RELEASE-OFFERED": true,
		"REQ-FOREIGN": true, "REQSEL-FOREIGN": true, "RENEW-FOREIGN": true, "CYCLE-DRR": true, "tick": true}
	add := func(name string, weight int, fn func() bool) {
		base := name[strings.Index(name, ":")+1:]
		if (w.cfg.core && !coreSyms[base]) || (w.cfg.focus == "dr" && !drSyms[base]) {
			return
		}
		w.syms = append(w.syms, v4sym{name, weight, fn})
		w.wsum += weight
	}
	// target-taking symbols: not applicable when no such address exists in this state
	withTarget := func(c *v4client, name string, weight int, target func() net.IP, do func(ip net.IP) bool) {
		add(c.name+":"+name, weight, func() bool {
			ip := target()
			if ip == nil {
				return false
			}
			return do(ip)
		})
	}
	for i, c := range w.clients {
		c := c
		add(c.name+":DISCOVER", 12, func() bool { return w.discover(c) })
		add(c.name+":REQ-SELECT", 14, func() bool {
			if c.lastOffer == nil {
				return false
			}
			return w.request(c, "REQ-SELECT", c.lastOffer, nil, true)
		})
		add(c.name+":REQ-REBOOT", 5, func() bool {
			if c.lastAck == nil {
				return false
			}
			return w.request(c, "REQ-REBOOT", c.lastAck, nil, false)
		})
		add(c.name+":REQ-RENEW", 8, func() bool {
			if c.lastAck == nil {
				return false
			}
			return w.request(c, "REQ-RENEW", nil, c.lastAck, false)
		})
		add(c.name+":RELEASE", 6, func() bool {
			if c.lastAck == nil {
				return false
			}
			return w.release(c, "RELEASE", c.lastAck)
		})
		add(c.name+":DECLINE", 3, func() bool {
			now := time.Now()
			if v, ok := w.m.heldUnexpired(c.name, "", now); ok {
				return w.decline(c, "DECLINE", net.ParseIP(v))
			}
			if c.lastOffer != nil {
				return w.decline(c, "DECLINE", c.lastOffer)
			}
			return false
		})
		// REQUEST naming an address that is leased or offered to another client: init-reboot (option 50),
		// selecting (option 50 + server-id), renew (ciaddr)
		if i < w.cfg.hostile || !(w.cfg.core || w.cfg.focus == "dr") {
			withTarget(c, "REQ-FOREIGN", 3, func() net.IP { return w.foreign(c) }, func(ip net.IP) bool { return w.request(c, "REQ-FOREIGN", ip, nil, false) })
		}
		if i >= w.cfg.hostile {
			continue
		}
		withTarget(c, "REQSEL-FOREIGN", 2, func() net.IP { return w.foreign(c) }, func(ip net.IP) bool { return w.request(c, "REQSEL-FOREIGN", ip, nil, true) })
		withTarget(c, "RENEW-FOREIGN", 2, func() net.IP { return w.foreign(c) }, func(ip net.IP) bool { return w.request(c, "RENEW-FOREIGN", nil, ip, false) })
		// DECLINE (option 50) / RELEASE (ciaddr) naming an address leased to another client, offered but not
		// acknowledged to another client, free, or outside the pool
		withTarget(c, "DECLINE-FOREIGN", 2, func() net.IP { return w.leasedToOther(c) }, func(ip net.IP) bool { return w.decline(c, "DECLINE-FOREIGN", ip) })
		withTarget(c, "DECLINE-OFFERED", 2, func() net.IP { return w.offeredToOther(c) }, func(ip net.IP) bool { return w.decline(c, "DECLINE-OFFERED", ip) })
		withTarget(c, "DECLINE-FREE", 1, w.freeAddr, func(ip net.IP) bool { return w.decline(c, "DECLINE-FREE", ip) })
		withTarget(c, "RELEASE-FOREIGN", 2, func() net.IP { return w.leasedToOther(c) }, func(ip net.IP) bool { return w.release(c, "RELEASE-FOREIGN", ip) })
		withTarget(c, "RELEASE-OFFERED", 2, func() net.IP { return w.offeredToOther(c) }, func(ip net.IP) bool { return w.release(c, "RELEASE-OFFERED", ip) })
		withTarget(c, "RELEASE-FREE", 1, w.freeAddr, func(ip net.IP) bool { return w.release(c, "RELEASE-FREE", ip) })
		add(c.name+":DECLINE-OUTSIDE", 1, func() bool { return w.decline(c, "DECLINE-OUTSIDE", outside4) })
		add(c.name+":RELEASE-OUTSIDE", 1, func() bool { return w.release(c, "RELEASE-OUTSIDE", outside4) })
		add(c.name+":REQ-GATEWAY", 1, func() bool { return w.request(c, "REQ-GATEWAY", ip4(w.gw), nil, false) })
		add(c.name+":REQ-NETWORK", 1, func() bool { return w.request(c, "REQ-NETWORK", ip4(w.prefix.Addr()), nil, false) })
		add(c.name+":REQ-BROADCAST", 1, func() bool { return w.request(c, "REQ-BROADCAST", ip4(lastAddr(w.prefix)), nil, false) })
		add(c.name+":REQ-OUTSIDE", 1, func() bool { return w.request(c, "REQ-OUTSIDE", outside4, nil, false) })
		add(c.name+":REQ-UNOFFERED", 1, func() bool {
			return w.request(c, "REQ-UNOFFERED", ip4(w.usable[len(w.usable)-1]), nil, false)
		})
		add(c.name+":INFORM", 1, func() bool { return w.inform(c) })
	}
	// pool cycling: fresh clients ask until the server has nothing left, so that every position of the free
	// list is visited, then give everything back
	add("X:CYCLE-D", 2, func() bool { return w.cycle("X:CYCLE-D", false) })
	add("X:CYCLE-DRR", 3, func() bool { return w.cycle("X:CYCLE-DRR", true) })
	add("T:lease/2", 4, func() bool { return w.step("T:lease/2", w.lease/2) })
	add("T:lease+1ns", 3, func() bool { return w.step("T:lease+1ns", w.lease+1) })
	add("T:tick", 4, func() bool { return w.step("T:tick", cleanupGap) })
	if w.lease > offerWindow { // several cleanup ticks during which leases stay valid
		add("T:3ticks", 4, func() bool { return w.step("T:3ticks", threeTicks) })
	}
	if w.cfg.fine { // sub-minute steps: directed scenarios and random walks only
		add("T:59s", 1, func() bool { return w.step("T:59s", 59*time.Second) })
		add("T:1s", 1, func() bool { return w.step("T:1s", time.Second) })
	}
}

// ---- messages -------------------------------------------------------------

func (w *v4world) transportOf(c *v4client) string {
	if c.transport == "mix" {
		return []string{"direct", "relay", "relay82"}[w.rng.IntN(3)]
	}
	return c.transport
}

// exchange sends one client message through the real handler and returns the decoded reply (nil if none).
func (w *v4world) exchange(c *v4client, mt dhcpv4.MessageType, reqIP, ciaddr net.IP, withSID bool) (*dhcpv4.DHCPv4, string) {
	c.xid++
	mods := []dhcpv4.Modifier{
		dhcpv4.WithMessageType(mt), dhcpv4.WithHwAddr(c.mac),
		dhcpv4.WithTransactionID(dhcpv4.TransactionID{c.mac[len(c.mac)-1], byte(c.xid >> 16), byte(c.xid >> 8), byte(c.xid)}),
	}
	if len(c.mac) != 6 {
		mods = append(mods, dhcpv4.WithHWType(hwTypeFor(len(c.mac))))
	}
	if reqIP != nil {
		mods = append(mods, dhcpv4.WithOption(dhcpv4.OptRequestedIPAddress(reqIP)))
	}
	if ciaddr != nil {
		mods = append(mods, dhcpv4.WithClientIP(ciaddr))
	}
	if withSID {
		mods = append(mods, dhcpv4.WithOption(dhcpv4.OptServerIdentifier(net.ParseIP(w.cfg.gateway))))
	}
	tr := w.transportOf(c)
	var peer net.Addr = &net.UDPAddr{IP: net.IPv4zero, Port: 68}
	if tr != "direct" {
		giaddr := net.IPv4(10, 99, 0, 1).To4()
		mods = append(mods, dhcpv4.WithRelay(giaddr))
		peer = &net.UDPAddr{IP: giaddr, Port: 67}
		if tr == "relay82" {
			rid := []byte("relay-1")
			raw := append([]byte{1, byte(len(c.cid))}, c.cid...)
			raw = append(raw, 2, byte(len(rid)))
			raw = append(raw, rid...)
			mods = append(mods, dhcpv4.WithGeneric(dhcpv4.OptionRelayAgentInformation, raw))
		}
	}
	p, err := dhcpv4.New(mods...)
	if err != nil {
		panic(err)
	}
	req, err := dhcpv4.FromBytes(p.ToBytes()) // what server4 hands to the handler: the packet parsed from the wire
	if err != nil {
		panic(err)
	}
	w.conn.take()
	w.srv.VerifC02HandleDHCP(w.conn, peer, req)
	pkts, _ := w.conn.take()
	w.m.count("v4_msg_"+mt.String()+"_"+tr, 1)
	if len(c.mac) != 6 {
		w.m.count("v4_msg_non_ethernet_hwaddr", 1)
		w.m.count(fmt.Sprintf("v4_msg_hwaddr_len_%d", len(c.mac)), 1)
	}
	if mt != dhcpv4.MessageTypeDiscover && mt != dhcpv4.MessageTypeInform {
		c.rediscovered = time.Time{}
	}
	if len(pkts) == 0 {
		w.m.count("v4_reply_none", 1)
		return nil, tr
	}
	if len(pkts) > 1 {
		w.m.viol("dhcp.Server.handleDHCP", "one-reply", "several-replies", c.name, "%d replies to one %s", len(pkts), mt)
	}
	rep, err := dhcpv4.FromBytes(pkts[0])
	if err != nil {
		run.Inconclusive("v4-reply-decode", err.Error())
		return nil, tr
	}
	w.m.count("v4_reply_"+rep.MessageType().String(), 1)
	return rep, tr
}

// show4 renders a reply for the history: "-" (none), "NAK", "OFFER 10.0.0.2", "ACK 10.0.0.2".
func show4(rep *dhcpv4.DHCPv4) string {
	if rep == nil {
		return "-"
	}
	out := rep.MessageType().String()
	if ip := yi(rep); ip != nil {
		out += " " + ip.String()
	}
	return out
}

func yi(rep *dhcpv4.DHCPv4) net.IP {
	if rep.YourIPAddr == nil || rep.YourIPAddr.IsUnspecified() {
		return nil
	}
	return rep.YourIPAddr.To4()
}

func (w *v4world) discover(c *v4client) bool {
	rep, tr := w.exchange(c, dhcpv4.MessageTypeDiscover, nil, nil, false)
	now := time.Now()
	w.m.log("%s:DISCOVER[%s]->%s", c.name, tr, show4(rep))
	if rep != nil {
		if ip := yi(rep); ip != nil && rep.MessageType() == dhcpv4.MessageTypeOffer {
			c.lastOffer = ip
			if hv, ok := w.m.heldUnexpired(c.name, "", now); ok && hv == ip.String() {
				c.rediscovered = now
				w.m.count("v4_discover_by_lease_holder_offered_own_address", 1)
			}
			w.m.onOffer(c.name, "", ip.String(), "dhcp.Server.handleDiscover", now)
		}
	}
	w.checkState("dhcp.Server.handleDiscover")
	return true
}

func (w *v4world) request(c *v4client, kind string, reqIP, ciaddr net.IP, withSID bool) bool {
	now := time.Now()
	target := reqIP
	if target == nil {
		target = ciaddr
	}
	tv := target.String()
	mode := "init-reboot" // option 50 without server-id
	if ciaddr != nil && reqIP == nil {
		mode = "renew" // ciaddr
	} else if withSID {
		mode = "selecting" // option 50 + server-id
	}
	cls := w.m.nameClass(c.name, "", tv, now)
	w.m.named("REQUEST-"+mode, cls, cls == "leased-to-other" || cls == "offered-to-other" || cls == "declined")
	// non-trivial: the address is bound / offered to somebody else right now, or it is the client's own binding after expiry
	if w.m.holder(tv, c.name, now) != "" || w.m.offeree(tv, c.name, now) != "" {
		w.m.nontriv = true
		w.m.count("requests_for_value_of_other_client", 1)
	}
	hv, holds := w.m.heldUnexpired(c.name, "", now)
	if !holds && c.everBound && c.lastAck != nil && c.lastAck.Equal(target) {
		if b, ok := w.m.get(w.m.bound, c.name, ""); !ok || !now.Before(b.exp) {
			w.m.nontriv = true
			w.m.count("requests_after_own_expiry_or_release", 1)
		}
	}
	renewal := holds && hv == tv
	rep, tr := w.exchange(c, dhcpv4.MessageTypeRequest, reqIP, ciaddr, withSID)
	out := show4(rep)
	w.m.log("%s:%s(%s)[%s]->%s", c.name, kind, tv, tr, out)
	acked := false
	if rep != nil {
		switch rep.MessageType() {
		case dhcpv4.MessageTypeAck:
			if ip := yi(rep); ip != nil {
				life := rep.IPAddressLeaseTime(0)
				w.m.onAck(c.name, "", ip.String(), "dhcp.Server.handleRequest", life, now)
				c.lastAck, c.everBound = ip, true
				acked = ip.String() == tv
				if life <= 0 {
					w.m.viol("dhcp.Server.handleRequest", "ack-has-lease-time", "no-lease-time", ip.String(), "ACK without a positive lease time")
				}
			}
		case dhcpv4.MessageTypeNak:
			w.m.onNak(c.name, "")
		}
	}
	if renewal {
		w.m.count("renewals_of_unexpired_binding", 1)
		if !acked {
			w.m.viol("dhcp.Server.handleRequest", "renew-same-value", "renew-refused", tv, "%s renews its unexpired binding %s and is answered %s", c.name, tv, out)
		}
	}
	w.checkState("dhcp.Server.handleRequest")
	return true
}

func (w *v4world) release(c *v4client, kind string, ciaddr net.IP) bool {
	now := time.Now()
	hv, holds := w.m.heldUnexpired(c.name, "", now)
	w.m.named("RELEASE", w.m.nameClass(c.name, "", ciaddr.String(), now), true)
	_, tr := w.exchange(c, dhcpv4.MessageTypeRelease, nil, ciaddr, true)
	own := holds && hv == ciaddr.String()
	w.m.log("%s:%s(%s)[%s]", c.name, kind, ciaddr, tr)
	w.m.onRelease(c.name, "", own, now, holds && !own && w.serverLease(c) == hv) // kept is only read when the message did not name the own value
	if own {
		w.m.count("releases_of_own_binding", 1)
	}
	w.checkState("dhcp.Server.handleRelease")
	return true
}

func (w *v4world) decline(c *v4client, kind string, ip net.IP) bool {
	now := time.Now()
	w.m.named("DECLINE", w.m.nameClass(c.name, "", ip.String(), now), true)
	_, tr := w.exchange(c, dhcpv4.MessageTypeDecline, ip, nil, true)
	w.m.log("%s:%s(%s)[%s]", c.name, kind, ip, tr)
	before := len(w.m.declined)
	hv, holds := w.m.heldUnexpired(c.name, "", now)
	w.m.onDecline(c.name, "", ip.String(), now, holds && w.serverLease(c) == hv)
	if len(w.m.declined) > before {
		w.m.count("declines_of_own_value", 1)
	}
	if c.lastOffer != nil && c.lastOffer.Equal(ip) {
		c.lastOffer = nil
	}
	w.checkState("dhcp.Server.handleDecline")
	return true
}

// serverLease returns the address of the lease the server's table carries for c ("" if none).
func (w *v4world) serverLease(c *v4client) string {
	mac := c.mac.String()
	for _, l := range w.srv.VerifC02Leases() {
		if l.MAC == mac {
			return l.IP.String()
		}
	}
	return ""
}

func (w *v4world) inform(c *v4client) bool {
	ci := c.lastAck
	if ci == nil {
		ci = ip4(w.usable[0])
	}
	rep, tr := w.exchange(c, dhcpv4.MessageTypeInform, nil, ci, false)
	w.m.log("%s:INFORM(%s)[%s]->%s", c.name, ci, tr, show4(rep))
	if rep != nil {
		if ip := yi(rep); ip != nil && rep.MessageType() == dhcpv4.MessageTypeAck {
			// an INFORM answer must not assign anything; if it does it is judged like any ACK
			w.m.onAck(c.name, "", ip.String(), "dhcp.Server.handleInform", rep.IPAddressLeaseTime(v4Lease), time.Now())
		}
	}
	w.checkState("dhcp.Server.handleInform")
	return true
}

// lastTick is the instant of the cleanup loop's most recent tick (zero if none yet).
func (w *v4world) lastTick(now time.Time) time.Time {
	n := now.Sub(w.t0) / time.Minute
	if n <= 0 {
		return time.Time{}
	}
	return w.t0.Add(n * time.Minute)
}

func (w *v4world) step(name string, d time.Duration) bool {
	w.m.log("%s", name)
	time.Sleep(d)
	synctest.Wait() // the cleanup loop has handled every tick that fell into the step
	now := time.Now()
	lt := w.lastTick(now)
	if !lt.IsZero() {
		w.m.sweep(lt, now) // bindings that had expired at the last tick may have been reclaimed, offers never followed up have lapsed
	}
	w.m.count("time_steps", 1)
	w.observeHold(d, lt, now)
	w.checkState("dhcp.Server.cleanupExpiredLeases")
	return true
}

// observeHold counts (coverage only, no clause reads it) what a time step of length d ending at now let happen
// while bindings stayed valid: cleanup ticks passed under an unexpired binding whose lease is longer than the
// offer window, and lease holders whose DISCOVER (answered with their own address) was never followed by a
// REQUEST / RELEASE / DECLINE and is now older than the offer window plus one cleanup tick.
func (w *v4world) observeHold(d time.Duration, lastTick, now time.Time) {
	if w.lease <= offerWindow || lastTick.IsZero() {
		return
	}
	valid := false
	for _, c := range w.names {
		if _, ok := w.m.heldUnexpired(c.name, "", now); !ok {
			continue
		}
		valid = true
		if !c.rediscovered.IsZero() && c.rediscovered.Add(offerWindow).Before(lastTick) {
			c.rediscovered = time.Time{}
			w.m.count("v4_lease_holder_discover_never_requested_older_than_offer_window_lease_still_valid", 1)
			if len(c.mac) != 6 {
				w.m.count("v4_lease_holder_discover_never_requested_older_than_offer_window_non_ethernet", 1)
			}
		}
	}
	if valid {
		if n := int(now.Sub(w.t0)/time.Minute) - int(now.Add(-d).Sub(w.t0)/time.Minute); n > 0 {
			w.m.count("v4_cleanup_ticks_under_unexpired_lease_longer_than_offer_window", n)
		}
	}
}

// cycle: k fresh clients DISCOVER (and REQUEST what they are offered) until the server has nothing left to
// offer - k is at most the number of usable addresses plus one, so every position of the free list is
// visited - and then RELEASE what they got (in random order in random walks), so that the pool is as full
// as before but its free list has been turned over. Judged by the same clauses as every other message.
func (w *v4world) cycle(name string, withRequest bool) bool {
	w.m.log("%s", name)
	var got []*v4client
	exhausted := false
	for i := 0; i <= len(w.usable); i++ {
		c := w.freshClient()
		w.discover(c)
		w.m.endStep()
		if c.lastOffer == nil {
			exhausted = true
			break
		}
		got = append(got, c)
		if withRequest {
			w.request(c, "REQ-SELECT", c.lastOffer, nil, true)
			w.m.endStep()
		}
	}
	mode := "discover"
	if withRequest {
		mode = "discover-request"
	}
	if exhausted && len(got) > 0 {
		w.m.cycled(mode, len(got))
	} else if exhausted {
		w.m.count("cycles_on_an_exhausted_pool", 1)
	} else {
		w.m.count("cycles_not_reaching_exhaustion", 1)
	}
	if w.rng != nil {
		w.rng.Shuffle(len(got), func(i, j int) { got[i], got[j] = got[j], got[i] })
	}
	for _, c := range got {
		ip := c.lastAck
		if ip == nil {
			ip = c.lastOffer
		}
		w.release(c, "RELEASE", ip)
		w.m.endStep()
	}
	return true
}

// finish: one more cleanup period, then drain the pool with fresh clients and judge "available again".
func (w *v4world) finish() {
	w.step("T:final-tick", cleanupGap)
	w.m.endStep()
	w.m.count("available_again_obligations_checked", len(w.m.oblig)) // pending when the drain starts
	obtained, exhausted := 0, false
	for i := 0; i < len(w.usable)+2; i++ {
		c := w.freshClient()
		w.discover(c)
		w.m.endStep()
		if c.lastOffer == nil {
			exhausted = true
			break
		}
		obtained++
		w.request(c, "REQ-SELECT", c.lastOffer, nil, true)
		w.m.endStep()
	}
	if exhausted && obtained > 0 {
		w.m.cycled("drain", obtained)
	}
	w.m.count("drain_addresses_obtained", obtained)
	w.m.finish("dhcp.Server.handleRelease", "dhcp.Server.cleanupExpiredLeases")
}

// ---- lease table versus pool ---------------------------------------------

func (w *v4world) macName(mac string) string {
	if c := w.names[mac]; c != nil {
		return c.name
	}
	return mac
}

// checkState compares the server's lease table, circuit-id index and pool with each other and with the reference table.
func (w *v4world) checkState(comp string) {
	if w.cfg.stateEvery > 1 {
		if w.stateN++; w.stateN%w.cfg.stateEvery != 0 {
			return
		}
	}
	now := time.Now()
	leases := w.srv.VerifC02Leases()
	snap := w.pool.VerifC02Snapshot()
	w.m.count("state_snapshots_compared", 1)
	byIP := map[string]string{}
	byMAC := map[string]dhcp.VerifC02Lease{}
	byName := map[string]bool{}
	for _, l := range leases {
		ip := l.IP.String()
		byMAC[l.MAC] = l
		byName[w.macName(l.MAC)+"|"+ip] = true
		if o, dup := byIP[ip]; dup {
			w.m.viol(comp, "table-unique", "two-leases-one-address", ip, "lease table binds %s to %s and %s", ip, w.macName(o), w.macName(l.MAC))
		}
		byIP[ip] = l.MAC
		if a, ok := snap.Allocated[l.MAC]; !ok || !a.Equal(l.IP) {
			w.m.viol(comp, "lease-pool-consistency", "lease-without-pool-allocation", ip, "lease of %s on %s is not that client's allocation in the pool (pool says %v)", w.macName(l.MAC), ip, a)
		}
	}
	// every unexpired reference binding is in the lease table
	for c, ks := range w.m.bound {
		for _, b := range ks {
			if !now.Before(b.exp) {
				continue
			}
			if !byName[c+"|"+b.v] {
				w.m.viol(comp, "lease-pool-consistency", "binding-without-lease", b.v, "%s was acknowledged %s (unexpired, not released) but the lease table has no such lease", c, b.v)
			}
		}
	}
	// pool sanity: injective, disjoint, in range
	seen := map[string]string{}
	for mac, ip := range snap.Allocated {
		s := ip.String()
		if o, dup := seen[s]; dup && o != "avail" {
			w.m.viol(comp, "lease-pool-consistency", "pool-allocated-twice", s, "pool allocates %s to %s and %s", s, w.macName(o), w.macName(mac))
		}
		seen[s] = mac
		if w.classify(s) != "" {
			w.m.viol(comp, "lease-pool-consistency", "pool-holds-"+w.classify(s), s, "pool allocation outside the usable range")
		}
	}
	for _, ip := range snap.Available {
		s := ip.String()
		if o, dup := seen[s]; dup {
			cls := "pool-available-and-allocated"
			if o == "avail" {
				cls = "pool-available-twice"
			}
			w.m.viol(comp, "lease-pool-consistency", cls, s, "%s is in the available list and also %s", s, o)
		}
		seen[s] = "avail"
		if w.classify(s) != "" {
			w.m.viol(comp, "lease-pool-consistency", "pool-holds-"+w.classify(s), s, "available address outside the usable range")
		}
	}
	// circuit-id index entries point at the current lease of that client
	for _, e := range w.srv.VerifC02CircuitIndex() {
		l, ok := byMAC[e.MAC]
		if !ok || !l.IP.Equal(e.IP) || hex.EncodeToString(l.CircuitID) != e.Key {
			w.m.viol(comp, "lease-pool-consistency", "circuit-index-stale", e.IP.String(), "circuit-id index still maps %q to a lease of %s on %s that is not in the lease table", string(e.CircuitID), w.macName(e.MAC), e.IP)
		}
	}
}

func (w *v4world) fingerprint() string {
	now := time.Now()
	var sb strings.Builder
	for _, l := range w.srv.VerifC02Leases() {
		fmt.Fprintf(&sb, "L%s=%s@%d/%x;", w.macName(l.MAC), l.IP, l.ExpiresAt.Sub(now), l.CircuitID)
	}
	for _, e := range w.srv.VerifC02CircuitIndex() {
		fmt.Fprintf(&sb, "X%s=%s/%s;", e.Key, w.macName(e.MAC), e.IP)
	}
	snap := w.pool.VerifC02Snapshot()
	var al []string
	for mac, ip := range snap.Allocated {
		al = append(al, w.macName(mac)+"="+ip.String())
	}
	sort.Strings(al)
	sb.WriteString("P" + strings.Join(al, ",") + "|")
	for _, ip := range snap.Available {
		sb.WriteString(ip.String() + ",")
	}
	sb.WriteString("|" + strings.Join(snap.Unavailable, ",") + ";")
	for _, c := range w.clients {
		fmt.Fprintf(&sb, "C%s:%v/%v/%v;", c.name, c.lastOffer, c.lastAck, c.everBound)
	}
	fmt.Fprintf(&sb, "t%d;", now.Sub(w.t0)%time.Minute)
	sb.WriteString(w.m.key(now))
	return sb.String()
}
