package c02

import (
	"strings"
	"time"
	"testing"
	"testing/synctest"
)

// TestA_Scenarios runs a handful of minimal hand-written histories first, so that the witness stored
// for a violation class is the shortest one. They are judged by the same monitor as everything else.
func TestA_Scenarios(t *testing.T) {
	v4wide29 := v4cfg{name: "s29", cidr: "10.0.0.0/29", gateway: "10.0.0.1", clients: 2, hostile: 2, fine: true, transport: []string{"direct"}}
	v4wide30 := v4cfg{name: "s30-relay82", cidr: "10.0.0.0/30", gateway: "10.0.0.1", clients: 2, hostile: 2, fine: true, transport: []string{"relay82"}}
	// lease time of an hour (much longer than an offer is held), B with a 7-octet hardware address
	v4long30 := v4cfg{name: "s30-long", cidr: "10.0.0.0/30", gateway: "10.0.0.1", clients: 2, hostile: 2, fine: true, transport: []string{"direct"}, lease: time.Hour, hlens: []int{6, 7}}
	v4long29 := v4cfg{name: "s29-long-relay82", cidr: "10.0.0.0/29", gateway: "10.0.0.1", clients: 2, hostile: 2, fine: true, transport: []string{"relay82"}, lease: time.Hour, hlens: []int{16, 6}}
	v6na := v6cfg{name: "s-na126", addrPool: "2001:db8:1::/126", mode: "na", clients: 2, hostile: 1}
	v6both := v6cfg{name: "s-both", addrPool: "2001:db8:1::/126", pdPool: "2001:db8:100::/47", pdLen: 48, mode: "both", clients: 2, hostile: 1}
	type sc struct {
		f   factory
		ops string
	}
	scs := []sc{
		{v4factory(v4wide29), "B:DISCOVER A:REQ-FOREIGN"},
		{v4factory(v4wide29), "B:DISCOVER B:REQ-SELECT A:REQ-FOREIGN"},
		{v4factory(v4wide29), "A:REQ-GATEWAY"},
		{v4factory(v4wide29), "A:REQ-NETWORK"},
		{v4factory(v4wide29), "A:REQ-BROADCAST"},
		{v4factory(v4wide29), "A:REQ-OUTSIDE"},
		{v4factory(v4wide30), "A:REQ-UNOFFERED B:DISCOVER B:REQ-SELECT"},
		{v4factory(v4wide29), "A:DISCOVER A:REQ-SELECT A:DECLINE A:DISCOVER"},
		{v4factory(v4wide29), "A:DISCOVER A:DECLINE A:DISCOVER"},
		{v4factory(v4wide29), "A:DISCOVER A:REQ-SELECT A:DECLINE A:REQ-RENEW"},
		{v4factory(v4wide30), "A:DISCOVER A:REQ-SELECT A:DECLINE B:DISCOVER"},
		{v4factory(v4wide29), "A:DISCOVER A:REQ-SELECT B:DECLINE-FOREIGN A:REQ-RENEW"},
		{v4factory(v4wide29), "A:DISCOVER A:REQ-SELECT B:RELEASE-FOREIGN A:REQ-RENEW"},
		// an OFFER to a client whose lease has lapsed, one second before the cleanup tick
		{v4factory(v4wide30), "A:DISCOVER A:REQ-SELECT T:lease+1ns T:59s A:DISCOVER T:1s B:DISCOVER B:REQ-SELECT"},
		// request after expiry and reclaim, the address meanwhile offered to somebody else
		{v4factory(v4wide30), "A:DISCOVER A:REQ-SELECT T:lease+1ns T:tick B:DISCOVER A:REQ-RENEW"},
		{v4factory(v4wide29), "A:DISCOVER A:REQ-SELECT A:RELEASE B:DISCOVER"},
		{v4factory(v4wide29), "A:DISCOVER A:REQ-SELECT T:lease/2 A:REQ-RENEW T:lease/2 T:tick A:REQ-RENEW T:lease+1ns T:tick"},
		// a lease holder sends DISCOVER again (reboot) and then stays silent while cleanup ticks pass and its lease stays
		// valid; then the other client asks, the holder renews
		{v4factory(v4long30), "A:DISCOVER A:REQ-SELECT A:DISCOVER T:3ticks B:DISCOVER B:REQ-SELECT A:REQ-RENEW"},
		{v4factory(v4long29), "A:DISCOVER A:REQ-SELECT T:lease/2 A:DISCOVER T:tick T:tick T:tick X:CYCLE-DRR A:REQ-RENEW"},
		{v4factory(v4long30), "B:DISCOVER B:REQ-SELECT T:3ticks B:DISCOVER T:3ticks T:tick A:REQ-FOREIGN B:REQ-REBOOT"},
		// an offer that is never requested lapses (Ethernet and other hardware-address lengths, short and long leases)
		{v4factory(v4long30), "B:DISCOVER T:lease+1ns T:tick"},
		{v4factory(v4long29), "A:DISCOVER B:DISCOVER T:3ticks X:CYCLE-D T:lease+1ns T:tick"},
		{v4factory(v4wide30), "A:DISCOVER T:lease+1ns T:tick"},
		{v4factory(v4long30), "A:DISCOVER T:3ticks B:DISCOVER B:REQ-SELECT A:REQ-SELECT"},
		{v6factory(v6na), "A:SOLICIT A:REQUEST A:DECLINE A:SOLICIT"},
		{v6factory(v6na), "A:SOLICIT A:REQUEST A:DECLINE"},
		{v6factory(v6na), "A:SOLICIT-RC T:valid+1ns"},
		{v6factory(v6na), "A:SOLICIT A:REQUEST T:valid/2 A:RENEW T:valid/2 A:REBIND A:RELEASE"},
		{v6factory(v6both), "A:SOLICIT A:REQUEST A:DECLINE"},
		{v6factory(v6both), "A:SOLICIT A:REQUEST B:SOLICIT-RC A:RENEW-FOREIGN A:REQUEST-WRONGSID"},
		// DECLINE / RELEASE / REQUEST naming somebody else's, free or out-of-pool addresses, each followed by a complete
		// cycle of the free list and a message of the client whose address was named
		{v4factory(v4wide29), "A:DISCOVER A:REQ-SELECT B:DISCOVER B:REQ-SELECT A:DECLINE-FOREIGN X:CYCLE-DRR B:REQ-RENEW"},
		{v4factory(v4wide29), "B:DISCOVER B:REQ-SELECT A:DECLINE-FOREIGN X:CYCLE-D X:CYCLE-DRR B:REQ-RENEW"},
		{v4factory(v4wide29), "A:DISCOVER A:REQ-SELECT B:DISCOVER A:DECLINE-OFFERED X:CYCLE-DRR B:REQ-SELECT"},
		{v4factory(v4wide29), "B:DISCOVER A:DECLINE-OFFERED X:CYCLE-D B:REQ-SELECT"},
		{v4factory(v4wide29), "A:DISCOVER A:REQ-SELECT B:DISCOVER B:REQ-SELECT A:RELEASE-FOREIGN X:CYCLE-DRR B:REQ-RENEW"},
		{v4factory(v4wide29), "B:DISCOVER B:REQ-SELECT A:RELEASE-FOREIGN X:CYCLE-DRR B:REQ-RENEW"},
		{v4factory(v4wide29), "B:DISCOVER A:RELEASE-OFFERED X:CYCLE-DRR B:REQ-SELECT"},
		{v4factory(v4wide29), "A:DISCOVER A:REQ-SELECT A:DECLINE X:CYCLE-D X:CYCLE-DRR A:DISCOVER"},
		{v4factory(v4wide29), "A:DISCOVER A:DECLINE X:CYCLE-DRR A:DISCOVER"},
		{v4factory(v4wide29), "A:DISCOVER A:REQ-SELECT A:RELEASE X:CYCLE-DRR"},
		{v4factory(v4wide29), "A:DECLINE-FREE X:CYCLE-DRR A:RELEASE-FREE A:DECLINE-OUTSIDE A:RELEASE-OUTSIDE X:CYCLE-D"},
		{v4factory(v4wide29), "A:DISCOVER A:REQ-SELECT A:DECLINE-FREE A:REQ-RENEW X:CYCLE-DRR"},
		{v4factory(v4wide29), "B:DISCOVER B:REQ-SELECT A:REQSEL-FOREIGN A:RENEW-FOREIGN A:REQ-FOREIGN X:CYCLE-DRR B:REQ-RENEW"},
		{v4factory(v4wide30), "B:DISCOVER B:REQ-SELECT A:DECLINE-FOREIGN X:CYCLE-DRR T:lease/2 X:CYCLE-D B:REQ-RENEW"},
		{v6factory(v6na), "A:SOLICIT A:REQUEST B:SOLICIT B:REQUEST A:DECLINE-FOREIGN X:CYCLE-SRR B:RENEW"},
		{v6factory(v6na), "B:SOLICIT A:DECLINE-OFFERED A:RELEASE-OFFERED X:CYCLE-RC B:REQUEST"},
		{v6factory(v6na), "A:SOLICIT A:REQUEST A:DECLINE X:CYCLE-SRR X:CYCLE-RC A:SOLICIT"},
		{v6factory(v6both), "A:SOLICIT A:REQUEST B:SOLICIT-RC A:RELEASE-FOREIGN X:CYCLE-SRR B:RENEW"},
		{v6factory(v6both), "B:SOLICIT-RC A:DECLINE-FOREIGN X:CYCLE-RC B:RENEW"},
		{v6factory(v6both), "A:SOLICIT A:REQUEST A:RELEASE-BADIAID X:CYCLE-SRR"},
		{v6factory(v6both), "A:SOLICIT A:REQUEST A:DECLINE-BADIAID X:CYCLE-SRR A:RENEW"},
		{v6factory(v6both), "A:DECLINE-FREE A:RELEASE-FREE A:DECLINE-OUTSIDE A:RELEASE-OUTSIDE X:CYCLE-SRR"},
		{v6factory(v6both), "B:SOLICIT-RC A:REQUEST-FOREIGN X:CYCLE-RC B:RENEW"},
		{v6factory(v6both), "A:SOLICIT A:REQUEST A:RELEASE X:CYCLE-SRR"},
	}
	needSocks(t)
	for i, s := range scs {
		synctest.Test(t, func(t *testing.T) {
			var w world
			defer func() { guard(w, s.f.name, recover()) }()
			w = s.f.make(nil)
			defer w.close()
			m := w.monitor()
			m.counting = true
			for _, op := range strings.Fields(s.ops) {
				found := false
				for j := 0; j < w.nsyms(); j++ {
					if w.symName(j) == op {
						found = true
						if !w.apply(j) { // depends on what the server answered before: not an error
							run.Count("scenario_steps_not_applicable", 1)
						}
					}
				}
				if !found {
					t.Errorf("scenario %d: unknown symbol %s", i, op)
				}
			}
			w.finish()
			run.Eval()
			run.Count("directed_scenarios", 1)
			if m.nontriv {
				run.Nontrivial("scenario|" + s.f.name + "|" + s.ops)
			}
		})
	}
}
