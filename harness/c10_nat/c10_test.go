// Package c10 is the runtime monitor for property C10: CGNAT port blocks never
// overlap, lie inside the configured range with the configured size, stay the
// same until released, and the port-block log attributes every
// (public address, port, time) to exactly the subscriber that held it.
//
// The oracle is a small ownership model (subscriber -> block) fed with the
// values the real nat.Manager returns, plus a second, log-only model that sees
// nothing but the JSON lines nat.Logger wrote (and the configured block size).
package c10

import (
	"bytes"
	"encoding/binary"
	"encoding/json"
	"fmt"
	"net"
	"os"
	"path/filepath"
	"sort"
	"sync"
	"time"

	"github.com/cilium/ebpf"
	"go.uber.org/zap"

	"github.com/codelaboratoryltd/bng/pkg/nat"

	"verif/harness/internal/vk"
)

var run *vk.Run

var anchored = []string{"pkg/nat/manager.go", "pkg/nat/logging.go", "pkg/dhcp/server.go"}

const (
	compAlloc   = "nat.Manager.AllocateNAT"
	compDealloc = "nat.Manager.DeallocateNAT"
	compLookup  = "nat.Manager.GetAllocation"
	compLog     = "nat.Logger"
	compMap     = "nat.Manager/subscriber_nat"
)

// ---------------------------------------------------------------- geometry

// geom is a port-range configuration as handed to nat.ManagerConfig.
type geom struct {
	Name             string
	Start, End, Size int
}

// the five configurations of the DESIGN subsection ...
var designGeoms = []geom{
	{"1024-65535/1024", 1024, 65535, 1024},
	{"1024-65535/1000", 1024, 65535, 1000}, // non-dividing
	{"60000-65535/2048", 60000, 65535, 2048},
	{"1-65535/65535", 1, 65535, 65535}, // the 65535 edge: one block per address
	{"1024-2047/512", 1024, 2047, 512},
}

// ... and further ones used by the random walks (small capacities, exact fit at 65535, non power of two).
var extraGeoms = []geom{
	{"49152-65535/4096", 49152, 65535, 4096}, // last block ends exactly at 65535
	{"1024-1535/64", 1024, 1535, 64},         // 8 blocks
	{"50000-50999/100", 50000, 50999, 100},   // 10 blocks, not a power of two
	{"1024-65535/64512", 1024, 65535, 64512}, // one block that fills the range
	{"32768-65535/256", 32768, 65535, 256},   // 128 blocks
	{"2000-2999/300", 2000, 2999, 300},       // 3 blocks + remainder
}

// slots is how many whole blocks fit; used only to size workloads, never by an oracle.
func (g geom) slots() int { return (g.End - g.Start + 1) / g.Size }

func pubIP(i int) net.IP { return net.IPv4(203, 0, 113, byte(1+i)).To4() }

// pubNames is the list of the first n default public addresses as strings (shared, read-only).
func pubNames(n int) []string {
	if n <= len(pubNameTab) {
		return pubNameTab[:n]
	}
	t := make([]string, n)
	for i := range t {
		t[i] = pubIP(i).String()
	}
	return t
}

var pubNameTab = func() []string {
	t := make([]string, 64)
	for i := range t {
		t[i] = pubIP(i).String()
	}
	return t
}()

func privIP(i int) net.IP { return net.IPv4(100, 64, byte(i/250), byte(i%250+1)).To4() }

// ---------------------------------------------------------------- observed values

// blk is a port block on a public address, as observed (never derived from the manager's internals).
type blk struct {
	Pub  string
	S, E int
}

func (b blk) String() string { return fmt.Sprintf("%s:%d-%d", b.Pub, b.S, b.E) }
func (b blk) overlaps(o blk) bool {
	return b.Pub == o.Pub && b.S <= o.E && o.S <= b.E
}
func (b blk) contains(port int) bool { return b.S <= port && port <= b.E }

// view is a by-value copy of a *nat.Allocation taken at the moment it was returned.
type view struct {
	Priv  string
	B     blk
	SubID uint32
}

func viewOf(a *nat.Allocation) view {
	return view{Priv: a.PrivateIP.String(), B: blk{a.PublicIP.String(), int(a.PortStart), int(a.PortEnd)}, SubID: a.SubscriberID}
}

// ---------------------------------------------------------------- violation plumbing

// sink receives oracle verdicts; hist renders the history so far (only called on a violation).
type sink struct {
	g      geom
	nPub   int
	mode   string
	hist   func() []string
	viols  int
	family string
}

func (s *sink) report(comp, rule, class, desc string) {
	s.viols++
	if _, dup := seenTriples.LoadOrStore(comp+"|"+rule+"|"+class, true); dup {
		run.Violation(comp, rule, class, "", nil) // counted; the first witness of the class is kept
		return
	}
	w := map[string]any{"geometry": s.g.Name, "public_ips": s.nPub, "logging": s.mode, "family": s.family, "detail": desc}
	if s.hist != nil {
		h := s.hist()
		if len(h) > 80 {
			h = append([]string{fmt.Sprintf("… %d earlier ops omitted …", len(h)-80)}, h[len(h)-80:]...)
		}
		w["history"] = h
	}
	run.Violation(comp, rule, class, fmt.Sprintf("[%s, %d public IP(s)] %s", s.g.Name, s.nPub, desc), w)
}

// checkShape judges one returned block against the configuration: inside the
// configured range, start <= end (no uint16 wrap), configured size, a configured
// public address, and naming the subscriber it was asked for.
func checkShape(s *sink, g geom, pubs map[string]bool, asked string, v view) {
	b := v.B
	switch {
	case b.S > b.E:
		s.report(compAlloc, "in-range", "wrapped-start-after-end", fmt.Sprintf("alloc(%s) returned %s: start > end (16-bit wrap)", asked, b))
	case b.S < g.Start:
		s.report(compAlloc, "in-range", "below-range", fmt.Sprintf("alloc(%s) returned %s, below configured range %d-%d", asked, b, g.Start, g.End))
	case b.E > g.End:
		s.report(compAlloc, "in-range", "above-range", fmt.Sprintf("alloc(%s) returned %s, above configured range %d-%d", asked, b, g.Start, g.End))
	}
	if b.S <= b.E && b.E-b.S+1 != g.Size {
		cls := "smaller-than-configured"
		if b.E-b.S+1 > g.Size {
			cls = "larger-than-configured"
		}
		s.report(compAlloc, "block-size", cls, fmt.Sprintf("alloc(%s) returned %s: %d ports, configured %d", asked, b, b.E-b.S+1, g.Size))
	}
	if !pubs[b.Pub] {
		s.report(compAlloc, "in-range", "unconfigured-public-address", fmt.Sprintf("alloc(%s) returned public address %s which was never added to the pool", asked, b.Pub))
	}
	if v.Priv != asked {
		s.report(compAlloc, "attributable-allocation", "names-other-subscriber", fmt.Sprintf("alloc(%s) returned an allocation for %s", asked, v.Priv))
	}
}

// overlapClass normalises an overlap witness. held = live blocks of the *other* subscribers before the allocation.
// The known defect (port start derived from the subscriber count) needs a hole or duplicate among the live
// block indices of that public address; an overlap while the live blocks are exactly indices 0..n-1 is a different defect.
func overlapClass(g geom, held map[string]blk, nb, ob blk) string {
	if nb != ob {
		return "partial-overlap"
	}
	var idx []int
	for _, b := range held {
		if b.Pub != nb.Pub {
			continue
		}
		if (b.S-g.Start)%g.Size != 0 {
			return "misaligned-live-block"
		}
		idx = append(idx, (b.S-g.Start)/g.Size)
	}
	sort.Ints(idx)
	for i, x := range idx {
		if x != i {
			return "reuse-after-middle-release"
		}
	}
	return "overlap-while-live-blocks-contiguous"
}

// ---------------------------------------------------------------- the log-only model

// rawRec is the superset of the JSON fields of both record formats, declared here
// independently of bng's types.
type rawRec struct {
	Timestamp    *time.Time `json:"timestamp"`
	EventType    string     `json:"event_type"`
	SubscriberID uint32     `json:"subscriber_id"`
	PrivateIP    string     `json:"private_ip"`
	PublicIP     string     `json:"public_ip"`
	PublicPort   *int       `json:"public_port"`
	PortStart    *int       `json:"port_start"`
	PortEnd      *int       `json:"port_end"`
	BlockSize    *int       `json:"block_size"`
}

type logRec struct {
	TS     time.Time
	Assign bool
	Sub    string
	SubID  uint32
	B      blk
	Idx    int
	Kind   string
}

// parseLog turns log lines into records. Only configuration (block size) is used to complete a
// record, never manager state. bad collects lines that cannot be interpreted.
func parseLog(g geom, data []byte, base int) (recs []logRec, bad []string) {
	for _, ln := range bytes.Split(data, []byte{'\n'}) {
		if len(bytes.TrimSpace(ln)) == 0 {
			continue
		}
		var r rawRec
		if err := json.Unmarshal(ln, &r); err != nil {
			bad = append(bad, string(ln))
			continue
		}
		lr := logRec{Sub: r.PrivateIP, SubID: r.SubscriberID, Idx: base + len(recs), Kind: r.EventType}
		switch r.EventType {
		case "port_block_assign", "allocate":
			lr.Assign = true
		case "port_block_release", "deallocate":
		default:
			continue // session records etc. are not port-block records
		}
		if r.Timestamp == nil || r.PublicIP == "" || r.PrivateIP == "" {
			bad = append(bad, string(ln))
			continue
		}
		lr.TS = *r.Timestamp
		start := -1
		if r.PortStart != nil {
			start = *r.PortStart
		} else if r.PublicPort != nil {
			start = *r.PublicPort
		}
		if start < 0 {
			bad = append(bad, string(ln))
			continue
		}
		end := -1
		if r.PortEnd != nil && *r.PortEnd >= start && *r.PortEnd > 0 {
			end = *r.PortEnd
		} else if r.BlockSize != nil && *r.BlockSize > 0 {
			end = start + *r.BlockSize - 1
		} else {
			end = start + g.Size - 1 // configuration, not state
		}
		lr.B = blk{r.PublicIP, start, end}
		recs = append(recs, lr)
	}
	return
}

type lmEntry struct {
	Sub string
	B   blk
}

// logModel is what a reader who has only the log believes: the multiset of open assignments.
type logModel struct {
	live      []lmEntry
	unmatched int
}

func (lm *logModel) apply(r logRec) {
	if r.Assign {
		lm.live = append(lm.live, lmEntry{r.Sub, r.B})
		return
	}
	pick := -1
	for i, e := range lm.live { // release closes the open assignment of that subscriber on (address, start) ...
		if e.B.Pub == r.B.Pub && e.B.S == r.B.S && e.Sub == r.Sub {
			pick = i
			break
		}
	}
	if pick < 0 {
		lm.unmatched++
		return
	}
	lm.live = append(lm.live[:pick], lm.live[pick+1:]...)
}

func (lm *logModel) owners(pub string, port int) []string {
	var o []string
	for _, e := range lm.live {
		if e.B.Pub == pub && e.B.contains(port) {
			o = append(o, e.Sub)
		}
	}
	sort.Strings(o)
	return o
}

func ownersOf(es []lmEntry, pub string, port int) []string {
	var o []string
	for _, e := range es {
		if e.B.Pub == pub && e.B.contains(port) {
			o = append(o, e.Sub)
		}
	}
	if len(o) > 1 {
		sort.Strings(o)
	}
	return o
}

func sameStrings(a, b []string) bool {
	if len(a) != len(b) {
		return false
	}
	for i := range a {
		if a[i] != b[i] {
			return false
		}
	}
	return true
}

// probes returns the (address, port) points at which attribution is compared: every edge ±1 and the
// middle of the given blocks, the range limits, and a few random ports.
type probe struct {
	pub  string
	port int
}

func probes(g geom, pubs []string, blocks []blk, rnd func(int) int) []probe {
	out := make([]probe, 0, 7*len(blocks)+3*len(pubs))
	add := func(pub string, p int) {
		if p >= 0 && p <= 65535 {
			out = append(out, probe{pub, p})
		}
	}
	for _, b := range blocks {
		for _, p := range []int{b.S - 1, b.S, b.S + 1, (b.S + b.E) / 2, b.E - 1, b.E, b.E + 1} {
			add(b.Pub, p)
		}
	}
	for _, pub := range pubs {
		add(pub, g.Start)
		add(pub, g.End)
		add(pub, g.Start+rnd(g.End-g.Start+1))
	}
	return out
}

// compareAttribution checks that the log-only model names exactly the model's owners at the probe points.
// Returns the number of probes judged and, on the first mismatch, a class and description.
func compareAttribution(g geom, pubs []string, he []lmEntry, lm *logModel, focus []blk, rnd func(int) int) (int, string, string) {
	var blocks []blk
	if len(he)+len(lm.live) <= 16 {
		for _, e := range he {
			blocks = append(blocks, e.B)
		}
		for _, e := range lm.live {
			blocks = append(blocks, e.B)
		}
	} else {
		blocks = append(blocks, focus...)
		// a sample of the others
		for i := 0; i < 4 && len(he) > 0; i++ {
			blocks = append(blocks, he[rnd(len(he))].B)
		}
		for i := 0; i < 4 && len(lm.live) > 0; i++ {
			blocks = append(blocks, lm.live[rnd(len(lm.live))].B)
		}
	}
	n := 0
	for _, pr := range probes(g, pubs, blocks, rnd) {
		pub, port := pr.pub, pr.port
		mo := ownersOf(he, pub, port)
		lo := ownersOf(lm.live, pub, port)
		n++
		if sameStrings(mo, lo) {
			continue
		}
		cls := "log-names-other-subscriber"
		switch {
		case len(lo) == 0:
			cls = "log-misses-live-block"
		case len(mo) == 0:
			cls = "log-shows-released-block-as-held"
		case subset(lo, mo):
			cls = "log-misses-live-block"
		case subset(mo, lo):
			cls = "log-shows-released-block-as-held"
		}
		return n, cls, fmt.Sprintf("%s port %d: held by %v according to the values the manager returned, by %v according to the log alone", pub, port, mo, lo)
	}
	return n, "", ""
}

func subset(a, b []string) bool {
	m := map[string]int{}
	for _, x := range b {
		m[x]++
	}
	for _, x := range a {
		if m[x] == 0 {
			return false
		}
		m[x]--
	}
	return true
}

// ---------------------------------------------------------------- log sinks

// lockedBuf is the harness-owned writer.
type lockedBuf struct {
	mu  sync.Mutex
	b   bytes.Buffer
	off int
}

func (w *lockedBuf) Write(p []byte) (int, error) {
	w.mu.Lock()
	defer w.mu.Unlock()
	return w.b.Write(p)
}

// next returns the bytes written since the previous call.
func (w *lockedBuf) next() []byte {
	w.mu.Lock()
	defer w.mu.Unlock()
	d := append([]byte(nil), w.b.Bytes()[w.off:]...)
	w.off = w.b.Len()
	return d
}

func (w *lockedBuf) all() []byte {
	w.mu.Lock()
	defer w.mu.Unlock()
	return append([]byte(nil), w.b.Bytes()...)
}

// ---------------------------------------------------------------- data-plane map (optional observer)

var (
	mapOnce sync.Once
	mapOK   bool
)

func newSubscriberNATMap() *ebpf.Map {
	m, err := ebpf.NewMap(&ebpf.MapSpec{Type: ebpf.Hash, KeySize: 4, ValueSize: 64, MaxEntries: 512})
	if err != nil {
		return nil
	}
	return m
}

// mapBlock reads the subscriber_nat entry of a private address: the three fields this property is
// about sit at the same offsets in the C struct and the Go mirror (public_ip@0, port_start@4, port_end@6).
func mapBlock(m *ebpf.Map, priv net.IP) (blk, bool) {
	key := binary.BigEndian.Uint32(priv.To4()) // the manager's own key convention (the byte order is C06's subject)
	val := make([]byte, 64)
	if err := m.Lookup(&key, &val); err != nil {
		return blk{}, false
	}
	ipv := binary.NativeEndian.Uint32(val[0:4])
	ip := make(net.IP, 4)
	binary.BigEndian.PutUint32(ip, ipv)
	return blk{ip.String(), int(binary.NativeEndian.Uint16(val[4:6])), int(binary.NativeEndian.Uint16(val[6:8]))}, true
}

// ---------------------------------------------------------------- small helpers

var nop = zap.NewNop()

type logMode struct {
	Bulk    bool
	Flush   string // explicit | ticker | stop
	Started bool
	BufSize int
	File    bool
}

func (m logMode) String() string {
	k := "per-allocation"
	if m.Bulk {
		k = "bulk"
	}
	w := "writer"
	if m.File {
		w = "file"
	}
	return fmt.Sprintf("%s/%s/flush=%s/started=%v/buffer=%d", k, w, m.Flush, m.Started, m.BufSize)
}

func newManager(g geom, nPub int) *nat.Manager {
	m, err := nat.NewManager(nat.ManagerConfig{Interface: "verif0", PortsPerSubscriber: g.Size, PortRangeStart: g.Start, PortRangeEnd: g.End}, nop)
	if err != nil {
		panic(err)
	}
	for i := 0; i < nPub; i++ {
		if err := m.AddPublicIP(pubIP(i)); err != nil {
			panic(err)
		}
	}
	return m
}

func newLogger(mode logMode, dir string) (*nat.Logger, *lockedBuf, string) {
	cfg := nat.LoggerConfig{Enabled: true, Format: nat.LogFormatJSON, BufferSize: mode.BufSize, BulkLogging: mode.Bulk}
	path := ""
	if mode.File {
		path = filepath.Join(dir, "nat.log")
		cfg.FilePath = path
	}
	lg, err := nat.NewLogger(cfg, nop)
	if err != nil {
		panic(err)
	}
	var buf *lockedBuf
	if !mode.File {
		buf = &lockedBuf{}
		lg.VerifC10SetWriter(buf)
	}
	return lg, buf, path
}

func readFileFrom(path string, off *int64) []byte {
	f, err := os.Open(path)
	if err != nil {
		return nil
	}
	defer f.Close()
	st, _ := f.Stat()
	if st.Size() <= *off {
		return nil
	}
	b := make([]byte, st.Size()-*off)
	n, _ := f.ReadAt(b, *off)
	*off += int64(n)
	return b[:n]
}

// listOf renders an ownership map as a list (order irrelevant to the callers).
func listOf(held map[string]blk) []lmEntry {
	he := make([]lmEntry, 0, len(held))
	for sub, b := range held {
		he = append(he, lmEntry{sub, b})
	}
	return he
}

func listSet(l []lmEntry, sub string, b blk) []lmEntry {
	for i := range l {
		if l[i].Sub == sub {
			l[i].B = b
			return l
		}
	}
	return append(l, lmEntry{sub, b})
}

func listDel(l []lmEntry, sub string) []lmEntry {
	for i := range l {
		if l[i].Sub == sub {
			l[i] = l[len(l)-1]
			return l[:len(l)-1]
		}
	}
	return l
}

func entryHash(sub string, b blk) uint64 {
	h := uint64(14695981039346656037)
	mix := func(s string) {
		for i := 0; i < len(s); i++ {
			h = (h ^ uint64(s[i])) * 1099511628211
		}
		h = (h ^ 0xff) * 1099511628211
	}
	mix(sub)
	mix(b.Pub)
	h = (h ^ uint64(b.S)) * 1099511628211
	h = (h ^ uint64(b.E)<<20) * 1099511628211
	return h
}
