package c10

import (
	"fmt"
	"os"
	"os/exec"
	"path/filepath"
	"regexp"
	"strings"
	"testing"

	"verif/harness/internal/vk"
)

// child is true in the preflight process (see preflight).
var child = os.Getenv("VERIF_C10_CHILD") != ""

// skipConcurrent is set when the preflight child died of a process-fatal error in the concurrent
// workload: the error is reported as a violation and the in-process concurrent families are skipped
// (they would take the whole check down with them).
var skipConcurrent bool

var digits = regexp.MustCompile(`[0-9]+`)

// preflight runs the concurrent families once in a child process. The Go runtime turns some
// unsynchronised accesses ("concurrent map writes") into process-fatal errors that no recover()
// can intercept; in a child they are attributed to the workload instead of killing the check.
func preflight() {
	tmp, err := os.MkdirTemp("", "c10pre")
	if err != nil {
		return
	}
	defer os.RemoveAll(tmp)
	cmd := exec.Command(os.Args[0], "-test.run", "^TestConcurrent", "-test.count=1", "-test.timeout=0")
	cmd.Env = append(os.Environ(), "VERIF_C10_CHILD=1", "VERIF_EVIDENCE="+filepath.Join(tmp, "ev.json"), "GORACE=halt_on_error=0 log_path="+filepath.Join(tmp, "race"))
	out, _ := cmd.CombinedOutput()
	txt := string(out)
	if strings.Contains(txt, "SUMMARY property=C10") {
		run.Count("preflight_child_completed", 1)
		return
	}
	lines := strings.Split(txt, "\n")
	for i, l := range lines {
		if strings.HasPrefix(l, "fatal error: ") || strings.HasPrefix(l, "panic: ") {
			cls := digits.ReplaceAllString(strings.TrimSpace(l), "N")
			if len(cls) > 100 {
				cls = cls[:100]
			}
			end := i + 80
			if end > len(lines) {
				end = len(lines)
			}
			skipConcurrent = true
			run.Violation("nat (concurrent callers)", "no-process-fatal-error", cls,
				fmt.Sprintf("the concurrent alloc/dealloc/lookup workload killed the process: %s", strings.TrimSpace(l)), lines[i:end])
			return
		}
	}
	run.Inconclusive("preflight", "child process running the concurrent families ended without a summary and without a recognisable fatal error")
}

func TestMain(m *testing.M) {
	run = vk.Start("C10", "exploration")
	run.Rule("alloc/dealloc histories against a fresh nat.Manager+nat.Logger per history: every sequence of the stated depth over <=6 subscribers (up to subscriber renaming) for each (port range, block size, #public addresses) configuration, seeded random walks of 100-1000 ops over up to 140 subscribers with lookups/stats/flushes/virtual-time jumps, and concurrent histories (allocate-only, mixed with one driver per subscriber, several callers racing on the same private address) under -race; non-trivial = distinct sequential history in which a block was released while a higher block on the same public address was live and a later allocation succeeded on that address (release-from-the-middle then allocate), or a concurrent history with >=2 overlapping calls; map-fault histories: the manager on real kernel hash maps (VerifSetMaps) with a write fault (table filled with foreign keys until the kernel refuses an insert / read-only handle of the same table) switched on and off between operations at subscriber_nat (Put of AllocateNAT, Delete of DeallocateNAT), hairpin_ips (AddPublicIP) and alg_ports (ConfigureALG): every history of the stated depth over {alloc, dealloc, fault-on(full), fault-on(read-only), fault-off} for <=3 subscribers, 1-2 public addresses and pools of 1/2/3/64 blocks, plus seeded random histories over all fault kinds; non-trivial there = a refused subscriber_nat Put followed by a successful new allocation on a public address that had a free block at the refusal")
	run.Rule("log-file lifecycles (disk_test.go): nat.Logger writing to a file with MaxFileSize of 2-20 records (or none), MaxAge of 2 min - 1 h (or none), optional compression, bulk and per-allocation records, flush after every step / by the logger's 5 s tick / only at flush, restart and shutdown; seeded histories of allocations and releases (gaps of 1 s - 4 min, one history in six with sub-second bursts), quiet periods shorter and longer than MaxAge, the production retention tick (rotationLoop, hourly, virtual time) and retention passes called directly, restarts of the logger over the same directory; file modification times follow the virtual clock (os.Chtimes after every step). Non-trivial = a distinct history in which an allocation or release happened after a retention pass that saw the active file older than MaxAge")
	run.Rule("public address configurations (pubcfg_test.go): the pool is built by AddPublicIP one by one (4- and 16-byte net.IP), AddPublicIPRange over 1-8 addresses (also across a /24 boundary), mixtures, steps applied while blocks are held, the same address handed in again; 2-10 blocks per address and more subscribers than two addresses carry; all sequential clauses plus pool-reports-configured-addresses (GetPoolStats) and spread-over-configured-addresses. Non-trivial = a distinct history in which blocks were held on two addresses of one AddPublicIPRange call at once")
	run.Assume("log files: the reader has every file whose name starts with the configured log path (plain or .gz), identical records count once, records are ordered by their timestamps; a record is demanded on disk only when the logger has nothing buffered (after Flush+FlushPortBlocks, after the 5 s tick of a started logger, after Stop) and, with MaxAge configured, only while it is younger than MaxAge minus one second; the assignment record of a block that is still held is demanded whatever its age")
	run.Assume("a subscriber is identified by its private IPv4 address (the key of AllocateNAT/DeallocateNAT); the log reader may use the configured block size but no manager state; blocks are inclusive [PortStart, PortEnd]")
	run.Assume("map-fault histories: the kernel table is read with the manager's own key encoding (its byte order against nat44.c is C06's subject); a subscriber_nat entry that stays behind a release whose Delete the kernel refused is reported only once it overlaps what another subscriber holds")
	run.Assume("the nat.Logger is attached with Manager.SetLogger and writes JSON; other formats are not judged; LoggerConfig has no MaxBackups (retention is by age only)")
	// floors: far below what the quick tier observes; falling under them means the harness could not judge
	for k, n := range map[string]int64{
		"op_alloc_new": 20000, "op_dealloc_held": 10000, "allocations_after_middle_release": 2000,
		"attribution_probes_in_order": 500000, "attribution_probes_by_time": 1000000, "instants_judged_by_time": 50000,
		"log_port_block_assign": 10000, "log_allocate": 10000, "log_port_block_release": 4000, "log_deallocate": 4000,
		"fault_histories": 20000, "fault_position_x_operation_pairs_reached": 8, "fault_histories_refused_put_then_allocation_same_public_ip": 2000, "fault_histories_refused_put_then_allocation_to_other_subscriber_same_public_ip": 1200, "fault_histories_with_refused_delete": 1000, "fault_dataplane_pairs_judged_disjoint": 20000,
		"disk_histories": 400, "disk_checkpoints_judged": 8000, "disk_young_events_judged": 30000, "disk_events_found_on_disk": 2500, "disk_held_blocks_judged": 15000,
		"disk_rotated_files_observed": 200, "disk_compressed_files_observed": 25, "disk_logger_restarts": 100, "disk_stops_at_the_instant_of_the_flush_tick": 300, "disk_quiet_periods_longer_than_maxage": 200, "disk_quiet_periods_not_longer_than_maxage": 100,
		"disk_direct_retention_passes_after_quiet_period_longer_than_maxage": 100, "disk_production_retention_ticks_after_quiet_period_longer_than_maxage": 20,
		"disk_files_removed_by_direct_retention_pass": 70, "disk_files_removed_by_the_production_retention_tick": 15,
		"disk_events_after_quiet_period_and_retention_pass": 1000, "disk_events_after_quiet_period_and_retention_pass_found_on_disk": 800,
		"pubcfg_histories": 500, "pubcfg_add_public_ip_calls": 500, "pubcfg_add_public_ip_range_calls": 300, "pubcfg_ranges_crossing_a_slash24_boundary": 100, "pubcfg_pool_reports_judged": 700,
		"pubcfg_configured_addresses_found_in_pool_report": 3000, "pubcfg_allocations_on_a_later_configured_address": 5000, "pubcfg_histories_holding_blocks_on_two_addresses_of_a_range": 250,
		"pubcfg_steps_applied_mid_history": 100, "pubcfg_addresses_added_again": 10, "pubcfg_spread_judgements": 10000,
		"concurrent_ops": 5000, "overlapping_calls": 500, "same_ip_racing_alloc_pairs": 50, "porcupine_checks": 100,
	} {
		if !child {
			run.Floor(k, n)
		}
	}
	if child {
		run.Rule("preflight child")
	} else {
		preflight()
	}
	code := m.Run()
	run.JudgeRaces(anchored)
	faultTeardown()
	ec := run.Finish()
	if code != 0 && ec == 0 {
		ec = 2
	}
	os.Exit(ec)
}
