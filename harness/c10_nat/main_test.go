package c10

import (
	"os"
	"testing"

	"verif/harness/internal/vk"
)

func TestMain(m *testing.M) {
	run = vk.Start("C10", "exploration")
	run.Rule("alloc/dealloc histories against a fresh nat.Manager+nat.Logger per history: every sequence of the stated depth over <=6 subscribers (up to subscriber renaming) for each (port range, block size, #public addresses) configuration, seeded random walks of 100-1000 ops over up to 140 subscribers with lookups/stats/flushes/virtual-time jumps, and concurrent histories (allocate-only, mixed with one driver per subscriber, several callers racing on the same private address) under -race; non-trivial = distinct sequential history in which a block was released while a higher block on the same public address was live and a later allocation succeeded on that address (release-from-the-middle then allocate), or a concurrent history with >=2 overlapping calls")
	run.Assume("a subscriber is identified by its private IPv4 address (the key of AllocateNAT/DeallocateNAT); the log reader may use the configured block size but no manager state; blocks are inclusive [PortStart, PortEnd]")
	run.Assume("the nat.Logger is attached with Manager.SetLogger and writes JSON; other formats and file rotation are not judged")
	code := m.Run()
	run.JudgeRaces(anchored)
	ec := run.Finish()
	if code != 0 && ec == 0 {
		ec = 2
	}
	os.Exit(ec)
}
