package c10

import (
	"fmt"
	"math/rand/v2"
	"os"
	"runtime"
	"sort"
	"strconv"
	"strings"
	"sync"
	"testing"
	"testing/synctest"
	"time"

	"github.com/cilium/ebpf"
)

// ---------------------------------------------------------------- sequential cases (E1, virtual time)

type seqOp struct {
	K   byte          // 'a' alloc, 'd' dealloc, 'g' lookup, 's' pool stats, 'f' flush, 'P' apply step Sub of the address plan
	Sub int           // subscriber index
	D   time.Duration // virtual time that passes before the op (>= 1ns, so every op has its own instant)
}

type seqCase struct {
	G       geom
	NPub    int
	Mode    logMode
	Ops     []seqOp
	Seed    uint64
	WithMap bool
	Family  string
	// Plan, when set, replaces "AddPublicIP for the first NPub default addresses": the first PlanInit steps
	// configure the pool before the first operation, the others are applied by 'P' operations (pubcfg_test.go).
	Plan     []pubStep
	PlanInit int
	Style    string
}

func (c *seqCase) opsKey() string {
	var b strings.Builder
	for _, o := range c.Ops {
		if o.K == 'a' || o.K == 'd' {
			fmt.Fprintf(&b, "%c%d ", o.K, o.Sub)
		}
	}
	return b.String()
}

// tally collects observations of one worker and is merged into the run at the end of a batch.
type tally struct {
	c      map[string]int
	states map[uint64]struct{}
	nontr  []string
	evals  int
}

func newTally() *tally { return &tally{c: map[string]int{}, states: map[uint64]struct{}{}} }
func (t *tally) add(k string, n int) {
	t.c[k] += n
}
func (t *tally) merge() {
	for k, n := range t.c {
		run.Count(k, n)
	}
	for s := range t.states {
		run.Distinct("abstract_states", strconv.FormatUint(s, 16))
	}
	for _, k := range t.nontr {
		run.Nontrivial(k)
	}
	run.Evals(t.evals)
	*t = *newTally()
}

// snap is the instant of one op and what it changed in the model (only the op's own subscriber can change).
type snap struct {
	T       time.Time
	Sub     string
	Changed bool
	Set     bool
	B       blk
	Focus   []blk
	Op      int
}

var seenTriples sync.Map

// runSeq executes one sequential history against a fresh manager + logger and judges every clause.
// Must run inside a synctest bubble. Returns true if the history was non-trivial (a block was released
// from below a live one and a later allocation succeeded on that address).
func runSeq(c *seqCase, tl *tally) bool {
	g := c.G
	rng := rand.New(rand.NewPCG(c.Seed, 0xc10))
	rnd := func(n int) int {
		if n <= 0 {
			return 0
		}
		return rng.IntN(n)
	}
	nPubInit := c.NPub
	if c.Plan != nil {
		nPubInit = 0
	}
	mgr := newManager(g, nPubInit)
	dir := ""
	if c.Mode.File {
		d, err := os.MkdirTemp("", "c10log")
		if err != nil {
			panic(err)
		}
		dir = d
		defer os.RemoveAll(dir)
	}
	lg, buf, path := newLogger(c.Mode, dir)
	mgr.SetLogger(lg)
	if c.Mode.Started {
		lg.Start()
	}
	stopped := false
	defer func() { // a panic below must not leave the logger's flush goroutine alive inside the bubble
		if !stopped {
			defer func() { recover() }()
			lg.Stop()
		}
	}()
	var bm *ebpf.Map
	if c.WithMap {
		if bm = newSubscriberNATMap(); bm != nil {
			mgr.VerifC10SetSubscriberNATMap(bm)
			defer bm.Close()
			tl.add("histories_with_real_bpf_map", 1)
		}
	}
	pubs := map[string]bool{}
	pubList := pubNames(nPubInit)
	for _, p := range pubList {
		pubs[p] = true
	}

	held := map[string]blk{}      // the model: subscriber -> block it was told
	subIDs := map[uint32]string{} // SubscriberID -> subscriber
	var hist []string
	sk := &sink{g: g, nPub: c.NPub, mode: c.Mode.String(), family: c.Family, hist: func() []string { return append([]string(nil), hist...) }}
	var pc *pubCfg
	if c.Plan != nil {
		pc = newPubCfg(c, mgr, sk, tl, pubs, &hist)
		for i := 0; i < c.PlanInit; i++ {
			pc.apply(i)
		}
		pubList = pc.list
		pc.checkPool("after the initial configuration")
	}
	lm := &logModel{}
	var recsAll []logRec
	var fileOff int64
	var snaps []snap
	var heldList []lmEntry
	stateHash := entryHash(g.Name, blk{S: c.NPub})
	seen := map[int]bool{}
	var seenList []int
	holes := map[string]bool{}
	nontrivial := false

	pull := func() {
		var data []byte
		if buf != nil {
			data = buf.next()
		} else {
			data = readFileFrom(path, &fileOff)
		}
		if len(data) == 0 {
			return
		}
		recs, bad := parseLog(g, data, len(recsAll))
		for _, b := range bad {
			sk.report(compLog, "attribution-in-order", "unparsable-record", "log line cannot be interpreted as a port-block record: "+b)
		}
		for _, r := range recs {
			lm.apply(r)
			tl.add("log_"+r.Kind, 1)
		}
		recsAll = append(recsAll, recs...)
	}

	for k, op := range c.Ops {
		if op.D > 0 {
			time.Sleep(op.D)
		}
		now := time.Now()
		ip := privIP(op.Sub)
		name := ip.String()
		var focus []blk
		ob, wasHeld := held[name]
		if !seen[op.Sub] {
			seen[op.Sub] = true
			seenList = append(seenList, op.Sub)
		}
		switch op.K {
		case 'a':
			a, err := mgr.AllocateNAT(ip)
			if err != nil {
				hist = append(hist, fmt.Sprintf("alloc(%s) -> error: %v", name, err))
				if b, ok := held[name]; ok {
					sk.report(compAlloc, "same-block-until-released", "error-for-holder", fmt.Sprintf("alloc(%s) failed (%v) although %s holds %s", name, err, name, b))
				}
				tl.add("op_alloc_refused", 1)
				break
			}
			v := viewOf(a)
			hist = append(hist, fmt.Sprintf("alloc(%s) -> %s", name, v.B))
			checkShape(sk, g, pubs, name, v)
			if old, ok := held[name]; ok {
				tl.add("op_alloc_reask", 1)
				if old != v.B {
					sk.report(compAlloc, "same-block-until-released", "different-block-on-reask", fmt.Sprintf("%s held %s and was given %s on asking again", name, old, v.B))
				}
				held[name] = v.B
			} else {
				tl.add("op_alloc_new", 1)
				others := make([]string, 0, len(held))
				for o := range held {
					others = append(others, o)
				}
				sort.Strings(others)
				for _, o := range others {
					if ob := held[o]; ob.overlaps(v.B) {
						cls := overlapClass(g, held, v.B, ob)
						if pc != nil && pc.added[v.B.Pub] > 1 {
							cls = "public-address-added-more-than-once" // a different cause than a wrong block index: the same address sits in the pool twice
						}
						sk.report(compAlloc, "no-overlap", cls, fmt.Sprintf("alloc(%s) returned %s while %s still holds %s", name, v.B, o, ob))
						tl.add("overlaps_observed", 1)
						break
					}
				}
				if holes[v.B.Pub] {
					nontrivial = true
					tl.add("allocations_after_middle_release", 1)
				}
				held[name] = v.B
			}
			if prev, ok := subIDs[v.SubID]; ok && prev != name {
				sk.report(compAlloc, "attributable-allocation", "subscriber-id-shared", fmt.Sprintf("SubscriberID %d given to %s and to %s", v.SubID, prev, name))
			}
			subIDs[v.SubID] = name
			focus = []blk{v.B}
		case 'd':
			old, had := held[name]
			err := mgr.DeallocateNAT(ip)
			if err != nil {
				hist = append(hist, fmt.Sprintf("dealloc(%s) -> error: %v", name, err))
				tl.add("op_dealloc_error", 1)
				if mgr.GetAllocation(ip) == nil {
					delete(held, name)
				}
				break
			}
			hist = append(hist, fmt.Sprintf("dealloc(%s)", name))
			if had {
				tl.add("op_dealloc_held", 1)
				for _, b := range held {
					if b.Pub == old.Pub && b.S > old.S {
						holes[old.Pub] = true
						tl.add("releases_from_the_middle", 1)
						break
					}
				}
				delete(held, name)
				focus = []blk{old}
			} else {
				tl.add("op_dealloc_noop", 1)
			}
		case 'g':
			tl.add("op_lookup", 1) // judged by the lookups below
			hist = append(hist, fmt.Sprintf("lookup(%s)", name))
		case 's':
			tl.add("op_poolstats", 1)
			for _, pe := range mgr.GetPoolStats() {
				n := 0
				for _, b := range held {
					if b.Pub == pe.PublicIP.String() {
						n++
					}
				}
				if n == pe.Subscribers {
					tl.add("poolstats_entries_agreeing_with_model", 1)
				} else {
					tl.add("poolstats_entries_disagreeing_observed", 1) // observation only: counts are C05's subject
				}
			}
		case 'f':
			tl.add("op_flush", 1)
			lg.Flush()
			lg.FlushPortBlocks()
		case 'P':
			pc.apply(op.Sub)
			pubList = pc.list
			pc.checkPool(fmt.Sprintf("after op %d", k+1))
		}
		if pc != nil && op.K == 'a' {
			pc.afterAlloc(held, name, k+1)
		}

		// lookups: the manager's view of who holds what must agree with what it told the callers
		check := seenList
		if len(check) > 8 {
			check = []int{op.Sub}
			for i := 0; i < 4; i++ {
				check = append(check, seenList[rnd(len(seenList))])
			}
		}
		for _, s := range check {
			sip := privIP(s)
			sn := sip.String()
			hb, isHeld := held[sn]
			a := mgr.GetAllocation(sip)
			tl.add("lookups_judged", 1)
			switch {
			case isHeld && a == nil:
				sk.report(compLookup, "lookup-agrees", "holder-not-found", fmt.Sprintf("%s holds %s but GetAllocation finds nothing", sn, hb))
			case !isHeld && a != nil:
				sk.report(compLookup, "lookup-agrees", "held-after-release", fmt.Sprintf("%s holds nothing but GetAllocation returns %s", sn, viewOf(a).B))
			case isHeld && viewOf(a).B != hb:
				sk.report(compLookup, "same-block-until-released", "lookup-shows-different-block", fmt.Sprintf("%s was told %s, GetAllocation now returns %s", sn, hb, viewOf(a).B))
			}
			if bm != nil {
				mb, ok := mapBlock(bm, sip)
				tl.add("bpf_map_entries_judged", 1)
				switch {
				case isHeld && !ok:
					sk.report(compMap, "dataplane-map-agrees", "entry-missing", fmt.Sprintf("%s holds %s but subscriber_nat has no entry", sn, hb))
				case !isHeld && ok:
					sk.report(compMap, "dataplane-map-agrees", "entry-after-release", fmt.Sprintf("%s holds nothing but subscriber_nat still maps it to %s", sn, mb))
				case isHeld && mb != hb:
					sk.report(compMap, "dataplane-map-agrees", "entry-differs", fmt.Sprintf("%s was told %s, subscriber_nat says %s", sn, hb, mb))
				}
			}
		}

		// what this op changed in the model
		sn := snap{T: now, Sub: name, Focus: focus, Op: k + 1}
		if nb, isHeld := held[name]; isHeld != wasHeld || nb != ob {
			sn.Changed, sn.Set, sn.B = true, isHeld, nb
			if wasHeld {
				stateHash ^= entryHash(name, ob)
				heldList = listDel(heldList, name)
			}
			if isHeld {
				stateHash ^= entryHash(name, nb)
				heldList = listSet(heldList, name, nb)
			}
		}
		snaps = append(snaps, sn)
		tl.states[stateHash] = struct{}{}

		// the log, read in order
		if c.Mode.Flush == "explicit" {
			lg.Flush()
			lg.FlushPortBlocks()
		}
		// let the logger's own flush goroutine finish whatever it took out of the buffer at this instant
		// (a timer flush and an explicit flush may coincide); the harness reads the log only when it is quiescent
		synctest.Wait()
		pull()
		if c.Mode.Flush == "explicit" {
			n, cls, desc := compareAttribution(g, pubList, heldList, lm, focus, rnd)
			tl.add("attribution_probes_in_order", n)
			if cls != "" {
				sk.report(compLog, "attribution-in-order", cls, fmt.Sprintf("after op %d: %s", k+1, desc))
			}
		}
	}

	if pc != nil {
		pc.checkPool("at the end of the history")
		pc.finish(nontrivial)
	}
	// shutdown flushes whatever is buffered
	synctest.Wait()
	mgr.Stop()
	stopped = true
	synctest.Wait()
	pull()
	n, cls, desc := compareAttribution(g, pubList, heldList, lm, nil, rnd)
	tl.add("attribution_probes_in_order", n)
	if cls != "" {
		sk.report(compLog, "attribution-in-order", cls, "after shutdown (everything flushed): "+desc)
	}
	if lm.unmatched > 0 {
		tl.add("log_release_records_without_open_assignment", lm.unmatched)
	}

	// the log, read by timestamp: at the instant of every op the records stamped up to that instant
	// must attribute every probe to exactly the holder at that instant
	sorted := append([]logRec(nil), recsAll...)
	sort.SliceStable(sorted, func(i, j int) bool { return sorted[i].TS.Before(sorted[j].TS) })
	lmT := &logModel{}
	var heldT []lmEntry
	p := 0
	for _, sn := range snaps {
		if sn.Changed {
			if sn.Set {
				heldT = listSet(heldT, sn.Sub, sn.B)
			} else {
				heldT = listDel(heldT, sn.Sub)
			}
		}
		for p < len(sorted) && !sorted[p].TS.After(sn.T) {
			lmT.apply(sorted[p])
			p++
		}
		n, cls, desc := compareAttribution(g, pubList, heldT, lmT, sn.Focus, rnd)
		tl.add("attribution_probes_by_time", n)
		tl.add("instants_judged_by_time", 1)
		if cls != "" {
			sk.report(compLog, "attribution-by-time", cls, fmt.Sprintf("at the instant of op %d (%s): %s", sn.Op, sn.T.UTC().Format(time.RFC3339Nano), desc))
			p = len(sorted) // judged up to the first mismatch only
			break
		}
	}
	if p < len(sorted) {
		sk.report(compLog, "attribution-by-time", "record-stamped-after-last-event", fmt.Sprintf("%d record(s) carry a timestamp later than the last operation", len(sorted)-p))
	}
	tl.evals++
	tl.add("histories_"+c.Family, 1)
	if nontrivial {
		tl.nontr = append(tl.nontr, c.Family+"|"+g.Name+"|"+fmt.Sprint(c.NPub)+"|"+c.opsKey())
		tl.add("histories_with_allocation_after_middle_release", 1)
	}
	return nontrivial
}

var deltas = []time.Duration{1, time.Millisecond, time.Second, 5 * time.Second, 5*time.Second + 1, 11 * time.Second, 999 * time.Millisecond, 1, time.Microsecond}

// BufferSize 0 means the logger's default of 1000 entries: it re-allocates a ~200 KB buffer on every flush,
// which is very slow under the race detector, so the default is exercised only by every 40th history.
var bufSizes = []int{1, 2, 3, 5, 10}

func pickMode(rng *rand.Rand, allowFile bool) logMode {
	m := logMode{Bulk: rng.IntN(2) == 0, Flush: []string{"explicit", "ticker", "stop"}[rng.IntN(3)], BufSize: bufSizes[rng.IntN(len(bufSizes))]}
	switch rng.IntN(200) {
	case 0:
		m.BufSize = 0
	case 1, 2:
		m.BufSize = 100
	case 3, 4, 5, 6:
		m.BufSize = 20
	}
	m.Started = m.Flush == "ticker" || rng.IntN(2) == 0
	if allowFile && rng.IntN(4) == 0 {
		m.File = true
	}
	return m
}

// runBatches feeds batches of cases to workers; every batch runs inside one synctest bubble.
func runBatches(t *testing.T, cases <-chan []*seqCase, sample func(c *seqCase, nontrivial bool)) {
	var wg sync.WaitGroup
	for w := 0; w < runtime.NumCPU(); w++ {
		wg.Add(1)
		go func() {
			defer wg.Done()
			tl := newTally()
			for batch := range cases {
				synctest.Test(t, func(t *testing.T) {
					for _, c := range batch {
						nt := safeRunSeq(c, tl)
						if sample != nil {
							sample(c, nt)
						}
					}
				})
				tl.merge()
			}
		}()
	}
	wg.Wait()
}

// TestA_Scenarios runs a handful of minimal hand-written histories first, so that the witness stored
// for a violation class is the shortest one.
func TestA_Scenarios(t *testing.T) {
	type sc struct {
		ops string
		n   int
	}
	scs := []sc{{"a0 a1 d0 a2", 1}, {"a0 a1 a2 d1 a3", 1}, {"a0 a0 d0 a0", 1}, {"a0 a1 a2", 2}, {"a0 d0 d0 a1 a0", 3}, {"a0 a1 d0 a2 d2 d1 a0", 2}}
	var cases []*seqCase
	i := 0
	for _, g := range designGeoms {
		for _, s := range scs {
			for _, bulk := range []bool{true, false} {
				for _, fl := range []string{"explicit", "ticker", "stop"} {
					var ops []seqOp
					for _, f := range strings.Fields(s.ops) {
						var sub int
						fmt.Sscanf(f[1:], "%d", &sub)
						ops = append(ops, seqOp{K: f[0], Sub: sub, D: deltas[(i+len(ops))%len(deltas)]})
					}
					cases = append(cases, &seqCase{G: g, NPub: s.n, Mode: logMode{Bulk: bulk, Flush: fl, Started: fl != "stop", BufSize: bufSizes[i%len(bufSizes)]}, Ops: ops, Seed: uint64(run.Seed) + uint64(i), WithMap: i%5 == 0, Family: "scenario"})
					i++
				}
			}
		}
	}
	tl := newTally()
	synctest.Test(t, func(t *testing.T) {
		for _, c := range cases {
			safeRunSeq(c, tl)
		}
	})
	tl.merge()
}

// TestExhaustive enumerates every alloc/dealloc sequence of the given depth over <= 6 subscribers
// (up to renaming of subscribers: a new subscriber is always the next unused index).
func TestExhaustive(t *testing.T) {
	depthAll := run.Pick(5, 7) // every sequence
	depthEff := run.Pick(7, 8) // every sequence without a release that can only be a no-op
	type combo struct {
		g    geom
		nPub int
	}
	var combos []combo
	for _, g := range designGeoms {
		if g.slots() >= 6 {
			combos = append(combos, combo{g, 1}) // six subscribers never leave the first address
			continue
		}
		for n := 1; n <= 3; n++ {
			combos = append(combos, combo{g, n})
		}
	}
	ch := make(chan []*seqCase, 64)
	var sampled sync.Map
	total := 0
	go func() {
		defer close(ch)
		idx := 0
		for ci, cb := range combos {
			var batch []*seqCase
			gen := func(ops []seqOp) {
				rng := run.SubRand(fmt.Sprintf("exh-%d", ci), idx)
				cp := make([]seqOp, len(ops))
				for i, o := range ops {
					o.D = deltas[rng.IntN(len(deltas))]
					cp[i] = o
				}
				batch = append(batch, &seqCase{G: cb.g, NPub: cb.nPub, Mode: pickMode(rng, false), Ops: cp, Seed: rng.Uint64(), Family: "exhaustive"})
				idx++
				total++
				if len(batch) == 256 {
					ch <- batch
					batch = nil
				}
			}
			dAll := depthAll
			if run.Thorough() && cb.nPub == 3 {
				dAll-- // budget: the three-address configurations enumerate all sequences one level shallower
			}
			enumerate(dAll, 6, false, gen)
			enumerate(depthEff, 6, true, gen)
			if len(batch) > 0 {
				ch <- batch
			}
		}
	}()
	runBatches(t, ch, func(c *seqCase, nt bool) {
		if nt {
			if _, dup := sampled.LoadOrStore(c.G.Name+fmt.Sprint(c.NPub), true); !dup && (c.G.Name == designGeoms[1].Name || c.G.Name == designGeoms[3].Name) {
				run.Sample(map[string]any{"kind": "exhaustive", "geometry": c.G.Name, "public_ips": c.NPub, "logging": c.Mode.String(), "history": c.opsKey()})
			}
		}
	})
	run.Count("exhaustive_histories", total)
	run.Extra("exhaustive_depth_all_sequences", depthAll)
	if run.Thorough() {
		run.Extra("exhaustive_depth_all_sequences_three_address_configurations", depthAll-1)
	}
	run.Extra("exhaustive_depth_sequences_without_noop_release", depthEff)
	run.Extra("exhaustive_configurations", len(combos))
}

// enumerate calls fn for every alloc/dealloc sequence of exactly the given depth in which a new subscriber is
// always the next unused index. With prune, a dealloc is generated only for a subscriber whose last operation
// was an alloc (deallocs that can only be no-ops are left to the unpruned, shallower enumeration).
func enumerate(depth, maxSubs int, prune bool, fn func(ops []seqOp)) {
	ops := make([]seqOp, depth)
	var rec func(pos, used int, live uint)
	rec = func(pos, used int, live uint) {
		if pos == depth {
			fn(ops)
			return
		}
		lim := used + 1
		if lim > maxSubs {
			lim = maxSubs
		}
		for s := 0; s < lim; s++ {
			nu := used
			if s == used {
				nu++
			}
			ops[pos] = seqOp{K: 'a', Sub: s}
			rec(pos+1, nu, live|1<<uint(s))
			if prune && live&(1<<uint(s)) == 0 {
				continue
			}
			ops[pos] = seqOp{K: 'd', Sub: s}
			rec(pos+1, nu, live&^(1<<uint(s)))
		}
	}
	rec(0, 0, 0)
}

// TestRandomWalks: seeded long histories over all geometries, 1-3 public addresses, up to ~140 subscribers
// (enough to fill an address completely and spill to the next), with lookups, pool stats, flushes and time jumps.
func TestRandomWalks(t *testing.T) {
	walks := run.Pick(400, 3500)
	all := append(append([]geom(nil), designGeoms...), extraGeoms...)
	ch := make(chan []*seqCase, 64)
	go func() {
		defer close(ch)
		var batch []*seqCase
		for w := 0; w < walks; w++ {
			rng := run.SubRand("walk", w)
			g := all[w%len(all)]
			nPub := 1 + rng.IntN(3)
			var nSubs int
			switch rng.IntN(4) {
			case 0:
				nSubs = 2 + rng.IntN(5)
			case 1:
				nSubs = g.slots() + 2
			case 2:
				nSubs = g.slots()*nPub + 1
			default:
				nSubs = 2*g.slots() + 1
			}
			if nSubs > 140 {
				nSubs = 140
			}
			if nSubs < 2 {
				nSubs = 2
			}
			n := 100 + rng.IntN(run.Pick(500, 901))
			var ops []seqOp
			var live []int // generator's guess of who is allocated, oldest first
			rm := func(s int) {
				for i, x := range live {
					if x == s {
						live = append(live[:i], live[i+1:]...)
						return
					}
				}
			}
			if rng.IntN(3) == 0 { // fill first
				for s := 0; s < nSubs; s++ {
					ops = append(ops, seqOp{K: 'a', Sub: s, D: 1})
					live = append(live, s)
				}
			}
			for len(ops) < n {
				d := deltas[rng.IntN(len(deltas))]
				x := rng.IntN(100)
				switch {
				case x < 45:
					s := rng.IntN(nSubs)
					ops = append(ops, seqOp{K: 'a', Sub: s, D: d})
					rm(s)
					live = append(live, s)
				case x < 80:
					s := rng.IntN(nSubs)
					if y := rng.IntN(10); len(live) > 1 && y < 4 {
						s = live[len(live)-2] // most recently allocated but one
					} else if len(live) > 0 && y < 6 {
						s = live[0] // oldest
					}
					ops = append(ops, seqOp{K: 'd', Sub: s, D: d})
					rm(s)
				case x < 88:
					ops = append(ops, seqOp{K: 'g', Sub: rng.IntN(nSubs), D: d})
				case x < 93:
					ops = append(ops, seqOp{K: 's', D: d})
				default:
					ops = append(ops, seqOp{K: 'f', D: d})
				}
			}
			batch = append(batch, &seqCase{G: g, NPub: nPub, Mode: pickMode(rng, true), Ops: ops, Seed: rng.Uint64(), WithMap: w%4 == 0, Family: "random_walk"})
			if len(batch) == 4 {
				ch <- batch
				batch = nil
			}
		}
		if len(batch) > 0 {
			ch <- batch
		}
	}()
	var once sync.Once
	runBatches(t, ch, func(c *seqCase, nt bool) {
		if nt && c.G.Name == designGeoms[2].Name {
			once.Do(func() {
				k := c.opsKey()
				if len(k) > 200 {
					k = k[:200] + "…"
				}
				run.Sample(map[string]any{"kind": "random-walk", "geometry": c.G.Name, "public_ips": c.NPub, "logging": c.Mode.String(), "ops": len(c.Ops), "first_ops": k})
			})
		}
	})
}

// safeRunSeq turns a panic inside the code under test into a violation instead of a dead check.
func safeRunSeq(c *seqCase, tl *tally) (nt bool) {
	defer func() {
		if r := recover(); r != nil {
			cls := digits.ReplaceAllString(fmt.Sprint(r), "N")
			if len(cls) > 100 {
				cls = cls[:100]
			}
			sk := &sink{g: c.G, nPub: c.NPub, mode: c.Mode.String(), family: c.Family, hist: func() []string { return []string{c.opsKey()} }}
			sk.report("nat (sequential history)", "no-panic", cls, fmt.Sprintf("history %q panicked: %v", c.opsKey(), r))
		}
	}()
	return runSeq(c, tl)
}
