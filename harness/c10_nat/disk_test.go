package c10

import (
	"bytes"
	"compress/gzip"
	"fmt"
	"io"
	"math/rand/v2"
	"os"
	"path/filepath"
	"runtime"
	"sort"
	"strings"
	"sync"
	"syscall"
	"testing"
	"testing/synctest"
	"time"

	"github.com/codelaboratoryltd/bng/pkg/nat"
)

// ---------------------------------------------------------------- the port-block log as it is on DISK
//
// The other families read the log from a harness-owned writer or from one never-rotated file. Here the logger
// writes to a file with rotation by size (MaxFileSize of a few records), retention by age (MaxAge of minutes to
// hours), optional compression, over its whole lifecycle: allocations and releases, quiet periods shorter and
// longer than MaxAge, the production retention tick (rotationLoop, hourly, under virtual time) and retention
// passes driven directly (VerifC10bCleanOldLogs), restarts of the logger over the same directory, shutdown.
//
// The bubble's clock is virtual but the file system's is not: after every step the harness stamps every log file
// that was written since the last look with the virtual time (os.Chtimes), so that "modification time" means
// what it means in production. A stamp is never earlier than the write it stands for.
//
// Oracle, from nothing but the files under the configured path (active file, rotated files, .gz):
//
//   disk-keeps-records-younger-than-maxage   whenever the logger has nothing buffered: every allocation and
//        release younger than MaxAge (all of them when no MaxAge is configured) has its record on disk (same
//        kind, subscriber, public address, block start; stamped within the instant of the operation)
//   disk-attributes-held-blocks              at the same moments: replaying what is on disk by timestamp names,
//        for every probe (public address, port), exactly the subscriber that holds it now
//
// The witness class says what happened to the record in question (never reached the disk / went away with the
// active file / with a rotated file / its rotated file was overwritten), from what the harness saw on disk.

const compDisk = "nat.Logger (log files)"

type diskOp struct {
	K   byte // 'a' alloc, 'd' dealloc, 'f' flush, 'q' quiet period, 'c' retention pass (direct), 'r' restart the logger over the same directory
	Sub int
	D   time.Duration // virtual time before the op
}

type diskCase struct {
	G        geom
	NPub     int
	Bulk     bool
	BufSize  int
	Started  bool
	Flush    string // explicit | ticker | stop
	MaxSize  int64
	MaxAge   time.Duration
	Compress bool
	Ops      []diskOp
	Seed     uint64
	Family   string
}

func (c *diskCase) mode() string {
	k := "per-allocation"
	if c.Bulk {
		k = "bulk"
	}
	return fmt.Sprintf("%s/file/flush=%s/started=%v/buffer=%d/max-size=%d/max-age=%s/compress=%v", k, c.Flush, c.Started, c.BufSize, c.MaxSize, c.MaxAge, c.Compress)
}

func (c *diskCase) opsKey() string {
	var b strings.Builder
	for _, o := range c.Ops {
		switch o.K {
		case 'a', 'd':
			fmt.Fprintf(&b, "%c%d ", o.K, o.Sub)
		case 'q':
			fmt.Fprintf(&b, "q(%s) ", o.D)
		default:
			fmt.Fprintf(&b, "%c ", o.K)
		}
	}
	return b.String()
}

// devent is one allocation or release the manager performed, as the callers saw it.
type devent struct {
	Assign bool
	Sub    string
	B      blk
	T      time.Time
	Next   time.Time // instant of the following operation (zero = none yet)
	Op     int
	Scan   int  // number of the harness's last look at the directory before the operation
	After  bool // happened after a retention pass that followed a quiet period longer than MaxAge
	found  bool
	// AtStop: the record can still have been in the logger's buffer when the logger was stopped at the very instant of its
	// own 5 s flush tick (Stop and the tick's flush then run concurrently)
	AtStop bool
}

func (e *devent) kind() string {
	if e.Assign {
		return "assign"
	}
	return "release"
}

func (e *devent) ident() string {
	return fmt.Sprintf("%s|%s|%s|%d", e.kind(), e.Sub, e.B.Pub, e.B.S)
}

func recIdent(r logRec) string {
	k := "release"
	if r.Assign {
		k = "assign"
	}
	return fmt.Sprintf("%s|%s|%s|%d", k, r.Sub, r.B.Pub, r.B.S)
}

type seenRec struct {
	R        logRec
	File     string // where it was seen last
	Scan     int    // when it was seen last
	Present  bool   // at the last scan
	identStr string
}

type fileSig struct {
	size  int64
	mtime time.Time
	ino   uint64
}

type cachedFile struct {
	sig  fileSig
	seen []*seenRec
	bad  int
}

// diskView is the harness's memory of what it saw under the log path.
type diskView struct {
	dir, base string
	g         geom
	scanNo    int
	cache     map[string]*cachedFile
	names     map[string]int // rotated file name -> scan at which it was first seen
	present   map[string]bool
	recs      map[string]*seenRec   // full record key -> last sighting
	byIdent   map[string][]*seenRec // ident -> sightings
	activeOK  bool
	activeMod time.Time // modification time of the active file at the last scan (virtual)
	tl        *tally
	realFloor time.Time
	gone      int // rotated files that went away between the last two scans
	fresh     int // rotated files that appeared between the last two scans
	unreadble []string
}

func newDiskView(dir, base string, g geom, tl *tally) *diskView {
	return &diskView{dir: dir, base: base, g: g, cache: map[string]*cachedFile{}, names: map[string]int{}, present: map[string]bool{},
		recs: map[string]*seenRec{}, byIdent: map[string][]*seenRec{}, tl: tl, realFloor: time.Date(2015, 1, 1, 0, 0, 0, 0, time.UTC)}
}

func readMaybeGz(path string) ([]byte, error) {
	data, err := os.ReadFile(path)
	if err != nil {
		return nil, err
	}
	if !strings.HasSuffix(path, ".gz") {
		return data, nil
	}
	zr, err := gzip.NewReader(bytes.NewReader(data))
	if err != nil {
		return nil, err
	}
	defer zr.Close()
	return io.ReadAll(zr)
}

// scan looks at the directory: stamps freshly written files with the virtual time and records which records are
// where. Must be called when the logger is quiescent (after synctest.Wait()).
func (v *diskView) scan() {
	v.scanNo++
	now := time.Now()
	ents, err := os.ReadDir(v.dir)
	if err != nil {
		return
	}
	for _, s := range v.recs {
		s.Present = false
	}
	nowPresent := map[string]bool{}
	v.activeOK = false
	v.fresh, v.gone = 0, 0
	for _, e := range ents {
		name := e.Name()
		if e.IsDir() || !strings.HasPrefix(name, v.base) {
			continue
		}
		path := filepath.Join(v.dir, name)
		info, err := e.Info()
		if err != nil {
			continue
		}
		if info.ModTime().After(v.realFloor) { // written since the last look: the file system stamped it with the real clock
			os.Chtimes(path, now, now)
			if info, err = os.Stat(path); err != nil {
				continue
			}
			v.tl.add("disk_file_mtimes_set_to_virtual_time", 1)
		}
		var ino uint64
		if st, ok := info.Sys().(*syscall.Stat_t); ok {
			ino = st.Ino
		}
		sig := fileSig{info.Size(), info.ModTime(), ino}
		cf := v.cache[name]
		if cf == nil || cf.sig != sig {
			data, err := readMaybeGz(path)
			cf = &cachedFile{sig: sig}
			if err != nil {
				cf.bad = 1
				v.unreadble = append(v.unreadble, name+": "+err.Error())
			} else {
				recs, bad := parseLog(v.g, data, 0)
				cf.bad = len(bad)
				for _, r := range recs {
					id := recIdent(r)
					k := fmt.Sprintf("%s|%d", id, r.TS.UnixNano())
					s := v.recs[k]
					if s == nil {
						s = &seenRec{R: r, identStr: id}
						v.recs[k] = s
						v.byIdent[id] = append(v.byIdent[id], s)
					}
					cf.seen = append(cf.seen, s)
				}
			}
			v.cache[name] = cf
			if strings.HasSuffix(name, ".gz") {
				v.tl.add("disk_gz_files_read", 1)
			}
		}
		nowPresent[name] = true
		if name == v.base {
			v.activeOK = true
			v.activeMod = info.ModTime()
		} else if _, known := v.names[name]; !known {
			v.names[name] = v.scanNo
			v.fresh++
			if strings.HasSuffix(name, ".gz") {
				v.tl.add("disk_compressed_files_observed", 1)
			} else {
				v.tl.add("disk_rotated_files_observed", 1)
			}
		}
		for _, s := range cf.seen {
			s.File, s.Scan, s.Present = name, v.scanNo, true
		}
	}
	for name := range v.present {
		if !nowPresent[name] && name != v.base {
			if strings.HasSuffix(name, ".gz") || !nowPresent[name+".gz"] { // a plain file replaced by its .gz did not go away
				v.gone++
			}
		}
	}
	for name := range v.cache {
		if !nowPresent[name] {
			delete(v.cache, name)
		}
	}
	v.present = nowPresent
}

// onDisk returns the records present at the last scan, ordered by timestamp.
func (v *diskView) onDisk() []logRec {
	var out []logRec
	for _, s := range v.recs {
		if s.Present {
			out = append(out, s.R)
		}
	}
	sort.Slice(out, func(i, j int) bool {
		if !out[i].TS.Equal(out[j].TS) {
			return out[i].TS.Before(out[j].TS)
		}
		return out[i].Assign && !out[j].Assign
	})
	return out
}

// sighting returns the record that stands for event e (present or not), nil if none was ever on disk.
func (v *diskView) sighting(e *devent) *seenRec {
	var best *seenRec
	for _, s := range v.byIdent[e.ident()] {
		if s.R.TS.Before(e.T) || (!e.Next.IsZero() && !s.R.TS.Before(e.Next)) {
			continue
		}
		if best == nil || (s.Present && !best.Present) {
			best = s
		}
	}
	return best
}

// fate says what became of the record of event e, from what was seen on disk.
//
//	on-disk
//	never-reached-disk[-active-file-unlinked]   never seen in any file, and the active file was not rotated since
//	lost-in-rotation                            the active file was rotated after the record was written (or last seen
//	                                            in it), or the rotated file it was in has other content now: no file has it
//	removed-with-the-active-file                last seen in the active file, which was not rotated since
//	removed-with-a-rotated-file                 last seen in a rotated file that is gone
func (v *diskView) fate(e *devent) string {
	s := v.sighting(e)
	since := e.Scan
	if s != nil {
		if s.Present {
			return "on-disk"
		}
		since = s.Scan
	}
	if s == nil || s.File == v.base {
		for _, first := range v.names {
			if first > since {
				return "lost-in-rotation"
			}
		}
	}
	switch {
	case s == nil && !v.activeOK:
		return "never-reached-disk-active-file-unlinked"
	case s == nil:
		return "never-reached-disk"
	case s.File == v.base:
		return "removed-with-the-active-file"
	case v.present[s.File]:
		return "lost-in-rotation"
	}
	return "removed-with-a-rotated-file"
}

// runDisk executes one lifecycle history. Must run inside a synctest bubble.
func runDisk(c *diskCase, tl *tally) {
	g := c.G
	rng := rand.New(rand.NewPCG(c.Seed, 0xd15c))
	rnd := func(n int) int {
		if n <= 0 {
			return 0
		}
		return rng.IntN(n)
	}
	dir, err := os.MkdirTemp("", "c10disk")
	if err != nil {
		panic(err)
	}
	defer os.RemoveAll(dir)
	path := filepath.Join(dir, "nat.log")
	cfg := nat.LoggerConfig{Enabled: true, Format: nat.LogFormatJSON, FilePath: path, BufferSize: c.BufSize, BulkLogging: c.Bulk,
		MaxFileSize: c.MaxSize, MaxAge: c.MaxAge, Compress: c.Compress}
	mgr := newManager(g, c.NPub)
	pubList := pubNames(c.NPub)
	pubs := map[string]bool{}
	for _, p := range pubList {
		pubs[p] = true
	}
	var lg *nat.Logger
	var startedAt time.Time
	open := func() {
		l, err := nat.NewLogger(cfg, nop)
		if err != nil {
			panic(err)
		}
		lg = l
		mgr.SetLogger(lg)
		if c.Started {
			lg.Start()
			startedAt = time.Now()
		}
	}
	open()
	stopped := false
	defer func() {
		if !stopped {
			defer func() { recover() }()
			lg.Stop()
		}
	}()

	view := newDiskView(dir, "nat.log", g, tl)
	held := map[string]blk{}
	var heldList []lmEntry
	var hist []string
	var events []*devent
	lastAssign := map[string]*devent{}
	sk := &sink{g: g, nPub: c.NPub, mode: c.mode(), family: c.Family, hist: func() []string { return append([]string(nil), hist...) }}
	reportedRule := map[string]bool{}
	flushed := true
	afterQuietRetention := false // a retention pass ran while the active file was older than MaxAge
	nontrivial := false
	firstJudged := 0
	// several records can have been written within one wall-clock second (rotated files are named by the second):
	// every batch flush, or two operations less than a second apart
	sameSecond := c.Flush != "explicit"
	lastEventSec := int64(-1)
	qualify := func(f string) string {
		if sameSecond && (f == "lost-in-rotation" || f == "log-file-unreadable") {
			return f + "-several-records-within-one-second"
		}
		return f
	}
	fateOf := func(e *devent) string {
		f := view.fate(e)
		if f == "never-reached-disk" && e.AtStop {
			return "lost-at-stop-coinciding-with-the-flush-tick"
		}
		return qualify(f)
	}
	// noteStop marks the events whose records a stop at this instant can catch in the buffer while the tick's flush runs.
	noteStop := func(now time.Time) {
		if !c.Started || startedAt.IsZero() || !now.After(startedAt) || now.Sub(startedAt)%(5*time.Second) != 0 {
			return
		}
		tl.add("disk_stops_at_the_instant_of_the_flush_tick", 1)
		for i := len(events) - 1; i >= 0 && now.Sub(events[i].T) <= 5*time.Second; i-- {
			if !events[i].found {
				events[i].AtStop = true
			}
		}
	}

	// tickBetween: did the production retention tick (hourly from Start) fire in (from, to]?
	tickBetween := func(from, to time.Time) bool {
		if !c.Started || c.MaxAge == 0 || startedAt.IsZero() {
			return false
		}
		k := from.Sub(startedAt)/time.Hour + 1
		t := startedAt.Add(k * time.Hour)
		if from.Before(startedAt) {
			t = startedAt.Add(time.Hour)
		}
		return !t.After(to)
	}

	judge := func(when string) {
		now := time.Now()
		tl.add("disk_checkpoints_judged", 1)
		for _, u := range view.unreadble {
			if !reportedRule["unreadable"] {
				reportedRule["unreadable"] = true
				sk.report(compDisk, "disk-keeps-records-younger-than-maxage", qualify("log-file-unreadable"), when+": "+u)
			}
		}
		view.unreadble = nil
		// (B) every event younger than MaxAge has its record on disk
		for i := firstJudged; i < len(events); i++ {
			e := events[i]
			if c.MaxAge > 0 && now.Sub(e.T) > c.MaxAge-time.Second {
				if i == firstJudged {
					firstJudged++ // events are in time order: the prefix that aged out is never looked at again
				}
				continue
			}
			tl.add("disk_young_events_judged", 1)
			f := fateOf(e)
			if f == "on-disk" {
				if !e.found {
					e.found = true
					tl.add("disk_events_found_on_disk", 1)
					if e.After {
						tl.add("disk_events_after_quiet_period_and_retention_pass_found_on_disk", 1)
					}
				}
				continue
			}
			rule := "disk-keeps-records-younger-than-maxage"
			if !reportedRule[rule+f] {
				reportedRule[rule+f] = true
				age := "no MaxAge configured"
				if c.MaxAge > 0 {
					age = fmt.Sprintf("%s old, MaxAge %s", now.Sub(e.T), c.MaxAge)
				}
				cls := e.kind() + "-record-" + f
				if strings.HasPrefix(f, "lost-in-rotation") || strings.HasPrefix(f, "lost-at-stop") {
					cls = f // one cause whatever the kind of record
				}
				sk.report(compDisk, rule, cls,
					fmt.Sprintf("%s: op %d (%s of %s by %s at %s, %s) has no record in the files on disk %v; the logger has nothing buffered", when, e.Op, e.kind(), e.B, e.Sub, e.T.UTC().Format(time.RFC3339Nano), age, view.fileList()))
			}
		}
		// (A) what is on disk attributes every block held now
		lm := &logModel{}
		recs := view.onDisk()
		for _, r := range recs {
			lm.apply(r)
		}
		n, cls, desc := compareAttribution(g, pubList, heldList, lm, nil, rnd)
		tl.add("disk_attribution_probes", n)
		tl.add("disk_held_blocks_judged", len(heldList))
		// which records are responsible: the assignment of a holder the disk does not show, the release of one it still shows
		var classes, descs []string
		liveBy := map[string]int{}
		firstAssign := map[string]time.Time{} // earliest assignment record on disk per (subscriber, block)
		for _, e := range lm.live {
			liveBy[e.Sub+"|"+e.B.String()]++
		}
		for _, r := range recs {
			if k := r.Sub + "|" + r.B.String(); r.Assign {
				if t, ok := firstAssign[k]; !ok || r.TS.Before(t) {
					firstAssign[k] = r.TS
				}
			}
		}
		heldBy := map[string]int{}
		for _, h := range heldList {
			k := h.Sub + "|" + h.B.String()
			heldBy[k]++
			if liveBy[k] == 0 {
				f := "assign-record-unknown"
				if e := lastAssign[h.Sub]; e != nil {
					f = "assign-record-" + fateOf(e)
				}
				classes = append(classes, "log-misses-live-block:"+f)
				descs = append(descs, fmt.Sprintf("%s holds %s, no open assignment on disk", h.Sub, h.B))
			}
		}
		for k, n := range liveBy {
			if n <= heldBy[k] {
				continue
			}
			// an open assignment more than the subscriber holds: a release after the earliest assignment on disk is not there
			f := "release-record-unknown"
			for _, ev := range events {
				if !ev.Assign && ev.Sub+"|"+ev.B.String() == k && ev.T.After(firstAssign[k]) {
					if ft := fateOf(ev); ft != "on-disk" {
						f = "release-record-" + ft
						break
					}
				}
			}
			classes = append(classes, "log-shows-released-block-as-held:"+f)
			descs = append(descs, fmt.Sprintf("%d open assignment(s) on disk for %s, the subscriber holds %d", n, k, heldBy[k]))
		}
		if cls != "" && len(classes) == 0 {
			classes, descs = append(classes, cls+":unexplained"), append(descs, desc)
		}
		for i, full := range classes {
			if j := strings.Index(full, "lost-in-rotation"); j >= 0 {
				full = full[j:] // one cause whatever the record and whatever the replay makes of its absence
			} else if j := strings.Index(full, "lost-at-stop"); j >= 0 {
				full = full[j:]
			}
			rule := "disk-attributes-held-blocks"
			if !reportedRule[rule+full] {
				reportedRule[rule+full] = true
				sk.report(compDisk, rule, full, fmt.Sprintf("%s: %s (first differing probe: %s); files on disk %v hold %d port-block record(s)", when, descs[i], desc, view.fileList(), len(recs)))
			}
		}
	}

	settle := func() {
		synctest.Wait()
		view.scan()
	}
	noteRemovals := func(direct bool) {
		if view.gone > 0 {
			if direct {
				tl.add("disk_files_removed_by_direct_retention_pass", view.gone)
			} else {
				tl.add("disk_files_removed_by_the_production_retention_tick", view.gone)
			}
		}
	}

	for k, op := range c.Ops {
		// ---- time passes
		if op.D > 0 {
			rest := op.D
			if rest > 6*time.Second { // let the logger's own 5 s flush tick write first and stamp what it wrote at that time
				time.Sleep(6 * time.Second)
				rest -= 6 * time.Second
				settle()
				if c.Started {
					flushed = true
				}
			}
			am, amOK := view.activeMod, view.activeOK // the active file as the retention ticks of this period see it
			time.Sleep(rest)
			if op.D > 6*time.Second { // (a shorter wait is looked at together with the operation that follows)
				settle()
				noteRemovals(false)
			}
			now := time.Now()
			if c.MaxAge > 0 && amOK && now.Sub(am) > c.MaxAge {
				if op.K == 'q' {
					tl.add("disk_quiet_periods_longer_than_maxage", 1)
				}
				if tickBetween(am.Add(c.MaxAge), now) { // a production tick that saw the active file older than MaxAge
					afterQuietRetention = true
					tl.add("disk_production_retention_ticks_after_quiet_period_longer_than_maxage", 1)
				}
			} else if op.K == 'q' {
				tl.add("disk_quiet_periods_not_longer_than_maxage", 1)
			}
			if c.Flush == "explicit" && op.D > 6*time.Second { // "explicit" = the harness flushes after every step, also after one in which only the logger acted
				lg.Flush()
				lg.FlushPortBlocks()
				settle()
				flushed = true
			} else if tickBetween(now.Add(-6*time.Second), now) {
				flushed = false // whatever the retention tick may have put into the buffers is written by the next 5 s flush tick
			}
			if flushed && op.D > 6*time.Second {
				judge(fmt.Sprintf("after the %s that precede op %d", op.D, k+1))
			}
		}
		now := time.Now()
		if n := len(events); n > 0 && events[n-1].Next.IsZero() && now.After(events[n-1].T) {
			events[n-1].Next = now
		}
		ip := privIP(op.Sub)
		name := ip.String()
		if op.K == 'a' || op.K == 'd' {
			if now.Unix() == lastEventSec {
				sameSecond = true
			}
			lastEventSec = now.Unix()
		}
		switch op.K {
		case 'a':
			a, err := mgr.AllocateNAT(ip)
			if err != nil {
				hist = append(hist, fmt.Sprintf("%s alloc(%s) -> error: %v", stamp(now), name, err))
				tl.add("disk_op_alloc_refused", 1)
				break
			}
			v := viewOf(a)
			hist = append(hist, fmt.Sprintf("%s alloc(%s) -> %s", stamp(now), name, v.B))
			checkShape(sk, g, pubs, name, v)
			if old, ok := held[name]; ok {
				if old != v.B {
					sk.report(compAlloc, "same-block-until-released", "different-block-on-reask", fmt.Sprintf("%s held %s and was given %s on asking again", name, old, v.B))
				}
				tl.add("disk_op_alloc_reask", 1)
				break
			}
			for o, ob := range held {
				if ob.overlaps(v.B) {
					sk.report(compAlloc, "no-overlap", overlapClass(g, held, v.B, ob), fmt.Sprintf("alloc(%s) returned %s while %s still holds %s", name, v.B, o, ob))
					break
				}
			}
			held[name] = v.B
			heldList = listSet(heldList, name, v.B)
			e := &devent{Assign: true, Sub: name, B: v.B, T: now, Op: k + 1, Scan: view.scanNo, After: afterQuietRetention}
			events = append(events, e)
			lastAssign[name] = e
			flushed = false
			tl.add("disk_op_alloc_new", 1)
			if afterQuietRetention {
				tl.add("disk_events_after_quiet_period_and_retention_pass", 1)
				nontrivial = true
			}
		case 'd':
			old, had := held[name]
			if err := mgr.DeallocateNAT(ip); err != nil {
				hist = append(hist, fmt.Sprintf("%s dealloc(%s) -> error: %v", stamp(now), name, err))
				break
			}
			hist = append(hist, fmt.Sprintf("%s dealloc(%s)", stamp(now), name))
			if !had {
				tl.add("disk_op_dealloc_noop", 1)
				break
			}
			delete(held, name)
			heldList = listDel(heldList, name)
			e := &devent{Sub: name, B: old, T: now, Op: k + 1, Scan: view.scanNo, After: afterQuietRetention}
			events = append(events, e)
			flushed = false
			tl.add("disk_op_dealloc_held", 1)
			if afterQuietRetention {
				tl.add("disk_events_after_quiet_period_and_retention_pass", 1)
				nontrivial = true
			}
		case 'f':
			hist = append(hist, stamp(now)+" flush")
			lg.Flush()
			lg.FlushPortBlocks()
			flushed = true
			tl.add("disk_op_flush", 1)
		case 'q':
			hist = append(hist, fmt.Sprintf("%s (quiet for %s)", stamp(now), op.D))
		case 'c':
			hist = append(hist, stamp(now)+" retention pass (cleanOldLogs)")
			lg.VerifC10bCleanOldLogs()
			flushed = false // a retention pass may write (e.g. carry records of held blocks over): judged again once flushed
			tl.add("disk_direct_retention_passes", 1)
			if c.MaxAge > 0 && view.activeOK && view.activeMod.Before(now.Add(-c.MaxAge)) {
				afterQuietRetention = true
				tl.add("disk_direct_retention_passes_after_quiet_period_longer_than_maxage", 1)
			}
		case 'r':
			hist = append(hist, stamp(now)+" logger stopped and a new one started over the same directory")
			noteStop(now)
			lg.Stop()
			settle()
			flushed = true
			judge(fmt.Sprintf("after the logger was stopped at op %d", k+1))
			open()
			tl.add("disk_logger_restarts", 1)
		}
		if c.Flush == "explicit" {
			lg.Flush()
			lg.FlushPortBlocks()
			flushed = true
		}
		settle()
		if op.K == 'c' {
			noteRemovals(true)
		}
		if flushed {
			judge(fmt.Sprintf("after op %d", k+1))
		}
	}

	synctest.Wait()
	noteStop(time.Now())
	mgr.Stop()
	stopped = true
	settle()
	judge("after shutdown (everything flushed)")

	tl.evals++
	tl.add("disk_histories", 1)
	tl.add("disk_records_on_disk_at_the_end", len(view.onDisk()))
	if len(view.names) > 0 {
		tl.add("disk_histories_with_size_rotation", 1)
	}
	if nontrivial {
		tl.add("disk_histories_with_events_after_quiet_period_and_retention_pass", 1)
		tl.nontr = append(tl.nontr, "disk|"+g.Name+"|"+c.mode()+"|"+c.opsKey())
	}
}

func stamp(t time.Time) string { return t.UTC().Format("2006-01-02T15:04:05.000000000") }

func (v *diskView) fileList() []string {
	var l []string
	for n := range v.present {
		l = append(l, n)
	}
	sort.Strings(l)
	if len(l) > 12 {
		l = append(l[:12], fmt.Sprintf("… %d more", len(l)-12))
	}
	return l
}

func safeRunDisk(c *diskCase, tl *tally) {
	defer func() {
		if r := recover(); r != nil {
			cls := digits.ReplaceAllString(fmt.Sprint(r), "N")
			if len(cls) > 100 {
				cls = cls[:100]
			}
			sk := &sink{g: c.G, nPub: c.NPub, mode: c.mode(), family: c.Family, hist: func() []string { return []string{c.opsKey()} }}
			sk.report("nat (log file lifecycle)", "no-panic", cls, fmt.Sprintf("history %q panicked: %v", c.opsKey(), r))
		}
	}()
	runDisk(c, tl)
}

func runDiskBatches(t *testing.T, cases <-chan []*diskCase) {
	var wg sync.WaitGroup
	for w := 0; w < runtime.NumCPU(); w++ {
		wg.Add(1)
		go func() {
			defer wg.Done()
			tl := newTally()
			for batch := range cases {
				synctest.Test(t, func(t *testing.T) {
					for _, c := range batch {
						safeRunDisk(c, tl)
					}
				})
				tl.merge()
			}
		}()
	}
	wg.Wait()
}

var diskGeoms = []geom{
	{"1024-1535/64", 1024, 1535, 64},
	{"50000-50999/100", 50000, 50999, 100},
	{"1024-65535/1024", 1024, 65535, 1024},
	{"2000-2999/300", 2000, 2999, 300},
	{"60000-65535/2048", 60000, 65535, 2048},
}

var diskMaxAges = []time.Duration{2 * time.Minute, 10 * time.Minute, 30 * time.Minute, time.Hour}
var diskMaxSizes = []int64{0, 450, 700, 1500, 4000}
var diskGaps = []time.Duration{time.Second, 2 * time.Second, 3 * time.Second, 7 * time.Second, 20 * time.Second, time.Minute, 4 * time.Minute}
var diskBursts = []time.Duration{1, time.Millisecond, 300 * time.Millisecond, time.Second}

func parseDiskOps(s string, gap time.Duration) []diskOp {
	var ops []diskOp
	for _, f := range strings.Fields(s) {
		o := diskOp{K: f[0], D: gap}
		if i := strings.IndexByte(f, '@'); i > 0 { // "a0@3s": this op after 3 s
			d, err := time.ParseDuration(f[i+1:])
			if err != nil {
				panic(err)
			}
			o.D, f = d, f[:i]
		}
		switch f[0] {
		case 'a', 'd':
			fmt.Sscanf(f[1:], "%d", &o.Sub)
		case 'q':
			d, err := time.ParseDuration(f[1:])
			if err != nil {
				panic(err)
			}
			o.D = d
		}
		ops = append(ops, o)
	}
	return ops
}

// TestDiskA_Scenarios: a few minimal lifecycles first (shortest witnesses): a quiet night and the retention pass,
// by the production tick and directly; rotation by size and the removal of an aged rotated file; a restart.
func TestDiskA_Scenarios(t *testing.T) {
	scs := []string{
		"a0 f q125m a1 d1 a2 f",                     // quiet period longer than MaxAge, production tick, activity resumes
		"a0 f q125m c a1 d1 a2 f",                   // same with a direct pass
		"a0 a1 a2 d1 f q90m c a3 f",                 // quiet, pass, a new subscriber takes the released block
		"a0 a1 a2 a3 f q30m a4 d0 f q45m c d4 a0 f", // quiet periods shorter than MaxAge: everything must stay
		"a0 a1 f r a2 d0 f q125m c a3 f r a4 f",     // restarts around the quiet period
		"a0 d0 a1 d1 a2 d2 a3 d3 f q125m c a0 f",    // rotated files age out, nothing is held from before
	}
	var cases []*diskCase
	i := 0
	for _, s := range scs {
		for _, started := range []bool{true, false} {
			for _, bulk := range []bool{i%16 < 8} {
				for _, sz := range []int64{0, 700} {
					for _, fl := range []string{"explicit", "stop"} {
						cases = append(cases, &diskCase{G: diskGeoms[i%len(diskGeoms)], NPub: 1 + i%2, Bulk: bulk, BufSize: bufSizes[i%len(bufSizes)], Started: started, Flush: fl,
							MaxSize: sz, MaxAge: time.Hour, Compress: i%7 == 0, Ops: parseDiskOps(s, diskGaps[i%len(diskGaps)]), Seed: uint64(run.Seed) + uint64(i), Family: "disk_scenario"})
						i++
					}
				}
			}
		}
	}
	// a started logger stopped (restarted) at the very instant of its own 5 s flush tick, with records still buffered:
	// Stop and the tick's flush run concurrently (each (re)start is followed by operations at +1 s, +2 s and the stop at +5 s)
	for j := 0; j < run.Pick(60, 400); j++ {
		var b strings.Builder
		sub := 0
		for r := 0; r < 8; r++ {
			switch (j + r) % 3 {
			case 0:
				fmt.Fprintf(&b, "a%d@1s a%d@1s r@3s ", sub%6, (sub+1)%6)
			case 1:
				fmt.Fprintf(&b, "a%d@1s d%d@1s r@3s ", sub%6, (sub+5)%6)
			default:
				fmt.Fprintf(&b, "d%d@2s a%d@2s r@1s ", (sub+4)%6, sub%6)
			}
			sub += 2
		}
		cases = append(cases, &diskCase{G: diskGeoms[j%len(diskGeoms)], NPub: 1, Bulk: j%2 == 0, BufSize: 1 + j%4, Started: true, Flush: "ticker",
			MaxSize: []int64{0, 1500}[j%2], MaxAge: time.Hour, Ops: parseDiskOps(b.String(), time.Second), Seed: uint64(run.Seed) + uint64(i+j), Family: "disk_stop_at_flush_tick"})
	}
	tl := newTally()
	synctest.Test(t, func(t *testing.T) {
		for _, c := range cases {
			safeRunDisk(c, tl)
		}
	})
	tl.merge()
}

// TestDiskLifecycles: seeded lifecycles.
func TestDiskLifecycles(t *testing.T) {
	n := run.Pick(600, 4000)
	ch := make(chan []*diskCase, 64)
	go func() {
		defer close(ch)
		var batch []*diskCase
		for w := 0; w < n; w++ {
			rng := run.SubRand("disk", w)
			c := &diskCase{G: diskGeoms[rng.IntN(len(diskGeoms))], NPub: 1 + rng.IntN(2), Bulk: rng.IntN(2) == 0, BufSize: bufSizes[rng.IntN(len(bufSizes))],
				Flush: []string{"explicit", "explicit", "explicit", "ticker", "stop"}[rng.IntN(5)], MaxSize: diskMaxSizes[rng.IntN(len(diskMaxSizes))],
				MaxAge: diskMaxAges[rng.IntN(len(diskMaxAges))], Compress: rng.IntN(8) == 0, Seed: rng.Uint64(), Family: "disk_lifecycle"}
			if rng.IntN(10) == 0 {
				c.MaxAge = 0 // no retention: everything stays for good
			}
			if rng.IntN(25) == 0 {
				c.BufSize = 20
			}
			c.Started = c.Flush == "ticker" || rng.IntN(5) == 0 // a started logger runs the production retention tick (and costs two buffer allocations per 5 s of virtual time)
			if c.Started {
				c.BufSize = 1 + rng.IntN(3)
				if c.MaxAge > 30*time.Minute {
					c.MaxAge = diskMaxAges[rng.IntN(3)]
				}
			}
			burst := rng.IntN(6) == 0 // operations less than a second apart (several rotations can fall into one second)
			gap := func() time.Duration {
				if burst && rng.IntN(2) == 0 {
					return diskBursts[rng.IntN(len(diskBursts))]
				}
				return diskGaps[rng.IntN(len(diskGaps))]
			}
			nSubs := 3 + rng.IntN(6)
			if s := c.G.slots() * c.NPub; nSubs > s {
				nSubs = s
			}
			age := c.MaxAge
			if age == 0 {
				age = time.Hour
			}
			quiet := func() time.Duration {
				switch rng.IntN(5) {
				case 0:
					return age/2 + time.Duration(rng.IntN(60))*time.Second
				case 1:
					return age + 2*time.Minute + time.Duration(rng.IntN(3600))*time.Second
				case 2:
					return 2*age + 7*time.Minute
				case 3:
					return age + 61*time.Minute // at least one production tick sees the old file
				default:
					return age - age/8 // just short of MaxAge
				}
			}
			var ops []diskOp
			churn := func(m int) {
				for i := 0; i < m; i++ {
					x := rng.IntN(100)
					switch {
					case x < 50:
						ops = append(ops, diskOp{K: 'a', Sub: rng.IntN(nSubs), D: gap()})
					case x < 85:
						ops = append(ops, diskOp{K: 'd', Sub: rng.IntN(nSubs), D: gap()})
					case x < 93:
						ops = append(ops, diskOp{K: 'f', D: gap()})
					case x < 97:
						ops = append(ops, diskOp{K: 'r', D: gap()})
					default:
						ops = append(ops, diskOp{K: 'c', D: gap()})
					}
				}
			}
			first := 1 + rng.IntN(nSubs)
			for s := 0; s < first; s++ {
				ops = append(ops, diskOp{K: 'a', Sub: s, D: gap()})
			}
			churn(rng.IntN(10))
			rounds := 1 + rng.IntN(3)
			if c.Started && rounds > 2 {
				rounds = 2
			}
			for r := 0; r < rounds; r++ {
				if rng.IntN(2) == 0 {
					ops = append(ops, diskOp{K: 'f', D: gap()})
				}
				if rng.IntN(6) == 0 {
					ops = append(ops, diskOp{K: 'r', D: gap()})
				}
				ops = append(ops, diskOp{K: 'q', D: quiet()})
				if rng.IntN(2) == 0 {
					ops = append(ops, diskOp{K: 'c', D: gap()})
				}
				if rng.IntN(8) == 0 {
					ops = append(ops, diskOp{K: 'r', D: gap()})
				}
				churn(3 + rng.IntN(12))
			}
			if rng.IntN(2) == 0 {
				ops = append(ops, diskOp{K: 'f', D: gap()})
			}
			c.Ops = ops
			batch = append(batch, c)
			if len(batch) == 8 {
				ch <- batch
				batch = nil
			}
		}
		if len(batch) > 0 {
			ch <- batch
		}
	}()
	runDiskBatches(t, ch)
}
