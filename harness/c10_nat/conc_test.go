package c10

import (
	"fmt"
	"math/rand/v2"
	"runtime"
	"sort"
	"strings"
	"sync"
	"sync/atomic"
	"testing"
	"time"

	"github.com/anishathalye/porcupine"
)

// ---------------------------------------------------------------- concurrent histories (E2/E3)
//
// Three families, so that the defects already present on the unchanged tree cannot blind the clauses
// they do not concern:
//   F1 allocate-only, every subscriber driven by one goroutine: no release => the count-derived port
//      start cannot reuse a live block, so ANY overlap is a concurrency defect;
//   F2 alloc/dealloc/lookup, every subscriber driven by one goroutine: per-subscriber clauses are exact,
//      overlap is judged on definitely-simultaneous holdings;
//   F3 several goroutines on the SAME private addresses: per-subscriber linearizability (porcupine).

type cop struct {
	K   byte // 'a' 'd' 'g' 's'
	Sub int
}

type cres struct {
	Op     cop
	Client int
	Call   int64
	Ret    int64
	V      view
	OK     bool // alloc succeeded / lookup found
	Err    string
}

func (r cres) String() string {
	n := privIP(r.Op.Sub).String()
	switch r.Op.K {
	case 'a':
		if r.OK {
			return fmt.Sprintf("c%d [%d,%d] alloc(%s) -> %s", r.Client, r.Call, r.Ret, n, r.V.B)
		}
		return fmt.Sprintf("c%d [%d,%d] alloc(%s) -> error: %s", r.Client, r.Call, r.Ret, n, r.Err)
	case 'd':
		return fmt.Sprintf("c%d [%d,%d] dealloc(%s) %s", r.Client, r.Call, r.Ret, n, r.Err)
	case 'g':
		if r.OK {
			return fmt.Sprintf("c%d [%d,%d] lookup(%s) -> %s", r.Client, r.Call, r.Ret, n, r.V.B)
		}
		return fmt.Sprintf("c%d [%d,%d] lookup(%s) -> none", r.Client, r.Call, r.Ret, n)
	}
	return fmt.Sprintf("c%d [%d,%d] poolstats", r.Client, r.Call, r.Ret)
}

type concRun struct {
	g      geom
	nPub   int
	mode   logMode
	res    []cres // sorted by call stamp
	perCl  [][]cres
	held   map[string]blk // filled by the family's judge: final model
	sk     *sink
	pubs   map[string]bool
	procs  int
	family string
}

// drive runs the scripts against one fresh manager+logger with real goroutines and returns everything observed.
func drive(g geom, nPub int, mode logMode, scripts [][]cop, procs int, yield *rand.Rand, family string, judge func(cr *concRun)) *concRun {
	mgr := newManager(g, nPub)
	mode.File, mode.Started, mode.Flush = false, false, "stop" // no background flusher: the log is read when quiescent
	lg, buf, _ := newLogger(mode, "")
	mgr.SetLogger(lg)
	old := runtime.GOMAXPROCS(procs)
	var clock int64
	perCl := make([][]cres, len(scripts))
	yields := make([][]bool, len(scripts))
	for c := range scripts {
		yields[c] = make([]bool, len(scripts[c]))
		for i := range yields[c] {
			yields[c][i] = yield.IntN(4) == 0
		}
	}
	var wg sync.WaitGroup
	start := make(chan struct{})
	for c := range scripts {
		c := c
		wg.Add(1)
		go func() {
			defer wg.Done()
			<-start
			for i, op := range scripts[c] {
				if yields[c][i] {
					runtime.Gosched()
				}
				ip := privIP(op.Sub)
				r := cres{Op: op, Client: c}
				r.Call = atomic.AddInt64(&clock, 1)
				switch op.K {
				case 'a':
					a, err := mgr.AllocateNAT(ip)
					if err == nil {
						r.V, r.OK = viewOf(a), true
					} else {
						r.Err = err.Error()
					}
				case 'd':
					if err := mgr.DeallocateNAT(ip); err != nil {
						r.Err = err.Error()
					}
				case 'g':
					if a := mgr.GetAllocation(ip); a != nil {
						r.V, r.OK = viewOf(a), true
					}
				case 's':
					mgr.GetPoolStats()
				}
				r.Ret = atomic.AddInt64(&clock, 1)
				perCl[c] = append(perCl[c], r)
			}
		}()
	}
	close(start)
	wg.Wait()
	runtime.GOMAXPROCS(old)

	cr := &concRun{g: g, nPub: nPub, mode: mode, perCl: perCl, procs: procs, family: family, pubs: map[string]bool{}, held: map[string]blk{}}
	for i := 0; i < nPub; i++ {
		cr.pubs[pubIP(i).String()] = true
	}
	for _, l := range perCl {
		cr.res = append(cr.res, l...)
	}
	sort.Slice(cr.res, func(i, j int) bool { return cr.res[i].Call < cr.res[j].Call })
	cr.sk = &sink{g: g, nPub: nPub, mode: mode.String(), family: family, hist: func() []string {
		var h []string
		for _, r := range cr.res {
			h = append(h, r.String())
		}
		return h
	}}

	// coverage
	run.Eval()
	run.Count("concurrent_histories_"+family, 1)
	run.Count("concurrent_ops", len(cr.res))
	overlap := 0
	maxRet := int64(0)
	for i, r := range cr.res {
		if i > 0 && r.Call < maxRet {
			overlap++
		}
		if r.Ret > maxRet {
			maxRet = r.Ret
		}
	}
	run.Count("overlapping_calls", overlap)
	var order []string
	for _, r := range cr.res {
		order = append(order, fmt.Sprintf("%d%c%d", r.Client, r.Op.K, r.Op.Sub))
	}
	key := family + "|" + g.Name + "|" + strings.Join(order, " ")
	run.Distinct("interleavings", key)
	if overlap >= 2 {
		run.Nontrivial("conc|" + key)
	}

	// clauses common to all families: shape of every returned block, subscriber ids
	ids := map[uint32]string{}
	for _, r := range cr.res {
		if r.Op.K == 'a' && r.OK {
			checkShape(cr.sk, g, cr.pubs, privIP(r.Op.Sub).String(), r.V)
			if p, ok := ids[r.V.SubID]; ok && p != r.V.Priv {
				cr.sk.report(compAlloc, "attributable-allocation", "subscriber-id-shared", fmt.Sprintf("SubscriberID %d given to %s and to %s", r.V.SubID, p, r.V.Priv))
			}
			ids[r.V.SubID] = r.V.Priv
			run.Count("conc_alloc_ok", 1)
		} else if r.Op.K == 'a' {
			run.Count("conc_alloc_refused", 1)
		} else if r.Op.K == 'd' {
			run.Count("conc_dealloc", 1)
		} else if r.Op.K == 'g' {
			run.Count("conc_lookup", 1)
		}
	}

	judge(cr)

	if family != "F3" {
		// quiescent: the manager's own view, and the log read by its own timestamps
		subs := map[int]bool{}
		for _, r := range cr.res {
			subs[r.Op.Sub] = true
		}
		for s := range subs {
			n := privIP(s).String()
			a := mgr.GetAllocation(privIP(s))
			hb, isHeld := cr.held[n]
			switch {
			case isHeld && a == nil:
				cr.sk.report(compLookup, "lookup-agrees", "holder-not-found", fmt.Sprintf("after the run %s holds %s but GetAllocation finds nothing", n, hb))
			case !isHeld && a != nil:
				cr.sk.report(compLookup, "lookup-agrees", "held-after-release", fmt.Sprintf("after the run %s holds nothing but GetAllocation returns %s", n, viewOf(a).B))
			case isHeld && viewOf(a).B != hb:
				cr.sk.report(compLookup, "same-block-until-released", "lookup-shows-different-block", fmt.Sprintf("after the run %s was told %s, GetAllocation returns %s", n, hb, viewOf(a).B))
			}
			run.Count("lookups_judged", 1)
		}
		mgr.Stop()
		recs, bad := parseLog(g, buf.all(), 0)
		for _, b := range bad {
			cr.sk.report(compLog, "attribution-in-order", "unparsable-record", "log line cannot be interpreted as a port-block record: "+b)
		}
		sort.SliceStable(recs, func(i, j int) bool { return recs[i].TS.Before(recs[j].TS) })
		lm := &logModel{}
		var focus []blk
		for _, r := range recs {
			lm.apply(r)
			run.Count("log_"+r.Kind, 1)
			focus = append(focus, r.B)
		}
		for _, b := range cr.held {
			focus = append(focus, b)
		}
		n, cls, desc := compareAttribution(g, pubNames(nPub), listOf(cr.held), lm, focus, func(n int) int { return yield.IntN(n) })
		run.Count("attribution_probes_concurrent_final", n)
		if cls != "" {
			cr.sk.report(compLog, "attribution-after-concurrent-run", cls, "after the run, log replayed by record timestamp: "+desc)
		}
	} else {
		mgr.Stop()
	}
	return cr
}

func pickProcs(rng *rand.Rand) int { return []int{2, 4, 16}[rng.IntN(3)] }

func concGeom(rng *rand.Rand, minSlots int) geom {
	all := append(append([]geom(nil), designGeoms...), extraGeoms...)
	for {
		g := all[rng.IntN(len(all))]
		if g.slots() >= minSlots {
			return g
		}
	}
}

var sampledConc sync.Map

func sampleConc(cr *concRun) {
	if _, dup := sampledConc.LoadOrStore(cr.family, true); dup || cr.family == "F2" {
		return
	}
	h := cr.sk.hist()
	if len(h) > 30 {
		h = h[:30]
	}
	run.Sample(map[string]any{"kind": "concurrent " + cr.family, "geometry": cr.g.Name, "public_ips": cr.nPub, "gomaxprocs": cr.procs, "logging": cr.mode.String(), "ops": h})
}

// TestConcurrentAllocateOnly is family F1.
func TestConcurrentAllocateOnly(t *testing.T) {
	rounds := concRounds(t, run.Pick(250, 3000))
	for round := 0; round < rounds; round++ {
		rng := run.SubRand("f1", round)
		g := concGeom(rng, 1)
		nPub := 1 + rng.IntN(3)
		nCl := 2 + rng.IntN(7)
		scripts := make([][]cop, nCl)
		for c := range scripts {
			var mine []int
			n := 4 + rng.IntN(8)
			for i := 0; i < n; i++ {
				switch x := rng.IntN(10); {
				case x < 6 || len(mine) == 0:
					s := c*20 + len(mine)
					mine = append(mine, s)
					scripts[c] = append(scripts[c], cop{'a', s})
				case x < 8:
					scripts[c] = append(scripts[c], cop{'a', mine[rng.IntN(len(mine))]})
				case x < 9:
					oc := rng.IntN(nCl)
					scripts[c] = append(scripts[c], cop{'g', oc*20 + rng.IntN(4)})
				default:
					scripts[c] = append(scripts[c], cop{'s', 0})
				}
			}
		}
		cr := drive(g, nPub, pickMode(rng, false), scripts, pickProcs(rng), rng, "F1", func(cr *concRun) {
			for _, r := range cr.res {
				if r.Op.K != 'a' || !r.OK {
					continue
				}
				n := privIP(r.Op.Sub).String()
				if old, ok := cr.held[n]; ok && old != r.V.B {
					cr.sk.report(compAlloc, "same-block-until-released", "different-block-on-reask", fmt.Sprintf("%s held %s and was given %s on asking again (no release in this history)", n, old, r.V.B))
				}
				cr.held[n] = r.V.B
			}
			names := make([]string, 0, len(cr.held))
			for n := range cr.held {
				names = append(names, n)
			}
			sort.Strings(names)
			for i, a := range names {
				for _, b := range names[i+1:] {
					if cr.held[a].overlaps(cr.held[b]) {
						cr.sk.report(compAlloc, "no-overlap", "concurrent-allocate-only", fmt.Sprintf("%s holds %s and %s holds %s; nothing was ever released in this history", a, cr.held[a], b, cr.held[b]))
					}
				}
			}
			run.Count("conc_block_pairs_judged_disjoint", len(names)*(len(names)-1)/2)
			for _, r := range cr.res {
				if r.Op.K == 'g' && r.OK {
					n := privIP(r.Op.Sub).String()
					if hb, ok := cr.held[n]; !ok || hb != r.V.B {
						cr.sk.report(compLookup, "lookup-agrees", "lookup-shows-block-never-given", fmt.Sprintf("lookup(%s) returned %s, the subscriber was told %v", n, r.V.B, cr.held[n]))
					}
				}
			}
		})
		sampleConc(cr)
	}
}

// TestConcurrentMixed is family F2.
func TestConcurrentMixed(t *testing.T) {
	rounds := concRounds(t, run.Pick(250, 3000))
	for round := 0; round < rounds; round++ {
		rng := run.SubRand("f2", round)
		g := concGeom(rng, 2)
		nPub := 1 + rng.IntN(3)
		nCl := 2 + rng.IntN(7)
		per := 2 + rng.IntN(2)
		scripts := make([][]cop, nCl)
		for c := range scripts {
			n := 6 + rng.IntN(10)
			for i := 0; i < n; i++ {
				s := c*10 + rng.IntN(per)
				switch x := rng.IntN(10); {
				case x < 5:
					scripts[c] = append(scripts[c], cop{'a', s})
				case x < 8:
					scripts[c] = append(scripts[c], cop{'d', s})
				case x < 9:
					scripts[c] = append(scripts[c], cop{'g', s})
				default:
					scripts[c] = append(scripts[c], cop{'g', rng.IntN(nCl)*10 + rng.IntN(per)})
				}
			}
		}
		cr := drive(g, nPub, pickMode(rng, false), scripts, pickProcs(rng), rng, "F2", func(cr *concRun) {
			type hold struct {
				sub      string
				b        blk
				from, to int64
			}
			var holds []hold
			ever := map[string]map[blk]bool{}
			firstDealloc := int64(1) << 62
			for c, l := range cr.perCl {
				cur := map[string]int{} // sub -> index into holds
				for _, r := range l {
					n := privIP(r.Op.Sub).String()
					own := r.Op.Sub/10 == c
					switch r.Op.K {
					case 'a':
						hi, isHeld := cur[n]
						if !r.OK {
							if isHeld {
								cr.sk.report(compAlloc, "same-block-until-released", "error-for-holder", fmt.Sprintf("alloc(%s) failed (%s) although it holds %s", n, r.Err, holds[hi].b))
							}
							continue
						}
						if isHeld {
							if holds[hi].b != r.V.B {
								cr.sk.report(compAlloc, "same-block-until-released", "different-block-on-reask", fmt.Sprintf("%s held %s and was given %s on asking again (only one goroutine drives this subscriber)", n, holds[hi].b, r.V.B))
							}
							continue
						}
						holds = append(holds, hold{n, r.V.B, r.Ret, 1 << 62})
						cur[n] = len(holds) - 1
						if ever[n] == nil {
							ever[n] = map[blk]bool{}
						}
						ever[n][r.V.B] = true
					case 'd':
						if r.Call < firstDealloc {
							firstDealloc = r.Call
						}
						if hi, ok := cur[n]; ok && r.Err == "" {
							holds[hi].to = r.Call
							delete(cur, n)
						}
					case 'g':
						if !own {
							continue
						}
						hi, isHeld := cur[n]
						switch {
						case isHeld && !r.OK:
							cr.sk.report(compLookup, "lookup-agrees", "holder-not-found", fmt.Sprintf("%s holds %s but its own lookup finds nothing", n, holds[hi].b))
						case !isHeld && r.OK:
							cr.sk.report(compLookup, "lookup-agrees", "held-after-release", fmt.Sprintf("%s holds nothing but its own lookup returns %s", n, r.V.B))
						case isHeld && holds[hi].b != r.V.B:
							cr.sk.report(compLookup, "same-block-until-released", "lookup-shows-different-block", fmt.Sprintf("%s was told %s, its own lookup returns %s", n, holds[hi].b, r.V.B))
						}
					}
				}
				for n, hi := range cur {
					cr.held[n] = holds[hi].b
				}
			}
			for _, r := range cr.res { // lookups by other goroutines: only blocks the subscriber was ever given
				if r.Op.K == 'g' && r.OK && r.Op.Sub/10 != r.Client {
					n := privIP(r.Op.Sub).String()
					if !ever[n][r.V.B] {
						cr.sk.report(compLookup, "lookup-agrees", "lookup-shows-block-never-given", fmt.Sprintf("lookup(%s) returned %s which the subscriber was never told", n, r.V.B))
					}
				}
			}
			pairs := 0
			for i, a := range holds {
				for _, b := range holds[i+1:] {
					if a.sub == b.sub || !a.b.overlaps(b.b) {
						continue
					}
					from, to := a.from, a.to
					if b.from > from {
						from = b.from
					}
					if b.to < to {
						to = b.to
					}
					if from >= to {
						continue
					}
					pairs++
					cls := "concurrent-without-prior-release"
					if a.b != b.b {
						cls = "partial-overlap"
					} else if firstDealloc < from {
						cls = "reuse-after-middle-release" // the sequential defect, reached from several goroutines
					}
					cr.sk.report(compAlloc, "no-overlap", cls, fmt.Sprintf("%s holds %s and %s holds %s at the same time (stamps %d..%d)", a.sub, a.b, b.sub, b.b, from, to))
				}
			}
			run.Count("overlaps_observed", pairs)
			run.Count("conc_holdings_judged", len(holds))
		})
		sampleConc(cr)
	}
}

// ---------------------------------------------------------------- F3: same private address from several goroutines

type pin struct {
	K    byte
	Sub  int
	Racy bool // this alloc overlapped another alloc of the same subscriber in real time
}
type pout struct {
	B   string
	OK  bool
	Err bool
}

func subModel(weak bool) porcupine.Model {
	return porcupine.Model{
		Partition: func(h []porcupine.Operation) [][]porcupine.Operation {
			m := map[int][]porcupine.Operation{}
			var ks []int
			for _, o := range h {
				s := o.Input.(pin).Sub
				if _, ok := m[s]; !ok {
					ks = append(ks, s)
				}
				m[s] = append(m[s], o)
			}
			sort.Ints(ks)
			var out [][]porcupine.Operation
			for _, k := range ks {
				out = append(out, m[k])
			}
			return out
		},
		Init: func() any { return "" },
		Step: func(st, in, out any) (bool, any) {
			s, i, o := st.(string), in.(pin), out.(pout)
			switch i.K {
			case 'a':
				if o.Err {
					return s == "", s // a holder must get its block back; a non-holder may be refused
				}
				if s == "" || s == o.B {
					return true, o.B
				}
				if weak && i.Racy {
					return true, o.B // the known defect: a racing first allocation replaces the block
				}
				return false, s
			case 'd':
				return true, ""
			case 'g':
				if o.OK {
					return s == o.B, s
				}
				return s == "", s
			}
			return true, s
		},
		DescribeOperation: func(in, out any) string { return fmt.Sprintf("%c%d -> %+v", in.(pin).K, in.(pin).Sub, out) },
	}
}

// TestConcurrentSameSubscriber is family F3.
func TestConcurrentSameSubscriber(t *testing.T) {
	rounds := concRounds(t, run.Pick(500, 6000))
	strict, weak := subModel(false), subModel(true)
	for round := 0; round < rounds; round++ {
		rng := run.SubRand("f3", round)
		g := concGeom(rng, 8)
		nPub := 1 + rng.IntN(2)
		nCl := 2 + rng.IntN(7)
		nSubs := 1 + rng.IntN(3)
		allocOnly := round%3 == 0 // "two racing on the same private IP": everybody asks for the same address at once
		small := round < rounds/5 // the first rounds are tiny so that the stored witness is short
		if small {
			nCl, nSubs, allocOnly = 2+rng.IntN(3), 1, true
		}
		scripts := make([][]cop, nCl)
		for c := range scripts {
			n := 3 + rng.IntN(6)
			if small {
				n = 1 + rng.IntN(2)
			}
			for i := 0; i < n; i++ {
				s := rng.IntN(nSubs)
				x := rng.IntN(10)
				switch {
				case allocOnly && x < 8, !allocOnly && x < 5:
					scripts[c] = append(scripts[c], cop{'a', s})
				case !allocOnly && x < 8:
					scripts[c] = append(scripts[c], cop{'d', s})
				default:
					scripts[c] = append(scripts[c], cop{'g', s})
				}
			}
			if !small && rng.IntN(3) == 0 { // bystanders allocating other addresses keep poolMu busy
				scripts[c] = append([]cop{{'a', 100 + c}}, scripts[c]...)
			}
		}
		cr := drive(g, nPub, pickMode(rng, false), scripts, pickProcs(rng), rng, "F3", func(cr *concRun) {
			var ops []porcupine.Operation
			racing, differ := 0, 0
			for i, r := range cr.res {
				if r.Op.K == 's' {
					continue
				}
				in := pin{K: r.Op.K, Sub: r.Op.Sub}
				if r.Op.K == 'a' {
					for j, q := range cr.res {
						if j != i && q.Op.K == 'a' && q.Op.Sub == r.Op.Sub && q.Call < r.Ret && r.Call < q.Ret {
							in.Racy = true
							if j > i {
								racing++
								if r.OK && q.OK && r.V.B != q.V.B {
									differ++
								}
							}
						}
					}
				}
				ops = append(ops, porcupine.Operation{ClientId: r.Client, Input: in, Call: r.Call, Output: pout{B: r.V.B.String(), OK: r.OK, Err: r.Op.K == 'a' && !r.OK}, Return: r.Ret})
			}
			run.Count("same_ip_racing_alloc_pairs", racing)
			run.Count("same_ip_racing_alloc_pairs_with_different_blocks_observed", differ)
			res, _ := porcupine.CheckOperationsVerbose(strict, ops, 20*time.Second)
			run.Count("porcupine_checks", 1)
			switch res {
			case porcupine.Unknown:
				run.Inconclusive(fmt.Sprintf("f3-%d", round), "porcupine timeout")
			case porcupine.Illegal:
				res2, _ := porcupine.CheckOperationsVerbose(weak, ops, 20*time.Second)
				switch res2 {
				case porcupine.Ok:
					cr.sk.report(compAlloc, "same-block-until-released", "racing-first-allocation-same-ip", "concurrent AllocateNAT calls for the same private address, none of them preceded by a release, returned different blocks (the per-subscriber history is linearizable only if a racing allocation may replace the block)")
				case porcupine.Illegal:
					cr.sk.report(compAlloc, "same-block-until-released", "per-subscriber-history-not-linearizable", "the per-subscriber history of alloc/dealloc/lookup results is not linearizable against the ownership model, even allowing racing first allocations to replace the block")
				default:
					run.Inconclusive(fmt.Sprintf("f3-%d", round), "porcupine timeout (weak model)")
				}
			}
		})
		sampleConc(cr)
	}
}

// concRounds: the preflight child runs a third of the rounds; the parent skips the family if the child crashed.
func concRounds(t *testing.T, n int) int {
	if child {
		return n/3 + 1
	}
	if skipConcurrent {
		t.Skip("concurrent workload is process-fatal (reported by the preflight)")
	}
	return n
}
