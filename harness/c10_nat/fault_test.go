package c10

// Faults of the eBPF map writes inside the NAT manager's operations.
//
// The manager runs against real kernel hash maps (key/value sizes of bpf/nat44.c) handed in through
// VerifSetMaps. A map-write fault is one of
//
//	full      the map is filled with foreign keys until the kernel refuses the next insert (E2BIG on a
//	          Put of a new key, as on a full production map; updates and deletes still work);
//	readonly  the manager holds a read-only handle of the same kernel map (obtained through a bpffs pin):
//	          the kernel refuses every Put and every Delete with EPERM while the table stays as it is.
//
// at each map the Go side writes: subscriber_nat (Put in AllocateNAT, Delete in DeallocateNAT),
// hairpin_ips (Put in AddPublicIP) and alg_ports (Put/Delete in ConfigureALG). nat_config_map is written
// only by Start (needs the loaded object); nat_sessions, nat_reverse, eim_table, nat_pool, nat_stats_map and
// the log ring are never written from Go. Faults are switched on and off between the operations of a history,
// so they persist over any number of operations or are cleared before the next one.
//
// The oracle reads the holders from the values the operations returned (model), from the manager's getters
// and from the kernel map itself (with the manager's own key encoding).

import (
	"encoding/binary"
	"errors"
	"fmt"
	"math/rand/v2"
	"net"
	"os"
	"path/filepath"
	"runtime"
	"sort"
	"strings"
	"sync"
	"syscall"
	"testing"

	"github.com/cilium/ebpf"

	"github.com/codelaboratoryltd/bng/pkg/nat"
)

const (
	compAddPub = "nat.Manager.AddPublicIP"
	compALG    = "nat.Manager.ConfigureALG"
)

// ---------------------------------------------------------------- the kernel plane of one worker

type faultKind struct{ Map, Kind string }

func (f faultKind) String() string { return f.Map + "/" + f.Kind }

var faultKinds = []faultKind{
	{"subscriber_nat", "full"}, {"subscriber_nat", "readonly"},
	{"hairpin_ips", "full"}, {"hairpin_ips", "readonly"},
	{"alg_ports", "full"}, {"alg_ports", "readonly"},
}

type kmap struct {
	name       string
	rw, ro     *ebpf.Map
	max        int
	full       bool
	readonly   bool
	roIsClosed bool // no bpffs: the "read-only" handle is a closed duplicate (every syscall through it fails)
}

type plane struct {
	sub, hair, alg *kmap
	all            []*kmap
	bkeys          [32]uint32
	bvals          [32][64]byte
	noBatch        bool
	ipNames        map[uint32]string
}

var (
	bpffsOnce sync.Once
	bpffsDir  string
	planeSeq  int
	planeMu   sync.Mutex
)

// bpffs mounts a private bpf filesystem (needed only to obtain read-only handles of a map).
func bpffs() string {
	bpffsOnce.Do(func() {
		d, err := os.MkdirTemp("", "c10bpffs")
		if err != nil {
			return
		}
		if err := syscall.Mount("bpf", d, "bpf", 0, ""); err != nil {
			os.Remove(d)
			return
		}
		bpffsDir = d
	})
	return bpffsDir
}

func faultTeardown() {
	if bpffsDir != "" {
		_ = syscall.Unmount(bpffsDir, syscall.MNT_DETACH)
		_ = os.Remove(bpffsDir)
	}
}

func newKmap(name string, keySize, valueSize uint32, max int) (*kmap, error) {
	rw, err := ebpf.NewMap(&ebpf.MapSpec{Name: "c10_" + name[:3], Type: ebpf.Hash, KeySize: keySize, ValueSize: valueSize, MaxEntries: uint32(max)})
	if err != nil {
		return nil, err
	}
	k := &kmap{name: name, rw: rw, max: max}
	if d := bpffs(); d != "" {
		planeMu.Lock()
		planeSeq++
		p := filepath.Join(d, fmt.Sprintf("p%d_%d_%s", os.Getpid(), planeSeq, name))
		planeMu.Unlock()
		if err := rw.Pin(p); err == nil {
			ro, err := ebpf.LoadPinnedMap(p, &ebpf.LoadPinOptions{ReadOnly: true})
			_ = rw.Unpin()
			if err == nil {
				k.ro = ro
			}
		}
	}
	if k.ro == nil {
		c, err := rw.Clone()
		if err != nil {
			rw.Close()
			return nil, err
		}
		c.Close()
		k.ro, k.roIsClosed = c, true
	}
	// the handle must refuse a write and leave the table alone
	probe := foreignU32(250)
	if err := k.ro.Put(&probe, make([]byte, valueSize)); err == nil {
		rw.Close()
		return nil, fmt.Errorf("read-only handle of %s accepted a write", name)
	}
	return k, nil
}

func newPlane() (*plane, error) {
	p := &plane{ipNames: map[uint32]string{}}
	var err error
	if p.sub, err = newKmap("subscriber_nat", 4, 64, 8); err != nil {
		return nil, err
	}
	if p.hair, err = newKmap("hairpin_ips", 4, 1, 4); err != nil {
		return nil, err
	}
	if p.alg, err = newKmap("alg_ports", 4, 8, 4); err != nil {
		return nil, err
	}
	p.all = []*kmap{p.sub, p.hair, p.alg}
	return p, nil
}

func (p *plane) close() {
	for _, k := range p.all {
		k.rw.Close()
		if !k.roIsClosed {
			k.ro.Close()
		}
	}
}

func (p *plane) byName(n string) *kmap {
	for _, k := range p.all {
		if k.name == n {
			return k
		}
	}
	return nil
}

// handles is what the manager is given: per map the read-write or the read-only handle of the same kernel map.
func (p *plane) handles() map[string]*ebpf.Map {
	out := map[string]*ebpf.Map{}
	for _, k := range p.all {
		if k.readonly {
			out[k.name] = k.ro
		} else {
			out[k.name] = k.rw
		}
	}
	return out
}

// foreignU32 is a key no subscriber, public address or ALG port of a case can have (238.238.238.i / port 61166).
func foreignU32(i int) uint32 { return 0xeeeeee00 | uint32(i&0xff) }
func isForeign(k uint32) bool { return k&0xffffff00 == 0xeeeeee00 }

// fill puts foreign entries into the map until the kernel refuses the next one.
func (k *kmap) fill() error {
	val := make([]byte, k.rw.ValueSize())
	n := 0
	var last error
	for i := 0; i <= k.max; i++ {
		key := foreignU32(i)
		if last = k.rw.Put(&key, val); last != nil {
			break
		}
		n++
	}
	if last == nil {
		return fmt.Errorf("map %s took %d foreign entries without refusing one (max_entries %d)", k.name, n, k.max)
	}
	if !errors.Is(last, syscall.E2BIG) {
		return fmt.Errorf("map %s refused a foreign entry with %v, not E2BIG", k.name, last)
	}
	k.full = true
	return nil
}

func (k *kmap) unfill() {
	for i := 0; i <= k.max; i++ {
		key := foreignU32(i)
		_ = k.rw.Delete(&key)
	}
	k.full = false
}

// reset empties every map and clears every fault.
func (p *plane) reset() {
	for _, k := range p.all {
		var keys []uint32
		it := k.rw.Iterate()
		var key uint32
		var val []byte
		for it.Next(&key, &val) {
			keys = append(keys, key)
		}
		for _, x := range keys {
			x := x
			_ = k.rw.Delete(&x)
		}
		k.full, k.readonly = false, false
	}
}

// scanSub reads the whole subscriber_nat table (one batch lookup): subscriber (by the manager's key convention) -> block.
func (p *plane) scanSub() map[string]blk {
	out := map[string]blk{}
	if p.noBatch {
		it := p.sub.rw.Iterate()
		var key uint32
		var val []byte
		for it.Next(&key, &val) {
			p.addEntry(out, key, val)
		}
		return out
	}
	var next uint32
	n, err := p.sub.rw.BatchLookup(nil, &next, p.bkeys[:], p.bvals[:], nil)
	if err != nil && !errors.Is(err, ebpf.ErrKeyNotExist) {
		p.noBatch = true
		return p.scanSub()
	}
	for i := 0; i < n; i++ {
		p.addEntry(out, p.bkeys[i], p.bvals[i][:])
	}
	return out
}

func (p *plane) addEntry(out map[string]blk, key uint32, val []byte) {
	if isForeign(key) || len(val) < 8 {
		return
	}
	name, ok := p.ipNames[key]
	if !ok {
		ip := make(net.IP, 4)
		binary.BigEndian.PutUint32(ip, key)
		name = ip.String()
		p.ipNames[key] = name
	}
	pubKey := binary.NativeEndian.Uint32(val[0:4])
	pub, ok := p.ipNames[pubKey]
	if !ok {
		ip := make(net.IP, 4)
		binary.BigEndian.PutUint32(ip, pubKey)
		pub = ip.String()
		p.ipNames[pubKey] = pub
	}
	out[name] = blk{pub, int(binary.NativeEndian.Uint16(val[4:6])), int(binary.NativeEndian.Uint16(val[6:8]))}
}

func (k *kmap) has(key uint32) bool {
	val := make([]byte, k.rw.ValueSize())
	return k.rw.Lookup(&key, &val) == nil
}

// ---------------------------------------------------------------- histories

type fop struct {
	K   byte // 'a' alloc, 'd' dealloc, 'X' fault on (Sub = index into faultKinds), 'x' every fault off, 'p' add a public address, 'c' configure ALG (Sub 0 enable, 1 disable)
	Sub int
}

func (o fop) String() string {
	switch o.K {
	case 'X':
		return "fault-on(" + faultKinds[o.Sub].String() + ")"
	case 'x':
		return "fault-off"
	case 'p':
		return "add-public-ip"
	case 'c':
		if o.Sub == 0 {
			return "alg-enable"
		}
		return "alg-disable"
	}
	return fmt.Sprintf("%c%d", o.K, o.Sub)
}

type faultCase struct {
	G       geom
	NPub    int
	Bulk    bool
	Hairpin bool
	Ops     []fop
	Seed    uint64
	Family  string
}

func (c *faultCase) opsKey() string {
	var b strings.Builder
	for _, o := range c.Ops {
		b.WriteString(o.String())
		b.WriteByte(' ')
	}
	return b.String()
}

var (
	faultPairs   sync.Map // fault position x operation pairs at which a refused write was observed
	faultSampled sync.Map
)

type fsnap struct {
	get map[string]*blk // getter view, per subscriber of the universe (nil = no allocation)
	ker map[string]blk  // kernel view: every non-foreign entry of subscriber_nat
}

func sameBlkPtr(a, b *blk) bool {
	if a == nil || b == nil {
		return a == b
	}
	return *a == *b
}

// runFault executes one history with faults against a fresh manager + logger on the worker's kernel maps.
func runFault(c *faultCase, pl *plane, tl *tally) bool {
	g := c.G
	rng := rand.New(rand.NewPCG(c.Seed, 0xfa17))
	rnd := func(n int) int {
		if n <= 0 {
			return 0
		}
		return rng.IntN(n)
	}
	pl.reset()
	mgr, err := nat.NewManager(nat.ManagerConfig{Interface: "verif0", PortsPerSubscriber: g.Size, PortRangeStart: g.Start, PortRangeEnd: g.End, EnableHairpin: c.Hairpin}, nop)
	if err != nil {
		panic(err)
	}
	mgr.VerifSetMaps(pl.handles())
	nPub := 0
	pubs := map[string]bool{}
	addPub := func() error {
		ip := pubIP(nPub)
		if err := mgr.AddPublicIP(ip); err != nil {
			return err
		}
		nPub++
		pubs[ip.String()] = true
		return nil
	}
	for i := 0; i < c.NPub; i++ {
		if err := addPub(); err != nil {
			panic(err)
		}
	}
	mode := logMode{Bulk: c.Bulk, Flush: "explicit", BufSize: bufSizes[int(c.Seed%uint64(len(bufSizes)))]}
	lg, buf, _ := newLogger(mode, "")
	mgr.SetLogger(lg)
	stopped := false
	defer func() {
		if !stopped {
			defer func() { recover() }()
			lg.Stop()
		}
	}()

	nSubs := 1
	for _, o := range c.Ops {
		if (o.K == 'a' || o.K == 'd') && o.Sub+1 > nSubs {
			nSubs = o.Sub + 1
		}
	}
	names := make([]string, nSubs)
	for i := range names {
		names[i] = privIP(i).String()
	}

	held := map[string]blk{} // the model: what the operations told the callers
	var heldList []lmEntry
	var hist []string
	sk := &sink{g: g, nPub: c.NPub, mode: mode.String(), family: c.Family, hist: func() []string { return append([]string(nil), hist...) }}
	lm := &logModel{}
	nrecs := 0
	pull := func() {
		data := buf.next()
		if len(data) == 0 {
			return
		}
		recs, bad := parseLog(g, data, nrecs)
		for _, b := range bad {
			sk.report(compLog, "attribution-in-order", "unparsable-record", "log line cannot be interpreted as a port-block record: "+b)
		}
		for _, r := range recs {
			lm.apply(r)
			tl.add("fault_log_"+r.Kind, 1)
		}
		nrecs += len(recs)
	}
	snapshot := func() fsnap {
		s := fsnap{get: map[string]*blk{}, ker: pl.scanSub()}
		for i, n := range names {
			if a := mgr.GetAllocation(privIP(i)); a != nil {
				b := viewOf(a).B
				s.get[n] = &b
			}
		}
		return s
	}

	var failedPut, failedDel bool
	ctx := func() string {
		if failedPut || failedDel {
			return "after-refused-map-write"
		}
		return "no-refused-write"
	}
	stale := map[string]string{}   // subscriber -> how its kernel entry became orphaned
	putPubs := map[string]bool{}   // public addresses that had a free block when a Put was refused
	var failedPutSub string        // the subscriber of the last refused Put
	followed, followedOther := false, false
	freePubs := func() map[string]bool { // by the model only: addresses on which fewer blocks are held than fit
		out := map[string]bool{}
		for pub := range pubs {
			n := 0
			for _, b := range held {
				if b.Pub == pub {
					n++
				}
			}
			if n < g.slots() {
				out[pub] = true
			}
		}
		return out
	}
	reached := func(m *kmap, op string) {
		kinds := ""
		if m.full {
			kinds = "full"
		}
		if m.readonly {
			if kinds != "" {
				kinds += "+"
			}
			kinds += "readonly"
		}
		key := m.name + "/" + kinds + " x " + op
		faultPairs.Store(key, true)
		tl.add("fault_refused_write:"+key, 1)
	}

	pre := snapshot()
	overlapsBefore := map[string]bool{}
	for k, op := range c.Ops {
		comp := ""
		opName := ""
		subject := ""
		var focus []blk
		var opErr error
		switch op.K {
		case 'X':
			fk := faultKinds[op.Sub]
			m := pl.byName(fk.Map)
			if fk.Kind == "full" {
				if !m.full {
					if err := m.fill(); err != nil {
						run.Inconclusive("fault-history", err.Error())
						return false
					}
				}
			} else {
				m.readonly = true
				mgr.VerifSetMaps(pl.handles())
			}
			hist = append(hist, op.String())
			tl.add("fault_op_fault_on:"+fk.String(), 1)
			continue
		case 'x':
			for _, m := range pl.all {
				if m.full {
					m.unfill()
				}
				m.readonly = false
			}
			mgr.VerifSetMaps(pl.handles())
			hist = append(hist, op.String())
			tl.add("fault_op_fault_off", 1)
			continue
		case 'a':
			comp, opName, subject = compAlloc, "allocation", names[op.Sub]
			free := freePubs()
			_, modelHeld := held[subject]
			a, err := mgr.AllocateNAT(privIP(op.Sub))
			opErr = err
			if err != nil {
				hist = append(hist, fmt.Sprintf("alloc(%s) -> error: %v", subject, err))
				tl.add("fault_op_alloc_refused", 1)
				if modelHeld {
					sk.report(compAlloc, "same-block-until-released", "error-for-holder", fmt.Sprintf("alloc(%s) failed (%v) although %s holds %s", subject, err, subject, held[subject]))
				}
				if m := pl.sub; (m.full || m.readonly) && pre.get[subject] == nil && len(free) > 0 {
					// a block was free and the subscriber had none: the refusal is the map write's
					reached(m, "AllocateNAT")
					failedPut, putPubs, failedPutSub = true, free, subject
				}
				break
			}
			v := viewOf(a)
			hist = append(hist, fmt.Sprintf("alloc(%s) -> %s", subject, v.B))
			checkShape(sk, g, pubs, subject, v)
			focus = []blk{v.B}
			if old, ok := held[subject]; ok {
				tl.add("fault_op_alloc_reask", 1)
				if old != v.B {
					sk.report(compAlloc, "same-block-until-released", "different-block-on-reask", fmt.Sprintf("%s held %s and was given %s on asking again", subject, old, v.B))
				}
			} else {
				tl.add("fault_op_alloc_new", 1)
				others := make([]string, 0, len(held))
				for o := range held {
					others = append(others, o)
				}
				sort.Strings(others)
				for _, o := range others {
					if ob := held[o]; ob.overlaps(v.B) {
						cls := overlapClass(g, held, v.B, ob)
						if failedPut || failedDel {
							cls += "/" + ctx()
						}
						sk.report(compAlloc, "no-overlap", cls, fmt.Sprintf("alloc(%s) returned %s while %s still holds %s", subject, v.B, o, ob))
						tl.add("fault_overlaps_observed", 1)
						break
					}
				}
				if failedPut && putPubs[v.B.Pub] {
					followed = true
					if subject != failedPutSub {
						followedOther = true
					}
				}
				if pl.sub.full || pl.sub.readonly {
					tl.add("fault_present_allocation_succeeded", 1) // e.g. an update of an entry that was still there
				}
			}
			held[subject] = v.B
			heldList = listSet(heldList, subject, v.B)
		case 'd':
			comp, opName, subject = compDealloc, "release", names[op.Sub]
			old, had := held[subject]
			err := mgr.DeallocateNAT(privIP(op.Sub))
			opErr = err
			if err != nil {
				hist = append(hist, fmt.Sprintf("dealloc(%s) -> error: %v", subject, err))
				tl.add("fault_op_dealloc_error", 1)
			} else {
				hist = append(hist, fmt.Sprintf("dealloc(%s)", subject))
				if had {
					tl.add("fault_op_dealloc_held", 1)
					delete(held, subject)
					heldList = listDel(heldList, subject)
					focus = []blk{old}
				} else {
					tl.add("fault_op_dealloc_noop", 1)
				}
			}
		case 'p':
			comp, opName = compAddPub, "add-public-ip"
			if nPub >= 3 {
				continue
			}
			ip := pubIP(nPub)
			err := addPub()
			opErr = err
			hist = append(hist, fmt.Sprintf("add-public-ip(%s) -> %v", ip, err))
			tl.add("fault_op_add_public_ip", 1)
			if m := pl.hair; c.Hairpin && (m.full || m.readonly) && !m.has(binary.BigEndian.Uint32(ip.To4())) {
				reached(m, "AddPublicIP")
			}
		case 'c':
			comp, opName = compALG, "configure-alg"
			key := uint32(21)<<16 | 6
			before := pl.alg.has(key)
			err := mgr.ConfigureALG(21, 6, nat.ALGTypeFTP, op.Sub == 0)
			opErr = err
			hist = append(hist, fmt.Sprintf("%s -> %v", op, err))
			tl.add("fault_op_configure_alg", 1)
			after := pl.alg.has(key)
			if m := pl.alg; err != nil && (m.full || m.readonly) {
				if op.Sub == 0 && !before && !after {
					reached(m, "ConfigureALG(enable)")
				}
				if op.Sub == 1 && before && after {
					reached(m, "ConfigureALG(disable)")
				}
			}
		}

		post := snapshot()

		// ---- the operation's own subscriber
		if subject != "" {
			g0, g1 := pre.get[subject], post.get[subject]
			k0, had0 := pre.ker[subject]
			k1, had1 := post.ker[subject]
			if opErr != nil {
				// an operation that failed leaves no holder behind, or exactly the state before it
				none := g1 == nil && !had1
				same := sameBlkPtr(g0, g1) && had0 == had1 && k0 == k1
				if !none && !same {
					cls := "partial-state-after-failed-" + opName
					switch {
					case g1 != nil && !sameBlkPtr(g0, g1):
						cls = "getter-names-holder-after-failed-" + opName
					case had1 && (!had0 || k0 != k1):
						cls = "dataplane-entry-after-failed-" + opName
					case g1 == nil && had1:
						cls = "dataplane-entry-left-by-failed-" + opName
					case g1 != nil && !had1:
						cls = "getter-holder-left-by-failed-" + opName
					}
					sk.report(comp, "failed-operation-leaves-no-holder", cls, fmt.Sprintf("%s(%s) returned an error (%v); before: getter %s, subscriber_nat %s; after: getter %s, subscriber_nat %s", opName, subject, opErr, showPtr(g0), showEnt(k0, had0), showPtr(g1), showEnt(k1, had1)))
				}
				// the model follows what is observable: no holder left -> not held
				if _, ok := held[subject]; ok && none {
					delete(held, subject)
					heldList = listDel(heldList, subject)
				}
				if op.K == 'a' && had1 && !had0 {
					stale[subject] = "failed-put"
				}
				if op.K == 'd' && pl.sub.readonly && had0 && had1 {
					reached(pl.sub, "DeallocateNAT") // the refusal was passed on to the caller
					failedDel = true
				}
			} else if op.K == 'a' {
				hb := held[subject]
				switch {
				case !had1:
					sk.report(compMap, "dataplane-map-agrees", "entry-missing", fmt.Sprintf("%s was given %s but subscriber_nat has no entry", subject, hb))
				case k1 != hb:
					sk.report(compMap, "dataplane-map-agrees", "entry-differs", fmt.Sprintf("%s was told %s, subscriber_nat says %s", subject, hb, k1))
				}
				delete(stale, subject)
			} else if op.K == 'd' && had1 {
				// the release succeeded for the caller and the table still translates for the subscriber
				tl.add("fault_dataplane_entries_left_by_release_observed", 1)
				if pl.sub.readonly && had0 {
					reached(pl.sub, "DeallocateNAT")
					failedDel = true
					stale[subject] = "failed-delete"
				} else if had0 && g0 != nil {
					sk.report(compMap, "dataplane-map-agrees", "entry-after-release", fmt.Sprintf("%s released its block (no map fault present) but subscriber_nat still maps it to %s", subject, k1))
				}
			}
		}

		// ---- nobody else is touched by it
		for _, n := range names {
			if n == subject {
				continue
			}
			if !sameBlkPtr(pre.get[n], post.get[n]) {
				sk.report(comp, "same-block-until-released", "other-subscriber-changed-by-"+opName, fmt.Sprintf("%s on %q changed what GetAllocation(%s) returns: %s -> %s", opName, subject, n, showPtr(pre.get[n]), showPtr(post.get[n])))
			}
		}
		for n := range unionKeys(pre.ker, post.ker) {
			if n == subject {
				continue
			}
			a, okA := pre.ker[n]
			b, okB := post.ker[n]
			if okA != okB || a != b {
				sk.report(comp, "same-block-until-released", "other-dataplane-entry-changed-by-"+opName, fmt.Sprintf("%s on %q changed the subscriber_nat entry of %s: %s -> %s", opName, subject, n, showEnt(a, okA), showEnt(b, okB)))
			}
		}

		// ---- getters agree with what the callers were told
		for _, n := range names {
			hb, isHeld := held[n]
			a := post.get[n]
			tl.add("fault_lookups_judged", 1)
			switch {
			case isHeld && a == nil:
				sk.report(compLookup, "lookup-agrees", "holder-not-found", fmt.Sprintf("%s holds %s but GetAllocation finds nothing", n, hb))
			case !isHeld && a != nil:
				sk.report(compLookup, "lookup-agrees", "held-after-release", fmt.Sprintf("%s holds nothing but GetAllocation returns %s", n, *a))
			case isHeld && *a != hb:
				sk.report(compLookup, "same-block-until-released", "lookup-shows-different-block", fmt.Sprintf("%s was told %s, GetAllocation now returns %s", n, hb, *a))
			}
		}

		// ---- at all times: blocks held are pairwise disjoint, by the getters and in the kernel table
		// (an overlap is reported where it arises, not again after every later operation)
		now := judgeDisjoint(tl, comp, names, held, stale, post)
		for _, f := range now {
			if !overlapsBefore[f.key] {
				sk.report(f.comp, f.rule, f.cls, f.desc)
			}
		}
		overlapsBefore = map[string]bool{}
		for _, f := range now {
			overlapsBefore[f.key] = true
		}

		// ---- the log, read in order
		lg.Flush()
		lg.FlushPortBlocks()
		pull()
		n, cls, desc := compareAttribution(g, pubNames(nPub), heldList, lm, focus, rnd)
		tl.add("fault_attribution_probes_in_order", n)
		if cls != "" {
			sk.report(compLog, "attribution-in-order", cls, fmt.Sprintf("after op %d: %s", k+1, desc))
		}
		sh := entryHash(g.Name, blk{S: nPub, E: len(post.get)})
		for n, b := range post.ker {
			sh ^= entryHash(n, b)
		}
		tl.states[sh] = struct{}{}
		pre = post
	}

	// the faults end, the manager stops: everything buffered is flushed
	for _, m := range pl.all {
		if m.full {
			m.unfill()
		}
		m.readonly = false
	}
	mgr.Stop()
	stopped = true
	pull()
	n, cls, desc := compareAttribution(g, pubNames(nPub), heldList, lm, nil, rnd)
	tl.add("fault_attribution_probes_in_order", n)
	if cls != "" {
		sk.report(compLog, "attribution-in-order", cls, "after shutdown (everything flushed): "+desc)
	}

	tl.evals++
	tl.add("fault_histories", 1)
	tl.add("fault_histories_"+c.Family, 1)
	if failedPut || failedDel {
		tl.add("fault_histories_with_refused_map_write", 1)
	}
	if followed {
		tl.add("fault_histories_refused_put_then_allocation_same_public_ip", 1)
		tl.nontr = append(tl.nontr, "fault|"+g.Name+"|"+fmt.Sprint(c.NPub)+"|"+c.opsKey())
	}
	if followedOther {
		tl.add("fault_histories_refused_put_then_allocation_to_other_subscriber_same_public_ip", 1)
	}
	if failedDel {
		tl.add("fault_histories_with_refused_delete", 1)
	}
	if followed && sk.viols == 0 {
		if _, dup := faultSampled.LoadOrStore(c.Family, true); !dup {
			run.Sample(map[string]any{"kind": "fault-" + c.Family, "geometry": g.Name, "public_ips": c.NPub, "logging": mode.String(), "history": hist})
		}
	}
	return followed
}

type overlapFinding struct{ key, comp, rule, cls, desc string }

// judgeDisjoint: no two subscribers hold overlapping ranges on one public address - by the getters, in the
// kernel table, and across the two (an entry of one subscriber against the getter block of another).
func judgeDisjoint(tl *tally, comp string, names []string, held map[string]blk, stale map[string]string, s fsnap) (out []overlapFinding) {
	for i := 0; i < len(names); i++ {
		for j := i + 1; j < len(names); j++ {
			a, b := s.get[names[i]], s.get[names[j]]
			if a == nil || b == nil {
				continue
			}
			tl.add("fault_getter_pairs_judged_disjoint", 1)
			if a.overlaps(*b) {
				cls := "getters-name-two-holders"
				_, h1 := held[names[i]]
				_, h2 := held[names[j]]
				if !h1 || !h2 {
					cls = "getters-name-a-holder-that-was-never-told"
				}
				out = append(out, overlapFinding{fmt.Sprint("g|", names[i], *a, names[j], *b), comp, "no-overlap", cls, fmt.Sprintf("GetAllocation(%s) = %s and GetAllocation(%s) = %s", names[i], *a, names[j], *b)})
			}
		}
	}
	keys := make([]string, 0, len(s.ker))
	for n := range s.ker {
		keys = append(keys, n)
	}
	sort.Strings(keys)
	classify := func(x, y string) (string, string) {
		for _, n := range []string{x, y} {
			if _, isHeld := held[n]; isHeld {
				continue
			}
			switch stale[n] {
			case "failed-delete":
				return compDealloc, "entry-left-by-refused-delete-overlaps-later-holder"
			case "failed-put":
				return compAlloc, "entry-of-failed-allocation-overlaps-later-holder"
			}
			return comp, "orphaned-entry-overlaps-holder"
		}
		return comp, "entries-of-two-holders-overlap"
	}
	for i := 0; i < len(keys); i++ {
		for j := i + 1; j < len(keys); j++ {
			a, b := s.ker[keys[i]], s.ker[keys[j]]
			tl.add("fault_dataplane_pairs_judged_disjoint", 1)
			if a.overlaps(b) {
				cp, cls := classify(keys[i], keys[j])
				out = append(out, overlapFinding{fmt.Sprint("k|", keys[i], a, keys[j], b), cp, "no-overlap-dataplane", cls, fmt.Sprintf("subscriber_nat maps %s to %s and %s to %s", keys[i], a, keys[j], b)})
			}
		}
	}
	for _, kn := range keys {
		for _, gn := range names {
			gb := s.get[gn]
			if gb == nil || gn == kn {
				continue
			}
			if _, both := s.ker[gn]; both {
				continue // judged above, entry against entry
			}
			if s.ker[kn].overlaps(*gb) {
				cp, cls := classify(kn, gn)
				out = append(out, overlapFinding{fmt.Sprint("x|", kn, s.ker[kn], gn, *gb), cp, "no-overlap-dataplane", cls, fmt.Sprintf("subscriber_nat maps %s to %s while GetAllocation(%s) = %s", kn, s.ker[kn], gn, *gb)})
			}
		}
	}
	return out
}

func unionKeys(a, b map[string]blk) map[string]struct{} {
	out := make(map[string]struct{}, len(a)+len(b))
	for k := range a {
		out[k] = struct{}{}
	}
	for k := range b {
		out[k] = struct{}{}
	}
	return out
}

func showPtr(b *blk) string {
	if b == nil {
		return "none"
	}
	return b.String()
}

func showEnt(b blk, ok bool) string {
	if !ok {
		return "no entry"
	}
	return b.String()
}

func safeRunFault(c *faultCase, pl *plane, tl *tally) (nt bool) {
	defer func() {
		if r := recover(); r != nil {
			cls := digits.ReplaceAllString(fmt.Sprint(r), "N")
			if len(cls) > 100 {
				cls = cls[:100]
			}
			sk := &sink{g: c.G, nPub: c.NPub, family: c.Family, hist: func() []string { return []string{c.opsKey()} }}
			sk.report("nat (history with map faults)", "no-panic", cls, fmt.Sprintf("history %q panicked: %v", c.opsKey(), r))
		}
	}()
	return runFault(c, pl, tl)
}

// runFaultBatches feeds batches to workers; every worker owns one set of kernel maps.
func runFaultBatches(t *testing.T, cases <-chan []*faultCase, workers int) {
	var wg sync.WaitGroup
	for w := 0; w < workers; w++ {
		wg.Add(1)
		go func() {
			defer wg.Done()
			pl, err := newPlane()
			if err != nil {
				run.Inconclusive("fault-histories", "kernel maps could not be created: "+err.Error())
				for range cases {
				}
				return
			}
			defer pl.close()
			if pl.sub.roIsClosed {
				run.Count("fault_readonly_handle_is_closed_duplicate(no bpffs)", 1)
			}
			tl := newTally()
			for batch := range cases {
				for _, c := range batch {
					safeRunFault(c, pl, tl)
				}
				tl.merge()
			}
		}()
	}
	wg.Wait()
}

// the small pools of the fault histories: 1, 2, 3 and many blocks per public address
var faultGeoms = []geom{
	{"1024-2047/512", 1024, 2047, 512},
	{"1-65535/65535", 1, 65535, 65535},
	{"2000-2999/300", 2000, 2999, 300},
	{"1024-65535/1000", 1024, 65535, 1000},
}

func parseFops(s string) []fop {
	var ops []fop
	for _, f := range strings.Fields(s) {
		var n int
		if len(f) > 1 {
			fmt.Sscanf(f[1:], "%d", &n)
		}
		ops = append(ops, fop{K: f[0], Sub: n})
	}
	return ops
}

// TestFaultA_Scenarios: minimal hand-written histories first (the witness kept for a class is the first one).
// X0 subscriber_nat full, X1 subscriber_nat read-only, X2/X3 hairpin_ips, X4/X5 alg_ports, x every fault off.
func TestFaultA_Scenarios(t *testing.T) {
	scs := []string{
		"X0 a0 x a1 a0",             // refused Put, the next subscriber allocates, the first retries
		"X0 a0 a1 x a1 a0 d0 a2",    // fault persisting over two allocations, then release of the retried one
		"X0 a0 x a1 d0 a2",          // release by the subscriber whose allocation failed
		"X1 a0 x a1 a0",             // the same with every write refused
		"a0 X1 d0 x a1",             // refused Delete, block given to the next subscriber
		"a0 a1 X1 d0 x a2 a0 d2 d0", // ... and the first subscriber comes back
		"a0 X1 d0 d0 x d0 a1",       // release repeated while and after the fault
		"a0 a1 X0 a2 d0 a2 x a2",    // full table: a release makes no room (foreign entries), the fault ends
		"X0 X1 a0 a1 x a0 a1",       // both kinds at once
		"X2 p x a0 a1 a2",           // hairpin table full while a public address is added
		"a0 X3 p a1 a2 x p a2",      // hairpin table read-only
		"X4 c0 x c0 c1 a0",          // ALG table full
		"c0 X5 c1 c0 x c1 a0 d0",    // ALG table read-only: disable and enable refused
		"a0 a1 d0 a2 d1 a0",         // no fault: the plane itself changes nothing
	}
	ch := make(chan []*faultCase, 4)
	go func() {
		defer close(ch)
		i := 0
		var batch []*faultCase
		for _, g := range faultGeoms {
			for nPub := 1; nPub <= 2; nPub++ {
				for _, s := range scs {
					for _, bulk := range []bool{true, false} {
						batch = append(batch, &faultCase{G: g, NPub: nPub, Bulk: bulk, Hairpin: true, Ops: parseFops(s), Seed: uint64(run.Seed) + uint64(i), Family: "scenario"})
						i++
					}
				}
			}
		}
		ch <- batch
	}()
	runFaultBatches(t, ch, 1)
}

// enumerateFaults calls fn for every history of exactly the given depth over alloc/dealloc of <= maxSubs
// subscribers (a new subscriber is always the next unused index; a dealloc only for a subscriber whose last
// operation was an alloc, successful or not), fault-on(subscriber_nat full), fault-on(subscriber_nat read-only)
// (each only while it is off) and fault-off (only while one is on). A history never ends with a fault switch.
func enumerateFaults(depth, maxSubs int, fn func(ops []fop)) {
	ops := make([]fop, depth)
	var rec func(pos, used int, live uint, f0, f1 bool)
	rec = func(pos, used int, live uint, f0, f1 bool) {
		if pos == depth {
			fn(ops)
			return
		}
		lim := used + 1
		if lim > maxSubs {
			lim = maxSubs
		}
		for s := 0; s < lim; s++ {
			nu := used
			if s == used {
				nu++
			}
			ops[pos] = fop{K: 'a', Sub: s}
			rec(pos+1, nu, live|1<<uint(s), f0, f1)
			if live&(1<<uint(s)) != 0 {
				ops[pos] = fop{K: 'd', Sub: s}
				rec(pos+1, nu, live&^(1<<uint(s)), f0, f1)
			}
		}
		if pos == depth-1 {
			return
		}
		if !f0 {
			ops[pos] = fop{K: 'X', Sub: 0}
			rec(pos+1, used, live, true, f1)
		}
		if !f1 {
			ops[pos] = fop{K: 'X', Sub: 1}
			rec(pos+1, used, live, f0, true)
		}
		if f0 || f1 {
			ops[pos] = fop{K: 'x'}
			rec(pos+1, used, live, false, false)
		}
	}
	rec(0, 0, 0, false, false)
}

// TestFaultExhaustive: every such history to the stated depth, for 1-2 public addresses and pools of 1, 2, 3 and 64 blocks.
func TestFaultExhaustive(t *testing.T) {
	depth := run.Pick(5, 7) // every configuration
	deep := run.Pick(6, 8)  // quick: four configurations one level deeper; thorough: the 2-block pool on one address
	type combo struct {
		g    geom
		nPub int
	}
	deepCombos := []combo{{faultGeoms[0], 1}}
	if !run.Thorough() {
		deepCombos = []combo{{faultGeoms[0], 1}, {faultGeoms[1], 2}, {faultGeoms[2], 1}, {faultGeoms[3], 2}}
	}
	ch := make(chan []*faultCase, 64)
	total := 0
	go func() {
		defer close(ch)
		idx := 0
		emit := func(g geom, nPub, d, maxSubs int) {
			var batch []*faultCase
			enumerateFaults(d, maxSubs, func(ops []fop) {
				cp := append([]fop(nil), ops...)
				batch = append(batch, &faultCase{G: g, NPub: nPub, Bulk: idx%2 == 0, Hairpin: idx%3 == 0, Ops: cp, Seed: uint64(run.Seed)*1000003 + uint64(idx), Family: "exhaustive"})
				idx++
				total++
				if len(batch) == 128 {
					ch <- batch
					batch = nil
				}
			})
			if len(batch) > 0 {
				ch <- batch
			}
		}
		for _, g := range faultGeoms {
			for nPub := 1; nPub <= 2; nPub++ {
				for d := 3; d <= depth; d++ {
					emit(g, nPub, d, 3)
				}
			}
		}
		for _, cb := range deepCombos {
			emit(cb.g, cb.nPub, deep, 3)
		}
	}()
	runFaultBatches(t, ch, runtime.NumCPU())
	run.Count("fault_exhaustive_histories", total)
	run.Extra("fault_exhaustive_depth_every_configuration", depth)
	run.Extra("fault_exhaustive_depth_selected_configurations", deep)
	countFaultPairs()
}

// TestFaultRandom: seeded histories over every fault kind and every map-writing operation.
func TestFaultRandom(t *testing.T) {
	n := run.Pick(3000, 40000)
	ch := make(chan []*faultCase, 64)
	go func() {
		defer close(ch)
		var batch []*faultCase
		for w := 0; w < n; w++ {
			rng := run.SubRand("fault-walk", w)
			g := faultGeoms[rng.IntN(len(faultGeoms))]
			nSubs := 2 + rng.IntN(4) // 2..5: the kernel table has room for 8
			length := 8 + rng.IntN(run.Pick(33, 73))
			ops := make([]fop, 0, length)
			for len(ops) < length {
				switch x := rng.IntN(100); {
				case x < 36:
					ops = append(ops, fop{K: 'a', Sub: rng.IntN(nSubs)})
				case x < 60:
					ops = append(ops, fop{K: 'd', Sub: rng.IntN(nSubs)})
				case x < 76:
					k := rng.IntN(2) // mostly the table of the allocations
					if rng.IntN(4) == 0 {
						k = 2 + rng.IntN(4)
					}
					ops = append(ops, fop{K: 'X', Sub: k})
				case x < 86:
					ops = append(ops, fop{K: 'x'})
				case x < 91:
					ops = append(ops, fop{K: 'p'})
				default:
					ops = append(ops, fop{K: 'c', Sub: rng.IntN(2)})
				}
			}
			batch = append(batch, &faultCase{G: g, NPub: 1 + rng.IntN(2), Bulk: rng.IntN(2) == 0, Hairpin: rng.IntN(4) != 0, Ops: ops, Seed: rng.Uint64(), Family: "random"})
			if len(batch) == 32 {
				ch <- batch
				batch = nil
			}
		}
		if len(batch) > 0 {
			ch <- batch
		}
	}()
	runFaultBatches(t, ch, runtime.NumCPU())
	countFaultPairs()
}

var faultPairsCounted int

// countFaultPairs publishes the distinct (fault position x operation) pairs at which a refused write was observed.
func countFaultPairs() {
	n := 0
	var keys []string
	faultPairs.Range(func(k, _ any) bool {
		n++
		keys = append(keys, k.(string))
		return true
	})
	sort.Strings(keys)
	run.Count("fault_position_x_operation_pairs_reached", n-faultPairsCounted)
	faultPairsCounted = n
	run.Extra("fault_position_x_operation_pairs", keys)
}
