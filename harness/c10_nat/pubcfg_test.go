package c10

import (
	"encoding/binary"
	"fmt"
	"math/rand/v2"
	"net"
	"sort"
	"strings"
	"sync"
	"testing"

	"github.com/codelaboratoryltd/bng/pkg/nat"
)

// ---------------------------------------------------------------- every way of configuring public addresses
//
// The other families configure the pool with AddPublicIP for one to three fixed addresses. Here the pool is
// built by a plan: AddPublicIP one by one (4-byte and 16-byte net.IP values), AddPublicIPRange over 2-8
// addresses (also across a /24 boundary), mixtures, steps applied while subscribers already hold blocks, and
// the same address added more than once. The history then allocates more subscribers than fit on one address.
// All clauses of the sequential oracle apply (no overlap per public address, blocks inside the range, same
// block until released, the log attributes every probe to the holder on the address the manager returned), plus:
//
//   pool-reports-configured-addresses  the addresses GetPoolStats reports are, as a set, exactly the ones
//                                      whose add call returned nil
//   spread-over-configured-addresses   n live blocks of the configured size need at least ceil(n / blocks per
//                                      address) distinct public addresses (pigeonhole over the no-overlap and
//                                      in-range clauses; judged on its own so that it names the pool, not a pair)

const compPool = "nat.Manager (public address pool)"

type pubStep struct {
	Range bool
	A, B  uint32 // the address, or the inclusive range A..B (host order)
	Long  bool   // hand over the 16-byte form (net.IPv4 / net.ParseIP) instead of the 4-byte one
}

func u32ip(x uint32, long bool) net.IP {
	if long {
		return net.IPv4(byte(x>>24), byte(x>>16), byte(x>>8), byte(x))
	}
	ip := make(net.IP, 4)
	binary.BigEndian.PutUint32(ip, x)
	return ip
}

func (s pubStep) String() string {
	form := "4B"
	if s.Long {
		form = "16B"
	}
	if s.Range {
		return fmt.Sprintf("AddPublicIPRange(%s, %s)[%s]", u32ip(s.A, false), u32ip(s.B, false), form)
	}
	return fmt.Sprintf("AddPublicIP(%s)[%s]", u32ip(s.A, false), form)
}

func planString(p []pubStep, init int) string {
	var b strings.Builder
	for i, s := range p {
		if i == init {
			b.WriteString("| later: ")
		}
		b.WriteString(s.String())
		b.WriteByte(' ')
	}
	return b.String()
}

// pubCfg is the configuration side of one history: what was configured (by the return values of the add
// calls) and what the pool reports.
type pubCfg struct {
	c     *seqCase
	mgr   *nat.Manager
	sk    *sink
	tl    *tally
	pubs  map[string]bool   // shared with runSeq: the configured set
	via   map[string]string // address -> the call that configured it first
	added map[string]int    // address -> number of successful adds
	list  []string          // configured addresses, distinct, in configuration order
	hist  *[]string

	maxInUse      int
	usedLater     bool
	usedRangeTwo  bool
	beyondFirst   int
	spreadJudged  int
	spreadReports int
}

func newPubCfg(c *seqCase, mgr *nat.Manager, sk *sink, tl *tally, pubs map[string]bool, hist *[]string) *pubCfg {
	return &pubCfg{c: c, mgr: mgr, sk: sk, tl: tl, pubs: pubs, via: map[string]string{}, added: map[string]int{}, hist: hist}
}

func (p *pubCfg) note(addr uint32, via string) {
	s := u32ip(addr, false).String()
	p.added[s]++
	if p.added[s] > 1 {
		p.tl.add("pubcfg_addresses_added_again", 1)
		return
	}
	p.pubs[s] = true
	p.via[s] = via
	p.list = append(p.list, s)
}

// apply runs step i of the plan through the real entry point.
func (p *pubCfg) apply(i int) {
	st := p.c.Plan[i]
	if i >= p.c.PlanInit {
		p.tl.add("pubcfg_steps_applied_mid_history", 1)
	}
	if !st.Range {
		err := p.mgr.AddPublicIP(u32ip(st.A, st.Long))
		*p.hist = append(*p.hist, fmt.Sprintf("%s -> %v", st, err))
		p.tl.add("pubcfg_add_public_ip_calls", 1)
		if st.Long {
			p.tl.add("pubcfg_add_public_ip_calls_16_byte_form", 1)
		}
		if err != nil {
			p.tl.add("pubcfg_add_calls_refused", 1)
			return
		}
		p.note(st.A, "nat.Manager.AddPublicIP")
		return
	}
	err := p.mgr.AddPublicIPRange(u32ip(st.A, st.Long), u32ip(st.B, st.Long))
	*p.hist = append(*p.hist, fmt.Sprintf("%s -> %v", st, err))
	p.tl.add("pubcfg_add_public_ip_range_calls", 1)
	p.tl.add(fmt.Sprintf("pubcfg_range_of_%d_addresses", st.B-st.A+1), 1)
	if st.A>>8 != st.B>>8 {
		p.tl.add("pubcfg_ranges_crossing_a_slash24_boundary", 1)
	}
	if err != nil {
		// what a refused range left behind is whatever the pool reports; nothing is demanded of it
		p.tl.add("pubcfg_add_calls_refused", 1)
		for _, pe := range p.mgr.GetPoolStats() {
			s := pe.PublicIP.String()
			if !p.pubs[s] {
				p.pubs[s] = true
				p.via[s] = "nat.Manager.AddPublicIPRange"
				p.list = append(p.list, s)
				p.added[s]++
			}
		}
		return
	}
	for a := st.A; ; a++ {
		p.note(a, "nat.Manager.AddPublicIPRange")
		if a == st.B {
			break
		}
	}
}

// checkPool: the pool's own report names exactly the configured addresses.
func (p *pubCfg) checkPool(when string) {
	reported := map[string]int{}
	var order []string
	for _, pe := range p.mgr.GetPoolStats() {
		s := pe.PublicIP.String()
		if reported[s] == 0 {
			order = append(order, s)
		}
		reported[s]++
	}
	p.tl.add("pubcfg_pool_reports_judged", 1)
	for _, want := range p.list {
		if reported[want] > 0 {
			p.tl.add("pubcfg_configured_addresses_found_in_pool_report", 1)
			continue
		}
		p.sk.report(p.via[want], "pool-reports-configured-addresses", "configured-address-missing",
			fmt.Sprintf("%s: %s was configured (%s returned nil) but the pool reports %v", when, want, p.via[want], order))
		return
	}
	for _, got := range order {
		if !p.pubs[got] {
			p.sk.report(compPool, "pool-reports-configured-addresses", "unconfigured-address-reported",
				fmt.Sprintf("%s: the pool reports %s, which no add call configured (configured: %v)", when, got, p.list))
			return
		}
	}
}

// afterAlloc: the spread clause and the observations that say the later addresses were really used.
func (p *pubCfg) afterAlloc(held map[string]blk, who string, opNo int) {
	b, ok := held[who]
	if !ok {
		return
	}
	inUse := map[string]int{}
	for _, hb := range held {
		inUse[hb.Pub]++
	}
	if len(inUse) > p.maxInUse {
		p.maxInUse = len(inUse)
	}
	if len(p.list) > 0 && b.Pub != p.list[0] {
		p.beyondFirst++
		p.usedLater = true
	}
	rangeAddrs := 0
	for a := range inUse {
		if p.via[a] == "nat.Manager.AddPublicIPRange" {
			rangeAddrs++
		}
	}
	if rangeAddrs >= 2 {
		p.usedRangeTwo = true
	}
	per := (p.c.G.End - p.c.G.Start + 1) / p.c.G.Size // blocks of the configured size that fit into the configured range
	if per <= 0 {
		return
	}
	need := (len(held) + per - 1) / per
	p.spreadJudged++
	if len(inUse) < need && p.spreadReports == 0 {
		p.spreadReports++
		var l []string
		for a, n := range inUse {
			l = append(l, fmt.Sprintf("%s:%d", a, n))
		}
		sort.Strings(l)
		cls := "more-live-blocks-than-fit-on-the-addresses-in-use"
		for a := range inUse {
			if p.added[a] > 1 {
				cls = "public-address-added-more-than-once"
			}
		}
		p.sk.report(compPool, "spread-over-configured-addresses", cls,
			fmt.Sprintf("after op %d: %d subscribers hold blocks of %d ports on %d public address(es) %v; %d blocks fit on one address, so at least %d addresses are needed (configured: %v)",
				opNo, len(held), p.c.G.Size, len(inUse), l, per, need, p.list))
	}
}

func (p *pubCfg) finish(_ bool) {
	p.tl.add("pubcfg_histories", 1)
	p.tl.add("pubcfg_style_"+p.c.Style, 1)
	p.tl.add("pubcfg_spread_judgements", p.spreadJudged)
	p.tl.add("pubcfg_allocations_on_a_later_configured_address", p.beyondFirst)
	p.tl.add(fmt.Sprintf("pubcfg_histories_with_%d_addresses_in_use_at_once", p.maxInUse), 1)
	if p.usedRangeTwo {
		p.tl.add("pubcfg_histories_holding_blocks_on_two_addresses_of_a_range", 1)
		p.tl.nontr = append(p.tl.nontr, "pubcfg|"+p.c.G.Name+"|"+planString(p.c.Plan, p.c.PlanInit)+"|"+p.c.opsKey())
	}
}

// ---------------------------------------------------------------- plans

// bases of the address plans: the last ones sit right below a /24 boundary so that short ranges cross it.
var planBases = []uint32{
	0xCB007101, // 203.0.113.1
	0xC6336401, // 198.51.100.1
	0xC0000220, // 192.0.2.32
	0xC63364FC, // 198.51.100.252 -> crosses into 198.51.101.0/24
	0xC00002FE, // 192.0.2.254
	0x647FFFFD, // 100.127.255.253 -> crosses a /16 (and /24) boundary
	0x0A0000FF, // 10.0.0.255
}

var pubGeoms = []geom{
	{"1024-2047/512", 1024, 2047, 512},       // 2 blocks per address
	{"2000-2999/300", 2000, 2999, 300},       // 3 + remainder
	{"1-65535/65535", 1, 65535, 65535},       // 1
	{"60000-65535/2048", 60000, 65535, 2048}, // 2
	{"1024-1535/64", 1024, 1535, 64},         // 8
	{"50000-50999/100", 50000, 50999, 100},   // 10
	{"10000-10999/250", 10000, 10999, 250},   // 4
}

var pubStyles = []string{"singles", "one-range", "range-crossing-slash24", "mixed", "two-ranges", "incremental", "repeated"}

// makePlan draws an address plan of the given style. It returns the plan, how many steps configure the pool
// before the first operation, and the number of distinct addresses.
func makePlan(rng *rand.Rand, style string) ([]pubStep, int, int) {
	long := func() bool { return rng.IntN(3) == 0 }
	base := planBases[rng.IntN(3)]
	cross := planBases[3+rng.IntN(4)]
	var plan []pubStep
	init := -1
	switch style {
	case "singles":
		n := 2 + rng.IntN(7)
		for i := 0; i < n; i++ {
			plan = append(plan, pubStep{A: base + uint32(i), Long: long()})
		}
		if rng.IntN(2) == 0 { // not in ascending order
			rng.Shuffle(len(plan), func(i, j int) { plan[i], plan[j] = plan[j], plan[i] })
		}
	case "one-range":
		n := 2 + rng.IntN(7)
		plan = append(plan, pubStep{Range: true, A: base, B: base + uint32(n-1), Long: long()})
	case "range-crossing-slash24":
		n := 2 + rng.IntN(7)
		lo := (cross | 0xff) - uint32(rng.IntN(n-1)) // at least one address on either side of the boundary
		plan = append(plan, pubStep{Range: true, A: lo, B: lo + uint32(n-1), Long: long()})
	case "mixed":
		n := 2 + rng.IntN(5)
		plan = append(plan, pubStep{A: base + 40, Long: long()})
		plan = append(plan, pubStep{Range: true, A: cross, B: cross + uint32(n-1), Long: long()})
		if rng.IntN(2) == 0 {
			plan = append(plan, pubStep{A: base + 41, Long: long()})
		}
		if rng.IntN(2) == 0 {
			plan[0], plan[1] = plan[1], plan[0]
		}
	case "two-ranges":
		n1, n2 := 2+rng.IntN(4), 2+rng.IntN(4)
		plan = append(plan, pubStep{Range: true, A: base, B: base + uint32(n1-1), Long: long()})
		plan = append(plan, pubStep{Range: true, A: cross, B: cross + uint32(n2-1), Long: long()})
		if rng.IntN(3) == 0 { // a range of one address is a range too
			plan = append(plan, pubStep{Range: true, A: base + 90, B: base + 90, Long: long()})
		}
	case "incremental": // the pool grows while subscribers hold blocks
		n := 2 + rng.IntN(4)
		plan = append(plan, pubStep{A: base, Long: long()})
		plan = append(plan, pubStep{Range: true, A: cross, B: cross + uint32(n-1), Long: long()})
		plan = append(plan, pubStep{A: base + 1, Long: long()})
		if rng.IntN(2) == 0 {
			plan = append(plan, pubStep{Range: true, A: base + 10, B: base + 11, Long: long()})
		}
		if rng.IntN(2) == 0 {
			plan[0], plan[1] = plan[1], plan[0]
		}
		init = 1
	case "repeated": // the same address handed in again: alone, or as part of a range that overlaps an earlier one
		n := 2 + rng.IntN(4)
		switch rng.IntN(3) {
		case 0:
			plan = append(plan, pubStep{A: base, Long: long()}, pubStep{A: base + 1, Long: long()}, pubStep{A: base, Long: long()})
		case 1:
			plan = append(plan, pubStep{Range: true, A: base, B: base + uint32(n-1), Long: long()}, pubStep{A: base + uint32(rng.IntN(n)), Long: long()})
		default:
			plan = append(plan, pubStep{Range: true, A: base, B: base + uint32(n-1), Long: long()}, pubStep{Range: true, A: base + uint32(n-1), B: base + uint32(n+1), Long: long()})
		}
	}
	if init < 0 {
		init = len(plan)
	}
	distinct := map[uint32]bool{}
	for _, s := range plan {
		if !s.Range {
			distinct[s.A] = true
			continue
		}
		for a := s.A; a <= s.B; a++ {
			distinct[a] = true
		}
	}
	return plan, init, len(distinct)
}

// TestPublicAddressConfigurations: seeded histories over address plans of every style; every history asks for
// more blocks than one address can carry.
func TestPublicAddressConfigurations(t *testing.T) {
	n := run.Pick(700, 5000)
	ch := make(chan []*seqCase, 64)
	go func() {
		defer close(ch)
		var batch []*seqCase
		for w := 0; w < n; w++ {
			rng := run.SubRand("pubcfg", w)
			style := pubStyles[w%len(pubStyles)]
			if style == "repeated" && w%3 != 0 { // a small share only: the other styles carry the clauses
				style = pubStyles[(w/len(pubStyles))%(len(pubStyles)-1)]
			}
			g := pubGeoms[rng.IntN(len(pubGeoms))]
			plan, init, nAddr := makePlan(rng, style)
			per := g.slots()
			want := per*nAddr + 1 // one more than the whole pool carries
			if lim := per*2 + 1 + rng.IntN(per*2+1); rng.IntN(3) != 0 && want > lim {
				want = lim // usually: a bit more than two addresses carry
			}
			if want > 60 {
				want = 60
			}
			nSubs := want
			var ops []seqOp
			later := init
			d := func() (x seqOp) { x.D = deltas[rng.IntN(len(deltas))]; return }
			// phase 1: fill in order (the first address fills up, the next ones follow)
			fillTo := nSubs
			if style == "incremental" {
				fillTo = per + 1 + rng.IntN(per+1)
			}
			for s := 0; s < fillTo && s < nSubs; s++ {
				o := d()
				o.K, o.Sub = 'a', s
				ops = append(ops, o)
			}
			// phase 2: churn, with the remaining plan steps spread over it
			churn := 10 + rng.IntN(run.Pick(40, 90))
			for i := 0; i < churn; i++ {
				o := d()
				x := rng.IntN(100)
				switch {
				case later < len(plan) && x < 12:
					o.K, o.Sub = 'P', later
					later++
				case x < 50:
					o.K, o.Sub = 'a', rng.IntN(nSubs)
				case x < 82:
					o.K, o.Sub = 'd', rng.IntN(nSubs)
				case x < 90:
					o.K, o.Sub = 'g', rng.IntN(nSubs)
				case x < 95:
					o.K = 's'
				default:
					o.K = 'f'
				}
				ops = append(ops, o)
			}
			for ; later < len(plan); later++ {
				o := d()
				o.K, o.Sub = 'P', later
				ops = append(ops, o)
			}
			// phase 3: everybody asks again
			for s := 0; s < nSubs; s++ {
				o := d()
				o.K, o.Sub = 'a', s
				ops = append(ops, o)
			}
			batch = append(batch, &seqCase{G: g, NPub: nAddr, Mode: pickMode(rng, true), Ops: ops, Seed: rng.Uint64(), WithMap: w%16 == 0,
				Family: "public_address_configurations", Plan: plan, PlanInit: init, Style: style})
			if len(batch) == 8 {
				ch <- batch
				batch = nil
			}
		}
		if len(batch) > 0 {
			ch <- batch
		}
	}()
	var once sync.Once
	runBatches(t, ch, func(c *seqCase, nt bool) {
		if c.Style == "range-crossing-slash24" {
			once.Do(func() {
				k := c.opsKey()
				if len(k) > 160 {
					k = k[:160] + "…"
				}
				run.Sample(map[string]any{"kind": "public-address-configuration", "style": c.Style, "geometry": c.G.Name, "plan": planString(c.Plan, c.PlanInit), "logging": c.Mode.String(), "ops": len(c.Ops), "first_ops": k})
			})
		}
	})
}
