package c19

import (
	"fmt"
	"net"
	"os"
	"sync"
	"testing"
	"testing/synctest"
	"time"

	"github.com/insomniacslk/dhcp/dhcpv4"
	"go.uber.org/zap"

	"github.com/codelaboratoryltd/bng/pkg/dhcp"
	"github.com/codelaboratoryltd/bng/pkg/qos"
	"github.com/codelaboratoryltd/bng/pkg/radius"

	"verif/harness/internal/cplane"
)

type capConn struct {
	mu   sync.Mutex
	sent [][]byte
}

func (c *capConn) ReadFrom(p []byte) (int, net.Addr, error) { select {} }
func (c *capConn) WriteTo(p []byte, a net.Addr) (int, error) {
	c.mu.Lock()
	c.sent = append(c.sent, append([]byte(nil), p...))
	c.mu.Unlock()
	return len(p), nil
}
func (c *capConn) Close() error                       { return nil }
func (c *capConn) LocalAddr() net.Addr                { return &net.UDPAddr{IP: net.IPv4zero, Port: 67} }
func (c *capConn) SetDeadline(t time.Time) error      { return nil }
func (c *capConn) SetReadDeadline(t time.Time) error  { return nil }
func (c *capConn) SetWriteDeadline(t time.Time) error { return nil }
func (c *capConn) take() *dhcpv4.DHCPv4 {
	c.mu.Lock()
	defer c.mu.Unlock()
	if len(c.sent) == 0 {
		return nil
	}
	b := c.sent[len(c.sent)-1]
	c.sent = nil
	m, _ := dhcpv4.FromBytes(b)
	return m
}

// TestContractAcrossControlPlaneEvents: the contract is about what the subscriber is admitted over any window, and
// the control plane runs while traffic flows: the DHCP server that installed the policy at sign-on keeps handling
// the subscriber's renewals. The bucket is drained by a back-to-back burst, the client renews k times (each
// renewal is an ACK by the real dhcp.Server with the real qos.Manager attached), and the burst continues: over
// the whole window the admitted bytes must stay within burst + rate x window.
func TestContractAcrossControlPlaneEvents(t *testing.T) {
	k, err := cplane.LoadKernel("qos_ratelimit")
	if err != nil {
		return
	}
	defer k.Close()
	n, err := cplane.Start("qos_ratelimit", os.Getenv("VERIF_BUILD")+"/C19.dhcp.journal")
	if err != nil {
		t.Fatal(err)
	}
	defer n.Close()
	rng := run.Rand("dhcp-renewals")
	for round := 0; round < run.Pick(30, 150); round++ {
		synctest.Test(t, func(t *testing.T) {
			for _, name := range []string{"qos_egress", "qos_ingress"} {
				m := k.Coll.Maps[name]
				var keys [][]byte
				kb := make([]byte, 4)
				vb := make([]byte, m.ValueSize())
				it := m.Iterate()
				for it.Next(&kb, &vb) {
					keys = append(keys, append([]byte(nil), kb...))
				}
				for _, kk := range keys {
					m.Delete(kk)
				}
			}
			rate := 8000 * uint64(1+rng.IntN(2000)) // 8 kbit/s .. 16 Mbit/s
			burst := uint32(3000 + rng.IntN(60000))
			pm := radius.NewPolicyManager()
			pm.AddPolicy(&radius.QoSPolicy{Name: "residential-100mbps", DownloadBPS: rate, UploadBPS: rate, BurstSize: burst, Priority: 1})
			mgr, err := qos.NewManager(qos.ManagerConfig{Interface: "lo"}, pm, zap.NewNop())
			if err != nil {
				t.Fatal(err)
			}
			mgr.VerifSetMaps(k.Coll.Maps["qos_egress"], k.Coll.Maps["qos_ingress"], k.Coll.Maps["qos_stats_map"])
			pmgr := dhcp.NewPoolManager(nil, nil)
			dp, err := dhcp.NewPool(dhcp.PoolConfig{ID: 1, Name: "p", Network: "10.44.0.0/24", Gateway: "10.44.0.1", LeaseTime: time.Hour})
			if err != nil {
				t.Fatal(err)
			}
			pmgr.AddPool(dp)
			srv, err := dhcp.NewServer(dhcp.ServerConfig{Interface: "lo", ServerIP: net.IPv4(10, 44, 0, 1)}, nil, pmgr, zap.NewNop())
			if err != nil {
				t.Fatal(err)
			}
			srv.SetQoSManager(mgr)
			srv.SetPolicyManager(pm)
			conn := &capConn{}
			peer := &net.UDPAddr{IP: net.IPv4bcast, Port: 68}
			mac := net.HardwareAddr{0x02, 0x19, byte(rng.IntN(256)), byte(rng.IntN(256)), byte(rng.IntN(256)), byte(round)}
			send := func(mt dhcpv4.MessageType, req, ci net.IP) *dhcpv4.DHCPv4 {
				mods := []dhcpv4.Modifier{dhcpv4.WithMessageType(mt), dhcpv4.WithHwAddr(mac)}
				if req != nil {
					mods = append(mods, dhcpv4.WithOption(dhcpv4.OptRequestedIPAddress(req)))
				}
				if ci != nil {
					mods = append(mods, dhcpv4.WithClientIP(ci))
				}
				m, _ := dhcpv4.New(mods...)
				srv.VerifHandle(conn, peer, m)
				synctest.Wait()
				return conn.take()
			}
			off := send(dhcpv4.MessageTypeDiscover, nil, nil)
			if off == nil {
				t.Fatal("no offer")
			}
			ack := send(dhcpv4.MessageTypeRequest, off.YourIPAddr, nil)
			if ack == nil || ack.MessageType() != dhcpv4.MessageTypeAck {
				t.Fatal("no ack")
			}
			ip := ack.YourIPAddr.To4()
			sync2native := func() {
				n.Reset()
				for _, name := range []string{"qos_egress", "qos_ingress"} {
					m := k.Coll.Maps[name]
					kb := make([]byte, 4)
					vb := make([]byte, m.ValueSize())
					it := m.Iterate()
					for it.Next(&kb, &vb) {
						n.Write(name, kb, vb, 0)
					}
				}
			}
			native2kernel := func() {
				for _, name := range []string{"qos_egress", "qos_ingress"} {
					ents, _ := n.List(name)
					for _, e := range ents {
						k.Coll.Maps[name].Put(e[0], e[1])
					}
				}
			}
			sync2native()
			dir := []string{"egress", "ingress"}[round%2]
			frame := append(frameFor(dir, ip), make([]byte, 958)...) // 1000-byte packets
			plen := uint64(len(frame))
			t0 := uint64(5_000_000_000)
			clock := t0
			admitted := uint64(0)
			offered := 0
			burstOf := func(pk int) {
				for i := 0; i < pk; i++ {
					clock += 1000 // 1 µs apart
					n.Clock(clock)
					res, err := n.Run("qos_"+dir+"_prog", frame, cplane.RunOpt{})
					if err != nil {
						run.Violation("bpf/qos_ratelimit.c", "memory-safety", "sanitizer-or-guard-fault", err.Error(), nil)
						return
					}
					offered++
					if res.Verdict == 0 {
						admitted += plen
					}
				}
			}
			per := int(uint64(burst)/plen) + 20
			burstOf(per)
			renewals := 1 + rng.IntN(6)
			for r := 0; r < renewals; r++ {
				native2kernel() // what the data plane has done so far is the state the control plane meets
				if a := send(dhcpv4.MessageTypeRequest, nil, ip); a == nil || a.MessageType() != dhcpv4.MessageTypeAck {
					run.Count("renewal_not_acked", 1)
				}
				sync2native()
				burstOf(per)
			}
			run.Eval()
			run.Count("dhcp_renewal_windows_judged", 1)
			run.Count("dhcp_renewals_during_traffic", renewals)
			run.Nontrivial(fmt.Sprintf("renewals|%d|%d|%s", rate, burst, dir))
			window := clock - t0
			allowed := uint64(burst) + rate*window/8/1_000_000_000 + plen // one packet of slack for rounding of the refill
			if admitted > allowed {
				run.Violation("dhcp.Server.handleRequest+qos.Manager", "upper-bound", "fresh-burst-at-renewal/"+dir,
					fmt.Sprintf("%s rate=%d bit/s burst=%d: %d x %d-byte packets offered back to back over %d ns with %d DHCP renewals of the subscriber in between: %d bytes admitted, the contract allows at most %d", dir, rate, burst, offered, plen, window, renewals, admitted, allowed),
					map[string]any{"rate": rate, "burst": burst, "renewals": renewals, "direction": dir})
			}
		})
	}
	run.Floor("dhcp_renewal_windows_judged", 8)
}
