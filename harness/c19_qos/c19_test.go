package c19

import (
	"fmt"
	"math/big"
	"net"
	"os"
	"strings"
	"sync"
	"testing"

	"go.uber.org/zap"

	"github.com/codelaboratoryltd/bng/pkg/qos"
	"github.com/codelaboratoryltd/bng/pkg/radius"

	"verif/harness/internal/cplane"
	"verif/harness/internal/vk"
)

var run *vk.Run

func TestMain(m *testing.M) {
	run = vk.Start("C19", "exploration")
	run.Rule("token buckets are written by the real qos.Manager (SetSubscriberQoS / SetSubscriberPolicy) into kernel maps of the loaded working-tree object and copied into the natively compiled TC programs; scripted arrival sequences (sizes, gaps 0 ns..days, clock origins up to 2^63) and adaptive backlogged sources run under a scripted clock and every window of the verdict sequence is judged in exact integer arithmetic against burst + rate x window (upper bound, all sequences) and rate x window - burst - M (lower bound, backlogged sources). non-trivial = distinct (rate, burst, pattern) sequence in which the bucket both admitted and dropped packets")
	run.Assume("time is observed at 1 ns resolution: one nanosecond of credit per clock observation is allowed in either direction; lower bound only for backlogged sources with sizes <= M, burst >= 2M, retry gap refilling <= M, rates that are whole bytes per second (DESIGN 5b)")
	code := m.Run()
	ec := run.Finish()
	if code != 0 && ec == 0 {
		ec = 2
	}
	os.Exit(ec)
}

type bucket struct {
	rate  uint64 // bits per second as configured
	burst uint64 // bytes enforced (what the control plane documents for this direction)
}

var e9x8 = big.NewInt(8_000_000_000)

// judge checks both bounds over every window of the trace. trace[i].Verdict==0 means admitted.
// Returns description of the first violation of each kind.
func judge(tr []cplane.TraceEnt, b bucket, backlogged bool, M uint64) (upper, lower string) {
	if b.rate == 0 {
		for i, e := range tr {
			if e.Verdict != 0 {
				return fmt.Sprintf("rate 0 (unlimited) but packet %d (len %d at t=%d) was dropped", i, e.Len, e.T), ""
			}
		}
		return "", ""
	}
	R := new(big.Int).SetUint64(b.rate)
	// F(k) = 8e9*A - R*t  (A cumulative admitted bytes). One ns of slack per clock observation: R*n.
	A := new(big.Int)
	var minPre, maxPre *big.Int // over window starts
	var minIdx, maxIdx int
	burst8 := new(big.Int).Mul(new(big.Int).SetUint64(b.burst), e9x8)
	bm8 := new(big.Int).Mul(new(big.Int).SetUint64(b.burst+M), e9x8)
	for j, e := range tr {
		Rt := new(big.Int).Mul(R, new(big.Int).SetUint64(e.T))
		pre := new(big.Int).Sub(new(big.Int).Mul(A, e9x8), Rt) // before packet j
		// slack grows with the index (one observation per packet): fold it into the potentials:
		// upper: cur - pre_i <= burst8 + R*(j-i+1)  <=>  (cur - R*(j+1)) - (pre_i - R*i) <= burst8
		ui := new(big.Int).Sub(pre, new(big.Int).Mul(R, big.NewInt(int64(j))))
		li := new(big.Int).Add(pre, new(big.Int).Mul(R, big.NewInt(int64(j))))
		if e.Verdict == 0 && (minPre == nil || ui.Cmp(minPre) < 0) {
			minPre, minIdx = ui, j
		}
		if maxPre == nil || li.Cmp(maxPre) > 0 {
			maxPre, maxIdx = li, j
		}
		if e.Verdict == 0 {
			A.Add(A, new(big.Int).SetUint64(uint64(e.Len)))
		}
		cur := new(big.Int).Sub(new(big.Int).Mul(A, e9x8), Rt)
		if upper == "" && e.Verdict == 0 && minPre != nil {
			cu := new(big.Int).Sub(cur, new(big.Int).Mul(R, big.NewInt(int64(j+1))))
			if d := new(big.Int).Sub(cu, minPre); d.Cmp(burst8) > 0 {
				ex := new(big.Int).Div(new(big.Int).Sub(d, burst8), e9x8)
				upper = fmt.Sprintf("window packets %d..%d (t=%d..%d ns): admitted bytes exceed burst + rate*window by %s bytes (rate %d bit/s, burst %d)", minIdx, j, tr[minIdx].T, e.T, ex.String(), b.rate, b.burst)
			}
		}
		if backlogged && lower == "" {
			cl := new(big.Int).Add(cur, new(big.Int).Mul(R, big.NewInt(int64(j+1))))
			if d := new(big.Int).Sub(cl, maxPre); d.Cmp(new(big.Int).Neg(bm8)) < 0 {
				sh := new(big.Int).Div(new(big.Int).Neg(new(big.Int).Add(d, bm8)), e9x8)
				lower = fmt.Sprintf("window packets %d..%d (t=%d..%d ns): backlogged source admitted %s bytes less than rate*window - burst - M (rate %d bit/s, burst %d, M %d)", maxIdx, j, tr[maxIdx].T, e.T, sh.String(), b.rate, b.burst, M)
			}
		}
	}
	return
}

type envT struct {
	k   *cplane.Kernel
	nat *cplane.Runner
}

// install writes the policy through the real manager into the kernel maps and copies the resulting
// bucket into the native runner. Returns the bucket bytes' key for both directions (as written by Go).
func (e *envT) install(t *testing.T, q *qos.SubscriberQoS, viaPolicy *radius.QoSPolicy, prev ...*qos.SubscriberQoS) (egKey, inKey []byte, steps []string) {
	for _, name := range []string{"qos_egress", "qos_ingress"} {
		m := e.k.Coll.Maps[name]
		var keys [][]byte
		it := m.Iterate()
		k := make([]byte, 4)
		v := make([]byte, m.ValueSize())
		for it.Next(&k, &v) {
			keys = append(keys, append([]byte(nil), k...))
		}
		for _, kk := range keys {
			m.Delete(kk)
		}
	}
	pm := radius.NewPolicyManager()
	mgr, err := qos.NewManager(qos.ManagerConfig{Interface: "lo"}, pm, zap.NewNop())
	if err != nil {
		t.Fatal(err)
	}
	mgr.VerifSetMaps(e.k.Coll.Maps["qos_egress"], e.k.Coll.Maps["qos_ingress"], e.k.Coll.Maps["qos_stats_map"])
	for _, pq := range prev {
		// the subscriber had another policy before: the new one must replace it completely
		switch {
		case pq.PolicyName == "@redefine" && viaPolicy != nil:
			// the same policy NAME was applied before with another definition; the operator then redefines it
			old := &radius.QoSPolicy{Name: viaPolicy.Name, DownloadBPS: pq.DownloadBPS, UploadBPS: pq.UploadBPS, BurstSize: pq.BurstBytes, Priority: pq.Priority}
			pm.AddPolicy(old)
			steps = append(steps, fmt.Sprintf("AddPolicy(%+v); SetSubscriberPolicy(%v,%s)  [earlier definition of the same name]", *old, q.IP, old.Name))
			if err := mgr.SetSubscriberPolicy(q.IP, old.Name); err != nil {
				steps = append(steps, "error: "+err.Error())
			}
		case pq.PolicyName == "@override" && viaPolicy != nil:
			// the policy was applied, then overridden with explicit rates under the same name; the final step restores it
			pm.AddPolicy(viaPolicy)
			ov := *pq
			ov.PolicyName = viaPolicy.Name
			steps = append(steps, fmt.Sprintf("AddPolicy(%+v); SetSubscriberPolicy(%v,%s); SetSubscriberQoS(%+v)  [override keeping the name]", *viaPolicy, q.IP, viaPolicy.Name, ov))
			if err := mgr.SetSubscriberPolicy(q.IP, viaPolicy.Name); err != nil {
				steps = append(steps, "error: "+err.Error())
			}
			if err := mgr.SetSubscriberQoS(&ov); err != nil {
				steps = append(steps, "error: "+err.Error())
			}
		case pq.PolicyName == "@removed":
			cp := *pq
			cp.PolicyName = ""
			steps = append(steps, fmt.Sprintf("SetSubscriberQoS(%+v); RemoveSubscriberQoS  [had a policy, removed]", cp))
			mgr.SetSubscriberQoS(&cp)
			mgr.RemoveSubscriberQoS(cp.IP)
		default:
			cp := *pq
			if len(cp.PolicyName) > 0 && cp.PolicyName[0] == '@' {
				cp.PolicyName = ""
			}
			steps = append(steps, fmt.Sprintf("SetSubscriberQoS(%+v)  [previous policy]", cp))
			if err := mgr.SetSubscriberQoS(&cp); err != nil {
				steps = append(steps, "error: "+err.Error())
			}
		}
	}
	if viaPolicy != nil {
		pm.AddPolicy(viaPolicy)
		// other policies whose names are near misses of this one (case, surrounding blanks, prefix) with very different
		// contracts: the policy named is the one that must be enforced
		for _, dn := range []string{strings.ToUpper(viaPolicy.Name), " " + viaPolicy.Name + " ", viaPolicy.Name + "2", strings.Title(viaPolicy.Name)} {
			if dn != viaPolicy.Name {
				pm.AddPolicy(&radius.QoSPolicy{Name: dn, DownloadBPS: viaPolicy.DownloadBPS*1000 + 8000, UploadBPS: viaPolicy.UploadBPS*1000 + 8000, BurstSize: viaPolicy.BurstSize/2 + 9_000_000, Priority: 7})
			}
		}
		steps = append(steps, fmt.Sprintf("AddPolicy(%+v) + 4 policies with near-miss names; SetSubscriberPolicy(%v,%s)", *viaPolicy, q.IP, viaPolicy.Name))
		if err := mgr.SetSubscriberPolicy(q.IP, viaPolicy.Name); err != nil {
			steps = append(steps, "error: "+err.Error())
		}
	} else {
		steps = append(steps, fmt.Sprintf("SetSubscriberQoS(%+v)", *q))
		if err := mgr.SetSubscriberQoS(q); err != nil {
			steps = append(steps, "error: "+err.Error())
		}
	}
	e.nat.Reset()
	for _, name := range []string{"qos_egress", "qos_ingress"} {
		m := e.k.Coll.Maps[name]
		it := m.Iterate()
		k := make([]byte, 4)
		v := make([]byte, m.ValueSize())
		for it.Next(&k, &v) {
			e.nat.Write(name, k, v, 0)
			if name == "qos_egress" {
				egKey = append([]byte(nil), k...)
			} else {
				inKey = append([]byte(nil), k...)
			}
		}
	}
	return
}

func frameFor(dir string, subIP net.IP) []byte {
	other := net.IPv4(198, 51, 100, 7)
	mac1, mac2 := net.HardwareAddr{2, 0, 0, 0, 0, 1}, net.HardwareAddr{2, 0, 0, 0, 0, 2}
	if dir == "egress" {
		return cplane.Eth(mac1, mac2, 0x0800, nil, cplane.IPv4(other, subIP, 17, 5, cplane.UDP(1, 2, make([]byte, 20))))
	}
	return cplane.Eth(mac2, mac1, 0x0800, nil, cplane.IPv4(subIP, other, 17, 5, cplane.UDP(1, 2, make([]byte, 20))))
}

func TestRateLimiter(t *testing.T) {
	workers := 8
	var wg sync.WaitGroup
	for w := 0; w < workers; w++ {
		w := w
		wg.Add(1)
		go func() {
			defer wg.Done()
			worker(t, w, workers)
		}()
	}
	wg.Wait()
}

func worker(t *testing.T, wid, workers int) {
	k, err := cplane.LoadKernel("qos_ratelimit")
	if err != nil {
		run.Violation("bpf/qos_ratelimit.c", "program-loads", "verifier-or-load-error", fmt.Sprintf("loading the working-tree object failed: %v", err), err.Error())
		return
	}
	defer k.Close()
	nat, err := cplane.Start("qos_ratelimit", fmt.Sprintf("%s/C19.%d.journal", os.Getenv("VERIF_BUILD"), wid))
	if err != nil {
		t.Error(err)
		return
	}
	defer nat.Close()
	e := &envT{k: k, nat: nat}
	rates := []uint64{1000, 8000, 64000, 1_000_000, 10_000_000, 100_000_000, 1_000_000_000, 10_000_000_000, 100_000_000_000}
	bursts := []uint32{0, 1, 1500, 3000, 65536, 1 << 20, 10 << 20, 1<<32 - 1}
	origins := []uint64{0, 1_000_000_000, 30 * 86400 * 1_000_000_000, 1 << 62, 1<<63 - 1_000_000_000_000}
	nSeq := run.Pick(1600, 8000)
	for si := wid; si < nSeq; si += workers {
		rng := run.SubRand("seq", si)
		rate := rates[rng.IntN(len(rates))]
		if rng.IntN(4) == 0 {
			rate = 1000 + uint64(rng.Int64N(100_000_000_000))
			if rng.IntN(2) == 0 {
				rate -= rate % 8
			}
		}
		if rng.IntN(25) == 0 {
			rate = 0
		}
		burst := bursts[rng.IntN(len(bursts))]
		if rng.IntN(3) == 0 {
			burst = uint32(1 + rng.Int64N(1<<22))
		}
		// backlogged sequences (decided up front so the burst can be chosen relative to M)
		pattern := rng.IntN(6)
		var M uint64
		if pattern <= 1 {
			M = uint64(64 + rng.IntN(1437))
			if rng.IntN(4) == 0 {
				M = uint64(1 + rng.IntN(9000))
			}
			switch rng.IntN(4) {
			case 0:
				burst = uint32(2 * M)
			case 1:
				burst = uint32(3*M + uint64(rng.IntN(2000)))
			case 2:
				burst = 65536
			}
		}
		dir := []string{"egress", "ingress"}[rng.IntN(2)]
		subIP := net.IPv4(byte(1+rng.IntN(222)), byte(rng.IntN(256)), byte(rng.IntN(256)), byte(1+rng.IntN(254))).To4()
		// the other direction of the same policy: equal, different, or unlimited (asymmetric policies are common)
		other := rate
		switch rng.IntN(4) {
		case 0:
			other = 0
		case 1:
			other = rates[rng.IntN(len(rates))]
		case 2:
			other = 8000 * uint64(1+rng.IntN(100000))
		}
		dnBPS, upBPS := rate, other
		if dir == "ingress" {
			dnBPS, upBPS = other, rate
		}
		switch {
		case other == rate:
			run.Count("policies_symmetric", 1)
		case other == 0:
			run.Count("policies_other_direction_unlimited", 1)
		case rate == 0:
			run.Count("policies_judged_direction_unlimited_other_limited", 1)
		default:
			run.Count("policies_asymmetric", 1)
		}
		q := &qos.SubscriberQoS{IP: subIP, DownloadBPS: dnBPS, UploadBPS: upBPS, BurstBytes: burst, Priority: uint8(rng.IntN(8)), PolicyName: "p"}
		var pol *radius.QoSPolicy
		if rng.IntN(2) == 0 {
			pol = &radius.QoSPolicy{Name: "p", DownloadBPS: dnBPS, UploadBPS: upBPS, BurstSize: burst, Priority: q.Priority}
		}
		var prev []*qos.SubscriberQoS
		if rng.IntN(2) == 0 {
			mode := []string{"", "@redefine", "@override", "@removed"}[rng.IntN(4)]
			run.Count("previous_state_"+mode, 1)
			prev = append(prev, &qos.SubscriberQoS{IP: subIP, DownloadBPS: 8000 * uint64(1+rng.IntN(1000)), UploadBPS: 8000 * uint64(1+rng.IntN(1000)), BurstBytes: uint32(1500 + rng.IntN(100000)), Priority: 1, PolicyName: mode})
		}
		egKey, inKey, steps := e.install(t, q, pol, prev...)
		// what the control plane documents as the burst for this policy
		eff := uint64(burst)
		if burst == 0 {
			eff = rate / 8
			if eff < 65536 {
				eff = 65536
			}
			if eff > 10*1024*1024 {
				eff = 10 * 1024 * 1024
			}
		}
		b := bucket{rate: rate, burst: eff}
		prog := "qos_" + dir + "_prog"
		frame := frameFor(dir, subIP)
		cfg := fmt.Sprintf("%s rate=%d burst=%d(effective %d) ip=%v", dir, rate, burst, eff, subIP)
		// ---- clause: the policy set through the control plane is the one enforced (key agreement)
		res, err := nat.Run(prog, frame, cplane.RunOpt{})
		if err != nil {
			run.Violation("bpf/qos_ratelimit.c", "memory-safety", "sanitizer-or-guard-fault", err.Error(), map[string]any{"config": cfg, "steps": steps})
			return
		}
		hit := false
		for _, a := range res.Log {
			if a.Map == "qos_"+dir && a.Op == 'l' && a.Hit {
				hit = true
			}
		}
		run.Count("key_probes", 1)
		if !hit && rate == 0 {
			run.Count("rate_zero_without_bucket", 1) // "no bucket" and "rate 0" both mean unlimited
		} else if !hit {
			want := []byte(subIP)
			got := egKey
			if dir == "ingress" {
				got = inKey
			}
			run.Violation("qos.Manager.SetSubscriberQoS", "policy-set-is-enforced", "bucket-not-found-for-subscriber-address",
				fmt.Sprintf("%s: a frame for subscriber %v does not find the bucket the manager wrote (manager key bytes %x, program looks up %x)", cfg, subIP, got, want),
				map[string]any{"config": cfg, "steps": steps, "frame": fmt.Sprintf("%x", frame)})
			// clause decoupling: address the frames to the effective key so the arithmetic clauses stay judged
			k4 := egKey
			if dir == "ingress" {
				k4 = inKey
			}
			if len(k4) == 4 {
				frame = frameFor(dir, net.IP(k4))
			}
		}
		// re-install to reset the bucket state consumed by the probe
		e.install(t, q, pol, prev...)
		origin := origins[rng.IntN(len(origins))]
		var tr []cplane.TraceEnt
		backlogged := false
		pname := ""
		switch {
		case pattern <= 1: // backlogged source
			backlogged = true
			nsz := 1 + rng.IntN(4)
			sizes := make([]uint32, nsz)
			for i := range sizes {
				sizes[i] = uint32(1 + rng.Int64N(int64(M)))
			}
			sizes[0] = uint32(M)
			// retry gap: refill per gap <= M bytes (and >= tiny): gap_ns = M*8e9/rate scaled down
			var gap uint64 = 1000
			if rate > 0 {
				maxGap := new(big.Int).Div(new(big.Int).Mul(big.NewInt(int64(M)), e9x8), new(big.Int).SetUint64(rate)).Uint64()
				if maxGap < 1 {
					maxGap = 1
				}
				gap = 1 + uint64(rng.Int64N(int64(min64(maxGap, 1<<40))))
				oneByte := uint64(8_000_000_000) / rate // ns that earn one byte
				switch rng.IntN(4) {
				case 0:
					gap = 1 + uint64(rng.Int64N(int64(min64(maxGap, 2000)))) // very frequent retries
				case 1:
					if oneByte > 1 {
						gap = min64(maxGap, oneByte-1) // just under one byte of credit per retry
					}
				case 2:
					gap = min64(maxGap, oneByte+oneByte/2+1) // one and a half bytes of credit per retry
				}
				if gap == 0 {
					gap = 1
				}
			}
			maxN := run.Pick(60000, 200000)
			tEnd := origin + gap*uint64(maxN)
			if tEnd < origin {
				tEnd = ^uint64(0)
			}
			tr, err = nat.Backlog(prog, frame, 0, origin, tEnd, gap, maxN, sizes)
			pname = fmt.Sprintf("backlogged M=%d sizes=%v gap=%dns", M, sizes, gap)
		default: // scripted arrivals
			n := 200 + rng.IntN(run.Pick(2000, 20000))
			gaps := []uint64{0, 1, 1000, 1_000_000, 1_000_000_000, 3600_000_000_000, 10 * 86400_000_000_000}
			tnow := origin
			offers := make([]cplane.Offer, 0, n)
			mode := rng.IntN(4)
			for i := 0; i < n; i++ {
				var g uint64
				switch mode {
				case 0:
					g = gaps[rng.IntN(3)]
				case 1:
					g = uint64(rng.Int64N(2_000_000))
				case 2:
					g = gaps[rng.IntN(len(gaps))]
				default:
					if rng.IntN(50) == 0 {
						g = gaps[3+rng.IntN(4)]
					} else {
						g = uint64(rng.Int64N(20_000))
					}
				}
				if tnow+g < tnow || tnow+g > 1<<63+1<<62 {
					g = 0
				}
				tnow += g
				sz := uint32(1 + rng.IntN(1500))
				if rng.IntN(10) == 0 {
					sz = uint32(1 + rng.IntN(65535))
				}
				offers = append(offers, cplane.Offer{T: tnow, Len: sz})
			}
			var verd []byte
			verd, err = nat.Sequence(prog, frame, 0, offers)
			if err == nil {
				tr = make([]cplane.TraceEnt, len(offers))
				for i := range offers {
					tr[i] = cplane.TraceEnt{T: offers[i].T, Len: offers[i].Len, Verdict: verd[i]}
				}
			}
			pname = fmt.Sprintf("scripted mode=%d n=%d", mode, n)
		}
		if err != nil {
			run.Violation("bpf/qos_ratelimit.c", "memory-safety", "sanitizer-or-guard-fault", err.Error(), map[string]any{"config": cfg, "pattern": pname})
			return
		}
		run.Eval()
		adm, drp := 0, 0
		for _, x := range tr {
			if x.Verdict == 0 {
				adm++
			} else if x.Verdict == 2 {
				drp++
			} else {
				run.Violation("bpf/qos_ratelimit.c", "defined-verdict", "undefined-verdict", fmt.Sprintf("verdict %d", x.Verdict), cfg)
			}
		}
		run.Count("packets_offered", len(tr))
		run.Count("packets_admitted", adm)
		run.Count("packets_dropped", drp)
		if backlogged {
			run.Count("backlogged_sequences", 1)
		} else {
			run.Count("scripted_sequences", 1)
		}
		if adm > 0 && drp > 0 {
			run.Nontrivial(fmt.Sprintf("%s|%s|%d", cfg, pname, origin))
		}
		// lower-bound premises (DESIGN 5b)
		lb := backlogged && rate%8 == 0 && rate >= 8 && eff >= 2*M
		up, lo := judge(tr, b, lb, M)
		wit := func() any {
			n := len(tr)
			if n > 40 {
				n = 40
			}
			return map[string]any{"config": cfg, "control_plane": steps, "pattern": pname, "clock_origin": origin, "first_offers(t,len,verdict)": fmt.Sprint(tr[:n]), "offers": len(tr), "admitted": adm, "dropped": drp}
		}
		if up != "" {
			cls := "excess-admission"
			if rate == 0 {
				cls = "rate-zero-not-unlimited"
			}
			run.Violation("bpf/qos_ratelimit.c:token_bucket_check", "upper-bound", cls+"/"+dir, cfg+": "+up, wit())
		}
		if lo != "" {
			run.Violation("bpf/qos_ratelimit.c:token_bucket_check", "lower-bound", "backlogged-source-starved/"+dir, cfg+": "+lo, wit())
		}
		if lb {
			run.Count("lower_bound_judged", 1)
		}
		if si < 3 {
			run.Sample(wit())
		}
	}
}

func min64(a, b uint64) uint64 {
	if a < b {
		return a
	}
	return b
}

// TestCapacity: more subscribers than the bucket maps can hold. Whatever the control plane does when a map is
// full (refuse with an error is fine), a subscriber whose policy it ACCEPTED must stay enforced: the maps of the
// loaded object keep their declared type, only their size is shrunk so that "full" is reached with a few hundred
// subscribers. Judged in the kernel (BPF_PROG_TEST_RUN): two full-size frames back to back against a 1500-byte
// burst at 8 kbit/s - the second one must be dropped for every accepted subscriber, oldest ones included.
func TestCapacity(t *testing.T) {
	for _, size := range []uint32{64, 256} {
		k, err := cplane.LoadKernelSized("qos_ratelimit", size)
		if err != nil {
			run.Violation("bpf/qos_ratelimit.c", "program-loads", "verifier-or-load-error", err.Error(), nil)
			return
		}
		mgr, err := qos.NewManager(qos.ManagerConfig{Interface: "lo"}, radius.NewPolicyManager(), zap.NewNop())
		if err != nil {
			t.Fatal(err)
		}
		mgr.VerifSetMaps(k.Coll.Maps["qos_egress"], k.Coll.Maps["qos_ingress"], k.Coll.Maps["qos_stats_map"])
		n := int(size) * 3
		var accepted []net.IP
		refused := 0
		for i := 0; i < n; i++ {
			ip := net.IPv4(10, 77, byte(i>>8), byte(i)).To4()
			if err := mgr.SetSubscriberQoS(&qos.SubscriberQoS{IP: ip, DownloadBPS: 8000, UploadBPS: 8000, BurstBytes: 1500, Priority: 1}); err != nil {
				refused++
				continue
			}
			accepted = append(accepted, ip)
		}
		run.Count("capacity_policies_accepted", len(accepted))
		run.Count("capacity_policies_refused_with_error", refused)
		unenforced := 0
		var first net.IP
		for _, ip := range accepted {
			for _, dir := range []string{"egress", "ingress"} {
				frame := frameFor(dir, ip)
				frame = append(frame, make([]byte, 1400)...)
				v1, _, e1 := k.Run("qos_"+dir+"_prog", frame)
				v2, _, e2 := k.Run("qos_"+dir+"_prog", frame)
				if e1 != nil || e2 != nil {
					run.Inconclusive("capacity", fmt.Sprint("kernel run failed: ", e1, e2))
					k.Close()
					return
				}
				run.Eval()
				if v1 == 0 && v2 == 0 { // TC_ACT_OK twice: nobody is counting
					unenforced++
					if first == nil {
						first = ip
					}
				}
			}
		}
		run.Nontrivial(fmt.Sprintf("capacity|%d", size))
		if unenforced > 0 {
			run.Violation("qos.Manager.SetSubscriberQoS+bpf/qos_ratelimit.c", "policy-set-is-enforced", "accepted-policy-gone-when-map-is-full",
				fmt.Sprintf("maps of %d entries, %d policies installed (%d accepted, %d refused with an error): %d (subscriber, direction) pairs whose policy was accepted are not enforced any more (first: %v) - two 1400-byte frames back to back both pass an 8 kbit/s / 1500-byte bucket", size, n, len(accepted), refused, unenforced, first),
				map[string]any{"map_entries": size, "installed": n})
		}
		k.Close()
	}
	run.Floor("capacity_policies_accepted", 100)
}
