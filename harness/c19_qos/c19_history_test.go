package c19

// Control-plane histories on maps that fill up at different moments. "The policy set through the control plane is
// the one enforced" is judged in the kernel after every call of a seeded history of SetSubscriberQoS /
// SetSubscriberPolicy / RemoveSubscriberQoS over a handful of subscribers, with the egress and ingress bucket maps of
// the loaded working-tree object shrunk to DIFFERENT sizes, so that an install can succeed in one direction and be
// refused in the other:
//   - after a call that set a policy and returned nil, both directions enforce exactly that policy (the number of
//     1400-byte frames admitted back to back identifies the burst the bucket was written with);
//   - after RemoveSubscriberQoS returned nil - whatever happened before, including installs that were refused half
//     way - no direction limits the subscriber any more (six full-size frames back to back all pass);
//   - a refused install obliges nothing for that subscriber until the next successful call (the caller was told);
//   - other subscribers are not disturbed by any of it (their last successful state stays in force).
// Rates are 800 bit/s (100 bytes per second), so the real kernel clock cannot add a frame's worth of credit during
// a probe.

import (
	"fmt"
	"net"
	"testing"

	"github.com/codelaboratoryltd/bng/pkg/qos"
	"github.com/codelaboratoryltd/bng/pkg/radius"
	"go.uber.org/zap"

	"verif/harness/internal/cplane"
)

type histState struct {
	known   bool // false after a refused install: nothing is demanded
	limited bool
	frames  int  // admitted back to back when freshly written
	fresh   [2]bool
}

func TestControlPlaneHistories(t *testing.T) {
	type geo struct{ eg, in uint32 }
	geos := []geo{{8, 3}, {3, 8}, {4, 4}, {16, 2}, {2, 16}}
	rounds := run.Pick(6, 60)
	dirs := []string{"egress", "ingress"}
	for gi, g := range geos {
		for round := 0; round < rounds; round++ {
			k, err := cplane.LoadKernelSizedPer("qos_ratelimit", 4096, map[string]uint32{"qos_egress": g.eg, "qos_ingress": g.in})
			if err != nil {
				run.Violation("bpf/qos_ratelimit.c", "program-loads", "verifier-or-load-error", err.Error(), nil)
				return
			}
			pm := radius.NewPolicyManager()
			mgr, err := qos.NewManager(qos.ManagerConfig{Interface: "lo"}, pm, zap.NewNop())
			if err != nil {
				t.Fatal(err)
			}
			mgr.VerifSetMaps(k.Coll.Maps["qos_egress"], k.Coll.Maps["qos_ingress"], k.Coll.Maps["qos_stats_map"])
			for b := 1; b <= 4; b++ {
				pm.AddPolicy(&radius.QoSPolicy{Name: fmt.Sprintf("b%d", b), DownloadBPS: 800, UploadBPS: 800, BurstSize: uint32(b*1400 + 100), Priority: 1})
			}
			rng := run.SubRand("cp-history", gi*1000+round)
			nSub := 6 + rng.IntN(8)
			ips := make([]net.IP, nSub)
			st := make([]histState, nSub)
			for i := range ips {
				ips[i] = net.IPv4(10, 91, byte(gi), byte(10+i)).To4()
				st[i] = histState{known: true}
			}
			var trace []string
			probe := func(i int, when string) bool {
				ok := true
				for di, dir := range dirs {
					frame := append(frameFor(dir, ips[i]), make([]byte, 1400-len(frameFor(dir, ips[i])))...)
					pass := 0
					for n := 0; n < 6; n++ {
						v, _, e := k.Run("qos_"+dir+"_prog", frame)
						if e != nil {
							run.Inconclusive("cp-history", "kernel run failed: "+e.Error())
							return false
						}
						if v == 0 {
							pass++
						}
					}
					run.Eval()
					s := &st[i]
					switch {
					case !s.known:
						run.Count("history_probes_after_refused_install_not_judged", 1)
					case !s.limited:
						run.Count("history_probes_unlimited", 1)
						if pass != 6 {
							ok = false
							run.Violation("qos.Manager.RemoveSubscriberQoS", "policy-set-is-enforced", "limited-after-removal/"+when,
								fmt.Sprintf("maps egress=%d ingress=%d entries: subscriber %v has no policy (%s) but %s admits only %d of 6 back-to-back 1400-byte frames; history: %v", g.eg, g.in, ips[i], when, dir, pass, trace),
								map[string]any{"history": trace, "egress_entries": g.eg, "ingress_entries": g.in})
						}
					case s.fresh[di]:
						run.Count("history_probes_fresh_policy", 1)
						s.fresh[di] = false
						if pass != s.frames {
							ok = false
							cls := "other-burst-enforced"
							if pass == 6 {
								cls = "not-enforced"
							}
							run.Violation("qos.Manager.SetSubscriberQoS", "policy-set-is-enforced", cls+"/"+when,
								fmt.Sprintf("maps egress=%d ingress=%d entries: subscriber %v was given a burst of %d frames (call returned nil) but %s admits %d of 6 back-to-back 1400-byte frames; history: %v", g.eg, g.in, ips[i], s.frames, dir, pass, trace),
								map[string]any{"history": trace})
						}
					default:
						run.Count("history_probes_drained_policy", 1)
						if pass == 6 { // existence only: the real clock may have refilled part of the bucket since the previous probe
							ok = false
							run.Violation("qos.Manager.SetSubscriberQoS", "policy-set-is-enforced", "bucket-replaced-or-gone/"+when,
								fmt.Sprintf("maps egress=%d ingress=%d entries: subscriber %v holds an accepted policy whose bucket was drained by the previous probe, yet %s now admits %d of 6 frames although nothing was set for it since; history: %v", g.eg, g.in, ips[i], dir, pass, trace),
								map[string]any{"history": trace})
						}
					}
				}
				return ok
			}
			steps := 30 + rng.IntN(40)
			for s := 0; s < steps; s++ {
				i := rng.IntN(nSub)
				switch op := rng.IntN(10); {
				case op < 5:
					b := 1 + rng.IntN(4)
					var err error
					if rng.IntN(2) == 0 {
						err = mgr.SetSubscriberPolicy(ips[i], fmt.Sprintf("b%d", b))
						trace = append(trace, fmt.Sprintf("SetSubscriberPolicy(%v,b%d)=%v", ips[i], b, err != nil))
					} else {
						err = mgr.SetSubscriberQoS(&qos.SubscriberQoS{IP: ips[i], DownloadBPS: 800, UploadBPS: 800, BurstBytes: uint32(b*1400 + 100), Priority: 1})
						trace = append(trace, fmt.Sprintf("SetSubscriberQoS(%v,burst=%d frames)=%v", ips[i], b, err != nil))
					}
					if err != nil {
						st[i] = histState{known: false}
						run.Count("history_installs_refused", 1)
					} else {
						st[i] = histState{known: true, limited: true, frames: b, fresh: [2]bool{true, true}}
						run.Count("history_installs_accepted", 1)
					}
				default:
					wasUnknown := !st[i].known
					err := mgr.RemoveSubscriberQoS(ips[i])
					trace = append(trace, fmt.Sprintf("RemoveSubscriberQoS(%v)=%v", ips[i], err != nil))
					if err == nil {
						st[i] = histState{known: true}
						run.Count("history_removals", 1)
						if wasUnknown {
							run.Count("history_removals_after_refused_install", 1)
						}
					} else {
						st[i] = histState{known: false}
					}
				}
				when := "subject-of-the-call"
				if !probe(i, when) {
					break
				}
				// one bystander per step
				j := rng.IntN(nSub)
				if j != i && !probe(j, "bystander") {
					break
				}
			}
			run.Nontrivial(fmt.Sprintf("cp-history|%d|%d|%d", g.eg, g.in, round))
			k.Close()
		}
	}
	run.Floor("history_removals_after_refused_install", 10)
	run.Floor("history_installs_refused", 20)
	run.Floor("history_probes_fresh_policy", 100)
}
