package c16

// Several sessions under one lookup key. RFC 2516 lets one client MAC hold several PPPoE sessions (each PADR opens
// another one), and one user name may be logged in more than once; SessionManager indexes one session per MAC and
// the administrative / RADIUS disconnect paths of SessionTeardown address a subscriber through such keys
// (TerminateByMAC, TerminateByUsername). Every other teardown cell of this package has exactly one session per MAC.
//
// Workload: seeded populations of two MACs holding 1..3 sessions each (phases unauthenticated / authenticated /
// established, user names shared or not), ended one step at a time by a seeded sequence of paths: client PADT,
// TerminateSession, TerminateByID (addressed by handle / id), TerminateByMAC, TerminateByUsername (addressed by key);
// at the end whatever is left is ended by TerminateByMAC, one call per remaining session.
//
// Oracle, judged after every step from the outside (session table, MAC lookup, recording fast path, pool
// capacity, accounting records):
//   - a path that addresses one session ends that session; TerminateByUsername ends every live session of the
//     name; TerminateByMAC called while the MAC has a live session ends at least one of them (which one, or all of
//     them, is left to the implementation);
//   - every session that ended holds nothing afterwards (not in the table, not answered for by the MAC lookup, fast
//     path entry gone, address back: pool capacity grew by exactly the number of ended sessions that had one, one
//     Stop if it had a Start);
//   - every session that was not addressed is untouched (still in the table, fast path entry present, no Stop).

import (
	"fmt"
	"net"
	"sort"
	"strings"
	"testing"
	"testing/synctest"

	"go.uber.org/zap"

	"github.com/codelaboratoryltd/bng/pkg/pppoe"
)

func newTDEnvPool(t *testing.T, nas, network, gw string) *tdEnv {
	e := &tdEnv{sm: pppoe.NewSessionManager(), fp: &fastPath{entries: map[string]string{}, calls: map[string]int{}}, padts: map[string]int{}}
	var err error
	e.pool, err = pppoe.NewIPPool(network, gw)
	if err != nil {
		hfatalf(t, "%v", err)
	}
	e.rc = newRadClient(t, nas)
	e.td = pppoe.NewSessionTeardown(pppoe.DefaultTeardownConfig(), zap.NewNop())
	e.td.SetRADIUSClient(e.rc)
	e.td.SetIPPool(e.pool)
	e.td.SetSessionManager(e.sm)
	e.td.SetUpdateEBPFMaps(e.fp.update)
	e.td.SetSendPADT(func(s *pppoe.Session, tags []pppoe.Tag) {
		e.mu.Lock()
		e.padts[s.SessionID]++
		e.mu.Unlock()
	})
	e.td.SetSendLCPTermReq(func(s *pppoe.Session, reason string) {})
	return e
}

type skSession struct {
	s      *pppoe.Session
	Name   string
	MACIdx int
	Order  int // creation order over the whole population
	Prefix string
	ended  bool
}

var skPaths = []string{"client-padt", "terminate-session", "by-id", "by-mac", "by-mac", "by-mac", "by-username"}

func TestSessionTeardownSharedKey(t *testing.T) {
	cases := run.Pick(48, 400)
	for i := 0; i < cases; i++ {
		bubbleMu.Lock()
		synctest.Test(t, func(t *testing.T) { runSharedKeyCase(t, i) })
		bubbleMu.Unlock()
	}
	rad.forget()
}

func runSharedKeyCase(t *testing.T, idx int) {
	rng := run.SubRand("teardown-shared-key", idx)
	cell := fmt.Sprintf("teardown-shared-key/%d", idx)
	e := newTDEnvPool(t, "c16-sk", "10.45.32.0/27", "10.45.32.1")
	cap0, _ := poolCapacity(e.pool)
	macs := []net.HardwareAddr{{0x02, 0x16, 0xbd, byte(rng.IntN(256)), 0, 1}, {0x02, 0x16, 0xbd, byte(rng.IntN(256)), 0, 2}}
	per := []int{2 + rng.IntN(2), 1 + rng.IntN(2)}
	if rng.IntN(4) == 0 {
		per[1] = 2 + rng.IntN(2)
	}
	shareName := []bool{rng.IntN(3) == 0, rng.IntN(3) == 0}
	// creation order: the sessions of the two MACs interleaved by the seed
	var order []int
	for m, n := range per {
		for j := 0; j < n; j++ {
			order = append(order, m)
		}
	}
	rng.Shuffle(len(order), func(a, b int) { order[a], order[b] = order[b], order[a] })
	var pop []*skSession
	seq := []int{0, 0}
	for o, m := range order {
		prefix := "established"
		switch rng.IntN(6) {
		case 0:
			prefix = "authenticated"
		case 1:
			prefix = "unauthenticated"
		}
		user := fmt.Sprintf("user-%c%d", 'a'+m, seq[m])
		if shareName[m] {
			user = fmt.Sprintf("user-%c", 'a'+m)
		}
		seq[m]++
		s := e.open(macs[m], user, prefix)
		if s == nil {
			run.Inconclusive(cell, "sessions could not be opened")
			return
		}
		pop = append(pop, &skSession{s: s, Name: fmt.Sprintf("%s(id %d, mac %c, %s)", user, s.ID, 'A'+m, prefix), MACIdx: m, Order: o, Prefix: prefix})
	}
	synctest.Wait()
	wit := func() any {
		return map[string]any{"cell": cell, "sessions_per_mac": per, "history": append([]string(nil), e.trace...)}
	}
	live := func(m int) (l []*skSession) {
		for _, p := range pop {
			if !p.ended && (m < 0 || p.MACIdx == m) {
				l = append(l, p)
			}
		}
		return
	}
	hasFP := func(p *skSession) bool {
		if p.s.ClientIP == nil {
			return false
		}
		e.fp.mu.Lock()
		defer e.fp.mu.Unlock()
		return e.fp.entries[p.s.ClientIP.String()] == p.s.SessionID
	}
	names := func(l []*skSession) string {
		var o []string
		for _, p := range l {
			o = append(o, p.Name)
		}
		sort.Strings(o)
		return strings.Join(o, ", ")
	}
	shape := func(m int) string {
		if per[m] > 1 {
			return "mac-with-several-sessions"
		}
		return "mac-with-one-session"
	}
	var pathsTaken []string
	// step ends sessions by one path and judges it; returns false when the case must stop
	step := func(path string, tgt *skSession) bool {
		before := live(-1)
		sibEnded, newestEnded := false, false
		if path == "by-mac" {
			newest := -1
			for _, p := range pop {
				if p.MACIdx == tgt.MACIdx && p.Order > newest {
					newest = p.Order
				}
			}
			for _, p := range pop {
				if p.MACIdx == tgt.MACIdx && p.ended {
					sibEnded = true
					if p.Order == newest {
						newestEnded = true
					}
				}
			}
		}
		capB, _ := poolCapacity(e.pool)
		// required: must have ended afterwards; allowed: may have ended afterwards; anyOf: at least one of them must
		required, allowed, anyOf := map[*skSession]bool{}, map[*skSession]bool{}, []*skSession(nil)
		switch path {
		case "client-padt", "terminate-session", "by-id":
			required[tgt], allowed[tgt] = true, true
		case "by-username":
			if tgt.s.Username == "" {
				required[tgt], allowed[tgt] = true, true
			} else {
				for _, p := range before {
					if p.s.Username == tgt.s.Username {
						required[p], allowed[p] = true, true
					}
				}
			}
		case "by-mac":
			for _, p := range before {
				if p.MACIdx == tgt.MACIdx {
					allowed[p] = true
					anyOf = append(anyOf, p)
				}
			}
		}
		desc := fmt.Sprintf("%s addressing %s", path, tgt.Name)
		if path == "by-mac" {
			desc = fmt.Sprintf("TerminateByMAC(mac %c) with live sessions {%s} of that MAC", 'A'+tgt.MACIdx, names(anyOf))
		}
		tl := len(e.trace)
		p := guard(func() { e.terminate(path, tgt.s) })
		synctest.Wait()
		e.trace = append(e.trace[:tl], desc+panicNote(p))
		pathsTaken = append(pathsTaken, path)
		run.Count("shared_key_steps", 1)
		run.Count("shared_key_path:"+path, 1)
		comp := tdComponent[path]
		ctx := shape(tgt.MACIdx)
		if p != "" {
			run.Violation(comp, "terminates-without-crash", "panic/"+ctx, desc+" panicked: "+p, wit())
			return false
		}
		var endedNow []*skSession
		for _, q := range before {
			if e.sm.GetSession(q.s.ID) != q.s {
				endedNow = append(endedNow, q)
			}
		}
		e.trace = append(e.trace, fmt.Sprintf("  -> left the session table: {%s}", names(endedNow)))
		if path == "by-mac" {
			run.Count("shared_key_by_mac_with_live_session", 1)
			if sibEnded {
				run.Count("shared_key_by_mac_after_a_session_of_the_mac_ended", 1)
			}
			if newestEnded {
				run.Count("shared_key_by_mac_after_newest_session_of_the_mac_ended", 1)
			}
			hit := false
			for _, q := range endedNow {
				if q.MACIdx == tgt.MACIdx {
					hit = true
				}
			}
			if !hit {
				cls := "no-session-of-the-mac-ended/" + ctx
				if sibEnded {
					cls += "/after-another-session-of-the-mac-ended"
				}
				run.Violation(comp, "disconnect-ends-session", cls, fmt.Sprintf("%s: no session of the MAC ended; {%s} are still in the session table and keep their address and fast path entry", desc, names(anyOf)), wit())
				return false
			}
		}
		ok := true
		addrFreed := 0
		for _, q := range endedNow {
			if !allowed[q] {
				run.Violation(comp, "bystanders-untouched", "other-session-ended/"+ctx, fmt.Sprintf("%s ended %s, which it did not address", desc, q.Name), wit())
				ok = false
			}
			q.ended = true
			if q.s.ClientIP != nil {
				addrFreed++
			}
			var left []string
			if hasFP(q) {
				left = append(left, "fast-path-entry")
			}
			st, sp := rad.counts(q.s.SessionID)
			run.Count("shared_key_acct_starts_observed", st)
			run.Count("shared_key_acct_stops_observed", sp)
			if st >= 1 && sp != 1 {
				left = append(left, fmt.Sprintf("stops=%d", sp))
			}
			if st == 0 && sp > 0 {
				run.Count("stop_without_start_observed", 1)
			}
			if len(left) > 0 {
				run.Violation(comp, "ended-session-holds-nothing", strings.Join(left, "+")+"/"+ctx, fmt.Sprintf("%s ended %s, which still has %v", desc, q.Name, left), wit())
				ok = false
			}
		}
		for q := range required {
			if !q.ended {
				run.Violation(comp, "session-removed", "session-table-left/"+ctx, fmt.Sprintf("%s: %s is still in the session table", desc, q.Name), wit())
				ok = false
			}
		}
		if capA, dup := poolCapacity(e.pool); capA-capB != addrFreed || dup {
			run.Violation(comp, "address-returned", fmt.Sprintf("pool-capacity-off-by-%d/%s", capA-capB-addrFreed, ctx), fmt.Sprintf("%s ended %d sessions with an address; the pool can hand out %d addresses, %d before the call", desc, addrFreed, capA, capB), wit())
			ok = false
		}
		// the others are untouched, and the MAC lookup answers for no ended session
		for _, q := range live(-1) {
			var lost []string
			if q.Prefix == "established" && !hasFP(q) {
				lost = append(lost, "fast-path-entry")
			}
			if _, sp := rad.counts(q.s.SessionID); sp != 0 {
				lost = append(lost, "accounting-stopped")
			}
			if len(lost) > 0 {
				run.Violation(comp, "bystanders-untouched", strings.Join(lost, "+")+"-of-live-session/"+ctx, fmt.Sprintf("%s: %s is still in the session table but lost %v", desc, q.Name, lost), wit())
				ok = false
			}
		}
		for m := range macs {
			if x := e.sm.GetSessionByMAC(macs[m]); x != nil {
				for _, q := range pop {
					if q.s == x && q.ended {
						run.Violation(comp, "no-fast-path-entry", "mac-lookup-answers-for-ended-session/"+shape(m), fmt.Sprintf("after %s the lookup by MAC %c still returns %s, which has ended", desc, 'A'+m, q.Name), wit())
						ok = false
					}
				}
			}
		}
		return ok
	}

	good := true
	nSteps := 1 + rng.IntN(len(pop))
	for k := 0; k < nSteps && good; k++ {
		l := live(-1)
		if len(l) == 0 {
			break
		}
		good = step(skPaths[rng.IntN(len(skPaths))], l[rng.IntN(len(l))])
	}
	// whatever is left is disconnected by MAC, one call per remaining session (an operator clearing a line)
	for m := range macs {
		for n := len(live(m)); n > 0 && good; n-- {
			l := live(m)
			if len(l) == 0 {
				break
			}
			good = step("by-mac", l[0])
		}
	}
	run.Eval()
	run.Count("shared_key_cases", 1)
	run.Distinct("shared_key_populations", fmt.Sprintf("%v/%v", per, shareName))
	if per[0] > 1 {
		run.Nontrivial(fmt.Sprintf("shared-key|%v|%v|%s", per, order, strings.Join(pathsTaken, ",")))
	}
	if !good {
		return
	}
	// everything has ended: nothing of the population is left anywhere
	var left []string
	if n := e.sm.Count(); n != 0 {
		left = append(left, fmt.Sprintf("session-table(%d)", n))
	}
	e.fp.mu.Lock()
	if n := len(e.fp.entries); n != 0 {
		left = append(left, fmt.Sprintf("fast-path-entries(%d)", n))
	}
	e.fp.mu.Unlock()
	if c, dup := poolCapacity(e.pool); c != cap0 || dup {
		left = append(left, fmt.Sprintf("pool-capacity(%d of %d)", c, cap0))
	}
	for _, q := range pop {
		if st, sp := rad.counts(q.s.SessionID); st >= 1 && sp != 1 {
			left = append(left, fmt.Sprintf("stops=%d", sp))
		}
	}
	if len(left) > 0 {
		var cls []string
		for _, x := range left {
			cls = append(cls, strings.SplitN(x, "(", 2)[0])
		}
		run.Violation("pppoe.SessionTeardown.cleanup", "ended-session-holds-nothing", strings.Join(cls, "+")+"/population-ended", fmt.Sprintf("every session of the population was ended, left: %v", left), wit())
	}
	if idx == 3 {
		run.Sample(map[string]any{"system": "pppoe.SessionTeardown shared keys", "cell": cell, "sessions_per_mac": per, "history": e.trace})
	}
}
