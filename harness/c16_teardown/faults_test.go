package c16

// Establishment with a fault injected at every resource-programming step of dhcp.Server.handleRequest
// (each eBPF map Put of the fast path, circuit-id, QoS and NAT tables, NAT pool exhaustion, address
// allocation, Accounting-Start), followed by termination through every path. A map fault is a real
// kernel hash map of max_entries 1 that already holds a foreign key, handed to the manager through
// VerifSetMaps in place of the loaded object's map: the Put of a new key fails with E2BIG exactly as on
// a full production map. The oracle is the one of the fault-free cells: after termination nothing the
// session acquired - as seen in the kernel maps, the pool and the tables, not in a manager's own
// bookkeeping - is left.

import (
	"bytes"
	"context"
	"fmt"
	"net"
	"sort"
	"strings"
	"testing"
	"testing/synctest"
	"time"

	"github.com/cilium/ebpf"
	"github.com/insomniacslk/dhcp/dhcpv4"
	"go.uber.org/zap"

	"github.com/codelaboratoryltd/bng/pkg/subscriber"
)

type faultPos struct {
	Name    string
	Maps    [][2]string // (group, kernel map) replaced by a full map
	Special string      // "nat-exhausted", "acct-refused", "foreign-address", "pool-exhausted"
	Relayed bool        // needs a circuit-id
	QinQ    bool        // needs a VLAN pair
}

var faultPositions = []faultPos{
	{Name: "none"},
	{Name: "fastpath-mac-put", Maps: [][2]string{{"dhcp", "subscriber_pools"}}},
	{Name: "fastpath-vlan-put", Maps: [][2]string{{"dhcp", "vlan_subscriber_pools"}}, QinQ: true},
	{Name: "circuit-id-hash-put", Maps: [][2]string{{"dhcp", "circuit_id_map"}}, Relayed: true},
	{Name: "circuit-id-subscriber-put", Maps: [][2]string{{"dhcp", "circuit_id_subscribers"}}, Relayed: true},
	{Name: "qos-egress-put", Maps: [][2]string{{"qos", "qos_egress"}}},
	{Name: "qos-ingress-put", Maps: [][2]string{{"qos", "qos_ingress"}}},
	{Name: "nat-subscriber-put", Maps: [][2]string{{"nat", "subscriber_nat"}}},
	{Name: "nat-pool-exhausted", Special: "nat-exhausted"},
	{Name: "accounting-start-refused", Special: "acct-refused"},
	{Name: "address-request-refused", Special: "foreign-address"},
	{Name: "address-pool-exhausted", Special: "pool-exhausted"},
	{Name: "every-map-full", Maps: [][2]string{{"dhcp", "subscriber_pools"}, {"dhcp", "vlan_subscriber_pools"}, {"dhcp", "circuit_id_map"}, {"dhcp", "circuit_id_subscribers"}, {"qos", "qos_egress"}, {"qos", "qos_ingress"}, {"nat", "subscriber_nat"}}},
	{Name: "all-but-first-of-each-manager", Maps: [][2]string{{"dhcp", "circuit_id_map"}, {"dhcp", "circuit_id_subscribers"}, {"qos", "qos_ingress"}}},
}

const smallMapEntries = 12

// foreignKey is a key no subscriber of a case can have.
func foreignKey(size uint32, i int) []byte {
	k := bytes.Repeat([]byte{0xee}, int(size))
	k[len(k)-1] = byte(i)
	return k
}

// injectSmall replaces the named maps of the environment's managers by real kernel hash maps with the key and
// value sizes of the loaded object's maps and room for a dozen entries. Neighbours are established into them;
// fillUp then occupies what is left, so that the subject meets a full map.
func (e *ipoeEnv) injectSmall(t *testing.T, maps [][2]string) {
	if e.alt == nil {
		e.alt = map[string]*ebpf.Map{}
	}
	for _, gm := range maps {
		ref := e.kmap(gm[0], gm[1])
		if ref == nil {
			hfatalf(t, "no map %s/%s", gm[0], gm[1])
		}
		m, err := ebpf.NewMap(&ebpf.MapSpec{Name: "c16_small", Type: ebpf.Hash, KeySize: ref.KeySize(), ValueSize: ref.ValueSize(), MaxEntries: smallMapEntries})
		if err != nil {
			hfatalf(t, "create small map for %s: %v", gm[1], err)
		}
		e.alt[gm[1]] = m
	}
	e.rewire()
}

// fillUp puts foreign entries into every injected map until the kernel refuses the next one.
func (e *ipoeEnv) fillUp(t *testing.T) {
	for name, m := range e.alt {
		n := 0
		for i := 0; i <= smallMapEntries; i++ {
			if err := m.Put(foreignKey(m.KeySize(), i), make([]byte, m.ValueSize())); err != nil {
				break
			}
			n++
		}
		if n == 0 || n > smallMapEntries {
			hfatalf(t, "map %s: %d foreign entries fitted, the map is not full", name, n)
		}
	}
}

// clearFaults makes room for one entry in every injected map (a foreign entry goes away, as when another
// subscriber left) and takes that entry out of the census baseline.
func (e *ipoeEnv) clearFaults(base *census) {
	for name, m := range e.alt {
		k := foreignKey(m.KeySize(), 0)
		_ = m.Delete(k)
		delete(base.T["map:"+name], fmt.Sprintf("%x", k))
	}
}

func (e *ipoeEnv) closeAlt() {
	for _, m := range e.alt {
		m.Close()
	}
}

// rewire hands every manager the maps of the loaded objects with the injected ones substituted.
func (e *ipoeEnv) rewire() {
	sub := func(src map[string]*ebpf.Map) map[string]*ebpf.Map {
		out := make(map[string]*ebpf.Map, len(src))
		for n, m := range src {
			out[n] = m
			if a := e.alt[n]; a != nil {
				out[n] = a
			}
		}
		return out
	}
	if e.ld != nil {
		e.ld.VerifSetMaps(sub(e.ks.dhcp.Coll.Maps))
	}
	if e.qm != nil {
		e.qm.VerifSetMaps(e.kmap("qos", "qos_egress"), e.kmap("qos", "qos_ingress"), e.ks.qos.Coll.Maps["qos_stats_map"])
	}
	if e.nm != nil {
		e.nm.VerifSetMaps(sub(e.ks.nat.Coll.Maps))
	}
}

var faultPaths = []string{"release", "decline", "expiry", "lapse-rediscover"}

type faultCell struct {
	Pos    string
	Kind   string
	Prefix string // bound, renewed-fault-persisting, renewed-fault-cleared
	Path   string
}

func (c faultCell) String() string {
	return fmt.Sprintf("fault:%s/%s/%s/%s", c.Pos, c.Kind, c.Prefix, c.Path)
}

var faultPairsReached = map[string]bool{}

// TestIPoEFaults: fault positions x kinds x prefixes x termination paths.
func TestIPoEFaults(t *testing.T) {
	ks := loadKernels(t)
	defer ks.close()
	kinds := []ipoeKind{ipoeKinds[0], ipoeKinds[1], ipoeKinds[5]} // direct, circuit-id 12, QinQ
	if run.Thorough() {
		kinds = []ipoeKind{ipoeKinds[0], ipoeKinds[1], ipoeKinds[3], ipoeKinds[5]} // and the 40-byte circuit-id (longer than the fixed-size key)
	}
	n := 0
	for _, k := range kinds {
		// what a fault-free establishment of this kind holds, per table (the reference the effect of a fault is read against)
		var ref []string
		for _, pos := range faultPositions {
			if (pos.Relayed && !k.Relayed) || (pos.QinQ && !k.QinQ) {
				continue
			}
			prefixes := []string{"bound", "renewed-fault-persisting", "renewed-fault-cleared"}
			if pos.Special == "foreign-address" || pos.Special == "pool-exhausted" {
				prefixes = []string{"refused", "refused-then-established"}
			}
			if pos.Name == "none" {
				prefixes = []string{"bound"}
			}
			for _, prefix := range prefixes {
				for _, path := range faultPaths {
					if path == "lapse-rediscover" && prefix == "refused" {
						continue // there is no lease that could lapse
					}
					if !run.Thorough() && k.Name != "direct" && prefix == "renewed-fault-persisting" {
						continue
					}
					for rep := 0; rep < run.Pick(1, 3); rep++ {
						held := runFaultCell(t, ks, k, pos, faultCell{pos.Name, k.Name, prefix, path}, ref, n)
						if pos.Name == "none" && held != nil {
							ref = held
						}
						n++
					}
				}
			}
		}
	}
	run.Count("fault_position_x_path_pairs_reached", len(faultPairsReached))

	rad.forget()
}

func runFaultCell(t *testing.T, ks *kernels, k ipoeKind, pos faultPos, cell faultCell, ref []string, idx int) (heldTables []string) {
	bubbleMu.Lock()
	defer bubbleMu.Unlock()

	rng := run.SubRand("fault-cell", idx)
	geo := ipoeGeometries[rng.IntN(len(ipoeGeometries))]
	lease := []time.Duration{2 * time.Minute, time.Hour, 24 * time.Hour}[rng.IntN(3)]
	m3, m4 := byte(rng.IntN(256)), byte(rng.IntN(256))
	nBy := 1 + rng.IntN(2)
	v := ipoeVariants[0]
	if pos.Special == "acct-refused" {
		v = ipoeVariants[2]
	}
	if pos.Special == "pool-exhausted" {
		geo = ipoeGeometries[0] // the /28: few addresses to take
	}
	synctest.Test(t, func(t *testing.T) {
		e := newIPoEEnv(t, ks, v, geo[0], geo[1], lease)
		defer e.closeAlt()
		e.injectSmall(t, pos.Maps)
		if !e.addBystanders(nBy) {
			run.Inconclusive(cell.String(), "bystanders could not be established")
			return
		}
		if pos.Special == "nat-exhausted" {
			// other subscribers hold every port block of the public addresses
			e.exhaustNAT()
		}
		sub := &dclient{Name: "subject", mac: net.HardwareAddr{0x02, 0x16, 0xfa, m3, m4, 0x51}}
		if k.Relayed {
			sub.relay = net.IPv4(10, 250, 0, 1)
			sub.cid = mkCID(fmt.Sprintf("SUBJ%c", 'A'+rng.IntN(26)), k.CIDLen)
		}
		var fillers []*dclient
		if pos.Special == "pool-exhausted" {
			// other clients reserve every remaining address (DISCOVER only: their offers are held)
			for i := 0; i < 64; i++ {
				f := &dclient{Name: fmt.Sprintf("filler-%d", i), mac: net.HardwareAddr{0x02, 0xf1, 0xfa, 0, 0, byte(i)}}
				if !e.discover(f) {
					break
				}
				fillers = append(fillers, f)
			}
			// the fillers turn their offers into leases: nothing of theirs lapses with the offer hold time
			for _, f := range fillers {
				e.request(f, nil)
			}
			e.by = append(e.by, fillers...)
		}
		e.fillUp(t)
		s0 := e.census()
		wit := func() any {
			return map[string]any{"cell": cell.String(), "fault": pos.Name, "full_maps": pos.Maps, "subject": sub.mac.String(), "address": fmt.Sprint(sub.ip), "circuit_id": string(sub.cid), "session_id": sub.sid, "history": append([]string(nil), e.trace...)}
		}
		// ---- establishment with the fault in place
		established := false
		switch pos.Special {
		case "foreign-address":
			if !e.discover(sub) {
				run.Inconclusive(cell.String(), "no offer")
				return
			}
			offered := sub.ip
			sub.ip = e.by[0].ip // an address another subscriber holds
			res := e.request(sub, sub.cid)
			sub.ip = offered
			if res != "nak" {
				run.Inconclusive(cell.String(), "REQUEST for a foreign address was answered with "+res)
				return
			}
			run.Count("fault_observed:"+pos.Name, 1)
		case "pool-exhausted":
			if e.discover(sub) {
				run.Inconclusive(cell.String(), "the pool still had an address")
				return
			}
			sub.ip = fillers[0].ip
			if res := e.request(sub, sub.cid); res == "ack" {
				run.Violation("dhcp.Server.handleRequest", "address-returned", "address-of-another-client-acknowledged", "with the pool exhausted a REQUEST for an address leased to another client was acknowledged", wit())
				return
			}
			run.Count("fault_observed:"+pos.Name, 1)
		default:
			if !e.discover(sub) || e.request(sub, sub.cid) != "ack" {
				run.Inconclusive(cell.String(), "the faulted establishment was not acknowledged")
				return
			}
			established = true
			if k.QinQ {
				if err := e.srv.VerifC16SetLeaseVLAN(sub.mac, 200, 300); err != nil {
					e.trace = append(e.trace, "QinQ context of the lease: fast path update failed: "+err.Error())
				} else {
					e.trace = append(e.trace, "subject lease given S-tag 200 / C-tag 300 (hook) and written to the fast path by updateFastPathCache")
				}
			}
		}
		if cell.Prefix == "refused-then-established" {
			// the refusal is over (another client leaves / the client asks for what it was offered): a session follows
			if pos.Special == "pool-exhausted" {
				e.release(fillers[0])
				e.by = e.by[:len(e.by)-len(fillers)]
				e.by = append(e.by, fillers[1:]...)
				// the address went back to the pool with the filler: the subject's census baseline is the state without it
				s0 = e.census()
			}
			if !e.discover(sub) || e.request(sub, sub.cid) != "ack" {
				run.Inconclusive(cell.String(), "no session after the refusal ended")
				return
			}
			established = true
		}
		if strings.HasPrefix(cell.Prefix, "renewed") {
			if cell.Prefix == "renewed-fault-cleared" {
				e.clearFaults(s0)
				e.trace = append(e.trace, "the full maps have room for one entry again")
			}
			time.Sleep(e.lease / 4)
			synctest.Wait()
			if e.request(sub, sub.cid) != "ack" {
				run.Inconclusive(cell.String(), "renewal not acknowledged")
				return
			}
			if k.QinQ {
				// the slow path has no code that fills Lease.STag/CTag (see the hook): a renewal builds a new lease
				// without them, so the hook gives the renewed lease its VLAN context again
				_ = e.srv.VerifC16SetLeaseVLAN(sub.mac, 200, 300)
			}
		}
		s1 := e.census()
		held, _, _ := s1.diff(s0)
		heldTables = tablesOf(held)
		// the effect of the fault: tables a fault-free establishment of this kind holds and this one does not
		var missing []string
		for _, tb := range ref {
			found := false
			for _, h := range heldTables {
				if h == tb {
					found = true
				}
			}
			if !found {
				missing = append(missing, tb)
			}
		}
		sort.Strings(missing)
		if established && pos.Name != "none" && pos.Special != "foreign-address" && pos.Special != "pool-exhausted" {
			switch {
			case pos.Special == "acct-refused":
				if st, _ := rad.counts(sub.sid); st >= 1 {
					run.Count("fault_observed:"+pos.Name, 1)
				}
			case len(missing) > 0 || cell.Prefix == "renewed-fault-cleared":
				run.Count("fault_observed:"+pos.Name, 1)
			default:
				run.Count("fault_without_visible_effect:"+pos.Name, 1)
			}
			run.Distinct("fault_effects", pos.Name+"/"+k.Name+"/"+cell.Prefix+": missing "+strings.Join(missing, ","))
		}
		// ---- termination
		ic := ipoeCell{Variant: "fault:" + pos.Name, Kind: k.Name, Prefix: "bound", Path: cell.Path, Second: "none"}
		if !established {
			ic.Prefix = "offer-only"
		}
		panicText := e.terminate(sub, cell.Path)
		comp := componentOfPath[cell.Path]
		if panicText != "" {
			run.Violation(comp, "terminates-without-crash", "panic/fault:"+pos.Name, fmt.Sprintf("%s panicked: %s", cell.Path, panicText), wit())
		}
		if !established && pos.Special == "pool-exhausted" {
			sub.ip = nil // the address it asked for was never its own (a quarantine of it would not be excused)
		}
		if !established && cell.Path != "expiry" {
			// a refused client that only RELEASEs or DECLINEs may keep its reservation until the offer hold time has
			// passed: the statement is about what is left afterwards
			e.advancePastLease()
			e.cleanup()
		}
		s2 := e.census()
		if e.reoffer != nil {
			delete(s2.tab("pool.allocated"), sub.mac.String())
			s2.tab("pool.available")[e.reoffer.String()] = ""
		}
		run.Eval()
		run.Count("fault_cells", 1)
		run.Count("fault_position:"+pos.Name, 1)
		run.Count("fault_path:"+cell.Path, 1)
		run.Distinct("fault_cells", cell.String())
		if len(held) > 0 {
			run.Nontrivial(cell.String())
			if pos.Name != "none" {
				faultPairsReached[pos.Name+"|"+cell.Path] = true
			}
		}
		for _, tb := range heldTables {
			run.Count("fault_held_"+tb, 1)
		}
		judgeIPoE(ic, sub, s0, s2, true, wit)
		acctSub := sub
		if e.prevSid != "" {
			c := *sub
			c.sid = e.prevSid
			acctSub = &c
		}
		starts, stops, _ := judgeAcct(ic, comp, acctSub, wit, true)
		run.Count("fault_acct_starts_observed", starts)
		run.Count("fault_acct_stops_observed", stops)
		// ---- the session is ended a second and third time: nothing further happens
		if e.reoffer == nil {
			acct1 := rad.total()
			for _, second := range []string{"release", "cleanup"} {
				p2 := e.terminate(sub, second)
				comp2 := componentOfPath[map[string]string{"release": "release", "cleanup": "expiry"}[second]]
				if p2 != "" {
					run.Violation(comp2, "second-termination-no-effect", "panic/fault:"+pos.Name, fmt.Sprintf("%s after %s panicked: %s", second, cell.Path, p2), wit())
				}
				s3 := e.census()
				a3, l3, c3 := s3.diff(s2)
				if eff := append(append(a3, l3...), c3...); len(eff) > 0 {
					run.Violation(comp2, "second-termination-no-effect", strings.Join(tablesOf(eff), "+")+"/after-"+cell.Path, fmt.Sprintf("%s after %s (establishment fault %s) changed: %v", second, cell.Path, pos.Name, eff), wit())
				}
				run.Count("fault_second_terminations", 1)
			}
			if nrec := rad.total() - acct1; nrec != 0 {
				run.Violation(componentOfPath["release"], "second-termination-no-effect", "accounting-records/after-"+cell.Path, fmt.Sprintf("ending the session again after %s issued %d accounting records", cell.Path, nrec), wit())
			}
		}
		if idx%61 == 7 {
			left, _, _ := s2.diff(s0)
			run.Sample(map[string]any{"system": "ipoe-fault", "cell": cell.String(), "held_after_establishment": held, "tables_missing_because_of_fault": missing, "left_after_termination": left, "acct": fmt.Sprintf("starts=%d stops=%d", starts, stops), "history": e.trace})
		}
	})
	return heldTables
}

// exhaustNAT lets other private addresses take every port block of the environment's public addresses: the
// bystanders have theirs, the subject finds none.
func (e *ipoeEnv) exhaustNAT() {
	// PortsPerSubscriber 1024, range 1024..65535 gives 63 blocks per address: take what the bystanders left
	for i := 0; ; i++ {
		ip := net.IPv4(10, 99, byte(i>>8), byte(i))
		if _, err := e.nm.AllocateNAT(ip); err != nil {
			e.trace = append(e.trace, fmt.Sprintf("NAT pool exhausted by %d other allocations", i))
			return
		}
		if i > 1000 {
			return
		}
	}
}

var _ = dhcpv4.MessageTypeDiscover

// ---------------------------------------------------------------- subscriber.Manager: faults of the establishment sequence

type faultAuth struct{ mode string }

func (a faultAuth) Authenticate(ctx context.Context, req *subscriber.SessionRequest) (*subscriber.AuthResult, error) {
	switch a.mode {
	case "auth-error":
		return nil, fmt.Errorf("radius unreachable")
	case "auth-rejected":
		return &subscriber.AuthResult{Success: false, Error: "rejected"}, nil
	}
	return &subscriber.AuthResult{Success: true, SubscriberID: "sub-" + req.MAC.String(), ISPID: "isp"}, nil
}

// TestSubscriberFaults: the establishment sequence of subscriber.Manager with a fault at each step that acquires
// something (authentication error / reject, IPv4 allocator exhausted, IPv6 allocator exhausted after the IPv4
// address was taken), the caller carrying on as far as the manager lets it, then termination by every path.
func TestSubscriberFaults(t *testing.T) {
	for _, fault := range []string{"auth-error", "auth-rejected", "ipv4-exhausted", "ipv6-exhausted"} {
		for _, path := range []string{"terminate", "idle-timeout", "shutdown"} {
			for _, second := range []string{"none", "terminate-again"} {
				if path == "shutdown" && second != "none" {
					continue
				}
				cell := fmt.Sprintf("subscriber-fault/%s/%s/then-%s", fault, path, second)
				bubbleMu.Lock()
				synctest.Test(t, func(t *testing.T) {
					cfg := subscriber.DefaultManagerConfig()
					cfg.CleanupInterval = 30 * time.Second
					cfg.DefaultIdleTimeout = 10 * time.Minute
					cfg.DefaultSessionTimeout = 0
					e := &subEnv{al: newRecAlloc(4), events: map[string]int{}}
					e.m = subscriber.NewManager(cfg, faultAuth{fault}, e.al, zap.NewNop())
					e.m.OnEvent(func(ev *subscriber.SessionEvent) {
						if ev.Type == subscriber.EventSessionTerminate {
							e.mu.Lock()
							e.events[ev.SessionID]++
							e.mu.Unlock()
						}
					})
					_ = e.m.Start()
					stopped := false
					defer func() {
						if !stopped {
							e.m.Stop()
						}
					}()
					switch fault {
					case "ipv4-exhausted":
						e.al.free4 = nil
					case "ipv6-exhausted":
						e.al.free6 = nil
					}
					s0 := e.census()
					ctx := context.Background()
					s, err := e.m.CreateSession(ctx, &subscriber.SessionRequest{MAC: subMACs[0], Type: subscriber.SessionTypeIPoE, CircuitID: "port-1"})
					if err != nil {
						run.Inconclusive(cell, "session could not be created")
						return
					}
					// the caller goes through the sequence and stops at the first step that refuses
					_, aerr := e.m.Authenticate(ctx, s.ID)
					e.trace = append(e.trace, fmt.Sprintf("create, authenticate -> %v", aerr))
					var serr, verr error
					if aerr == nil && fault != "auth-rejected" {
						serr = e.m.AssignAddress(ctx, s.ID, "v4", "v6")
						e.trace = append(e.trace, fmt.Sprintf("assign -> %v (v4=%v v6=%v)", serr, s.IPv4, s.IPv6))
						if serr == nil {
							verr = e.m.ActivateSession(s.ID)
							e.trace = append(e.trace, fmt.Sprintf("activate -> %v", verr))
						}
					}
					s1 := e.census()
					held, _, _ := s1.diff(s0)
					wit := func() any {
						_, _, lg := e.al.snapshot()
						return map[string]any{"cell": cell, "session": short(s.ID), "history": append([]string(nil), e.trace...), "allocator_log": lg}
					}
					comp := "subscriber.Manager.TerminateSession"
					switch path {
					case "terminate":
						err := e.m.TerminateSession(ctx, s.ID, subscriber.TerminateAuthFailed)
						e.trace = append(e.trace, fmt.Sprintf("TerminateSession(auth_failed) -> %v", err))
					case "idle-timeout":
						comp = "subscriber.Manager.cleanupExpiredSessions"
						time.Sleep(cfg.DefaultIdleTimeout + 2*cfg.CleanupInterval)
						synctest.Wait()
						e.trace = append(e.trace, "idle beyond the idle timeout, cleanup loop ticked")
					case "shutdown":
						comp = "subscriber.Manager.Stop"
						e.m.Stop()
						stopped = true
						e.trace = append(e.trace, "Manager.Stop()")
					}
					s2 := e.census()
					run.Eval()
					run.Count("subscriber_fault_cells", 1)
					run.Count("subscriber_fault:"+fault, 1)
					run.Distinct("subscriber_fault_cells", cell)
					if len(held) > 0 {
						run.Nontrivial(cell)
					}
					ctxClass := "fault:" + fault
					e.judgeEnded(comp, ctxClass, s, s0, s2, wit)
					if second == "terminate-again" {
						_, _, lg1 := e.al.snapshot()
						e.mu.Lock()
						ev1 := e.events[s.ID]
						e.mu.Unlock()
						_ = e.m.TerminateSession(ctx, s.ID, subscriber.TerminateAdminReset)
						s3 := e.census()
						a3, l3, c3 := s3.diff(s2)
						_, _, lg2 := e.al.snapshot()
						e.mu.Lock()
						ev2 := e.events[s.ID]
						e.mu.Unlock()
						eff := append(append(a3, l3...), c3...)
						if len(lg2) != len(lg1) {
							eff = append(eff, fmt.Sprintf("allocator-calls %v", lg2[len(lg1):]))
						}
						if ev2 != ev1 {
							eff = append(eff, "another-terminate-event")
						}
						if len(eff) > 0 {
							run.Violation("subscriber.Manager.TerminateSession", "second-termination-no-effect", strings.Join(tablesOf(eff), "+")+"/"+ctxClass, fmt.Sprintf("terminate-again after %s: %v", path, eff), wit())
						}
					}
				})
				bubbleMu.Unlock()
			}
		}
	}
}
