package c16

// Shutdown of dhcp.Server at every protocol phase and lease age. The shutdown path of Start (listener closed,
// stopAllAccounting) is run under virtual time with the subject in one of: offer only, offer declined, REQUEST
// refused, bound, renewed, lease expiring at this very instant, lease lapsed but not swept yet (by 1 ns up to just
// under one sweep period), lapsed and swept, released, declined, lapsed and re-DISCOVERed, lapsed and bound again;
// neighbours hold live leases. Optionally the sweep that was in flight when the context was cancelled still runs
// (leaseCleanup selects between its ticker and ctx.Done(): when both are ready either may win).
//
// Oracle: every accounting session for which the RADIUS server received a Start has exactly one Stop once shutdown
// is over - whatever the age of its lease. Two cases with a lapsed lease also run through the real Start / cancel
// (listener on lo:67, wall clock, one-second leases).

import (
	"context"
	"fmt"
	"net"
	"testing"
	"testing/synctest"
	"time"

	"github.com/codelaboratoryltd/bng/pkg/radius"
)

var sdPhases = []string{
	"offer-only", "offer-declined", "request-refused",
	"bound", "renewed", "expiring-now", "lapsed-unswept", "lapsed-swept",
	"released", "declined", "lapse-rediscover", "lapse-rediscover-request",
}

var sdLate = []string{"none", "sweep-in-flight"}

type sdSession struct {
	Who, Sid, State string
}

func TestIPoEShutdownPhases(t *testing.T) {
	ks := loadKernels(t)
	defer ks.close()
	n := 0
	for _, v := range []ipoeVariant{ipoeVariants[0], ipoeVariants[2]} {
		for _, k := range []ipoeKind{ipoeKinds[0], ipoeKinds[1]} {
			if !run.Thorough() && v.Radius == "acct-nak" && k.Relayed {
				continue
			}
			for _, phase := range sdPhases {
				for _, late := range sdLate {
					for rep := 0; rep < run.Pick(1, 4); rep++ {
						runShutdownCell(t, ks, v, k, phase, late, n)
						n++
					}
				}
			}
		}
	}
	rad.forget()
}

func runShutdownCell(t *testing.T, ks *kernels, v ipoeVariant, k ipoeKind, phase, late string, idx int) {
	bubbleMu.Lock()
	defer bubbleMu.Unlock()
	rng := run.SubRand("shutdown-cell", idx)
	geo := ipoeGeometries[rng.IntN(len(ipoeGeometries))]
	lease := []time.Duration{2 * time.Minute, 10 * time.Minute, time.Hour}[rng.IntN(3)]
	m3, m4 := byte(rng.IntN(256)), byte(rng.IntN(256))
	nBy := 1 + rng.IntN(2)
	// how long the lease has been lapsed when the server goes down: from one nanosecond to just under a sweep period
	extra := []time.Duration{0, time.Second, 30 * time.Second, 59 * time.Second}[rng.IntN(4)]
	cell := fmt.Sprintf("shutdown/%s/%s/%s/%s", v.Name, k.Name, phase, late)
	synctest.Test(t, func(t *testing.T) {
		e := newIPoEEnv(t, ks, v, geo[0], geo[1], lease)
		if !e.addBystanders(nBy) {
			run.Inconclusive(cell, "neighbours could not be established")
			return
		}
		sub := &dclient{Name: "subject", mac: net.HardwareAddr{0x02, 0x16, 0xfd, m3, m4, 0x51}}
		if k.Relayed {
			sub.relay = net.IPv4(10, 250, 0, 1)
			sub.cid = mkCID(fmt.Sprintf("SUBJ%c", 'A'+rng.IntN(26)), k.CIDLen)
		}
		var sessions []sdSession
		bind := func() bool { return e.discover(sub) && e.request(sub, sub.cid) == "ack" }
		ok := true
		switch phase {
		case "offer-only":
			ok = e.discover(sub)
		case "offer-declined":
			ok = e.discover(sub)
			e.decline(sub)
		case "request-refused":
			ok = e.discover(sub)
			offered := sub.ip
			sub.ip = e.by[0].ip
			res := e.request(sub, sub.cid)
			sub.ip = offered
			ok = ok && res != "ack"
		case "bound":
			ok = bind()
			sessions = append(sessions, sdSession{"subject", sub.sid, "live-lease"})
		case "renewed":
			ok = bind()
			time.Sleep(lease / 4)
			synctest.Wait()
			ok = ok && e.request(sub, sub.cid) == "ack"
			sessions = append(sessions, sdSession{"subject", sub.sid, "live-lease"})
		case "expiring-now":
			ok = bind()
			time.Sleep(lease / 2)
			synctest.Wait()
			for _, b := range e.by {
				e.request(b, b.cid)
			}
			time.Sleep(lease - lease/2)
			synctest.Wait()
			e.trace = append(e.trace, fmt.Sprintf("exactly %v after the subject's ACK: its lease expires at this instant", lease))
			sessions = append(sessions, sdSession{"subject", sub.sid, "lease-expiring-now"})
		case "lapsed-unswept":
			ok = bind()
			e.advancePastLease()
			if extra > 0 {
				time.Sleep(extra)
				synctest.Wait()
				e.trace = append(e.trace, fmt.Sprintf("another %v without a cleanup tick", extra))
			}
			sessions = append(sessions, sdSession{"subject", sub.sid, "lapsed-unswept-lease"})
		case "lapsed-swept":
			ok = bind()
			e.advancePastLease()
			e.cleanup()
			sessions = append(sessions, sdSession{"subject", sub.sid, "ended-before-shutdown"})
		case "released":
			ok = bind()
			e.release(sub)
			sessions = append(sessions, sdSession{"subject", sub.sid, "ended-before-shutdown"})
		case "declined":
			ok = bind()
			e.decline(sub)
			sessions = append(sessions, sdSession{"subject", sub.sid, "ended-before-shutdown"})
		case "lapse-rediscover", "lapse-rediscover-request":
			ok = bind()
			old := sub.sid
			e.advancePastLease()
			ok = ok && e.discover(sub)
			sessions = append(sessions, sdSession{"subject", old, "ended-before-shutdown"})
			if phase == "lapse-rediscover-request" {
				ok = ok && e.request(sub, sub.cid) == "ack"
				if sub.sid != old {
					sessions = append(sessions, sdSession{"subject (second session)", sub.sid, "live-lease"})
				}
			}
		}
		if !ok {
			run.Inconclusive(cell, "the subject could not be driven to the phase")
			return
		}
		for _, b := range e.by {
			sessions = append(sessions, sdSession{b.Name, b.sid, "live-lease"})
		}
		tables := func() (leases, offers int) { return len(e.srv.VerifC16Leases()), len(e.srv.VerifC16Offers()) }
		l0, o0 := tables()
		// ---- shutdown: what Start does once its context is cancelled and the listener is closed
		p := guard(func() { e.srv.VerifC16StopAllAccounting(radius.TerminateCauseNASReboot) })
		synctest.Wait()
		e.trace = append(e.trace, fmt.Sprintf("shutdown with %d leases and %d pending offers: stopAllAccounting(NAS-Reboot)%s", l0, o0, panicNote(p)))
		if late == "sweep-in-flight" {
			// the ticker of leaseCleanup and the cancellation were both ready: the sweep still runs
			p2 := e.cleanup()
			if p == "" {
				p = p2
			}
		}
		wit := func() any {
			return map[string]any{"cell": cell, "lease_time": lease.String(), "sessions": sessions, "history": append([]string(nil), e.trace...)}
		}
		run.Eval()
		run.Count("shutdown_phase_cells", 1)
		run.Count("shutdown_phase:"+phase, 1)
		run.Distinct("shutdown_phase_cells", cell)
		comp := "dhcp.Server.stopAllAccounting"
		if p != "" {
			run.Violation(comp, "terminates-without-crash", "panic/"+phase, "shutdown panicked: "+p, wit())
			return
		}
		open := 0
		for _, s := range sessions {
			if s.Sid == "" {
				continue
			}
			starts, stops := rad.counts(s.Sid)
			if starts >= 1 {
				run.Count("shutdown_sessions_with_start:"+s.State, 1)
				run.Count("shutdown_stops_observed", stops)
				if s.State != "ended-before-shutdown" {
					open++
				}
			}
			if starts >= 1 && stops != 1 {
				cls := "no-stop"
				if stops > 1 {
					cls = "stop-repeated"
				}
				cls += "/" + s.State
				if late != "none" {
					cls += "+" + late
				}
				run.Violation(comp, "one-stop-per-start", cls, fmt.Sprintf("%s, session %s (%s when the server went down, phase %s): %d Accounting-Start and %d Accounting-Stop records by the end of shutdown", s.Who, s.Sid, s.State, phase, starts, stops), wit())
			}
		}
		if open > 0 {
			run.Nontrivial(cell)
		}
		if idx%37 == 11 {
			run.Sample(map[string]any{"system": "ipoe-shutdown", "cell": cell, "sessions": sessions, "history": e.trace})
		}
	})
}

// TestIPoEShutdownLapsedReal: the real Start (listener on lo:67, cleanup goroutine with its one-minute ticker),
// one-second leases: one client's lease has lapsed and not been swept, another's is live when the context is
// cancelled. The ages are read from the lease table right before the cancellation; a slow machine changes the
// labels, not the verdict (every session with a Start needs its Stop).
func TestIPoEShutdownLapsedReal(t *testing.T) {
	ks := loadKernels(t)
	defer ks.close()
	for _, k := range []ipoeKind{ipoeKinds[0], ipoeKinds[1]} {
		cell := "shutdown-real/" + k.Name + "/lapsed-unswept+live"
		e := newIPoEEnv(t, ks, ipoeVariants[0], "10.16.0.0/28", "10.16.0.1", time.Second)
		e.real = true
		ctx, cancel := context.WithCancel(context.Background())
		errCh := make(chan error, 1)
		go func() { errCh <- e.srv.Start(ctx) }()
		select {
		case err := <-errCh:
			cancel()
			run.Inconclusive(cell, fmt.Sprintf("dhcp.Server.Start could not listen on lo:67: %v", err))
			continue
		case <-time.After(200 * time.Millisecond):
		}
		mk := func(name string, last byte) *dclient {
			c := &dclient{Name: name, mac: net.HardwareAddr{0x02, 0x16, 0xfe, 0, 3, last}}
			if k.Relayed {
				c.relay = net.IPv4(10, 250, 0, 1)
				c.cid = mkCID("SD"+name, k.CIDLen)
			}
			return c
		}
		waitStart := func(c *dclient) {
			for i := 0; i < 1000; i++ {
				if st, _ := rad.counts(c.sid); st > 0 {
					return
				}
				time.Sleep(5 * time.Millisecond)
			}
		}
		old, fresh := mk("old", 1), mk("new", 2)
		if !e.discover(old) || e.request(old, old.cid) != "ack" {
			cancel()
			<-errCh
			run.Inconclusive(cell, "first client could not be established")
			continue
		}
		waitStart(old)
		// until the first client's lease has lapsed (bounded)
		for i := 0; i < 1000; i++ {
			l, ok := e.srv.VerifC16Leases()[old.mac.String()]
			if !ok || time.Now().UnixNano() > l.ExpiresNS {
				break
			}
			time.Sleep(10 * time.Millisecond)
		}
		freshOK := e.discover(fresh) && e.request(fresh, fresh.cid) == "ack"
		if freshOK {
			waitStart(fresh)
		}
		ages := map[string]string{}
		now := time.Now().UnixNano()
		for mac, l := range e.srv.VerifC16Leases() {
			if now > l.ExpiresNS {
				ages[mac] = "lapsed-unswept-lease"
			} else {
				ages[mac] = "live-lease"
			}
		}
		cancel()
		var startErr error
		select {
		case startErr = <-errCh:
		case <-time.After(20 * time.Second):
			run.Inconclusive(cell, "Start did not return within 20 s of cancellation")
			continue
		}
		e.trace = append(e.trace, fmt.Sprintf("lease ages at cancellation: %v; Start returned %v", ages, startErr))
		time.Sleep(300 * time.Millisecond)
		run.Eval()
		run.Count("shutdown_real_cases", 1)
		run.Nontrivial(cell)
		for _, c := range []*dclient{old, fresh} {
			if c.sid == "" {
				continue
			}
			age, inTable := ages[c.mac.String()]
			if !inTable {
				age = "ended-before-shutdown"
			}
			starts, stops := rad.counts(c.sid)
			for i := 0; i < 1000 && starts >= 1 && stops == 0; i++ {
				// an exchange that timed out on a starved machine may still be sitting in the server's socket buffer
				time.Sleep(10 * time.Millisecond)
				starts, stops = rad.counts(c.sid)
			}
			run.Count("shutdown_real_sessions:"+age, 1)
			wit := map[string]any{"cell": cell, "client": c.Name, "session_id": c.sid, "lease_age": age, "starts": starts, "stops": stops, "history": e.trace}
			if starts >= 1 && stops != 1 {
				cls := "no-stop"
				if stops > 1 {
					cls = "stop-repeated"
				}
				run.Violation("dhcp.Server.stopAllAccounting", "one-stop-per-start", cls+"/"+age, fmt.Sprintf("real Start/cancel: client %s (%s): %d Accounting-Start and %d Accounting-Stop records", c.Name, age, starts, stops), wit)
			}
		}
	}
	rad.forget()
}
