package c16

// A session that ends by a path of its own while the server is shutting down. Start, once its context is cancelled,
// closes the listener and runs stopAllAccounting; handlers that were already running (server4 runs every packet in
// its own goroutine) and the sweep whose ticker was ready together with the cancellation still end sessions by
// RELEASE, DECLINE, expiry or the reclaim of a lapsed lease on a re-DISCOVER. The shutdown cells (shutdown_test.go)
// judge only accounting records; the cells of ipoe_test.go never meet a shutdown.
//
// Here the subject is ended by one of its own paths before, after, or at the same time as stopAllAccounting, and the
// full census of runIPoECell is judged: whichever of the two sent the Accounting-Stop, a session ended by RELEASE /
// DECLINE / expiry / reclaim holds nothing afterwards (lease, address, fast path keys, QoS policy, NAT block) and
// exactly one Stop was issued; ending it once more changes nothing. The neighbours, which no path of their own
// ended, are compared like any other bystander (what a server that goes down leaves for them is not judged).

import (
	"fmt"
	"net"
	"runtime"
	"sort"
	"strings"
	"sync"
	"testing"
	"testing/synctest"
	"time"

	"github.com/insomniacslk/dhcp/dhcpv4"

	"github.com/codelaboratoryltd/bng/pkg/radius"
)

var sdpPaths = []string{"release", "decline", "expiry", "lapse-rediscover"}
var sdpOrders = []string{"shutdown-first", "path-first", "at-once"}

func TestIPoEOwnPathDuringShutdown(t *testing.T) {
	ks := loadKernels(t)
	defer ks.close()
	n := 0
	for _, v := range []ipoeVariant{ipoeVariants[0], ipoeVariants[2]} {
		for _, k := range []ipoeKind{ipoeKinds[0], ipoeKinds[1]} {
			if !run.Thorough() && v.Radius == "acct-nak" && k.Relayed {
				continue
			}
			for _, prefix := range []string{"bound", "renewed"} {
				for _, path := range sdpPaths {
					for _, order := range sdpOrders {
						reps := 1
						if order == "at-once" {
							reps = run.Pick(2, 12)
						}
						for r := 0; r < reps; r++ {
							runOwnPathDuringShutdown(t, ks, v, k, prefix, path, order, n)
							n++
						}
					}
				}
			}
		}
	}
	rad.forget()
}

func runOwnPathDuringShutdown(t *testing.T, ks *kernels, v ipoeVariant, k ipoeKind, prefix, path, order string, idx int) {
	bubbleMu.Lock()
	defer bubbleMu.Unlock()
	rng := run.SubRand("shutdown-own-path", idx)
	geo := ipoeGeometries[rng.IntN(len(ipoeGeometries))]
	lease := []time.Duration{2 * time.Minute, 10 * time.Minute, time.Hour}[rng.IntN(3)]
	m3, m4 := byte(rng.IntN(256)), byte(rng.IntN(256))
	nBy := rng.IntN(3)
	yields := [2]int{rng.IntN(4), rng.IntN(4)}
	second := []string{"none", "same-again", "cleanup"}[rng.IntN(3)]
	cellName := fmt.Sprintf("shutdown-own-path/%s/%s/%s/%s/%s", v.Name, k.Name, prefix, path, order)
	synctest.Test(t, func(t *testing.T) {
		e := newIPoEEnv(t, ks, v, geo[0], geo[1], lease)
		if !e.addBystanders(nBy) {
			run.Inconclusive(cellName, "neighbours could not be established")
			return
		}
		sub := &dclient{Name: "subject", mac: net.HardwareAddr{0x02, 0x16, 0xfc, m3, m4, 0x51}}
		if k.Relayed {
			sub.relay = net.IPv4(10, 250, 0, 1)
			sub.cid = mkCID(fmt.Sprintf("SUBJ%c", 'A'+rng.IntN(26)), k.CIDLen)
		}
		s0 := e.census()
		if !e.establish(sub, k, prefix) {
			run.Inconclusive(cellName, "subject could not be established")
			return
		}
		sid, held0 := sub.sid, sub.ip
		s1 := e.census()
		held, _, _ := s1.diff(s0)
		lapses := path == "expiry" || path == "lapse-rediscover"
		if lapses {
			// the lease has run out before the server goes down; what ends the session is the sweep / the DISCOVER in flight
			e.advancePastLease()
		}
		peer := &net.UDPAddr{IP: net.IPv4bcast, Port: 68}
		var msg *dhcpv4.DHCPv4
		switch path {
		case "release":
			msg = e.msg(sub, dhcpv4.MessageTypeRelease, nil, sub.ip, sub.cid)
		case "decline":
			msg = e.msg(sub, dhcpv4.MessageTypeDecline, sub.ip, nil, sub.cid)
		case "lapse-rediscover":
			msg = e.msg(sub, dhcpv4.MessageTypeDiscover, nil, nil, sub.cid)
		}
		var panics [2]string
		own := func() {
			if msg != nil {
				panics[0] = guard(func() { e.srv.VerifHandle(e.conn, peer, msg) })
			} else {
				panics[0] = guard(func() { e.srv.VerifCleanupExpired() })
				if panics[0] != "" {
					e.wedged = true
				}
			}
		}
		down := func() {
			panics[1] = guard(func() { e.srv.VerifC16StopAllAccounting(radius.TerminateCauseNASReboot) })
		}
		stopsBeforeOwn := -1
		switch order {
		case "shutdown-first":
			down()
			synctest.Wait()
			_, stopsBeforeOwn = rad.counts(sid)
			e.trace = append(e.trace, fmt.Sprintf("shutdown: stopAllAccounting(NAS-Reboot)%s; the server has %d Accounting-Stop for the subject", panicNote(panics[1]), stopsBeforeOwn))
			own()
			synctest.Wait()
			e.trace = append(e.trace, fmt.Sprintf("subject %s (was in flight when the server went down)%s", path, panicNote(panics[0])))
		case "path-first":
			own()
			synctest.Wait()
			e.trace = append(e.trace, fmt.Sprintf("subject %s%s", path, panicNote(panics[0])))
			down()
			synctest.Wait()
			e.trace = append(e.trace, "shutdown: stopAllAccounting(NAS-Reboot)"+panicNote(panics[1]))
		case "at-once":
			var wg sync.WaitGroup
			start := make(chan struct{})
			for i, f := range []func(){own, down} {
				wg.Add(1)
				go func() {
					defer wg.Done()
					<-start
					for y := yields[i]; y > 0; y-- {
						runtime.Gosched() // seeded: which of the two gets ahead
					}
					f()
				}()
			}
			close(start)
			wg.Wait()
			synctest.Wait()
			e.trace = append(e.trace, fmt.Sprintf("subject %s%s and shutdown: stopAllAccounting(NAS-Reboot)%s at the same time", path, panicNote(panics[0]), panicNote(panics[1])))
		}
		if path == "lapse-rediscover" {
			if r := e.conn.take(); r != nil && r.MessageType() == dhcpv4.MessageTypeOffer {
				sub.ip, sub.bound = r.YourIPAddr, false
				e.reoffer = r.YourIPAddr
				e.trace = append(e.trace, fmt.Sprintf("  -> OFFER %v", sub.ip))
			}
		} else {
			e.conn.take()
		}
		cell := ipoeCell{v.Name, k.Name, prefix, path, "none"}
		comp := componentOfPath[path]
		wit := func() any {
			return map[string]any{"cell": cellName, "subject": sub.mac.String(), "address": fmt.Sprint(held0), "circuit_id": string(sub.cid), "session_id": sid, "lease_time": lease.String(), "held_after_establishment": held, "history": append([]string(nil), e.trace...)}
		}
		run.Eval()
		run.Count("shutdown_own_path_cells", 1)
		run.Count("shutdown_own_path:"+path+"/"+order, 1)
		run.Distinct("shutdown_own_path_cells", cellName)
		if len(held) > 0 {
			run.Nontrivial(cellName)
		}
		if stopsBeforeOwn >= 1 {
			// the class this file is about: shutdown had already closed the accounting session when the path of its own ran
			run.Count("shutdown_own_path_after_shutdown_stop", 1)
			run.Count("shutdown_own_path_after_shutdown_stop:"+path, 1)
		}
		ctx := "while-shutting-down(" + order + ")"
		for i, p := range panics {
			if p != "" {
				c := comp
				if i == 1 {
					c = "dhcp.Server.stopAllAccounting"
				}
				run.Violation(c, "terminates-without-crash", "panic/"+ctx, fmt.Sprintf("%s with %s: panic: %s", path, order, p), wit())
			}
		}
		if e.wedged {
			return
		}
		s2 := e.census()
		if e.reoffer != nil {
			// the address reserved by the client's new DISCOVER belongs to its next session, not to the one that ended
			delete(s2.tab("pool.allocated"), sub.mac.String())
			s2.tab("pool.available")[e.reoffer.String()] = ""
		}
		jsub := *sub
		jsub.ip = held0
		found := judgeIPoE(cell, &jsub, s0, s2, false, wit)
		if len(found) > 0 {
			added, lost, changed := s2.diff(s0)
			byRule := map[string][]string{}
			for _, f := range keysOf(found) {
				rc := strings.SplitN(f, "|", 2)
				byRule[rc[0]] = append(byRule[rc[0]], rc[1])
			}
			var rules []string
			for r := range byRule {
				rules = append(rules, r)
			}
			sort.Strings(rules)
			for _, r := range rules {
				run.Violation(comp, r, strings.Join(byRule[r], "+")+"/"+ctx, fmt.Sprintf("the subject was ended by %s (%s, %s) while the server shut down (%s); compared with before its session: still there %v, missing %v, changed %v", path, k.Name, prefix, order, added, lost, changed), wit())
			}
		}
		starts, stops := rad.counts(sid)
		run.Count("shutdown_own_path_acct_starts_observed", starts)
		run.Count("shutdown_own_path_acct_stops_observed", stops)
		if starts >= 1 && stops != 1 {
			cls := "no-stop"
			if stops > 1 {
				cls = "stop-repeated"
			}
			run.Violation(comp, "one-stop-per-start", cls+"/"+ctx, fmt.Sprintf("session %s ended by %s while the server shut down (%s): %d Accounting-Start and %d Accounting-Stop records", sid, path, order, starts, stops), wit())
		}
		left, _, _ := s2.diff(s0)
		run.Count("shutdown_own_path_resources_left", len(left))
		// ended once more: nothing further
		if second == "none" {
			return
		}
		acct1 := rad.total()
		var p2 string
		what := second
		if second == "same-again" && msg != nil && path != "lapse-rediscover" {
			what = path + " repeated"
			p2 = guard(func() { e.srv.VerifHandle(e.conn, peer, msg) })
			synctest.Wait()
			e.conn.take()
			e.trace = append(e.trace, "subject "+what+panicNote(p2))
		} else {
			what = "cleanup"
			p2 = e.cleanup()
		}
		comp2 := componentOfPath["expiry"]
		if what != "cleanup" {
			comp2 = comp
		}
		if p2 != "" {
			run.Violation(comp2, "second-termination-no-effect", "panic/"+ctx, fmt.Sprintf("%s after %s panicked: %s", what, path, p2), wit())
			return
		}
		s3 := e.census()
		if e.reoffer != nil {
			delete(s3.tab("pool.allocated"), sub.mac.String())
			s3.tab("pool.available")[e.reoffer.String()] = ""
		}
		a3, l3, c3 := s3.diff(s2)
		var eff []string
		for _, x := range append(append(a3, l3...), c3...) {
			tb := tableOf(x)
			if path == "decline" && what != "cleanup" && held0 != nil && (tb == "pool.unavailable" || tb == "pool.available" || tb == "pool.total") && (strings.Contains(x, held0.String()) || tb == "pool.total") {
				continue // a DECLINE of an address the client no longer holds may quarantine it
			}
			eff = append(eff, x)
		}
		if len(eff) > 0 {
			run.Violation(comp2, "second-termination-no-effect", strings.Join(tablesOf(eff), "+")+"/after-"+path+"/"+ctx, fmt.Sprintf("%s after %s changed: %v", what, path, eff), wit())
		}
		if n := rad.total() - acct1; n != 0 {
			run.Violation(comp2, "second-termination-no-effect", "accounting-records/after-"+path+"/"+ctx, fmt.Sprintf("%s after %s issued %d accounting records", what, path, n), wit())
		}
		run.Count("shutdown_own_path_second_terminations", 1)
	})
}
