// Package c16 is the runtime monitor for property C16: ending a session by any
// path releases everything it held, exactly one Accounting-Stop follows a
// Start, and ending it twice (or by two paths at once) has no further effect.
package c16

import (
	"fmt"
	"os"
	"sort"
	"strings"
	"sync"
	"sync/atomic"
	"syscall"
	"testing"

	"verif/harness/internal/vk"
)

var (
	run *vk.Run
	rad *radSrv
	// closedPort is a loopback UDP port pair (p, p+1) nobody listens on.
	closedPort int
	// bubbleMu serialises testing/synctest bubbles (go1.25.0: WaitGroup.Add from two bubbles crashes the runtime).
	bubbleMu sync.Mutex
)

// harnessFailed is set when the harness itself could not do its job (as opposed to testing's own
// "race detected during execution of test", which is judged from the detector's log).
var harnessFailed atomic.Bool

func hfatalf(t *testing.T, format string, a ...any) {
	t.Helper()
	harnessFailed.Store(true)
	t.Fatalf(format, a...)
}

func TestMain(m *testing.M) {
	// Race reports are judged from the detector's log (JudgeRaces): the detector must not turn the
	// exit status of the check into its own 66 when it saw a race outside the property's anchors.
	if g := os.Getenv("GORACE"); g != "" && !strings.Contains(g, "exitcode=") {
		os.Setenv("GORACE", g+" exitcode=0")
		if exe, err := os.Executable(); err == nil {
			_ = syscall.Exec(exe, os.Args, os.Environ())
		}
	}
	run = vk.Start("C16", "exploration")
	run.Rule("cells of (session type x establishment prefix x termination path x second termination, sequential or concurrent) are enumerated in full for four systems built from bng's own code: (A) dhcp.Server + PoolManager + qos.Manager + nat.Manager + ebpf.Loader over the real kernel maps of the loaded working-tree objects, with radius.Client talking to a harness RADIUS server on loopback, composed as cmd/bng/main.go does; (B) pppoe.Server over the in-memory raw socket; (C) pppoe.SessionTeardown / KeepAliveManager over the real SessionManager and IPPool; (D) subscriber.Manager with a recording allocator, and radius.CoAProcessor + AccountingManager in front of it. A resource census (pool snapshot, lease table and circuit-id index, every fast-path map, QoS and NAT maps and manager tables, accounting records received per Acct-Session-Id) is taken before establishment, after establishment, after termination and after the second termination; non-trivial = distinct cell in which the census after establishment showed at least one resource held by the subject that the census before did not. Added classes: (1) establishment of system A with a fault at every resource-programming step (each kernel map Put of fast path / VLAN / circuit-id / QoS egress / QoS ingress / NAT, NAT pool exhaustion, refused Accounting-Start, refused address REQUEST, exhausted address pool; persisting or cleared before a renewal) x termination paths release / decline / expiry / lapse-rediscover, then ended twice more; (2) double termination with the second caller arriving while the first is held at a controlled point: pppoe.SessionTeardown (36 ordered path pairs x {PADT callback, eBPF callback, RADIUS Stop exchange, address release} of the subject's own first termination, and x {eBPF callback, RADIUS Stop exchange, address release} of an unrelated session's teardown that holds the teardown lock), subscriber.Manager ({TerminateSession, cleanup loop} x {TerminateSession, cleanup loop, Stop, CoA Disconnect-Request} x {between check and removal, inside the allocator's release of the IPv4 / IPv6 address, inside each terminate-event handler, inside the Accounting-Stop exchange of the accounting handler} x an operation of the establishment sequence arriving in between {none, UpdateActivity, ActivateSession, Set/ClearWalledGarden, Authenticate}); non-trivial = the held point was reached; (3) establishment cut short at every phase (DISCOVER only, repeated DISCOVER, refused REQUEST, DECLINE / RELEASE of the offer, DISCOVER after a released or lapsed session) followed by silence and the once-a-minute sweeps under virtual time, with no neighbour, renewing neighbours, long-lease neighbours, or a neighbour whose lease expires in the same sweep; (4) faults during termination: every external step of a termination path fails once or until cleared - the eBPF callback of pppoe.SessionTeardown returns an error, the Accounting-Stop exchange is refused or times out (the harness server has the record and answers with a reject / not at all), the allocator of subscriber.Manager refuses the release of the IPv4 / IPv6 address, the kernel refuses the delete from each fast-path / circuit-id / QoS / NAT map (the manager holds a read-only handle of the same kernel map) - x every termination path, then the fault is gone and the session is ended once more by every path a client, an operator or the system would take (second PADT / RELEASE, TerminateByID / ByMAC / ByUsername / TerminateAll, the next sweep / cleanup tick, shutdown); judged after that retry; non-trivial = the fault was met (error returned / record received under the fault / entry still in the refused map after the first attempt); (5) shutdown at every phase and lease age: stopAllAccounting of dhcp.Server with the subject offered-only, declined, refused, bound, renewed, expiring at this instant, lapsed but unswept (1 ns .. 59 s), lapsed and swept, released, re-DISCOVERed after a lapse, bound again after a lapse, with and without the sweep that was in flight at cancellation, plus the real Start/cancel with one-second leases; pppoe.Server.Stop with sessions in each phase; TerminateAll and subscriber.Manager.Stop over populations with sessions in every phase; (6) context-honouring collaborators: every termination path of subscriber.Manager (TerminateSession with each reason, re-authentication failure, idle / session timeout through the cleanup loop, Stop, Disconnect-Request through radius.CoAProcessor and through the real radius.CoAServer on loopback UDP, sessions that arrive after Stop ended by TerminateSession or a second Stop) and terminations that race with shutdown (a release of TerminateSession / the cleanup tick / a Disconnect-Request is in flight when Stop or the cancellation of the CoA server's context arrives; Stop's own release is in flight when an operator ends the same session) x {addressed, active} x {IPv4, IPv4+IPv6} x 1..3 neighbours, against (a) the recording allocator behind a front that sends nothing on a done context and abandons a request in flight when its context ends, under virtual time, and (b) the real nexus.HTTPAllocator talking to a harness allocation service over HTTP, with radius.AccountingManager + radius.Client as the accounting handler and an authenticator that honours its context, in real time; no fault is injected, every cell ends with Stop; non-trivial = the subject held an address in the allocator's table after establishment and at least one release request for it reached the allocator; (7) a session of system A ended by a path of its own (RELEASE, DECLINE, the sweep, the reclaim of a lapsed lease on a re-DISCOVER) before, after or at the same time as the shutdown path stopAllAccounting, x {bound, renewed} x 0..2 neighbours, full census judged and then ended once more; (8) several sessions under one lookup key of pppoe.SessionTeardown: seeded populations of two MACs with 1..3 sessions each (RFC 2516 allows several sessions per MAC; user names shared or not; phases unauthenticated / authenticated / established, creation order interleaved) ended step by step by seeded sequences of client PADT, TerminateSession, TerminateByID, TerminateByMAC, TerminateByUsername and finally cleared by TerminateByMAC, judged after every step; non-trivial = distinct (population, creation order, path sequence) with a MAC that holds several sessions")
	run.Assume("the RADIUS server is the harness's own (RFC 2865/2866 encoder written from the RFC); a Start/Stop counts as issued when the server received it, whatever it answered")
	run.Assume("fault injection: a fault at a map Put is a real kernel hash map (same key/value sizes as the loaded object's map, a dozen entries) handed to the manager through VerifSetMaps and filled with the neighbours' entries plus foreign keys until the kernel refuses the next insert (E2BIG), as a full production map does; NAT exhaustion = every port block taken by other private addresses; accounting fault = the server receives the record and answers with a reject")
	run.Assume("overlap cases run in real time with bounded waits (a goroutine waiting for a mutex is not durably blocked for synctest); the oracle of these cases only counts records, releases and events after every held caller has been let go, so a slow machine can make a case less sharp (second caller not yet at the lock) but cannot produce a violation")
	run.Assume("an abandoned offer must be gone two sweeps after its hold time (the server sweeps once a minute; the statement sets no deadline, two sweeps is the bound chosen here)")
	run.Assume("QoS policies are the repository's DefaultPolicies (cmd/bng/main.go never loads any, so without this the QoS clause would be vacuous)")
	run.Assume("a DECLINEd address may be quarantined instead of returned to the free list (RFC 2131 4.3.3); it must not stay allocated to the client")
	run.Assume("termination faults: the fast-path leaf of pppoe.SessionTeardown is the harness's recording callback (an error means nothing was removed); a read-only map handle refuses Put and Delete with EPERM and leaves the table readable; when the exchange of the first Accounting-Stop failed, a Stop record that is sent again is not counted as a second Stop")
	run.Assume("shutdown: the in-memory tables and kernel maps of a dhcp.Server / pppoe.Server that shuts down die with the process - what they still hold is counted, not judged; judged are the accounting records (one Stop per Start by the end of shutdown) and, for subscriber.Manager and SessionTeardown whose allocator / pool / fast path are external, everything")
	run.Assume("context-honouring collaborators: the allocator table that counts is the recording table / the table of the remote allocation service; a slow service that finds the client has hung up before it carried a DELETE out does not carry it out; the glue between radius.CoAProcessor and subscriber.Manager is the one-line terminator that passes the context it is given on to TerminateSession; the dhcp and pppoe servers hand no context of their own to a collaborator on a termination path other than the shutdown path of dhcp.Server.Start, which the real Start/cancel cells drive with the real radius.Client")
	run.Assume("own path during shutdown: what a dhcp.Server that goes down leaves for sessions nothing else ended is not judged (previous assumption), but a session that a RELEASE / DECLINE / sweep / reclaim ends holds nothing afterwards whether or not the shutdown path had already sent its Accounting-Stop: the release of the address, fast path keys, QoS policy and NAT block by these paths does not depend on who closed the accounting record (the QoS and NAT managers are objects of their own that outlive dhcp.Server.Start)")
	run.Assume("shared keys: TerminateByMAC called while the MAC has a session in the session table must end at least one session of that MAC (which one, or all of them, is left open); a path that addresses a session by handle or id ends exactly that one; TerminateByUsername ends every session of the name")
	run.Assume("Stop-without-Start is recorded as an observation only: the statement demands a Stop for every Start, not the converse")
	// floors: far below what the quick tier observes; falling under them means the harness could not judge
	for k, n := range map[string]int64{
		"ipoe_cells": 400, "ipoe_second_terminations": 300, "ipoe_concurrent_pairs": 150, "ipoe_acct_starts_observed": 100,
		"ipoe_held_map:subscriber_pools": 100, "ipoe_held_map:qos_egress": 100, "ipoe_held_map:subscriber_nat": 100, "ipoe_held_map:circuit_id_subscribers": 50,
		"pppoe_server_cells": 50, "teardown_cells": 80, "teardown_concurrent_pairs": 20, "keepalive_dead_peer_cases": 1,
		"subscriber_cells": 100, "subscriber_hook_point_reached": 6, "coa_disconnect_cases": 4,
		// fault positions x termination paths reached, overlap points x path pairs, phases x sweeps
		"fault_cells": 150, "fault_position_x_path_pairs_reached": 40, "fault_observed:qos-ingress-put": 8, "fault_observed:qos-egress-put": 8, "fault_observed:nat-subscriber-put": 8,
		"fault_observed:fastpath-mac-put": 8, "fault_observed:circuit-id-hash-put": 4, "fault_observed:circuit-id-subscriber-put": 4, "fault_observed:nat-pool-exhausted": 8, "fault_observed:every-map-full": 8,
		"fault_observed:accounting-start-refused": 8, "fault_observed:address-request-refused": 8, "fault_observed:address-pool-exhausted": 8, "fault_second_terminations": 200,
		"overlap_teardown_cases": 100, "overlap_teardown_point_reached": 100, "overlap_teardown_point_x_pair_reached": 100, "overlap_teardown_held:other/ebpf-callback": 20, "overlap_teardown_held:other/radius-stop": 20,
		"overlap_subscriber_cases": 100, "overlap_subscriber_point_x_pair_reached": 30, "overlap_subscriber_point:terminate-handler-1": 10, "overlap_subscriber_point:terminate-handler-radius-stop": 10, "overlap_subscriber_point:between-check-and-remove": 10,
		"subscriber_fault_cells": 15, "phase_sweep_cells": 40, "phase_sweep_cells_with_reservation": 25, "sweeps_with_no_expired_lease": 100, "sweeps_with_an_expired_lease": 5,
		// faults during termination, shutdown phases
		"termfault_teardown_cells": 100, "termfault_teardown_fault_reached": 100, "termfault_teardown_fault_reached:ebpf-callback-error": 60, "termfault_teardown_fault_reached:radius-stop-failed": 30,
		"termfault_teardown_fault_x_first_path_reached": 20, "termfault_teardown_population_shutdowns": 2, "pppoe_server_stop_cells": 6,
		"termfault_subscriber_cells": 50, "termfault_subscriber_fault_reached": 50, "termfault_subscriber_fault_x_first_path_reached": 8,
		"termfault_ipoe_cells": 80, "termfault_ipoe_delete_refused_observed": 60, "termfault_ipoe_position_x_path_reached": 24,
		"termfault_ipoe_delete_refused_observed:fastpath-mac-delete": 6, "termfault_ipoe_delete_refused_observed:qos-egress-delete": 6, "termfault_ipoe_delete_refused_observed:nat-subscriber-delete": 6, "termfault_ipoe_delete_refused_observed:circuit-id-subscriber-delete": 6,
		"shutdown_phase_cells": 60, "shutdown_sessions_with_start:lapsed-unswept-lease": 4, "shutdown_sessions_with_start:lease-expiring-now": 4, "shutdown_sessions_with_start:live-lease": 60, "shutdown_sessions_with_start:ended-before-shutdown": 15,
		// context-honouring collaborators: cells, release requests that reached the allocator, releases held in flight
		"ctx_cells": 60, "ctx_cells:ctx-honouring": 40, "ctx_cells:nexus-http": 15, "ctx_cells_with_release_of_a_held_address": 60, "ctx_release_requests_reached_allocator": 200,
		"ctx_release_in_flight_reached": 12, "ctx_held_point_x_path_reached": 6, "ctx_http_deletes_received_by_service": 40, "ctx_final_shutdown_sessions": 50,
		"ctx_path:shutdown": 3, "ctx_path:late-session/stop-again": 3, "ctx_path:stop-in-flight+terminate": 3, "ctx_path:cleanup-tick-in-flight-at-stop": 3, "ctx_path:coa-server/disconnect-request-in-flight-at-shutdown": 2,
		// own path while shutting down; several sessions under one key
		"shutdown_own_path_cells": 60, "shutdown_own_path_after_shutdown_stop": 16, "shutdown_own_path_after_shutdown_stop:release": 4, "shutdown_own_path_after_shutdown_stop:decline": 4,
		"shutdown_own_path_after_shutdown_stop:expiry": 4, "shutdown_own_path_after_shutdown_stop:lapse-rediscover": 4, "shutdown_own_path_second_terminations": 15,
		"shared_key_cases": 40, "shared_key_steps": 150, "shared_key_by_mac_with_live_session": 80, "shared_key_by_mac_after_a_session_of_the_mac_ended": 40, "shared_key_by_mac_after_newest_session_of_the_mac_ended": 15,
		"ipoe_path_lapse-rediscover": 40, "ipoe_path_lapse-rediscover-request": 40, "ipoe_lapse_rediscover_new_session_observed": 30,
	} {
		run.Floor(k, n)
	}
	var err error
	rad, err = newRadSrv()
	if err != nil {
		fmt.Printf("INCONCLUSIVE property=C16 case=harness reason=cannot start loopback RADIUS server: %v\n", err)
		os.Exit(2)
	}
	closedPort = probeClosedPort()
	code := m.Run()
	c16bpffsTeardown()
	run.JudgeRaces([]string{"pkg/dhcp/server.go", "pkg/pppoe/server.go", "pkg/pppoe/teardown.go", "pkg/pppoe/session.go", "pkg/subscriber/manager.go", "pkg/nat/manager.go", "pkg/qos/manager.go", "pkg/ebpf/loader.go"})
	if code != 0 && !harnessFailed.Load() && len(vk.RaceReports()) > 0 {
		// the only way a test of this package fails without harnessFailed is testing's own
		// "race detected during execution of test"; those reports have just been judged
		code = 0
	}
	ec := run.Finish()
	if code != 0 && ec == 0 {
		ec = 2
	}
	os.Exit(ec)
}

// ---------------------------------------------------------------- census helpers

// kv is one named table of the census: key -> value, both printable.
type kv map[string]string

// census is everything observable that a session may hold.
type census struct {
	T map[string]kv // table name -> contents
}

func newCensus() *census { return &census{T: map[string]kv{}} }

func (c *census) tab(name string) kv {
	t := c.T[name]
	if t == nil {
		t = kv{}
		c.T[name] = t
	}
	return t
}

// diff lists "table[key]" entries present in c but not in base (added), and present in base but not in c (lost).
func (c *census) diff(base *census) (added, lost, changed []string) {
	names := map[string]bool{}
	for n := range c.T {
		names[n] = true
	}
	for n := range base.T {
		names[n] = true
	}
	for n := range names {
		a, b := c.T[n], base.T[n]
		for k, v := range a {
			if bv, ok := b[k]; !ok {
				added = append(added, n+"["+k+"]="+v)
			} else if bv != v {
				changed = append(changed, n+"["+k+"]: "+bv+" -> "+v)
			}
		}
		for k, v := range b {
			if _, ok := a[k]; !ok {
				lost = append(lost, n+"["+k+"]="+v)
			}
		}
	}
	sort.Strings(added)
	sort.Strings(lost)
	sort.Strings(changed)
	return
}

// tableOf returns the table name of a diff entry ("table[key]=v").
func tableOf(entry string) string {
	if i := strings.IndexByte(entry, '['); i > 0 {
		return entry[:i]
	}
	return entry
}

func tablesOf(entries []string) []string {
	seen := map[string]bool{}
	var out []string
	for _, e := range entries {
		t := tableOf(e)
		if !seen[t] {
			seen[t] = true
			out = append(out, t)
		}
	}
	sort.Strings(out)
	return out
}

// guard runs f and reports a panic as a string ("" if none).
func guard(f func()) (p string) {
	defer func() {
		if r := recover(); r != nil {
			p = fmt.Sprint(r)
		}
	}()
	f()
	return ""
}

func probeClosedPort() int {
	for i := 0; i < 50; i++ {
		a, b, p := listenPair()
		if a == nil {
			continue
		}
		a.Close()
		b.Close()
		return p
	}
	return 0
}
