package c16

// System A: dhcp.Server + PoolManager + qos.Manager + nat.Manager + ebpf.Loader over
// real kernel maps + radius.Client, composed as cmd/bng/main.go composes them.

import (
	"context"
	"encoding/hex"
	"fmt"
	"net"
	"runtime"
	"sort"
	"strings"
	"sync"
	"testing"
	"testing/synctest"
	"time"

	"github.com/cilium/ebpf"
	"github.com/insomniacslk/dhcp/dhcpv4"
	"go.uber.org/zap"

	"github.com/codelaboratoryltd/bng/pkg/dhcp"
	bngebpf "github.com/codelaboratoryltd/bng/pkg/ebpf"
	"github.com/codelaboratoryltd/bng/pkg/nat"
	"github.com/codelaboratoryltd/bng/pkg/qos"
	"github.com/codelaboratoryltd/bng/pkg/radius"

	"verif/harness/internal/cplane"
)

// ---------------------------------------------------------------- capturing PacketConn

type capConn struct {
	mu   sync.Mutex
	sent [][]byte
}

func (c *capConn) ReadFrom(p []byte) (int, net.Addr, error) { select {} }
func (c *capConn) WriteTo(p []byte, a net.Addr) (int, error) {
	c.mu.Lock()
	c.sent = append(c.sent, append([]byte(nil), p...))
	c.mu.Unlock()
	return len(p), nil
}
func (c *capConn) Close() error                       { return nil }
func (c *capConn) LocalAddr() net.Addr                { return &net.UDPAddr{IP: net.IPv4zero, Port: 67} }
func (c *capConn) SetDeadline(t time.Time) error      { return nil }
func (c *capConn) SetReadDeadline(t time.Time) error  { return nil }
func (c *capConn) SetWriteDeadline(t time.Time) error { return nil }
func (c *capConn) take() *dhcpv4.DHCPv4 {
	c.mu.Lock()
	defer c.mu.Unlock()
	if len(c.sent) == 0 {
		return nil
	}
	b := c.sent[len(c.sent)-1]
	c.sent = nil
	m, err := dhcpv4.FromBytes(b)
	if err != nil {
		return nil
	}
	return m
}

// ---------------------------------------------------------------- kernel maps shared by all cases

type kernels struct {
	dhcp, qos, nat *cplane.Kernel
}

var censusMaps = map[string][]string{
	"dhcp": {"subscriber_pools", "vlan_subscriber_pools", "circuit_id_map", "circuit_id_subscribers"},
	"qos":  {"qos_egress", "qos_ingress"},
	"nat":  {"subscriber_nat"},
}

func loadKernels(t *testing.T) *kernels {
	ks := &kernels{}
	var err error
	if ks.dhcp, err = cplane.LoadKernel("dhcp_fastpath"); err != nil {
		hfatalf(t, "load dhcp_fastpath: %v", err)
	}
	if ks.qos, err = cplane.LoadKernel("qos_ratelimit"); err != nil {
		hfatalf(t, "load qos_ratelimit: %v", err)
	}
	if ks.nat, err = cplane.LoadKernel("nat44"); err != nil {
		hfatalf(t, "load nat44: %v", err)
	}
	return ks
}

func (ks *kernels) close() {
	ks.dhcp.Close()
	ks.qos.Close()
	ks.nat.Close()
}

func clearHash(k *cplane.Kernel) {
	for _, m := range k.Coll.Maps {
		if m.Type() != ebpf.Hash && m.Type() != ebpf.LRUHash {
			continue
		}
		var keys [][]byte
		key := make([]byte, m.KeySize())
		val := make([]byte, m.ValueSize())
		it := m.Iterate()
		for it.Next(&key, &val) {
			keys = append(keys, append([]byte(nil), key...))
		}
		for _, kk := range keys {
			m.Delete(kk)
		}
	}
}

func dumpMap(m *ebpf.Map, valPrefix int) kv {
	out := kv{}
	if m == nil {
		return out
	}
	key := make([]byte, m.KeySize())
	val := make([]byte, m.ValueSize())
	it := m.Iterate()
	for it.Next(&key, &val) {
		v := val
		if valPrefix > 0 && valPrefix < len(v) {
			v = v[:valPrefix]
		}
		out[hex.EncodeToString(key)] = hex.EncodeToString(v)
	}
	return out
}

// ---------------------------------------------------------------- environment

type ipoeVariant struct {
	Name   string
	Loader bool
	QoS    bool
	NAT    bool
	Radius string // "none", "acct" (accounting only), "auth" (RADIUSAuthEnabled), "acct-nak" (records received, not acknowledged)
}

var ipoeVariants = []ipoeVariant{
	{"full", true, true, true, "acct"},
	{"full-auth", true, true, true, "auth"},
	{"full-acct-refused", true, true, true, "acct-nak"},
	{"no-ebpf", false, false, false, "acct"},
	{"ebpf-only", true, false, false, "none"},
}

type dclient struct {
	Name  string
	mac   net.HardwareAddr
	relay net.IP
	cid   []byte
	ip    net.IP // offered / bound address
	sid   string
	bound bool
}

type ipoeEnv struct {
	v      ipoeVariant
	ks     *kernels
	srv    *dhcp.Server
	pool   *dhcp.Pool
	ld     *bngebpf.Loader
	qm     *qos.Manager
	nm     *nat.Manager
	conn   *capConn
	lease  time.Duration
	xid    uint32
	trace  []string
	wedged bool // a termination path panicked while holding a server lock: server state must not be read any more
	real   bool // not inside a synctest bubble (real sockets, wall clock)
	by     []*dclient
	// alt holds kernel maps that replace the loaded object's maps of the same name for this
	// environment (fault injection: a real hash map of max_entries 1 that is already full)
	alt map[string]*ebpf.Map
	// prevSid is the accounting session id of the session that a lapse-rediscover path ended;
	// reoffer is the address reserved for the client's next session by that DISCOVER
	prevSid string
	reoffer net.IP
	newSid  string
}

// kmap returns the kernel map the environment's managers were given under this name.
func (e *ipoeEnv) kmap(group, name string) *ebpf.Map {
	if m := e.alt[name]; m != nil {
		return m
	}
	switch group {
	case "dhcp":
		return e.ks.dhcp.Coll.Maps[name]
	case "qos":
		return e.ks.qos.Coll.Maps[name]
	case "nat":
		return e.ks.nat.Coll.Maps[name]
	}
	return nil
}

func newIPoEEnv(t *testing.T, ks *kernels, v ipoeVariant, network, gateway string, lease time.Duration) *ipoeEnv {
	clearHash(ks.dhcp)
	clearHash(ks.qos)
	clearHash(ks.nat)
	e := &ipoeEnv{v: v, ks: ks, conn: &capConn{}, lease: lease}
	if v.Loader {
		e.ld, _ = bngebpf.NewLoader("lo", zap.NewNop())
		e.ld.VerifSetMaps(ks.dhcp.Coll.Maps)
	}
	pm := dhcp.NewPoolManager(e.ld, nil)
	var err error
	e.pool, err = dhcp.NewPool(dhcp.PoolConfig{ID: 1, Name: "p", Network: network, Gateway: gateway, DNSServers: []string{"9.9.9.9"}, LeaseTime: lease})
	if err != nil {
		hfatalf(t, "%v", err)
	}
	pm.AddPool(e.pool)
	e.srv, err = dhcp.NewServer(dhcp.ServerConfig{Interface: "lo", ServerIP: net.ParseIP(gateway), RADIUSAuthEnabled: v.Radius == "auth"}, e.ld, pm, zap.NewNop())
	if err != nil {
		hfatalf(t, "%v", err)
	}
	if v.Radius != "none" {
		nas := "c16-nas"
		if v.Radius == "acct-nak" {
			nas = "c16-nas-nak"
		}
		rc, err := radius.NewClient(radius.ClientConfig{
			Servers: []radius.ServerConfig{{Host: "127.0.0.1", Port: rad.port, Secret: radSecret}},
			NASID:   nas, Timeout: 5 * time.Second, Retries: 1,
			RateLimit: radius.RateLimitConfig{RequestsPerSecond: 1e6, BurstSize: 100000},
		}, zap.NewNop())
		if err != nil {
			hfatalf(t, "%v", err)
		}
		e.srv.SetRADIUSClient(rc)
	}
	pol := radius.NewPolicyManager()
	pol.LoadDefaultPolicies()
	e.srv.SetPolicyManager(pol)
	if v.QoS {
		e.qm, _ = qos.NewManager(qos.ManagerConfig{Interface: "lo"}, pol, zap.NewNop())
		e.qm.VerifSetMaps(ks.qos.Coll.Maps["qos_egress"], ks.qos.Coll.Maps["qos_ingress"], ks.qos.Coll.Maps["qos_stats_map"])
		e.srv.SetQoSManager(e.qm)
	}
	if v.NAT {
		e.nm, _ = nat.NewManager(nat.ManagerConfig{Interface: "lo", PortsPerSubscriber: 1024, PortRangeStart: 1024, PortRangeEnd: 65535}, zap.NewNop())
		e.nm.VerifSetMaps(ks.nat.Coll.Maps)
		e.nm.AddPublicIP(net.IPv4(203, 0, 113, 7))
		e.nm.AddPublicIP(net.IPv4(203, 0, 113, 8))
		e.srv.SetNATManager(e.nm)
	}
	return e
}

func (e *ipoeEnv) msg(c *dclient, mt dhcpv4.MessageType, req, ciaddr net.IP, cid []byte) *dhcpv4.DHCPv4 {
	mods := []dhcpv4.Modifier{dhcpv4.WithMessageType(mt), dhcpv4.WithHwAddr(c.mac)}
	if req != nil {
		mods = append(mods, dhcpv4.WithOption(dhcpv4.OptRequestedIPAddress(req)))
	}
	if ciaddr != nil {
		mods = append(mods, dhcpv4.WithClientIP(ciaddr))
	}
	if c.relay != nil {
		mods = append(mods, dhcpv4.WithGatewayIP(c.relay))
		if cid != nil {
			mods = append(mods, dhcpv4.WithOption(dhcpv4.OptRelayAgentInfo(dhcpv4.OptGeneric(dhcpv4.GenericOptionCode(1), cid), dhcpv4.OptGeneric(dhcpv4.GenericOptionCode(2), []byte("relay-1")))))
		}
	}
	m, _ := dhcpv4.New(mods...)
	e.xid++
	m.TransactionID = dhcpv4.TransactionID{byte(e.xid >> 24), byte(e.xid >> 16), byte(e.xid >> 8), byte(e.xid)}
	return m
}

// send hands one message to the real handler and returns the reply (nil if none) and a panic text.
func (e *ipoeEnv) send(m *dhcpv4.DHCPv4) (*dhcpv4.DHCPv4, string) {
	p := guard(func() { e.srv.VerifHandle(e.conn, &net.UDPAddr{IP: net.IPv4bcast, Port: 68}, m) })
	if !e.real {
		synctest.Wait() // accounting goroutines started by the handler have finished
	}
	return e.conn.take(), p
}

func (e *ipoeEnv) discover(c *dclient) bool {
	r, _ := e.send(e.msg(c, dhcpv4.MessageTypeDiscover, nil, nil, c.cid))
	if r == nil || r.MessageType() != dhcpv4.MessageTypeOffer {
		e.trace = append(e.trace, c.Name+" DISCOVER -> no offer")
		return false
	}
	c.ip = r.YourIPAddr
	e.trace = append(e.trace, fmt.Sprintf("%s DISCOVER -> OFFER %v", c.Name, c.ip))
	return true
}

// request sends REQUEST for the client's address; returns "ack", "nak" or "none".
func (e *ipoeEnv) request(c *dclient, cid []byte) string {
	r, _ := e.send(e.msg(c, dhcpv4.MessageTypeRequest, c.ip, nil, cid))
	res := "none"
	if r != nil && r.MessageType() == dhcpv4.MessageTypeAck {
		res = "ack"
		c.bound = true
		if l, ok := e.srv.VerifC16Leases()[c.mac.String()]; ok {
			c.sid = l.SessionID
		}
	} else if r != nil && r.MessageType() == dhcpv4.MessageTypeNak {
		res = "nak"
	}
	e.trace = append(e.trace, fmt.Sprintf("%s REQUEST %v -> %s", c.Name, c.ip, res))
	return res
}

func (e *ipoeEnv) release(c *dclient) string {
	_, p := e.send(e.msg(c, dhcpv4.MessageTypeRelease, nil, c.ip, c.cid))
	e.trace = append(e.trace, c.Name+" RELEASE"+panicNote(p))
	return p
}

func (e *ipoeEnv) decline(c *dclient) string {
	_, p := e.send(e.msg(c, dhcpv4.MessageTypeDecline, c.ip, nil, c.cid))
	e.trace = append(e.trace, c.Name+" DECLINE "+fmt.Sprint(c.ip)+panicNote(p))
	return p
}

func panicNote(p string) string {
	if p == "" {
		return ""
	}
	return " => PANIC " + p
}

// advancePastLease moves virtual time beyond the lease of every client that does not renew; bystanders renew half way.
func (e *ipoeEnv) advancePastLease() {
	time.Sleep(e.lease / 2)
	synctest.Wait()
	for _, b := range e.by {
		e.request(b, b.cid)
	}
	time.Sleep(e.lease/2 + time.Nanosecond)
	synctest.Wait()
	e.trace = append(e.trace, fmt.Sprintf("advance %v (bystanders renewed half way)", e.lease+time.Nanosecond))
}

func (e *ipoeEnv) cleanup() string {
	p := guard(func() { e.srv.VerifCleanupExpired() })
	synctest.Wait()
	if p != "" {
		e.wedged = true // cleanupExpiredLeases holds leasesMu without defer
	}
	e.trace = append(e.trace, "cleanup-tick"+panicNote(p))
	return p
}

// poolIPs enumerates the host addresses of the pool network (small pools only).
func (e *ipoeEnv) poolIPs() []net.IP {
	var out []net.IP
	base := e.pool.Network.IP.To4()
	ones, bits := e.pool.Network.Mask.Size()
	n := 1 << (bits - ones)
	for i := 1; i < n-1; i++ {
		v := uint32(base[0])<<24 | uint32(base[1])<<16 | uint32(base[2])<<8 | uint32(base[3])
		v += uint32(i)
		out = append(out, net.IPv4(byte(v>>24), byte(v>>16), byte(v>>8), byte(v)).To4())
	}
	return out
}

func (e *ipoeEnv) census() *census {
	c := newCensus()
	if !e.wedged {
		for mac, l := range e.srv.VerifC16Leases() {
			c.tab("lease")[mac] = l.IP + "|cid=" + l.CircuitID + fmt.Sprintf("|vlan=%d.%d", l.STag, l.CTag)
		}
		for k, mac := range e.srv.VerifC16CircuitIndex() {
			c.tab("cid-index")[k] = mac
		}
	}
	alloc, avail, unavail := e.pool.VerifC16Snapshot()
	for mac, ip := range alloc {
		c.tab("pool.allocated")[mac] = ip
	}
	for _, ip := range avail {
		if _, dup := c.tab("pool.available")[ip]; dup {
			c.tab("pool.available-duplicates")[ip] = ""
		}
		c.tab("pool.available")[ip] = ""
	}
	for _, ip := range unavail {
		c.tab("pool.unavailable")[ip] = ""
	}
	c.tab("pool.total")["allocated+available+unavailable"] = fmt.Sprint(len(alloc) + len(avail) + len(unavail))
	for _, n := range censusMaps["dhcp"] {
		c.T["map:"+n] = dumpMap(e.kmap("dhcp", n), 13) // pool id, address, vlan id, class: the expiry that follows changes with every renewal
	}
	for _, n := range censusMaps["qos"] {
		c.T["map:"+n] = dumpMap(e.kmap("qos", n), 0)
	}
	for _, n := range censusMaps["nat"] {
		c.T["map:"+n] = dumpMap(e.kmap("nat", n), 8) // public address and port block
	}
	if e.qm != nil {
		c.tab("qos.count")["subscribers"] = fmt.Sprint(e.qm.GetSubscriberCount())
	}
	if e.nm != nil {
		c.tab("nat.count")["allocations"] = fmt.Sprint(e.nm.GetAllocationCount())
		for i, pe := range e.nm.GetPoolStats() {
			c.tab("nat.pool")[fmt.Sprintf("%d:%v", i, pe.PublicIP)] = fmt.Sprint(pe.Subscribers)
		}
		for _, ip := range e.poolIPs() {
			if a := e.nm.GetAllocation(ip); a != nil {
				c.tab("nat.alloc")[ip.String()] = fmt.Sprintf("%v:%d-%d", a.PublicIP, a.PortStart, a.PortEnd)
			}
		}
	}
	return c
}

// ---------------------------------------------------------------- judging

var clauseOfTable = map[string]string{
	"lease": "lease-removed", "cid-index": "lease-removed",
	"pool.allocated": "address-returned", "pool.available": "address-returned", "pool.unavailable": "address-returned", "pool.total": "address-returned", "pool.available-duplicates": "address-returned",
	"map:subscriber_pools": "no-fast-path-entry", "map:vlan_subscriber_pools": "no-fast-path-entry", "map:circuit_id_map": "no-fast-path-entry", "map:circuit_id_subscribers": "no-fast-path-entry",
	"map:qos_egress": "qos-removed", "map:qos_ingress": "qos-removed", "qos.count": "qos-removed",
	"map:subscriber_nat": "nat-removed", "nat.count": "nat-removed", "nat.pool": "nat-removed", "nat.alloc": "nat-removed",
}

var componentOfPath = map[string]string{
	"release": "dhcp.Server.handleRelease", "decline": "dhcp.Server.handleDecline", "expiry": "dhcp.Server.cleanupExpiredLeases",
	"auth-reject": "dhcp.Server.handleRequest", "shutdown": "dhcp.Server.Start",
	"lapse-rediscover": "dhcp.Server.reclaimLapsedLease", "lapse-rediscover-request": "dhcp.Server.reclaimLapsedLease",
}

type ipoeCell struct {
	Variant string
	Kind    string
	Prefix  string // offer-only, bound, renewed
	Path    string
	Second  string
}

func (c ipoeCell) String() string {
	return fmt.Sprintf("%s/%s/%s/%s/then-%s", c.Variant, c.Kind, c.Prefix, c.Path, c.Second)
}

func phaseOf(prefix string) string {
	if prefix == "offer-only" {
		return "offer-only"
	}
	return "bound"
}

// leftovers judges the census after termination against the census before establishment.
// It returns the set of "clause|class" strings found (also used by the concurrent oracle).
func judgeIPoE(cell ipoeCell, sub *dclient, s0, s2 *census, report bool, wit func() any) map[string]bool {
	found := map[string]bool{}
	comp := componentOfPath[cell.Path]
	phase := phaseOf(cell.Prefix)
	// one violation per clause and cell: the class names every table of that clause in which something is wrong,
	// so that a partial cleanup (say, the kernel entry removed but not the manager's own table) is a different class
	parts := map[string]map[string]bool{}
	descs := map[string][]string{}
	flag := func(rule, class, desc string) {
		class = strings.TrimSuffix(class, "/"+phase)
		if parts[rule] == nil {
			parts[rule] = map[string]bool{}
		}
		parts[rule][class] = true
		descs[rule] = append(descs[rule], desc)
	}
	defer func() {
		for rule, set := range parts {
			class := strings.Join(keysOf(set), "+")
			if rule != "bystanders-untouched" {
				class += "/" + phase
			}
			found[rule+"|"+class] = true
			if report {
				d := descs[rule]
				if len(d) > 6 {
					d = d[:6]
				}
				run.Violation(comp, rule, class, strings.Join(d, "; "), wit())
			}
		}
	}()
	added, lost, changed := s2.diff(s0)
	quarantined := false
	for _, a := range added {
		t := tableOf(a)
		if t == "pool.unavailable" {
			if cell.Path == "decline" || cell.Second == "decline" {
				if sub.ip != nil && strings.Contains(a, "["+sub.ip.String()+"]") {
					quarantined = true
					continue
				}
			}
			flag("address-returned", "other-address-quarantined/"+phase, "after "+cell.Path+" an address the subject did not hold is marked unavailable: "+a)
			continue
		}
		if t == "pool.available" {
			flag("address-returned", "free-list-grew/"+phase, "the free list holds an address it did not hold before the session: "+a)
			continue
		}
		cls := strings.TrimPrefix(t, "map:")
		// the circuit-id of the first exchange is a different key from the one the lease ends with
		if cell.Kind == "relayed-circuit-id-changed" && (strings.Contains(t, "circuit_id") || t == "cid-index") && !mentionsCID(a, sub.cid) {
			cls += "(previous-circuit-id)"
		}
		flag(clauseOfTable[t], cls+"-left/"+phase, fmt.Sprintf("after %s (%s, %s) the subject still holds %s", cell.Path, cell.Kind, cell.Prefix, a))
	}
	for _, l := range lost {
		t := tableOf(l)
		if t == "pool.available" && sub.ip != nil && strings.Contains(l, "["+sub.ip.String()+"]") {
			if quarantined {
				continue // quarantined instead of returned: allowed for DECLINE
			}
			if _, still := s2.T["pool.allocated"][sub.mac.String()]; still {
				continue // reported as pool.allocated-left
			}
			flag("address-returned", "address-vanished/"+phase, "the subject's address is neither allocated, free nor quarantined: "+l)
			continue
		}
		flag("bystanders-untouched", t+"-lost", fmt.Sprintf("%s of the subject removed an entry that existed before the subject's session: %s", cell.Path, l))
	}
	for _, ch := range changed {
		t := tableOf(ch)
		switch t {
		case "qos.count", "nat.count", "nat.pool":
			flag(clauseOfTable[t], t+"-changed/"+phase, fmt.Sprintf("after %s the manager's own table differs from before the session: %s", cell.Path, ch))
		case "pool.total":
			flag("address-returned", "pool-size-changed/"+phase, "allocated+available+unavailable changed: "+ch)
		case "map:subscriber_pools", "map:circuit_id_subscribers", "map:vlan_subscriber_pools", "lease":
			// bystander renewals rewrite their own entries with the same address: compare addresses only
			flag("bystanders-untouched", t+"-changed", "an entry of another subscriber changed: "+ch)
		default:
			flag("bystanders-untouched", t+"-changed", "an entry of another subscriber changed: "+ch)
		}
	}
	if dups := s2.T["pool.available-duplicates"]; len(dups) > 0 {
		flag("address-returned", "free-list-duplicate/"+phase, fmt.Sprintf("the free list holds an address twice: %v", dups))
	}
	return found
}

func judgeAcct(cell ipoeCell, comp string, sub *dclient, wit func() any, report bool) (starts, stops int, found map[string]bool) {
	found = map[string]bool{}
	if sub.sid == "" {
		return 0, 0, found
	}
	starts, stops = rad.counts(sub.sid)
	if starts >= 1 && stops != 1 {
		cls := "no-stop"
		if stops > 1 {
			cls = "stop-repeated"
		}
		found["one-stop-per-start|"+cls] = true
		if report {
			run.Violation(comp, "one-stop-per-start", cls, fmt.Sprintf("session %s: %d Accounting-Start and %d Accounting-Stop records were issued (%s, %s, %s)", sub.sid, starts, stops, cell.Path, cell.Kind, cell.Prefix), wit())
		}
	}
	if starts == 0 && stops > 0 {
		run.Count("stop_without_start_observed", 1)
	}
	return
}

// ---------------------------------------------------------------- cell runner

type ipoeKind struct {
	Name    string
	Relayed bool
	CIDLen  int
	Change  bool // renews with another circuit-id
	QinQ    bool
}

var ipoeKinds = []ipoeKind{
	{Name: "direct"},
	{Name: "relayed-circuit-id-12", Relayed: true, CIDLen: 12},
	{Name: "relayed-circuit-id-32", Relayed: true, CIDLen: 32},
	{Name: "relayed-circuit-id-40", Relayed: true, CIDLen: 40},
	{Name: "relayed-circuit-id-changed", Relayed: true, CIDLen: 9, Change: true},
	{Name: "qinq", QinQ: true},
}

func mkCID(tag string, n int) []byte {
	b := make([]byte, n)
	for i := range b {
		b[i] = byte('a' + i%26)
	}
	copy(b, tag)
	return b
}

// addBystanders establishes n (0..2) other subscribers before the subject: with none the subject gets the
// first address of the pool and the first NAT block, with two it gets the third.
func (e *ipoeEnv) addBystanders(n int) bool {
	b1 := &dclient{Name: "bystander-direct", mac: net.HardwareAddr{0x02, 0xb1, 0, 0, 0, 1}}
	b2 := &dclient{Name: "bystander-relayed", mac: net.HardwareAddr{0x02, 0xb2, 0, 0, 0, 2}, relay: net.IPv4(10, 250, 0, 9), cid: []byte("BY2/port-7")}
	all := []*dclient{b2, b1}[:n]
	for _, b := range all {
		if !e.discover(b) || e.request(b, b.cid) != "ack" {
			return false
		}
	}
	e.by = all
	return true
}

// establish drives the subject to the prefix; returns false if the cell does not exist for this kind.
func (e *ipoeEnv) establish(sub *dclient, k ipoeKind, prefix string) bool {
	if !e.discover(sub) {
		return false
	}
	if prefix == "offer-only" {
		return true
	}
	if e.request(sub, sub.cid) != "ack" {
		return false
	}
	if prefix == "renewed" || k.Change {
		time.Sleep(e.lease / 4)
		synctest.Wait()
		cid := sub.cid
		if k.Change {
			cid = mkCID("NEWPORT", k.CIDLen+2)
		}
		if e.request(sub, cid) != "ack" {
			return false
		}
		if k.Change {
			sub.cid = cid // what the lease now carries, and what the client's relay puts into later messages
		}
	}
	if k.QinQ {
		if err := e.srv.VerifC16SetLeaseVLAN(sub.mac, 200, 300); err != nil {
			return false
		}
		e.trace = append(e.trace, "subject lease given S-tag 200 / C-tag 300 (hook) and written to the fast path by updateFastPathCache")
	}
	return true
}

// terminate applies one termination path to the subject; returns a panic text.
func (e *ipoeEnv) terminate(sub *dclient, path string) string {
	switch path {
	case "release":
		return e.release(sub)
	case "decline":
		return e.decline(sub)
	case "expiry", "cleanup":
		e.advancePastLease()
		return e.cleanup()
	case "lapse-rediscover", "lapse-rediscover-request":
		// the lease lapses, the cleanup tick has not run yet, and the same client starts over with DISCOVER
		// (handleDiscover -> reclaimLapsedLease ends the old session); optionally it then REQUESTs the new
		// offer (a new session) and gives that one up again with RELEASE
		e.advancePastLease()
		e.prevSid = sub.sid
		r, p := e.send(e.msg(sub, dhcpv4.MessageTypeDiscover, nil, nil, sub.cid))
		if p != "" {
			e.trace = append(e.trace, sub.Name+" DISCOVER after its lease lapsed (no cleanup tick yet)"+panicNote(p))
			return p
		}
		if r == nil || r.MessageType() != dhcpv4.MessageTypeOffer {
			e.trace = append(e.trace, sub.Name+" DISCOVER after its lease lapsed (no cleanup tick yet) -> no offer")
			return ""
		}
		sub.ip, sub.bound = r.YourIPAddr, false
		e.reoffer = r.YourIPAddr
		e.trace = append(e.trace, fmt.Sprintf("%s DISCOVER after its lease lapsed (no cleanup tick yet) -> OFFER %v", sub.Name, sub.ip))
		if path == "lapse-rediscover-request" {
			if e.request(sub, sub.cid) == "ack" {
				e.newSid = sub.sid
				e.reoffer = nil
				return e.release(sub)
			}
		}
		return ""
	}
	return ""
}

var ipoeGeometries = [][2]string{{"10.16.0.0/28", "10.16.0.1"}, {"192.168.77.0/27", "192.168.77.30"}, {"172.20.4.64/26", "172.20.4.65"}, {"100.64.9.0/24", "100.64.9.254"}}

func runIPoECell(t *testing.T, ks *kernels, v ipoeVariant, k ipoeKind, cell ipoeCell, sample bool, idx int) {
	bubbleMu.Lock()
	defer bubbleMu.Unlock()
	// what the cell leaves open (pool geometry, lease time, identities) is drawn from the seed
	rng := run.SubRand("ipoe-cell", idx)
	geo := ipoeGeometries[rng.IntN(len(ipoeGeometries))]
	lease := []time.Duration{2 * time.Minute, time.Hour, 24 * time.Hour}[rng.IntN(3)]
	m3, m4 := byte(rng.IntN(256)), byte(rng.IntN(256))
	nBy := rng.IntN(3)
	synctest.Test(t, func(t *testing.T) {
		e := newIPoEEnv(t, ks, v, geo[0], geo[1], lease)
		if !e.addBystanders(nBy) {
			run.Inconclusive(cell.String(), "bystanders could not be established")
			return
		}
		sub := &dclient{Name: "subject", mac: net.HardwareAddr{0x02, 0x16, 0, m3, m4, 0x51}}
		if cell.Path == "auth-reject" {
			sub.mac = net.HardwareAddr{0x02, 0xee, 0, m3, m4, 0x51}
		}
		if k.Relayed {
			sub.relay = net.IPv4(10, 250, 0, 1)
			sub.cid = mkCID(fmt.Sprintf("SUBJ%c", 'A'+rng.IntN(26)), k.CIDLen)
		}
		firstCID := sub.cid
		s0 := e.census()
		acct0 := rad.total()
		wit := func() any {
			return map[string]any{"cell": cell.String(), "subject": sub.mac.String(), "address": fmt.Sprint(sub.ip), "circuit_id": string(sub.cid), "first_circuit_id": string(firstCID), "session_id": sub.sid, "history": append([]string(nil), e.trace...)}
		}
		var panicText string
		if cell.Path == "auth-reject" {
			if !e.discover(sub) {
				run.Inconclusive(cell.String(), "no offer")
				return
			}
			if res := e.request(sub, sub.cid); res != "nak" {
				run.Inconclusive(cell.String(), "RADIUS reject did not produce a NAK: "+res)
				return
			}
		} else {
			if !e.establish(sub, k, cell.Prefix) {
				run.Inconclusive(cell.String(), "subject could not be established")
				return
			}
		}
		s1 := e.census()
		held, _, _ := s1.diff(s0)
		if cell.Path != "auth-reject" {
			panicText = e.terminate(sub, cell.Path)
		}
		comp := componentOfPath[cell.Path]
		if panicText != "" {
			run.Violation(comp, "terminates-without-crash", "panic/"+v.Name+"/"+phaseOf(cell.Prefix), fmt.Sprintf("%s panicked: %s", cell.Path, panicText), wit())
		}
		s2 := e.census()
		if e.reoffer != nil {
			// the address reserved by the client's new DISCOVER belongs to its next session, not to the one that ended
			delete(s2.tab("pool.allocated"), sub.mac.String())
			s2.tab("pool.available")[e.reoffer.String()] = ""
			run.Count("ipoe_lapse_rediscover_new_offer_observed", 1)
		}
		run.Eval()
		run.Count("ipoe_cells", 1)
		run.Count(fmt.Sprintf("ipoe_cells_with_%d_bystanders", nBy), 1)
		run.Count("ipoe_path_"+cell.Path, 1)
		run.Count("ipoe_resources_held_after_establishment", len(held))
		for _, tb := range tablesOf(held) {
			run.Count("ipoe_held_"+tb, 1)
		}
		run.Distinct("ipoe_cells", cell.String())
		if len(held) > 0 {
			run.Nontrivial("ipoe|" + cell.String())
		}
		judgeIPoE(cell, sub, s0, s2, true, wit)
		acctSub := sub
		if e.prevSid != "" {
			c := *sub
			c.sid = e.prevSid // the session that the lapse ended, not the one opened afterwards
			acctSub = &c
		}
		starts, stops, _ := judgeAcct(cell, comp, acctSub, wit, true)
		if e.newSid != "" && e.newSid != e.prevSid {
			run.Count("ipoe_lapse_rediscover_new_session_observed", 1)
			if st, sp := rad.counts(e.newSid); st >= 1 && sp != 1 {
				run.Violation(componentOfPath["release"], "one-stop-per-start", fmt.Sprintf("stops=%d/session-opened-after-lapse", sp), fmt.Sprintf("the session %s the client opened after its lapsed lease was reclaimed, and released again: %d Start, %d Stop", e.newSid, st, sp), wit())
			}
		}
		run.Count("ipoe_acct_starts_observed", starts)
		run.Count("ipoe_acct_stops_observed", stops)
		if rel, _, _ := s2.diff(s1); true {
			_ = rel
		}
		added2, _, _ := s2.diff(s0)
		run.Count("ipoe_resources_left_after_termination", len(added2))
		// second termination
		if cell.Second != "none" {
			acct1 := rad.total()
			_, stops1 := rad.counts(sub.sid)
			p2 := e.terminate(sub, cell.Second)
			comp2 := componentOfPath[map[string]string{"release": "release", "decline": "decline", "cleanup": "expiry"}[cell.Second]]
			e.reoffer = nil
			if p2 != "" {
				run.Violation(comp2, "second-termination-no-effect", "panic/"+v.Name, fmt.Sprintf("%s after %s panicked: %s", cell.Second, cell.Path, p2), wit())
			}
			s3 := e.census()
			a3, l3, c3 := s3.diff(s2)
			// a DECLINE of an address the client no longer holds may quarantine it (5b reading of C02): not an effect on the subject
			var eff []string
			for _, x := range append(append(a3, l3...), c3...) {
				tb := tableOf(x)
				if cell.Second == "decline" && sub.ip != nil && (tb == "pool.unavailable" || tb == "pool.available" || tb == "pool.total") && (strings.Contains(x, sub.ip.String()) || tb == "pool.total") {
					run.Count("second_decline_quarantined_free_address", 1)
					continue
				}
				eff = append(eff, x)
			}
			if len(eff) > 0 {
				run.Violation(comp2, "second-termination-no-effect", strings.Join(tablesOf(eff), "+")+"/after-"+cell.Path, fmt.Sprintf("%s after %s changed: %v", cell.Second, cell.Path, eff), wit())
			}
			if sub.sid != "" {
				if _, stops2 := rad.counts(sub.sid); stops2 != stops1 {
					run.Violation(comp2, "second-termination-no-effect", "another-stop/after-"+cell.Path, fmt.Sprintf("%s after %s issued %d more Accounting-Stop", cell.Second, cell.Path, stops2-stops1), wit())
				}
			}
			// bystander renewals during an advance issue no accounting; anything new is an effect
			if n := rad.total() - acct1; n != 0 {
				run.Violation(comp2, "second-termination-no-effect", "accounting-records/after-"+cell.Path, fmt.Sprintf("%s after %s issued %d accounting records", cell.Second, cell.Path, n), wit())
			}
			run.Count("ipoe_second_terminations", 1)
			run.Count("ipoe_second_"+cell.Second, 1)
		}
		_ = acct0
		if sample {
			run.Sample(map[string]any{"system": "ipoe", "cell": cell.String(), "held_after_establishment": held, "left_after_termination": added2, "acct": fmt.Sprintf("starts=%d stops=%d", starts, stops), "history": e.trace})
		}
	})
}

func TestIPoE(t *testing.T) {
	ks := loadKernels(t)
	defer ks.close()
	n := 0
	for _, v := range ipoeVariants {
		for _, k := range ipoeKinds {
			if (k.QinQ || k.Relayed) && !v.Loader && k.Name != "relayed-circuit-id-12" {
				continue // without a loader there are no fast-path keys; one relayed kind keeps the circuit-id index covered
			}
			for _, prefix := range []string{"offer-only", "bound", "renewed"} {
				if prefix == "offer-only" && (k.QinQ || k.Change) {
					continue
				}
				if k.Change && prefix == "bound" {
					continue // the change happens in the renewal
				}
				for _, path := range []string{"release", "decline", "expiry"} {
					for _, second := range []string{"none", "release", "decline", "cleanup"} {
						cell := ipoeCell{v.Name, k.Name, prefix, path, second}
						for rep := 0; rep < run.Pick(1, 4); rep++ { // thorough: the same cell on more geometries / lease times / identities
							runIPoECell(t, ks, v, k, cell, n%97 == 5, n)
							n++
						}
					}
				}
			}
			// the lease lapses, no cleanup tick yet, the same client DISCOVERs again (and optionally opens and releases a new session)
			for _, prefix := range []string{"bound", "renewed"} {
				if k.Change && prefix == "bound" {
					continue
				}
				for _, ps := range [][2]string{{"lapse-rediscover", "none"}, {"lapse-rediscover", "cleanup"}, {"lapse-rediscover-request", "none"}, {"lapse-rediscover-request", "release"}} {
					runIPoECell(t, ks, v, k, ipoeCell{v.Name, k.Name, prefix, ps[0], ps[1]}, n%97 == 5, n)
					n++
				}
			}
			if v.Radius == "auth" {
				for _, second := range []string{"none", "release", "decline", "cleanup"} {
					runIPoECell(t, ks, v, k, ipoeCell{v.Name, k.Name, "offer-only", "auth-reject", second}, false, n)
					n++
				}
			}
		}
	}
	rad.forget()
}

// ---------------------------------------------------------------- concurrent pairs

type outcome struct {
	left  map[string]bool
	stops int
}

func keysOf(m map[string]bool) []string {
	var o []string
	for k := range m {
		o = append(o, k)
	}
	sort.Strings(o)
	return o
}

func subsetOf(a, b map[string]bool) bool {
	for k := range a {
		if !b[k] {
			return false
		}
	}
	return true
}

// TestIPoEConcurrentPairs ends one bound session by two paths at once (real goroutines, -race).
// Oracle: no crash, never two Stops, and what is left is no more than what one of the two paths
// leaves when it runs alone on the same configuration (two terminations have no further effect).
func TestIPoEConcurrentPairs(t *testing.T) {
	ks := loadKernels(t)
	defer ks.close()
	v := ipoeVariants[0]
	pairs := [][2]string{{"release", "release"}, {"release", "decline"}, {"decline", "decline"}, {"release", "expiry"}, {"decline", "expiry"}}
	kinds := []ipoeKind{ipoeKinds[0], ipoeKinds[1]}
	reps := run.Pick(30, 320) // quick: 30 schedules per pair and kind (the held-point overlap cases of overlap_test.go carry the deterministic part)
	fillers := 150
	for _, k := range kinds {
		// reference outcomes of each path alone
		ref := map[string]outcome{}
		for _, p := range []string{"release", "decline", "expiry"} {
			ref[p] = runConcurrentCase(t, ks, v, k, p, "", fillers, 0)
		}
		for _, pr := range pairs {
			for r := 0; r < reps; r++ {
				got := runConcurrentCase(t, ks, v, k, pr[0], pr[1], fillers, r)
				if got.left == nil {
					continue
				}
				run.Eval()
				run.Count("ipoe_concurrent_pairs", 1)
				run.Count("ipoe_concurrent_"+pr[0]+"||"+pr[1], 1)
				name := pr[0] + "||" + pr[1]
				run.Nontrivial("ipoe-concurrent|" + k.Name + "|" + name)
				wit := map[string]any{"kind": k.Name, "pair": name, "repetition": r, "left": keysOf(got.left), "stops": got.stops, "alone_" + pr[0]: keysOf(ref[pr[0]].left), "alone_" + pr[1]: keysOf(ref[pr[1]].left)}
				if got.stops > 1 {
					run.Violation("dhcp.Server("+name+")", "one-stop-per-start", "stop-repeated", fmt.Sprintf("%d Accounting-Stop records for one session ended by %s", got.stops, name), wit)
				}
				if !subsetOf(got.left, ref[pr[0]].left) && !subsetOf(got.left, ref[pr[1]].left) {
					var extra []string
					for x := range got.left {
						if !ref[pr[0]].left[x] && !ref[pr[1]].left[x] {
							extra = append(extra, x)
						}
					}
					sort.Strings(extra)
					cls := "mixed-outcome"
					if len(extra) > 0 {
						cls = strings.Join(extra, "+")
					}
					run.Violation("dhcp.Server("+name+")", "two-paths-at-once-no-further-effect", cls, fmt.Sprintf("ending by %s left %v; %s alone leaves %v, %s alone leaves %v", name, keysOf(got.left), pr[0], keysOf(ref[pr[0]].left), pr[1], keysOf(ref[pr[1]].left)), wit)
				}
			}
		}
	}
	rad.forget()
}

func runConcurrentCase(t *testing.T, ks *kernels, v ipoeVariant, k ipoeKind, pa, pb string, fillers, rep int) (out outcome) {
	bubbleMu.Lock()
	defer bubbleMu.Unlock()
	synctest.Test(t, func(t *testing.T) {
		rng := run.SubRand("ipoe-concurrent-"+pa+pb+k.Name, rep)
		e := newIPoEEnv(t, ks, v, "10.16.0.0/24", "10.16.0.1", []time.Duration{5 * time.Minute, time.Hour}[rng.IntN(2)])
		sub := &dclient{Name: "subject", mac: net.HardwareAddr{0x02, 0x16, 0, byte(rng.IntN(256)), 1, 0x51}}
		if k.Relayed {
			sub.relay = net.IPv4(10, 250, 0, 1)
			sub.cid = mkCID("SUBJ", k.CIDLen)
		}
		usesExpiry := pa == "expiry" || pb == "expiry"
		s0 := e.census()
		if !e.discover(sub) || e.request(sub, sub.cid) != "ack" {
			run.Inconclusive("concurrent", "subject could not be established")
			return
		}
		// other leases that expire at the same tick lengthen the scan of cleanupExpiredLeases (the window RELEASE can fall into)
		var fl []*dclient
		if usesExpiry {
			peer := &net.UDPAddr{IP: net.IPv4bcast, Port: 68}
			for i := 0; i < fillers; i++ {
				f := &dclient{Name: fmt.Sprintf("filler-%d", i), mac: net.HardwareAddr{0x02, 0xf1, 0, 0, byte(i >> 8), byte(i)}}
				// no settling between the messages of the fillers: their accounting goroutines run side by side
				e.srv.VerifHandle(e.conn, peer, e.msg(f, dhcpv4.MessageTypeDiscover, nil, nil, nil))
				r := e.conn.take()
				if r == nil || r.MessageType() != dhcpv4.MessageTypeOffer {
					continue
				}
				f.ip = r.YourIPAddr
				e.srv.VerifHandle(e.conn, peer, e.msg(f, dhcpv4.MessageTypeRequest, f.ip, nil, nil))
				if r = e.conn.take(); r != nil && r.MessageType() == dhcpv4.MessageTypeAck {
					fl = append(fl, f)
				}
			}
			synctest.Wait()
			e.trace = append(e.trace, fmt.Sprintf("%d other clients bound", len(fl)))
			time.Sleep(e.lease + time.Nanosecond)
			synctest.Wait()
		}
		cell := ipoeCell{v.Name, k.Name, "bound", pa, "none"}
		var panics [2]string
		peer := &net.UDPAddr{IP: net.IPv4bcast, Port: 68}
		// messages are built before the goroutines start (the environment's xid counter is not concurrency-safe)
		msgs := [2]*dhcpv4.DHCPv4{}
		for i, p := range []string{pa, pb} {
			switch p {
			case "release":
				msgs[i] = e.msg(sub, dhcpv4.MessageTypeRelease, nil, sub.ip, sub.cid)
			case "decline":
				msgs[i] = e.msg(sub, dhcpv4.MessageTypeDecline, sub.ip, nil, sub.cid)
			}
		}
		do := func(i int, p string) {
			switch p {
			case "release", "decline":
				panics[i] = guard(func() { e.srv.VerifHandle(e.conn, peer, msgs[i]) })
			case "expiry":
				panics[i] = guard(func() { e.srv.VerifCleanupExpired() })
				if panics[i] != "" {
					e.wedged = true
				}
			}
		}
		if pb == "" {
			do(0, pa)
		} else {
			// messages are built before the goroutines start (e.msg is not concurrency-safe)
			var wg sync.WaitGroup
			start := make(chan struct{})
			yields := [2]int{rng.IntN(4), rng.IntN(4)}
			for i, p := range []string{pa, pb} {
				wg.Add(1)
				go func() {
					defer wg.Done()
					<-start
					for y := yields[i]; y > 0; y-- {
						runtime.Gosched() // seeded: which of the two gets ahead, and by how much
					}
					do(i, p)
				}()
			}
			close(start)
			wg.Wait()
		}
		synctest.Wait()
		for i, p := range panics {
			if p != "" {
				name := pa
				if pb != "" {
					name = pa + "||" + pb
				}
				which := []string{pa, pb}[i]
				run.Violation(componentOfPath[which], "terminates-without-crash", "panic/lease-ended-by-another-path-meanwhile", fmt.Sprintf("%s panicked while %s ran concurrently: %s", which, name, p), map[string]any{"kind": k.Name, "pair": name, "panic": p, "history": e.trace})
			}
		}
		// fillers that expired are removed by the tick like the subject: take them out of the comparison
		s2 := e.census()
		for _, f := range fl {
			m := f.mac.String()
			for _, tb := range []string{"lease", "pool.allocated"} {
				delete(s2.T[tb], m)
			}
		}
		sub2 := *sub
		left := map[string]bool{}
		added, _, _ := s2.diff(s0)
		for _, a := range added {
			tb := tableOf(a)
			// entries of fillers (QoS/NAT/map keys by their addresses or MACs) are not the subject's
			if !mentions(a, &sub2) {
				continue
			}
			left[tb] = true
		}
		if dups := s2.T["pool.available-duplicates"]; len(dups) > 0 {
			left["pool.available-duplicates"] = true
		}
		_, stops := rad.counts(sub.sid)
		out = outcome{left: left, stops: stops}
		_ = cell
	})
	return out
}

// mentionsCID reports whether a census entry is keyed by the given circuit-id (plain, padded or hashed).
func mentionsCID(entry string, cid []byte) bool {
	if len(cid) == 0 {
		return false
	}
	if strings.Contains(entry, "["+hex.EncodeToString(cid)) {
		return true
	}
	var kb [8]byte
	h := bngebpf.HashCircuitID(cid)
	for i := 0; i < 8; i++ {
		kb[i] = byte(h >> (8 * i))
	}
	return strings.Contains(entry, "["+hex.EncodeToString(kb[:])+"]")
}

// mentions reports whether a census entry is keyed by the subject's MAC, address or circuit-id.
func mentions(entry string, c *dclient) bool {
	if strings.Contains(entry, c.mac.String()) {
		return true
	}
	if c.ip != nil {
		ip4 := c.ip.To4()
		if strings.Contains(entry, "["+c.ip.String()+"]") || strings.Contains(entry, "["+hex.EncodeToString(ip4)+"]") || strings.Contains(entry, "["+hex.EncodeToString([]byte{ip4[3], ip4[2], ip4[1], ip4[0]})+"]") {
			return true
		}
	}
	mk := bngebpf.MACToUint64(c.mac)
	var kb [8]byte
	for i := 0; i < 8; i++ {
		kb[i] = byte(mk >> (8 * i))
	}
	if strings.Contains(entry, "["+hex.EncodeToString(kb[:])+"]") {
		return true
	}
	return mentionsCID(entry, c.cid)
}

// TestIPoEShutdown runs the server's own Start (listener on lo:67, cleanup goroutine), establishes sessions
// through the handler, cancels the context as cmd/bng/main.go does on SIGTERM and waits for Start to return.
func TestIPoEShutdown(t *testing.T) {
	ks := loadKernels(t)
	defer ks.close()
	for _, k := range []ipoeKind{ipoeKinds[0], ipoeKinds[1]} {
		cell := ipoeCell{"full", k.Name, "bound", "shutdown", "none"}
		e := newIPoEEnv(t, ks, ipoeVariants[0], "10.16.0.0/28", "10.16.0.1", time.Hour)
		e.real = true
		ctx, cancel := context.WithCancel(context.Background())
		errCh := make(chan error, 1)
		go func() { errCh <- e.srv.Start(ctx) }()
		select {
		case err := <-errCh:
			cancel()
			run.Inconclusive(cell.String(), fmt.Sprintf("dhcp.Server.Start could not listen on lo:67: %v", err))
			continue
		case <-time.After(200 * time.Millisecond):
		}
		sub := &dclient{Name: "subject", mac: net.HardwareAddr{0x02, 0x16, 0, 0, 2, 0x51}}
		if k.Relayed {
			sub.relay = net.IPv4(10, 250, 0, 1)
			sub.cid = mkCID("SUBJ", k.CIDLen)
		}
		s0 := e.census()
		if !e.discover(sub) || e.request(sub, sub.cid) != "ack" {
			cancel()
			<-errCh
			run.Inconclusive(cell.String(), "subject could not be established")
			continue
		}
		// the Accounting-Start is sent by a goroutine: wait until the server has it (bounded)
		for i := 0; i < 400; i++ {
			if st, _ := rad.counts(sub.sid); st > 0 {
				break
			}
			time.Sleep(5 * time.Millisecond)
		}
		s1 := e.census()
		held, _, _ := s1.diff(s0)
		cancel()
		var startErr error
		select {
		case startErr = <-errCh:
		case <-time.After(10 * time.Second):
			run.Inconclusive(cell.String(), "Start did not return within 10 s of cancellation")
			continue
		}
		e.trace = append(e.trace, fmt.Sprintf("context cancelled; Start returned %v", startErr))
		time.Sleep(300 * time.Millisecond) // anything Start left running gets its chance to send
		run.Eval()
		run.Count("ipoe_shutdown_cases", 1)
		run.Count("ipoe_path_shutdown", 1)
		run.Nontrivial("ipoe|" + cell.String())
		starts, stops := rad.counts(sub.sid)
		wit := map[string]any{"cell": cell.String(), "session_id": sub.sid, "held_when_shutdown_began": held, "starts": starts, "stops": stops, "history": e.trace}
		if starts >= 1 && stops != 1 {
			cls := "no-stop"
			if stops > 1 {
				cls = "stop-repeated"
			}
			run.Violation(componentOfPath["shutdown"], "one-stop-per-start", cls, fmt.Sprintf("the server was shut down with session %s open: %d Accounting-Start and %d Accounting-Stop records were issued", sub.sid, starts, stops), wit)
		}
		run.Count("ipoe_shutdown_resources_still_held_at_exit", len(held))
	}
	rad.forget()
}
