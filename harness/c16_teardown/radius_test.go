package c16

// Harness-owned RADIUS server on loopback (authentication on port p, accounting
// on p+1, as bng's client derives it). Written from RFC 2865/2866; nothing of
// bng is used. It records every request it receives.

import (
	"crypto/md5"
	"encoding/binary"
	"net"
	"strings"
	"sync"
	"time"
)

const radSecret = "c16-secret"

type acctRec struct {
	Status  uint32 // 1 Start, 2 Stop, 3 Interim
	Session string
	User    string
	NAS     string
	Cause   uint32
}

type radSrv struct {
	auth, acct *net.UDPConn
	port       int
	mu         sync.Mutex
	recs       map[string][]acctRec // Acct-Session-Id -> records in arrival order
	seen       map[string]bool      // retransmission filter: source address + packet bytes
	nAuth      int
	nAcct      int
	holds      map[string]*radHold // Acct-Session-Id -> the answer to its next Stop is held back
	// stopFaults: Acct-Session-Id -> what happens to the Accounting-Stop records of the session while the fault is
	// armed: "reject" (received, recorded, answered with a reject) or "drop" (received, recorded, never answered)
	stopFaults map[string]string
}

// faultStops arms (mode "reject" / "drop") or clears (mode "") the Stop fault of a session.
func (s *radSrv) faultStops(session, mode string) {
	s.mu.Lock()
	if s.stopFaults == nil {
		s.stopFaults = map[string]string{}
	}
	if mode == "" {
		delete(s.stopFaults, session)
	} else {
		s.stopFaults[session] = mode
	}
	s.mu.Unlock()
}

// radHold holds back the answer to one Accounting-Stop (a slow RADIUS server): arrived is closed when the
// record has been received (and recorded), the answer is sent when release is closed (or after 2 s, well inside the client's timeout).
type radHold struct {
	arrived chan struct{}
	release chan struct{}
	once    sync.Once
}

func (h *radHold) open() { h.once.Do(func() { close(h.release) }) }

// hold arms a hold for the next Accounting-Stop of the session.
func (s *radSrv) hold(session string) *radHold {
	h := &radHold{arrived: make(chan struct{}), release: make(chan struct{})}
	s.mu.Lock()
	if s.holds == nil {
		s.holds = map[string]*radHold{}
	}
	s.holds[session] = h
	s.mu.Unlock()
	return h
}

func listenPair() (*net.UDPConn, *net.UDPConn, int) {
	a, err := net.ListenUDP("udp4", &net.UDPAddr{IP: net.IPv4(127, 0, 0, 1)})
	if err != nil {
		return nil, nil, 0
	}
	p := a.LocalAddr().(*net.UDPAddr).Port
	if p == 1812 || p >= 65535 {
		a.Close()
		return nil, nil, 0
	}
	b, err := net.ListenUDP("udp4", &net.UDPAddr{IP: net.IPv4(127, 0, 0, 1), Port: p + 1})
	if err != nil {
		a.Close()
		return nil, nil, 0
	}
	return a, b, p
}

func newRadSrv() (*radSrv, error) {
	var a, b *net.UDPConn
	var p int
	for i := 0; i < 100 && a == nil; i++ {
		a, b, p = listenPair()
	}
	if a == nil {
		return nil, net.ErrClosed
	}
	_ = a.SetReadBuffer(4 << 20)
	_ = b.SetReadBuffer(4 << 20)
	s := &radSrv{auth: a, acct: b, port: p, recs: map[string][]acctRec{}, seen: map[string]bool{}}
	go s.loop(a)
	go s.loop(b)
	return s, nil
}

type radAttrs struct {
	user, nas, session string
	status, cause      uint32
	hasPassword        bool
	password           string
}

func parseRad(buf []byte, l int) radAttrs {
	var a radAttrs
	reqAuth := buf[4:20]
	for i := 20; i+2 <= l; {
		al := int(buf[i+1])
		if al < 2 || i+al > l {
			break
		}
		v := buf[i+2 : i+al]
		switch buf[i] {
		case 1:
			a.user = string(v)
		case 2:
			a.hasPassword = true
			a.password = decodePassword(v, reqAuth)
		case 32:
			a.nas = string(v)
		case 40:
			if len(v) == 4 {
				a.status = binary.BigEndian.Uint32(v)
			}
		case 44:
			a.session = string(v)
		case 49:
			if len(v) == 4 {
				a.cause = binary.BigEndian.Uint32(v)
			}
		}
		i += al
	}
	return a
}

func decodePassword(enc, reqAuth []byte) string {
	if len(enc) == 0 || len(enc)%16 != 0 {
		return ""
	}
	out := make([]byte, 0, len(enc))
	prev := reqAuth
	for i := 0; i < len(enc); i += 16 {
		h := md5.Sum(append([]byte(radSecret), prev...))
		for j := 0; j < 16; j++ {
			out = append(out, enc[i+j]^h[j])
		}
		prev = enc[i : i+16]
	}
	return strings.TrimRight(string(out), "\x00")
}

func (s *radSrv) reply(c *net.UDPConn, addr *net.UDPAddr, code byte, id byte, reqAuth, attrs []byte) {
	resp := []byte{code, id, 0, 0}
	binary.BigEndian.PutUint16(resp[2:], uint16(20+len(attrs)))
	h := md5.New()
	h.Write(resp)
	h.Write(reqAuth)
	h.Write(attrs)
	h.Write([]byte(radSecret))
	resp = append(append(resp, h.Sum(nil)...), attrs...)
	_, _ = c.WriteToUDP(resp, addr)
}

func (s *radSrv) loop(c *net.UDPConn) {
	buf := make([]byte, 4096)
	for {
		n, addr, err := c.ReadFromUDP(buf)
		if err != nil {
			return
		}
		if n < 20 {
			continue
		}
		l := int(binary.BigEndian.Uint16(buf[2:4]))
		if l < 20 || l > n {
			continue
		}
		reqAuth := append([]byte(nil), buf[4:20]...)
		a := parseRad(buf, l)
		dup := false
		key := addr.String() + "|" + string(buf[:l])
		s.mu.Lock()
		if s.seen[key] {
			dup = true
		}
		s.seen[key] = true
		s.mu.Unlock()
		switch buf[0] {
		case 1: // Access-Request
			if !dup {
				s.mu.Lock()
				s.nAuth++
				s.mu.Unlock()
			}
			// users / MAC user names containing "ee" in the second octet, or a wrong password, are rejected
			reject := strings.HasPrefix(a.user, "02:ee:") || strings.HasPrefix(a.user, "rej") || (a.hasPassword && a.password != "good")
			if reject {
				s.reply(c, addr, 3, buf[1], reqAuth, nil)
			} else {
				s.reply(c, addr, 2, buf[1], reqAuth, append([]byte{25, 5}, []byte("c16")...))
			}
		case 4: // Accounting-Request
			if !dup {
				s.mu.Lock()
				s.nAcct++
				s.recs[a.session] = append(s.recs[a.session], acctRec{Status: a.status, Session: a.session, User: a.user, NAS: a.nas, Cause: a.cause})
				s.mu.Unlock()
			}
			if a.status == 2 {
				s.mu.Lock()
				mode := s.stopFaults[a.session]
				s.mu.Unlock()
				if mode == "drop" {
					continue
				}
				if mode == "reject" {
					s.reply(c, addr, 3, buf[1], reqAuth, nil)
					continue
				}
			}
			if a.status == 2 && !dup {
				s.mu.Lock()
				h := s.holds[a.session]
				delete(s.holds, a.session)
				s.mu.Unlock()
				if h != nil {
					id := buf[1]
					go func() {
						close(h.arrived)
						select {
						case <-h.release:
						case <-time.After(2 * time.Second):
						}
						s.reply(c, addr, 5, id, reqAuth, nil)
					}()
					continue
				}
			}
			if strings.HasSuffix(a.nas, "-nak") {
				// the record is received but not acknowledged as accounting: the client sees a failure
				s.reply(c, addr, 3, buf[1], reqAuth, nil)
			} else {
				s.reply(c, addr, 5, buf[1], reqAuth, nil)
			}
		}
	}
}

// counts returns the number of Start and Stop records received for a session id.
func (s *radSrv) counts(session string) (starts, stops int) {
	s.mu.Lock()
	defer s.mu.Unlock()
	for _, r := range s.recs[session] {
		switch r.Status {
		case 1:
			starts++
		case 2:
			stops++
		}
	}
	return
}

// total returns the number of distinct accounting requests received so far.
func (s *radSrv) total() int {
	s.mu.Lock()
	defer s.mu.Unlock()
	return s.nAcct
}

// forget drops the records of finished cases (keeps memory flat over long runs).
func (s *radSrv) forget() {
	s.mu.Lock()
	s.recs = map[string][]acctRec{}
	s.seen = map[string]bool{}
	s.stopFaults = nil
	s.mu.Unlock()
}
