package c16

// Double termination with the second termination arriving at controlled points of the first: while the first
// is held inside a callback it makes (PADT send, eBPF update, address release, terminate-event handler), inside
// its RADIUS exchange (the harness RADIUS server holds the answer back), between the existence check and the
// removal (verifPoint), and while an unrelated session's slow teardown holds the locks the terminations share.
// These cases run in real time (a goroutine waiting for a mutex is not durably blocked for testing/synctest);
// every wait is bounded and waiting longer never turns into a verdict: the oracle counts records, releases and
// events after everything has been let go.

import (
	"context"
	"fmt"
	"net"
	"os"
	"runtime"
	"sort"
	"strings"
	"sync"
	"testing"
	"time"

	"go.uber.org/zap"

	"github.com/codelaboratoryltd/bng/pkg/pppoe"
	"github.com/codelaboratoryltd/bng/pkg/radius"
	"github.com/codelaboratoryltd/bng/pkg/subscriber"
)

// gate holds the first caller that arrives at the named point with a matching key until it is opened.
type gate struct {
	mu      sync.Mutex
	point   string
	key     string // "" matches any
	used    bool
	arrived chan struct{}
	release chan struct{}
	once    sync.Once
}

func newGate(point, key string) *gate {
	return &gate{point: point, key: key, arrived: make(chan struct{}), release: make(chan struct{})}
}

func (g *gate) at(point, key string) {
	if g == nil {
		return
	}
	g.mu.Lock()
	if g.used || point != g.point || (g.key != "" && key != g.key) {
		g.mu.Unlock()
		return
	}
	g.used = true
	g.mu.Unlock()
	close(g.arrived)
	select {
	case <-g.release:
	case <-time.After(30 * time.Second):
	}
}

func (g *gate) open() { g.once.Do(func() { close(g.release) }) }

func waitFor(ch <-chan struct{}, d time.Duration) bool {
	select {
	case <-ch:
		return true
	case <-time.After(d):
		return false
	}
}

// blockedIn counts goroutines that wait for a mutex (or a wait group) with the given function on their stack.
func blockedIn(fn string) int {
	buf := make([]byte, 1<<20)
	buf = buf[:runtime.Stack(buf, true)]
	n := 0
	for _, g := range strings.Split(string(buf), "\n\n") {
		head, _, _ := strings.Cut(g, "\n")
		if (strings.Contains(head, "sync.Mutex.Lock") || strings.Contains(head, "sync.RWMutex") || strings.Contains(head, "sync.WaitGroup.Wait")) && strings.Contains(g, fn) {
			n++
		}
	}
	return n
}

// onStack counts goroutines with the given function on their stack, whatever they are doing.
func onStack(fn string) int {
	buf := make([]byte, 1<<20)
	buf = buf[:runtime.Stack(buf, true)]
	n := 0
	for _, g := range strings.Split(string(buf), "\n\n") {
		if strings.Contains(g, fn) {
			n++
		}
	}
	return n
}

// settle waits (bounded) until every listed caller has either returned or waits for a mutex inside fn.
func settle(done []chan struct{}, fn string, d time.Duration) (finished, blocked int) {
	deadline := time.Now().Add(d)
	for {
		finished = 0
		for _, c := range done {
			select {
			case <-c:
				finished++
			default:
			}
		}
		blocked = blockedIn(fn)
		if finished+blocked >= len(done) || time.Now().After(deadline) {
			return
		}
		time.Sleep(time.Millisecond)
	}
}

// ---------------------------------------------------------------- pppoe.SessionTeardown

// gatedPool is the real pppoe.IPPool behind a wrapper that counts releases per session and can hold one.
type gatedPool struct {
	real *pppoe.IPPool
	g    **gate
	mu   sync.Mutex
	rel  map[string]int
}

func (p *gatedPool) Allocate(id string) net.IP { return p.real.Allocate(id) }
func (p *gatedPool) Release(id string) {
	(*p.g).at("ip-release", id)
	p.mu.Lock()
	p.rel[id]++
	p.mu.Unlock()
	p.real.Release(id)
}

type tdoEnv struct {
	*tdEnv
	g  *gate
	gp *gatedPool
}

func newTDOEnv(t *testing.T) *tdoEnv {
	e := &tdoEnv{tdEnv: &tdEnv{sm: pppoe.NewSessionManager(), fp: &fastPath{entries: map[string]string{}, calls: map[string]int{}}, padts: map[string]int{}}}
	var err error
	e.pool, err = pppoe.NewIPPool("10.45.8.0/29", "10.45.8.1")
	if err != nil {
		hfatalf(t, "%v", err)
	}
	e.gp = &gatedPool{real: e.pool, g: &e.g, rel: map[string]int{}}
	e.rc = newRadClient(t, "c16-tdo")
	cfg := pppoe.DefaultTeardownConfig()
	cfg.PADTRetryDelay = time.Millisecond // the retry pause is a plain sleep: keep it, keep it short
	e.td = pppoe.NewSessionTeardown(cfg, zap.NewNop())
	e.td.SetRADIUSClient(e.rc)
	e.td.SetIPPool(e.gp)
	e.td.SetSessionManager(e.sm)
	e.td.SetUpdateEBPFMaps(func(s *pppoe.Session, remove bool) error {
		if remove {
			e.g.at("ebpf-callback", s.SessionID)
		}
		return e.fp.update(s, remove)
	})
	e.td.SetSendPADT(func(s *pppoe.Session, tags []pppoe.Tag) {
		e.mu.Lock()
		e.padts[s.SessionID]++
		e.mu.Unlock()
		e.g.at("padt-callback", s.SessionID)
	})
	e.td.SetSendLCPTermReq(func(s *pppoe.Session, reason string) {})
	return e
}

// poolCapacity drains the real pool and gives everything back: the number of distinct addresses obtainable.
func (e *tdoEnv) poolCapacity() (n int, dup bool) {
	seen := map[string]bool{}
	var ids []string
	for i := 0; i < 64; i++ {
		id := fmt.Sprintf("c16-probe-%d", i)
		ip := e.pool.Allocate(id)
		if ip == nil {
			break
		}
		ids = append(ids, id)
		if seen[ip.String()] {
			dup = true
		}
		seen[ip.String()] = true
	}
	for _, id := range ids {
		e.pool.Release(id)
	}
	return len(seen), dup
}

type tdoPoint struct {
	Holder string // "self": the first termination of the subject is held; "other": the teardown of an unrelated session is held
	Point  string
}

var tdoPoints = []tdoPoint{
	{"self", "padt-callback"}, {"self", "ebpf-callback"}, {"self", "radius-stop"}, {"self", "ip-release"},
	{"other", "ebpf-callback"}, {"other", "radius-stop"}, {"other", "ip-release"},
}

func TestSessionTeardownOverlap(t *testing.T) {
	pointsReached := map[string]bool{}
	n := 0
	for _, pt := range tdoPoints {
		for _, pa := range tdPaths {
			for _, pb := range tdPaths {
				if pt.Point == "padt-callback" && pa == "client-padt" {
					continue // a client PADT is not answered with a PADT: the first termination never passes this point
				}
				n++
				if !run.Thorough() && pt.Holder == "self" && n%2 == 0 && pa != pb {
					continue // quick: every second ordered pair at the self-held points (all pairs behind another session's teardown)
				}
				runTDOverlap(t, pt, pa, pb, pointsReached)
			}
		}
	}
	run.Count("overlap_teardown_point_x_pair_reached", len(pointsReached))
	rad.forget()
}

func runTDOverlap(t *testing.T, pt tdoPoint, pa, pb string, reachedSet map[string]bool) {
	cell := fmt.Sprintf("teardown-overlap/%s-held-at-%s/%s||%s", pt.Holder, pt.Point, pa, pb)
	e := newTDOEnv(t)
	cap0, _ := e.poolCapacity()
	y := e.open(pppSubject, "subject", "established")
	var x *pppoe.Session
	if pt.Holder == "other" {
		x = e.open(pppBystander, "other", "established")
	}
	if y == nil || (pt.Holder == "other" && x == nil) {
		run.Inconclusive(cell, "sessions could not be opened")
		return
	}
	held := y
	if x != nil {
		held = x
	}
	var hold *radHold
	arrived := make(chan struct{})
	if pt.Point == "radius-stop" {
		hold = rad.hold(held.SessionID)
		e.g = newGate("none", "")
		go func() { <-hold.arrived; close(arrived) }()
	} else {
		e.g = newGate(pt.Point, held.SessionID)
		go func() { <-e.g.arrived; close(arrived) }()
	}
	letGo := func() {
		e.g.open()
		if hold != nil {
			hold.open()
		}
	}
	defer letGo()
	var done []chan struct{}
	launch := func(f func()) chan struct{} {
		c := make(chan struct{})
		go func() { defer close(c); f() }()
		return c
	}
	var all []chan struct{}
	var trace []string
	if pt.Holder == "other" {
		all = append(all, launch(func() { _ = e.td.HandleClientPADT(x, x.ClientMAC, x.ID) }))
		trace = append(trace, "teardown of another session begins (client PADT)")
	} else {
		c := launch(func() { e.terminate2x(pa, y) })
		all = append(all, c)
		trace = append(trace, "first termination of the subject: "+pa)
	}
	reached := waitFor(arrived, 20*time.Second)
	if reached {
		trace = append(trace, fmt.Sprintf("... held at %s (%s)", pt.Point, pt.Holder))
	} else {
		trace = append(trace, fmt.Sprintf("... did not arrive at %s within 20 s", pt.Point))
	}
	if pt.Holder == "other" {
		done = append(done, launch(func() { e.terminate2x(pa, y) }), launch(func() { e.terminate2x(pb, y) }))
		trace = append(trace, "subject ended by "+pa+" and by "+pb+" while the other teardown is held")
	} else {
		done = append(done, launch(func() { e.terminate2x(pb, y) }))
		trace = append(trace, "second termination of the subject: "+pb)
	}
	all = append(all, done...)
	fin, blk := settle(done, "(*SessionTeardown).cleanup", 500*time.Millisecond)
	trace = append(trace, fmt.Sprintf("of the %d terminations launched meanwhile %d returned and %d wait for the teardown lock", len(done), fin, blk))
	letGo()
	trace = append(trace, "released")
	for _, c := range all {
		if !waitFor(c, 20*time.Second) {
			run.Inconclusive(cell, "a termination did not return within 20 s of the release")
			return
		}
	}
	// the Accounting-Stop is sent synchronously by cleanup: everything has been received by now
	run.Eval()
	run.Count("overlap_teardown_cases", 1)
	run.Count("overlap_teardown_held:"+pt.Holder+"/"+pt.Point, 1)
	if reached {
		run.Count("overlap_teardown_point_reached", 1)
		run.Count(fmt.Sprintf("overlap_teardown_meanwhile:returned=%d,waiting-for-lock=%d", fin, blk), 1)
		reachedSet[cell] = true
		run.Nontrivial(cell)
	} else {
		run.Count("overlap_teardown_point_not_reached", 1)
	}
	run.Distinct("overlap_teardown_cells", cell)
	starts, stops := rad.counts(y.SessionID)
	e.gp.mu.Lock()
	rel := e.gp.rel[y.SessionID]
	e.gp.mu.Unlock()
	e.fp.mu.Lock()
	calls := e.fp.calls[y.SessionID]
	_, fpLeft := e.fp.entries[y.ClientIP.String()]
	e.fp.mu.Unlock()
	cap1, dup := e.poolCapacity()
	wit := map[string]any{"cell": cell, "starts": starts, "stops": stops, "address_release_calls": rel, "fast_path_removal_calls": calls, "pool_capacity_before": cap0, "pool_capacity_after": cap1, "history": trace}
	comp := "pppoe.SessionTeardown.cleanup"
	ctx := "subject-teardown-held"
	if pt.Holder == "other" {
		ctx = "behind-another-sessions-teardown"
	}
	if starts >= 1 && stops != 1 {
		cls := "no-stop"
		if stops > 1 {
			cls = "stop-repeated"
		}
		run.Violation(comp, "one-stop-per-start", cls+"/"+ctx, fmt.Sprintf("%d Accounting-Start and %d Accounting-Stop for a session ended by %s and %s (%s held at %s)", starts, stops, pa, pb, pt.Holder, pt.Point), wit)
	}
	if cap1 != cap0 || dup {
		run.Violation(comp, "address-returned", fmt.Sprintf("pool-capacity-changed/%s", ctx), fmt.Sprintf("the pool could hand out %d distinct addresses before the session and %d after it ended (duplicate=%v); %d release calls for the session", cap0, cap1, dup, rel), wit)
	}
	if rel > 1 {
		run.Count("overlap_teardown_address_release_requested_again", 1)
	}
	if calls > 1 {
		run.Count("overlap_teardown_fastpath_removal_requested_again", 1)
	}
	if rel > 1 && calls > 1 && stops <= 1 {
		// the whole cleanup ran twice although only one Stop got through
		run.Violation(comp, "two-paths-at-once-no-further-effect", "cleanup-ran-twice/"+ctx, fmt.Sprintf("%d address releases and %d fast path removals for one session", rel, calls), wit)
	}
	if fpLeft {
		run.Violation(comp, "no-fast-path-entry", "callback-entry-left/"+ctx, "the fast path entry of the session is still present", wit)
	}
	if e.sm.GetSession(y.ID) != nil {
		run.Violation(comp, "session-removed", "session-table-left/"+ctx, "the session is still in the session table", wit)
	}
	if x != nil {
		if xs, xp := rad.counts(x.SessionID); xs >= 1 && xp != 1 {
			run.Violation(comp, "one-stop-per-start", fmt.Sprintf("other-session-stops=%d/%s", xp, ctx), fmt.Sprintf("the other session got %d Stop", xp), wit)
		}
	}
}

// terminate2x is terminate2 with the user-name path added.
func (e *tdEnv) terminate2x(path string, s *pppoe.Session) {
	if path == "by-username" {
		e.td.TerminateByUsername(s.Username, "admin")
		return
	}
	e.terminate2(path, s)
}

// ---------------------------------------------------------------- subscriber.Manager

type idleAuth struct {
	mu    sync.Mutex
	short map[string]bool // MACs whose sessions get a one-millisecond idle timeout
}

func (a *idleAuth) Authenticate(ctx context.Context, req *subscriber.SessionRequest) (*subscriber.AuthResult, error) {
	a.mu.Lock()
	sh := a.short[req.MAC.String()]
	a.mu.Unlock()
	r := &subscriber.AuthResult{Success: true, SubscriberID: "sub-" + req.MAC.String(), ISPID: "isp"}
	if sh {
		r.IdleTimeout = time.Millisecond
	}
	return r, nil
}

var subOverlapPoints = []string{
	"between-check-and-remove", "allocator-release-v4", "allocator-release-v6",
	"terminate-handler-1", "terminate-handler-radius-stop", "terminate-handler-2",
}

var subWindow = map[string]string{
	"between-check-and-remove": "before-removal", "allocator-release-v4": "before-removal", "allocator-release-v6": "before-removal",
	"terminate-handler-1": "during-terminate-handlers", "terminate-handler-radius-stop": "during-terminate-handlers", "terminate-handler-2": "during-terminate-handlers",
}

var subOps = []string{"none", "update-activity", "activate", "set-walled-garden", "clear-walled-garden", "authenticate"}

func TestSubscriberOverlap(t *testing.T) {
	defer func() { subscriber.VerifC16Hook = nil }()
	dir, err := os.MkdirTemp("", "c16-ovl")
	if err != nil {
		hfatalf(t, "%v", err)
	}
	defer os.RemoveAll(dir)
	rc := newRadClient(t, "c16-ovl")
	reachedSet := map[string]bool{}
	n := 0
	for _, first := range []string{"terminate", "cleanup-loop"} {
		for _, second := range []string{"terminate", "cleanup-loop", "stop", "coa-disconnect"} {
			if first == "cleanup-loop" && second == "cleanup-loop" {
				continue // one loop goroutine: it cannot overtake itself
			}
			for _, point := range subOverlapPoints {
				for _, op := range subOps {
					if !run.Thorough() && second != "terminate" && op != "none" && op != "activate" {
						continue
					}
					n++
					runSubOverlap(t, rc, fmt.Sprintf("%s/%d", dir, n), first, second, point, op, reachedSet)
				}
			}
		}
	}
	run.Count("overlap_subscriber_point_x_pair_reached", len(reachedSet))
	rad.forget()
}

func runSubOverlap(t *testing.T, rc *radius.Client, persist, first, second, point, op string, reachedSet map[string]bool) {
	cell := fmt.Sprintf("subscriber-overlap/%s-held-at-%s/op=%s/then-%s", first, point, op, second)
	cfg := subscriber.DefaultManagerConfig()
	cfg.CleanupInterval = 4 * time.Millisecond
	cfg.DefaultIdleTimeout = time.Hour
	cfg.DefaultSessionTimeout = 0
	auth := &idleAuth{short: map[string]bool{subMACs[0].String(): true}}
	e := &subEnv{al: newRecAlloc(6), events: map[string]int{}}
	e.m = subscriber.NewManager(cfg, auth, e.al, zap.NewNop())
	acfg := radius.DefaultAccountingConfig()
	acfg.PersistPath = persist
	acfg.InterimEnabled = false
	am, err := radius.NewAccountingManager(rc, acfg, zap.NewNop())
	if err != nil {
		hfatalf(t, "%v", err)
	}
	if err := am.Start(); err != nil {
		hfatalf(t, "%v", err)
	}
	defer am.Stop()
	var g *gate
	canary := make(chan string, 16)
	var subjectID string
	var idMu sync.Mutex
	isSubject := func(id string) bool { idMu.Lock(); defer idMu.Unlock(); return id == subjectID }
	// handlers, in registration order: count, gate 1, accounting (the Accounting-Stop of the session), gate 2
	e.m.OnEvent(func(ev *subscriber.SessionEvent) {
		if ev.Type != subscriber.EventSessionTerminate {
			return
		}
		e.mu.Lock()
		e.events[ev.SessionID]++
		e.mu.Unlock()
		if !isSubject(ev.SessionID) {
			select {
			case canary <- ev.SessionID:
			default:
			}
		}
	})
	e.m.OnEvent(func(ev *subscriber.SessionEvent) {
		if ev.Type == subscriber.EventSessionTerminate && isSubject(ev.SessionID) {
			g.at("terminate-handler-1", "")
		}
	})
	e.m.OnEvent(func(ev *subscriber.SessionEvent) {
		if ev.Type == subscriber.EventSessionTerminate && isSubject(ev.SessionID) {
			_ = am.StopSession(ev.SessionID, radius.TerminateCauseUserRequest)
		}
	})
	e.m.OnEvent(func(ev *subscriber.SessionEvent) {
		if ev.Type == subscriber.EventSessionTerminate && isSubject(ev.SessionID) {
			g.at("terminate-handler-2", "")
		}
	})
	s := e.open(subMACs[0], "active", true)
	if s == nil {
		run.Inconclusive(cell, "subject could not be opened")
		return
	}
	idMu.Lock()
	subjectID = s.ID
	idMu.Unlock()
	if op == "clear-walled-garden" {
		if err := e.m.SetWalledGarden(s.ID, "unpaid"); err != nil {
			run.Inconclusive(cell, "subject could not be walled")
			return
		}
		e.trace = append(e.trace, "subject put into the walled garden")
	}
	_ = am.StartSession(&radius.AccountingSession{SessionID: s.ID, Username: "u", MAC: s.MAC, FramedIP: s.IPv4})
	ip4, ip6 := s.IPv4.String(), s.IPv6.String()
	coa := radius.NewCoAProcessor(zap.NewNop())
	coa.SetAccountingManager(am)
	coa.SetSessionLookup(func(id string) (*radius.SessionInfo, bool) {
		if x, ok := e.m.GetSession(id); ok {
			return &radius.SessionInfo{SessionID: x.ID, MAC: x.MAC, FramedIP: x.IPv4, State: string(x.State)}, true
		}
		return nil, false
	})
	coa.SetSessionTerminator(func(ctx context.Context, id string, reason uint32) error {
		return e.m.TerminateSession(ctx, id, subscriber.TerminateNASRequest)
	})
	// ---- arm the point
	arrived := make(chan struct{})
	var hold *radHold
	if point == "terminate-handler-radius-stop" {
		hold = rad.hold(s.ID)
		g = newGate("none", "")
		go func() { <-hold.arrived; close(arrived) }()
	} else {
		g = newGate(point, "")
		go func() { <-g.arrived; close(arrived) }()
	}
	gg := g
	e.al.hook = func(p, addr string) {
		if addr == ip4 || addr == ip6 {
			gg.at(p, "")
		}
	}
	subscriber.VerifC16Hook = func(name string) {
		if name == "subscriber.terminate.between-check-and-remove" {
			gg.at("between-check-and-remove", "")
		}
	}
	letGo := func() {
		g.open()
		if hold != nil {
			hold.open()
		}
	}
	defer func() {
		letGo()
		subscriber.VerifC16Hook = nil
	}()
	launch := func(f func()) chan struct{} {
		c := make(chan struct{})
		go func() { defer close(c); f() }()
		return c
	}
	started, stopped := false, false
	startLoop := func() {
		if !started {
			started = true
			_ = e.m.Start()
		}
	}
	defer func() {
		if started && !stopped {
			e.m.Stop()
		}
	}()
	// ---- first termination
	time.Sleep(2 * time.Millisecond) // the subject's one-millisecond idle timeout has passed
	var all []chan struct{}
	switch first {
	case "terminate":
		all = append(all, launch(func() {
			_ = e.m.TerminateSession(context.Background(), s.ID, subscriber.TerminateUserRequest)
		}))
		e.trace = append(e.trace, "first: TerminateSession(user_request)")
	case "cleanup-loop":
		startLoop()
		e.trace = append(e.trace, "first: the manager's cleanup loop finds the subject idle")
	}
	reached := waitFor(arrived, 20*time.Second)
	if !reached {
		letGo()
		if started {
			e.m.Stop()
			stopped = true
		}
		run.Inconclusive(cell, "the first termination did not arrive at "+point+" within 20 s")
		return
	}
	e.trace = append(e.trace, "... held at "+point)
	// ---- an operation of the establishment / service sequence arrives meanwhile
	var opErr error
	switch op {
	case "update-activity":
		opErr = e.m.UpdateActivity(s.ID, 10, 10, 1, 1)
	case "activate":
		opErr = e.m.ActivateSession(s.ID)
	case "set-walled-garden":
		opErr = e.m.SetWalledGarden(s.ID, "unpaid")
	case "clear-walled-garden":
		opErr = e.m.ClearWalledGarden(s.ID)
	case "authenticate":
		_, opErr = e.m.Authenticate(context.Background(), s.ID)
	}
	if op != "none" {
		e.trace = append(e.trace, fmt.Sprintf("meanwhile %s -> %v", op, opErr))
	}
	// ---- second termination
	var secondDone chan struct{}
	switch second {
	case "terminate":
		secondDone = launch(func() {
			err := e.m.TerminateSession(context.Background(), s.ID, subscriber.TerminateAdminReset)
			e.mu.Lock()
			e.trace = append(e.trace, fmt.Sprintf("second: TerminateSession(admin_reset) -> %v", err))
			e.mu.Unlock()
		})
	case "coa-disconnect":
		secondDone = launch(func() {
			r := coa.HandleDisconnect(context.Background(), &radius.DisconnectRequest{SessionID: s.ID, AcctSessionID: s.ID})
			e.mu.Lock()
			e.trace = append(e.trace, fmt.Sprintf("second: Disconnect-Request -> success=%v %s", r.Success, r.Message))
			e.mu.Unlock()
		})
	case "stop":
		stopped = true
		secondDone = launch(func() { _ = e.m.Stop() })
		e.mu.Lock()
		e.trace = append(e.trace, "second: Manager.Stop()")
		e.mu.Unlock()
	case "cleanup-loop":
		// a canary session with the subject's idle timeout, opened before the loop starts: the tick that ends it has
		// seen the subject's table entry (if there is one) in the same scan; the second caller is done when that
		// tick has returned to the loop
		secondDone = launch(func() {
			mac := net.HardwareAddr{0x02, 0xca, 0xdd, 0, 0, 1}
			auth.mu.Lock()
			auth.short[mac.String()] = true
			auth.mu.Unlock()
			if c := e.open2(mac); c == nil {
				return
			}
			time.Sleep(2 * time.Millisecond)
			startLoop()
			select {
			case <-canary:
			case <-time.After(2 * time.Second):
				return
			}
			for i := 0; i < 500 && onStack("(*Manager).cleanupExpiredSessions") > 0; i++ {
				time.Sleep(time.Millisecond)
			}
		})
		e.mu.Lock()
		e.trace = append(e.trace, "second: the cleanup loop ticks (a canary session idles out in the same tick)")
		e.mu.Unlock()
	}
	// bounded: until the second caller has returned or waits for a lock / for the loop goroutine inside the manager
	fin, _ := settle([]chan struct{}{secondDone}, "subscriber.(*Manager).", 1500*time.Millisecond)
	secondReturned := fin == 1
	// ---- let the first one go
	letGo()
	all = append(all, secondDone)
	for _, c := range all {
		if !waitFor(c, 20*time.Second) {
			run.Inconclusive(cell, "a termination did not return within 20 s of the release")
			return
		}
	}
	if first == "cleanup-loop" && !stopped {
		// the loop goroutine was the first caller: Stop waits for it
		e.m.Stop()
		stopped = true
	}
	if started && !stopped {
		e.m.Stop()
		stopped = true
	}
	am.Stop()
	run.Eval()
	run.Count("overlap_subscriber_cases", 1)
	run.Count("overlap_subscriber_point:"+point, 1)
	run.Count("overlap_subscriber_pair:"+first+"||"+second, 1)
	run.Count(fmt.Sprintf("overlap_subscriber_second_returned_before_release=%v", secondReturned), 1)
	run.Distinct("overlap_subscriber_cells", cell)
	run.Nontrivial(cell)
	reachedSet[first+"||"+second+"@"+point] = true
	// ---- judge
	e.mu.Lock()
	ev := e.events[s.ID]
	distinctEnded := len(e.events)
	hist := append([]string(nil), e.trace...)
	e.mu.Unlock()
	held, mis, lg := e.al.snapshot()
	e.al.mu.Lock()
	r4, r6 := e.al.rel[ip4], e.al.rel[ip6]
	e.al.mu.Unlock()
	st := e.m.Stats()
	starts, stops := rad.counts(s.ID)
	wit := map[string]any{"cell": cell, "terminate_events": ev, "release_calls_v4": r4, "release_calls_v6": r6, "allocator_log": lg, "sessions_ended_counter": st.TotalSessionsEnded, "sessions_with_terminate_event": distinctEnded, "acct_starts": starts, "acct_stops": stops, "history": hist}
	comp := "subscriber.Manager.TerminateSession"
	ctx := subWindow[point]
	if op != "none" && op != "update-activity" {
		ctx = "state-reset-by-another-operation/" + ctx
	}
	if ev != 1 {
		run.Violation(comp, "one-terminate-event", fmt.Sprintf("events=%d/%s", ev, ctx), fmt.Sprintf("%d session_terminate events (each one Accounting-Stop) for one session ended by %s and %s (first held at %s, meanwhile %s)", ev, first, second, point, op), wit)
	}
	if r4 != 1 || r6 != 1 || len(mis) > 0 {
		cls := "released-twice"
		if r4 == 0 || r6 == 0 {
			cls = "not-released"
		}
		run.Violation(comp, "released-once", cls+"/"+ctx, fmt.Sprintf("IPv4 released %d times, IPv6 released %d times (releases of addresses not held: %v)", r4, r6, mis), wit)
	}
	if int(st.TotalSessionsEnded) != distinctEnded {
		run.Violation(comp, "counters-bumped-once", fmt.Sprintf("sessions-ended-counter-off-by-%d/%s", int(st.TotalSessionsEnded)-distinctEnded, ctx), fmt.Sprintf("TotalSessionsEnded=%d after %d sessions ended", st.TotalSessionsEnded, distinctEnded), wit)
	}
	if starts >= 1 && stops != 1 {
		cls := "no-stop"
		if stops > 1 {
			cls = "stop-repeated"
		}
		run.Violation(comp, "one-stop-per-start", cls+"/"+ctx, fmt.Sprintf("%d Accounting-Start, %d Accounting-Stop records", starts, stops), wit)
	}
	var left []string
	if _, ok := e.m.GetSession(s.ID); ok {
		left = append(left, "session")
	}
	if x, ok := e.m.GetSessionByMAC(s.MAC); ok && x != nil && x.ID == s.ID {
		left = append(left, "by-mac")
	}
	for ip, id := range held {
		if id == s.ID {
			left = append(left, "allocator.held["+ip+"]")
		}
	}
	if len(left) > 0 {
		sort.Strings(left)
		var tb []string
		for _, l := range left {
			tb = append(tb, strings.SplitN(l, "[", 2)[0])
		}
		run.Violation(comp, "session-removed", strings.Join(tb, "+")+"-left/"+ctx, fmt.Sprintf("after both terminations returned the session still has %v", left), wit)
	}
}

// open2 opens an active session without an address and without touching the (unsynchronised) trace.
func (e *subEnv) open2(mac net.HardwareAddr) *subscriber.Session {
	ctx := context.Background()
	s, err := e.m.CreateSession(ctx, &subscriber.SessionRequest{MAC: mac, Type: subscriber.SessionTypeIPoE, CircuitID: "port-c"})
	if err != nil {
		return nil
	}
	if _, err := e.m.Authenticate(ctx, s.ID); err != nil {
		return nil
	}
	// no address: the canary must not take over (and later release) the address the subject gave back
	if err := e.m.ActivateSession(s.ID); err != nil {
		return nil
	}
	return s
}
