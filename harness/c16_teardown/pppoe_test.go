package c16

// System B: pppoe.Server over the in-memory raw socket (packet paths PADT, LCP Terminate-Request,
// PAP failure, idle timeout). System C: pppoe.SessionTeardown and KeepAliveManager over the real
// SessionManager and IPPool, with radius.Client against the harness RADIUS server and a recording
// fast-path callback (administrative paths, client PADT, dead peer, shutdown).

import (
	"context"
	"fmt"
	"net"
	"runtime"
	"sort"
	"strings"
	"sync"
	"testing"
	"testing/synctest"
	"time"

	"go.uber.org/zap"

	"github.com/codelaboratoryltd/bng/pkg/pppoe"
	"github.com/codelaboratoryltd/bng/pkg/radius"
)

var (
	pppServerMAC = net.HardwareAddr{0x02, 0xac, 0, 0, 0, 1}
	pppSubject   = net.HardwareAddr{0x02, 0x16, 0xbb, 0, 0, 0x51}
	pppBystander = net.HardwareAddr{0x02, 0xb1, 0xbb, 0, 0, 1}
)

// ---------------------------------------------------------------- encoders (independent of bng)

func u16(v uint16) []byte { return []byte{byte(v >> 8), byte(v)} }

func tlv16(t uint16, v []byte) []byte {
	return append(append(u16(t), u16(uint16(len(v)))...), v...)
}

func cpPkt(code, id byte, data []byte) []byte {
	return append(append([]byte{code, id}, u16(uint16(4+len(data)))...), data...)
}

func ethFrame(dst, src net.HardwareAddr, et uint16, payload []byte) []byte {
	f := append(append(append([]byte{}, dst...), src...), u16(et)...)
	return append(f, payload...)
}

func pppoeHdr(code byte, sid uint16, payload []byte) []byte {
	h := append([]byte{0x11, code}, u16(sid)...)
	h = append(h, u16(uint16(len(payload)))...)
	return append(h, payload...)
}

func padr(src net.HardwareAddr) []byte {
	tags := append(tlv16(0x0101, []byte("internet")), tlv16(0x0104, []byte("0123456789abcdef"))...)
	return ethFrame(pppServerMAC, src, 0x8863, pppoeHdr(0x19, 0, tags))
}

func padt(src net.HardwareAddr, sid uint16) []byte {
	return ethFrame(pppServerMAC, src, 0x8863, pppoeHdr(0xa7, sid, nil))
}

func pppFrame(src net.HardwareAddr, sid uint16, proto uint16, body []byte) []byte {
	return ethFrame(pppServerMAC, src, 0x8864, pppoeHdr(0x00, sid, append(u16(proto), body...)))
}

func papReq(user, pw string, id byte) []byte {
	d := append([]byte{byte(len(user))}, user...)
	d = append(append(d, byte(len(pw))), pw...)
	return cpPkt(1, id, d)
}

// ---------------------------------------------------------------- system B

type pppEnv struct {
	srv    *pppoe.Server
	sock   *pppoe.VerifC04Socket
	cancel context.CancelFunc
	trace  []string
	idle   time.Duration
}

func newPPPEnv(t *testing.T, withRadius bool) *pppEnv {
	e := &pppEnv{idle: 2 * time.Minute}
	cfg := pppoe.ServerConfig{Interface: "verif0", ACName: "c16-ac", ServiceName: "internet", ServerIP: "10.44.0.1", ClientPool: "10.44.0.0/29", PoolGateway: "10.44.0.1", AuthType: "pap", SessionTimeout: e.idle}
	srv, err := pppoe.NewServerWithInterface(cfg, zap.NewNop(), &net.Interface{Index: 7, Name: "verif0", HardwareAddr: pppServerMAC, MTU: 1500})
	if err != nil {
		hfatalf(t, "%v", err)
	}
	if withRadius {
		srv.SetRADIUSClient(newRadClient(t, "c16-ppp"))
	}
	e.srv = srv
	e.sock = pppoe.VerifC04NewSocket(8)
	srv.VerifC04SetSocket(e.sock)
	ctx, cancel := context.WithCancel(context.Background())
	e.cancel = cancel
	go srv.VerifC04ReceiveLoop(ctx)
	go srv.VerifC04CleanupLoop(ctx)
	return e
}

func newRadClient(t *testing.T, nas string) *radius.Client {
	rc, err := radius.NewClient(radius.ClientConfig{
		Servers: []radius.ServerConfig{{Host: "127.0.0.1", Port: rad.port, Secret: radSecret}},
		NASID:   nas, Timeout: 5 * time.Second, Retries: 1,
		RateLimit: radius.RateLimitConfig{RequestsPerSecond: 1e6, BurstSize: 100000},
	}, zap.NewNop())
	if err != nil {
		hfatalf(t, "%v", err)
	}
	return rc
}

func (e *pppEnv) stop() {
	e.cancel()
	e.sock.Close()
	synctest.Wait()
}

func (e *pppEnv) inject(what string, f []byte) {
	e.sock.Inject(f)
	synctest.Wait()
	e.sock.Drain()
	e.trace = append(e.trace, what)
}

func (e *pppEnv) sessionOf(mac net.HardwareAddr) *pppoe.Session {
	return e.srv.VerifC04Sessions().GetSessionByMAC(mac)
}

// establish drives mac to the prefix: "padr", "lcp", "pap-ok", "established". Returns the PPPoE session id.
func (e *pppEnv) establish(mac net.HardwareAddr, who, prefix string) (uint16, bool) {
	e.inject(who+" PADR", padr(mac))
	s := e.sessionOf(mac)
	if s == nil {
		return 0, false
	}
	sid := s.ID
	if prefix == "padr" {
		return sid, true
	}
	e.inject(who+" LCP Configure-Ack", pppFrame(mac, sid, 0xc021, cpPkt(2, 1, []byte{1, 4, 0x05, 0xd4})))
	if prefix == "lcp" {
		return sid, true
	}
	e.inject(who+" PAP Authenticate-Request (good)", pppFrame(mac, sid, 0xc023, papReq("user-"+who, "good", 1)))
	if prefix == "pap-ok" {
		return sid, s.ClientIP != nil
	}
	e.inject(who+" IPCP Configure-Ack", pppFrame(mac, sid, 0x8021, cpPkt(2, 2, []byte{3, 6, 10, 44, 0, 1})))
	return sid, s.IsEstablished()
}

func (e *pppEnv) census() *census {
	c := newCensus()
	avail, alloc := e.srv.VerifC04Pool()
	for _, ip := range avail {
		if _, dup := c.tab("pool.available")[ip]; dup {
			c.tab("pool.available-duplicates")[ip] = ""
		}
		c.tab("pool.available")[ip] = ""
	}
	for k, ip := range alloc {
		c.tab("pool.allocated")[k] = ip
	}
	for _, s := range e.srv.VerifC04Sessions().GetAllSessions() {
		ip := ""
		if s.ClientIP != nil {
			ip = s.ClientIP.String()
		}
		c.tab("session")[s.SessionID] = fmt.Sprintf("id=%d mac=%s ip=%s", s.ID, s.ClientMAC, ip)
	}
	for _, m := range []net.HardwareAddr{pppSubject, pppBystander} {
		if s := e.srv.VerifC04Sessions().GetSessionByMAC(m); s != nil {
			c.tab("mac-index")[m.String()] = s.SessionID
		}
	}
	return c
}

func (e *pppEnv) terminate(path string, mac net.HardwareAddr, sid uint16) {
	switch path {
	case "padt":
		e.inject("subject PADT", padt(mac, sid))
	case "lcp-terminate":
		e.inject("subject LCP Terminate-Request", pppFrame(mac, sid, 0xc021, cpPkt(5, 9, []byte("bye"))))
	case "idle-timeout":
		// the bystander stays active; the subject is silent for longer than the idle timeout plus one cleanup tick
		for i := 0; i < 6; i++ {
			time.Sleep(e.idle / 4)
			synctest.Wait()
			if b := e.sessionOf(pppBystander); b != nil {
				e.sock.Inject(pppFrame(pppBystander, b.ID, 0xc021, cpPkt(9, byte(i), []byte{0, 0, 0, 0})))
				synctest.Wait()
				e.sock.Drain()
			}
		}
		e.trace = append(e.trace, fmt.Sprintf("subject silent for %v (bystander keeps sending LCP echo), cleanup loop ticks every 30s", e.idle*6/4))
	case "auth-failure":
		e.inject("subject PAP Authenticate-Request (bad password)", pppFrame(mac, sid, 0xc023, papReq("user-subject", "bad", 3)))
	}
}

var pppComponent = map[string]string{
	"padt": "pppoe.Server.handlePADT", "lcp-terminate": "pppoe.Server.handleLCPTermRequest",
	"idle-timeout": "pppoe.SessionManager.CleanupExpired", "auth-failure": "pppoe.Server.handlePAP",
}

func judgePPP(comp, rule, ctx string, s0, s2 *census, wit func() any) (leftTables []string) {
	added, lost, _ := s2.diff(s0)
	var addr, sess, by []string
	for _, a := range added {
		switch tableOf(a) {
		case "pool.allocated":
			addr = append(addr, a)
		case "session", "mac-index":
			sess = append(sess, a)
		default:
			by = append(by, a)
		}
	}
	for _, l := range lost {
		if tableOf(l) == "pool.available" && len(addr) > 0 {
			continue // the other side of pool.allocated
		}
		by = append(by, "lost "+l)
	}
	if len(addr) > 0 {
		run.Violation(comp, rule, "pool.allocated-left/"+ctx, fmt.Sprintf("the address is still allocated to the ended session: %v", addr), wit())
		leftTables = append(leftTables, "pool.allocated")
	}
	if len(sess) > 0 {
		run.Count("pppoe_session_object_lingers_after_end", 1) // not one of the resources the statement names
	}
	if len(by) > 0 {
		run.Violation(comp, "bystanders-untouched", strings.Join(tablesOf(by), "+"), fmt.Sprintf("entries that are not the subject's changed: %v", by), wit())
	}
	if d := s2.T["pool.available-duplicates"]; len(d) > 0 {
		run.Violation(comp, rule, "free-list-duplicate/"+ctx, fmt.Sprintf("the free list holds an address twice: %v", d), wit())
	}
	return
}

func TestPPPoEServer(t *testing.T) {
	n := 0
	for _, withRadius := range []bool{false, true} {
		for _, prefix := range []string{"padr", "lcp", "pap-ok", "established"} {
			for _, path := range []string{"padt", "lcp-terminate", "idle-timeout", "auth-failure"} {
				if path == "auth-failure" && (prefix != "lcp" || !withRadius) {
					continue // without RADIUS every PAP request is accepted: there is no failure path
				}
				for _, second := range []string{"none", "padt", "lcp-terminate", "idle-timeout"} {
					cell := fmt.Sprintf("pppoe-server/radius=%v/%s/%s/then-%s", withRadius, prefix, path, second)
					n++
					sample := n == 40
					bubbleMu.Lock()
					synctest.Test(t, func(t *testing.T) {
						e := newPPPEnv(t, withRadius)
						defer e.stop()
						if _, ok := e.establish(pppBystander, "bystander", "established"); !ok {
							run.Inconclusive(cell, "bystander session could not be established")
							return
						}
						s0 := e.census()
						sid, ok := e.establish(pppSubject, "subject", prefix)
						if !ok {
							run.Inconclusive(cell, "subject could not reach prefix")
							return
						}
						s1 := e.census()
						held, _, _ := s1.diff(s0)
						wit := func() any {
							return map[string]any{"cell": cell, "held_after_establishment": held, "history": append([]string(nil), e.trace...)}
						}
						e.terminate(path, pppSubject, sid)
						s2 := e.census()
						run.Eval()
						run.Count("pppoe_server_cells", 1)
						run.Count("pppoe_server_path_"+path, 1)
						run.Count("pppoe_server_resources_held", len(held))
						ctx := "no-address"
						if prefix == "pap-ok" || prefix == "established" {
							ctx = "address-held"
							run.Nontrivial(cell)
						}
						judgePPP(pppComponent[path], "address-returned", ctx, s0, s2, wit)
						if second != "none" {
							e.terminate(second, pppSubject, sid)
							s3 := e.census()
							a3, l3, c3 := s3.diff(s2)
							var eff []string
							for _, x := range append(append(a3, l3...), c3...) {
								// a lingering Closed session object may be reaped later: that is the first termination completing, not a further effect
								if tb := tableOf(x); tb == "session" || tb == "mac-index" {
									continue
								}
								eff = append(eff, x)
							}
							if len(eff) > 0 {
								run.Violation(pppComponent[second], "second-termination-no-effect", strings.Join(tablesOf(eff), "+")+"/after-"+path, fmt.Sprintf("%s after %s changed %v", second, path, eff), wit())
							}
							run.Count("pppoe_server_second_terminations", 1)
						}
						if sample {
							left, _, _ := s2.diff(s0)
							run.Sample(map[string]any{"system": "pppoe.Server", "cell": cell, "held_after_establishment": held, "left_after_termination": left, "history": e.trace})
						}
					})
					bubbleMu.Unlock()
				}
			}
		}
	}
}

// ---------------------------------------------------------------- system C: SessionTeardown

// fastPath is the recording leaf behind SessionTeardown's eBPF callback: entries keyed by client
// address (as the QoS/NAT/antispoof maps are), removal deletes the key.
type fastPath struct {
	mu      sync.Mutex
	entries map[string]string // client address -> RADIUS session id of the owner
	calls   map[string]int    // RADIUS session id -> removals requested
}

func (f *fastPath) add(s *pppoe.Session) {
	f.mu.Lock()
	f.entries[s.ClientIP.String()] = s.SessionID
	f.mu.Unlock()
}

func (f *fastPath) update(s *pppoe.Session, remove bool) error {
	f.mu.Lock()
	defer f.mu.Unlock()
	if remove {
		f.calls[s.SessionID]++
		if s.ClientIP != nil {
			delete(f.entries, s.ClientIP.String())
		}
	}
	return nil
}

type tdEnv struct {
	td    *pppoe.SessionTeardown
	sm    *pppoe.SessionManager
	pool  *pppoe.IPPool
	rc    *radius.Client
	fp    *fastPath
	padts map[string]int
	mu    sync.Mutex
	trace []string
}

func newTDEnv(t *testing.T, nas string) *tdEnv {
	e := &tdEnv{sm: pppoe.NewSessionManager(), fp: &fastPath{entries: map[string]string{}, calls: map[string]int{}}, padts: map[string]int{}}
	var err error
	e.pool, err = pppoe.NewIPPool("10.45.0.0/30", "10.45.0.1") // one usable address besides the gateway: reuse is immediate
	if err != nil {
		hfatalf(t, "%v", err)
	}
	e.rc = newRadClient(t, nas)
	e.td = pppoe.NewSessionTeardown(pppoe.DefaultTeardownConfig(), zap.NewNop())
	e.td.SetRADIUSClient(e.rc)
	e.td.SetIPPool(e.pool)
	e.td.SetSessionManager(e.sm)
	e.td.SetUpdateEBPFMaps(e.fp.update)
	e.td.SetSendPADT(func(s *pppoe.Session, tags []pppoe.Tag) {
		e.mu.Lock()
		e.padts[s.SessionID]++
		e.mu.Unlock()
	})
	e.td.SetSendLCPTermReq(func(s *pppoe.Session, reason string) {})
	return e
}

// open creates a session the way pppoe.Server does (CreateSession, then the fields the handlers set) up to the prefix.
func (e *tdEnv) open(mac net.HardwareAddr, user, prefix string) *pppoe.Session {
	s, err := e.sm.CreateSession(mac, pppServerMAC)
	if err != nil {
		return nil
	}
	s.SetState(pppoe.StateLCPNegotiation)
	if prefix == "unauthenticated" {
		e.trace = append(e.trace, user+": session created (not authenticated)")
		return s
	}
	s.Username, s.Authenticated, s.AuthMethod = user, true, "PAP"
	s.SetState(pppoe.StateIPCPNegotiation)
	if prefix == "authenticated" {
		e.trace = append(e.trace, user+": authenticated, no address yet")
		return s
	}
	s.ClientIP = e.pool.Allocate(s.SessionID)
	if s.ClientIP == nil {
		e.sm.RemoveSession(s.ID)
		return nil
	}
	s.SetState(pppoe.StateEstablished)
	e.fp.add(s)
	// the Accounting-Start of an established session (the library leaves it to its caller)
	_ = e.rc.SendAccounting(context.Background(), &radius.AcctRequest{SessionID: s.SessionID, Username: user, MAC: mac, FramedIP: s.ClientIP, StatusType: radius.AcctStatusStart})
	e.trace = append(e.trace, fmt.Sprintf("%s: established with %v, Accounting-Start sent", user, s.ClientIP))
	return s
}

var tdPaths = []string{"client-padt", "terminate-session", "by-id", "by-mac", "by-username", "terminate-all"}

func (e *tdEnv) terminate(path string, s *pppoe.Session) {
	switch path {
	case "client-padt":
		_ = e.td.HandleClientPADT(s, s.ClientMAC, s.ID)
	case "terminate-session":
		_ = e.td.TerminateSession(s, pppoe.TerminateCauseIdleTimeout, "idle")
	case "by-id":
		_ = e.td.TerminateByID(s.ID, "admin")
	case "by-mac":
		_ = e.td.TerminateByMAC(s.ClientMAC, "admin")
	case "by-username":
		if s.Username == "" {
			_ = e.td.TerminateByID(s.ID, "admin") // no user name to address it by
		} else {
			e.td.TerminateByUsername(s.Username, "admin")
		}
	case "terminate-all":
		e.td.TerminateAll(pppoe.TerminateCauseAdminReboot, "shutdown")
	}
	e.trace = append(e.trace, "terminate via "+path)
}

var tdComponent = map[string]string{
	"client-padt": "pppoe.SessionTeardown.HandleClientPADT", "terminate-session": "pppoe.SessionTeardown.TerminateSession",
	"by-id": "pppoe.SessionTeardown.TerminateByID", "by-mac": "pppoe.SessionTeardown.TerminateByMAC",
	"by-username": "pppoe.SessionTeardown.TerminateByUsername", "terminate-all": "pppoe.SessionTeardown.TerminateAll",
}

// addressFree probes the one-address pool: true iff a fresh id can obtain the address (which is then given back).
func (e *tdEnv) addressFree() bool {
	ip := e.pool.Allocate("c16-probe")
	if ip == nil {
		return false
	}
	e.pool.Release("c16-probe")
	return true
}

func TestSessionTeardown(t *testing.T) {
	n := 0
	for _, prefix := range []string{"unauthenticated", "authenticated", "established"} {
		for _, path := range tdPaths {
			for _, second := range append([]string{"none"}, tdPaths...) {
				for _, reuse := range []bool{false, true} {
					if reuse && (second == "none" || prefix != "established") {
						continue
					}
					cell := fmt.Sprintf("teardown/%s/%s/then-%s/reuse=%v", prefix, path, second, reuse)
					n++
					sample := n == 30
					bubbleMu.Lock()
					synctest.Test(t, func(t *testing.T) {
						e := newTDEnv(t, "c16-td")
						s := e.open(pppSubject, "subject", prefix)
						if s == nil {
							run.Inconclusive(cell, "session could not be opened")
							return
						}
						wit := func() any { return map[string]any{"cell": cell, "session_id": s.SessionID, "history": append([]string(nil), e.trace...)} }
						e.terminate(path, s)
						synctest.Wait()
						run.Eval()
						run.Count("teardown_cells", 1)
						run.Count("teardown_path_"+path, 1)
						if prefix == "established" {
							run.Nontrivial(cell)
						}
						comp := tdComponent[path]
						starts, stops := rad.counts(s.SessionID)
						run.Count("teardown_acct_starts_observed", starts)
						run.Count("teardown_acct_stops_observed", stops)
						if starts >= 1 && stops != 1 {
							cls := "no-stop"
							if stops > 1 {
								cls = "stop-repeated"
							}
							run.Violation(comp, "one-stop-per-start", cls, fmt.Sprintf("%d Start, %d Stop for session %s after %s", starts, stops, s.SessionID, path), wit())
						}
						if starts == 0 && stops > 0 {
							run.Count("stop_without_start_observed", 1)
						}
						if !e.addressFree() {
							run.Violation(comp, "address-returned", "pool.allocated-left/"+prefix, "the pool's only address cannot be obtained after "+path, wit())
						}
						if e.sm.GetSession(s.ID) != nil || e.sm.GetSessionByMAC(pppSubject) != nil {
							run.Violation(comp, "session-removed", "session-table-left/"+prefix, "the session is still in the session table after "+path, wit())
						}
						if prefix == "established" {
							e.fp.mu.Lock()
							_, left := e.fp.entries[s.ClientIP.String()]
							calls := e.fp.calls[s.SessionID]
							e.fp.mu.Unlock()
							run.Count("teardown_fastpath_removals_observed", calls)
							if left {
								run.Violation(comp, "no-fast-path-entry", "callback-entry-left", "the fast-path entry of the session is still present after "+path, wit())
							}
						}
						if second == "none" {
							if sample {
								run.Sample(map[string]any{"system": "pppoe.SessionTeardown", "cell": cell, "acct": fmt.Sprintf("starts=%d stops=%d", starts, stops), "history": e.trace})
							}
							return
						}
						// optionally a new subscriber takes over the freed address (and, for by-mac/by-username, nothing else of the old one)
						var nu *pppoe.Session
						if reuse {
							nu = e.open(pppBystander, "newcomer", "established")
							if nu == nil {
								run.Inconclusive(cell, "newcomer could not be established on the freed address")
								return
							}
						}
						acct1 := rad.total()
						_, stops1 := rad.counts(s.SessionID)
						e.fp.mu.Lock()
						calls1 := e.fp.calls[s.SessionID]
						e.fp.mu.Unlock()
						// the second termination addresses the ended session the way a late caller would: through the handle it
						// still has (client PADT retransmission, a second TerminateSession) or through the tables (admin paths)
						switch second {
						case "terminate-all":
							if reuse {
								return // would legitimately end the newcomer
							}
						}
						e.terminate(second, s)
						synctest.Wait()
						comp2 := tdComponent[second]
						run.Count("teardown_second_terminations", 1)
						var eff []string
						if _, stops2 := rad.counts(s.SessionID); stops2 != stops1 {
							eff = append(eff, fmt.Sprintf("another-stop(%d more)", stops2-stops1))
						}
						if n := rad.total() - acct1; n != 0 && len(eff) == 0 {
							eff = append(eff, fmt.Sprintf("accounting-records(%d)", n))
						}
						e.fp.mu.Lock()
						if c := e.fp.calls[s.SessionID]; c != calls1 {
							run.Count("teardown_fastpath_removal_requested_again", 1) // a repeated request is an effect only if it removes somebody's entry
						}
						if nu != nil {
							if owner := e.fp.entries[nu.ClientIP.String()]; owner != nu.SessionID {
								eff = append(eff, "newcomer-fast-path-entry-removed")
							}
						}
						e.fp.mu.Unlock()
						if nu != nil {
							if e.addressFree() {
								eff = append(eff, "newcomer-address-freed")
							}
							if e.sm.GetSession(nu.ID) == nil {
								eff = append(eff, "newcomer-session-removed")
							}
							if _, st := rad.counts(nu.SessionID); st != 0 {
								eff = append(eff, "newcomer-stopped")
							}
						}
						if len(eff) > 0 {
							var cls []string
							for _, x := range eff {
								cls = append(cls, strings.SplitN(x, "(", 2)[0])
							}
							sort.Strings(cls)
							run.Violation("pppoe.SessionTeardown.cleanup", "second-termination-no-effect", strings.Join(cls, "+"), fmt.Sprintf("%s (%s) of a session already ended by %s: %v", second, comp2, path, eff), wit())
						}
					})
					bubbleMu.Unlock()
				}
			}
		}
	}
	rad.forget()
}

// TestSessionTeardownConcurrent ends one established session by two callers at once.
func TestSessionTeardownConcurrent(t *testing.T) {
	pairs := [][2]string{{"client-padt", "client-padt"}, {"client-padt", "by-id"}, {"terminate-session", "by-mac"}, {"by-id", "by-id"}, {"client-padt", "terminate-session"}, {"terminate-all", "client-padt"}}
	reps := run.Pick(10, 100)
	for _, pr := range pairs {
		for r := 0; r < reps; r++ {
			name := pr[0] + "||" + pr[1]
			bubbleMu.Lock()
			synctest.Test(t, func(t *testing.T) {
				e := newTDEnv(t, "c16-td")
				s := e.open(pppSubject, "subject", "established")
				if s == nil {
					return
				}
				rng := run.SubRand("teardown-concurrent-"+name, r)
				var wg sync.WaitGroup
				for _, p := range pr {
					wg.Add(1)
					y := rng.IntN(4)
					go func() {
						defer wg.Done()
						for ; y > 0; y-- {
							runtime.Gosched() // seeded: which caller gets ahead
						}
						e.terminate2(p, s)
					}()
				}
				wg.Wait()
				synctest.Wait()
				run.Eval()
				run.Count("teardown_concurrent_pairs", 1)
				run.Nontrivial("teardown-concurrent|" + name)
				starts, stops := rad.counts(s.SessionID)
				e.fp.mu.Lock()
				calls := e.fp.calls[s.SessionID]
				e.fp.mu.Unlock()
				wit := map[string]any{"pair": name, "repetition": r, "starts": starts, "stops": stops, "fast_path_removals": calls}
				comp := "pppoe.SessionTeardown.cleanup"
				if stops > 1 {
					run.Violation(comp, "one-stop-per-start", "stop-repeated/two-callers-at-once", fmt.Sprintf("%d Accounting-Stop records for one session ended by %s", stops, name), wit)
				} else if stops == 0 {
					run.Violation(comp, "one-stop-per-start", "no-stop/two-callers-at-once", "no Accounting-Stop for a session ended by "+name, wit)
				}
				if !e.addressFree() {
					run.Violation(comp, "address-returned", "pool.allocated-left/two-callers-at-once", "address not free after "+name, wit)
				}
				if e.sm.GetSession(s.ID) != nil {
					run.Violation(comp, "session-removed", "session-table-left/two-callers-at-once", "session still in the table after "+name, wit)
				}
			})
			bubbleMu.Unlock()
		}
	}
	rad.forget()
}

// terminate2 is terminate without the (unsynchronised) trace.
func (e *tdEnv) terminate2(path string, s *pppoe.Session) {
	switch path {
	case "client-padt":
		_ = e.td.HandleClientPADT(s, s.ClientMAC, s.ID)
	case "terminate-session":
		_ = e.td.TerminateSession(s, pppoe.TerminateCauseIdleTimeout, "idle")
	case "by-id":
		_ = e.td.TerminateByID(s.ID, "admin")
	case "by-mac":
		_ = e.td.TerminateByMAC(s.ClientMAC, "admin")
	case "terminate-all":
		e.td.TerminateAll(pppoe.TerminateCauseAdminReboot, "shutdown")
	}
}

// ---------------------------------------------------------------- system C2: dead peer through KeepAliveManager

func TestKeepAliveDeadPeer(t *testing.T) {
	for _, cfg := range []pppoe.KeepAliveConfig{
		pppoe.DefaultKeepAliveConfig(),
		{Enabled: true, Interval: 10 * time.Second, Timeout: 2 * time.Second, MaxFailures: 1, IdleThreshold: 5 * time.Second},
		{Enabled: true, Interval: 5 * time.Second, Timeout: time.Second, MaxFailures: 5, IdleThreshold: time.Second},
	} {
		cell := fmt.Sprintf("keepalive/interval=%v/timeout=%v/max=%d", cfg.Interval, cfg.Timeout, cfg.MaxFailures)
		bubbleMu.Lock()
		synctest.Test(t, func(t *testing.T) {
			e := newTDEnv(t, "c16-ka")
			s := e.open(pppSubject, "subject", "established")
			if s == nil {
				run.Inconclusive(cell, "session could not be opened")
				return
			}
			ka := pppoe.NewKeepAliveManager(cfg, zap.NewNop())
			echoes, terminated := 0, 0
			ka.SetSendEcho(func(x *pppoe.Session) uint8 { echoes++; return uint8(echoes) })
			ka.SetTerminateSession(func(x *pppoe.Session, reason string) {
				terminated++
				_ = e.td.TerminateSession(x, pppoe.TerminateCauseLostCarrier, reason)
			})
			ka.RegisterSession(s)
			ka.Start()
			// the peer never answers: advance until the manager declares it dead (bounded)
			killed := uint64(0)
			ticks := 0
			for ; ticks < 4*(cfg.MaxFailures+3) && killed == 0; ticks++ {
				time.Sleep(cfg.Interval)
				synctest.Wait()
				killed = ka.GetStats()["sessions_killed"]
			}
			// give the asynchronous termination every chance to complete
			time.Sleep(30 * time.Second)
			synctest.Wait()
			ka.Stop()
			synctest.Wait()
			e.trace = append(e.trace, fmt.Sprintf("peer silent for %d ticks of %v: sessions_killed=%d echo_timeouts=%d, terminate callback invoked %d times", ticks, cfg.Interval, killed, ka.GetStats()["echo_timeouts"], terminated))
			if killed == 0 {
				run.Inconclusive(cell, "the manager never declared the silent peer dead")
				return
			}
			run.Eval()
			run.Count("keepalive_dead_peer_cases", 1)
			run.Count("keepalive_sessions_declared_dead", int(killed))
			run.Count("keepalive_terminate_callbacks_observed", terminated)
			run.Nontrivial(cell)
			wit := map[string]any{"cell": cell, "session_id": s.SessionID, "history": e.trace}
			comp := "pppoe.KeepAliveManager.terminateSessionAsync"
			starts, stops := rad.counts(s.SessionID)
			var left []string
			if !e.addressFree() {
				left = append(left, "pool.allocated")
			}
			if e.sm.GetSession(s.ID) != nil {
				left = append(left, "session-table")
			}
			e.fp.mu.Lock()
			if _, ok := e.fp.entries[s.ClientIP.String()]; ok {
				left = append(left, "fast-path-entry")
			}
			e.fp.mu.Unlock()
			if starts >= 1 && stops != 1 {
				left = append(left, fmt.Sprintf("stops=%d", stops))
			}
			if len(left) > 0 {
				cls := "terminate-callback-invoked"
				if terminated == 0 {
					cls = "terminate-callback-never-invoked"
				}
				run.Violation(comp, "dead-peer-ends-session", cls, fmt.Sprintf("the manager counted the session as killed and forgot it, but the session still holds %v (terminate callback invoked %d times)", left, terminated), wit)
			}
			run.Sample(map[string]any{"system": "pppoe.KeepAliveManager", "cell": cell, "left": left, "history": e.trace})
		})
		bubbleMu.Unlock()
	}
	rad.forget()
}
