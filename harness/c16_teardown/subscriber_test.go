package c16

// System D: subscriber.Manager with a recording address allocator (explicit termination with every
// reason, idle and session timeout through the manager's own cleanup loop, shutdown, double and
// concurrent termination with a barrier at the verifPoint between the existence check and the
// index removal). System E: radius.CoAProcessor + AccountingManager in front of it (Disconnect-Request).

import (
	"context"
	"fmt"
	"net"
	"os"
	"sort"
	"strings"
	"sync"
	"testing"
	"testing/synctest"
	"time"

	"go.uber.org/zap"

	"github.com/codelaboratoryltd/bng/pkg/radius"
	"github.com/codelaboratoryltd/bng/pkg/subscriber"
)

// recAlloc is the recording leaf: lowest free address first, every call logged, misuse detected.
type recAlloc struct {
	mu     sync.Mutex
	free4  []string
	held4  map[string]string // address -> session id
	free6  []string
	held6  map[string]string
	misuse []string // releases of addresses that are not held
	rel    map[string]int
	log    []string
	// hook, when set, is called on entry of a release with the point name and the address (overlap tests
	// hold a release there, as a slow allocator back end would)
	hook func(point, addr string)
	// relFault, when set, is asked before a release is carried out: an error is returned to the caller and the
	// address stays held (a back end that refuses or times out); failed counts such refusals per address
	relFault func(addr string) error
	failed   map[string]int
}

// refuse reports the error of an armed release fault (and records it).
func (a *recAlloc) refuse(kind, k string) error {
	f := a.relFault
	if f == nil {
		return nil
	}
	err := f(k)
	if err == nil {
		return nil
	}
	a.mu.Lock()
	if a.failed == nil {
		a.failed = map[string]int{}
	}
	a.failed[k]++
	a.log = append(a.log, kind+" "+k+" REFUSED: "+err.Error())
	a.mu.Unlock()
	return err
}

func newRecAlloc(n int) *recAlloc {
	a := &recAlloc{held4: map[string]string{}, held6: map[string]string{}, rel: map[string]int{}}
	for i := 0; i < n; i++ {
		a.free4 = append(a.free4, fmt.Sprintf("10.46.0.%d", 2+i))
		a.free6 = append(a.free6, fmt.Sprintf("2001:db8:46::%x", 2+i))
	}
	return a
}

func (a *recAlloc) AllocateIPv4(ctx context.Context, s *subscriber.Session, pool string) (net.IP, net.IPMask, net.IP, error) {
	a.mu.Lock()
	defer a.mu.Unlock()
	if len(a.free4) == 0 {
		return nil, nil, nil, fmt.Errorf("exhausted")
	}
	sort.Strings(a.free4)
	ip := a.free4[0]
	a.free4 = a.free4[1:]
	a.held4[ip] = s.ID
	a.log = append(a.log, "alloc4 "+ip+" -> "+short(s.ID))
	return net.ParseIP(ip).To4(), net.CIDRMask(24, 32), net.ParseIP("10.46.0.1").To4(), nil
}

func (a *recAlloc) AllocateIPv6(ctx context.Context, s *subscriber.Session, pool string) (net.IP, *net.IPNet, error) {
	a.mu.Lock()
	defer a.mu.Unlock()
	if len(a.free6) == 0 {
		return nil, nil, fmt.Errorf("exhausted")
	}
	sort.Strings(a.free6)
	ip := a.free6[0]
	a.free6 = a.free6[1:]
	a.held6[ip] = s.ID
	a.log = append(a.log, "alloc6 "+ip+" -> "+short(s.ID))
	return net.ParseIP(ip), nil, nil
}

func (a *recAlloc) ReleaseIPv4(ctx context.Context, ip net.IP) error {
	if h := a.hook; h != nil {
		h("allocator-release-v4", ip.String())
	}
	if err := a.refuse("release4", ip.String()); err != nil {
		return err
	}
	a.mu.Lock()
	defer a.mu.Unlock()
	k := ip.String()
	a.rel[k]++
	owner, ok := a.held4[k]
	if !ok {
		a.misuse = append(a.misuse, "release4 "+k+" (not held)")
		a.log = append(a.log, "release4 "+k+" NOT HELD")
		return fmt.Errorf("not held")
	}
	delete(a.held4, k)
	a.free4 = append(a.free4, k)
	a.log = append(a.log, "release4 "+k+" (was "+short(owner)+")")
	return nil
}

func (a *recAlloc) ReleaseIPv6(ctx context.Context, ip net.IP) error {
	if h := a.hook; h != nil {
		h("allocator-release-v6", ip.String())
	}
	if err := a.refuse("release6", ip.String()); err != nil {
		return err
	}
	a.mu.Lock()
	defer a.mu.Unlock()
	k := ip.String()
	a.rel[k]++
	owner, ok := a.held6[k]
	if !ok {
		a.misuse = append(a.misuse, "release6 "+k+" (not held)")
		a.log = append(a.log, "release6 "+k+" NOT HELD")
		return fmt.Errorf("not held")
	}
	delete(a.held6, k)
	a.free6 = append(a.free6, k)
	a.log = append(a.log, "release6 "+k+" (was "+short(owner)+")")
	return nil
}

func (a *recAlloc) snapshot() (held map[string]string, misuse []string, log []string) {
	a.mu.Lock()
	defer a.mu.Unlock()
	held = map[string]string{}
	for k, v := range a.held4 {
		held[k] = v
	}
	for k, v := range a.held6 {
		held[k] = v
	}
	return held, append([]string(nil), a.misuse...), append([]string(nil), a.log...)
}

func short(id string) string {
	if len(id) > 8 {
		return id[:8]
	}
	return id
}

type okAuth struct{ fail bool }

func (o okAuth) Authenticate(ctx context.Context, req *subscriber.SessionRequest) (*subscriber.AuthResult, error) {
	if o.fail {
		return &subscriber.AuthResult{Success: false, Error: "rejected"}, nil
	}
	return &subscriber.AuthResult{Success: true, SubscriberID: "sub-" + req.MAC.String(), ISPID: "isp"}, nil
}

type subEnv struct {
	m      *subscriber.Manager
	al     *recAlloc
	mu     sync.Mutex
	events map[string]int // session id -> terminate events
	trace  []string
}

func newSubEnv(cfg subscriber.ManagerConfig, authFail bool) *subEnv {
	e := &subEnv{al: newRecAlloc(4), events: map[string]int{}}
	e.m = subscriber.NewManager(cfg, okAuth{authFail}, e.al, zap.NewNop())
	e.m.OnEvent(func(ev *subscriber.SessionEvent) {
		if ev.Type == subscriber.EventSessionTerminate {
			e.mu.Lock()
			e.events[ev.SessionID]++
			e.mu.Unlock()
		}
	})
	return e
}

// open drives a session to the prefix: "created", "authenticated", "addressed", "active".
func (e *subEnv) open(mac net.HardwareAddr, prefix string, v6 bool) *subscriber.Session {
	ctx := context.Background()
	s, err := e.m.CreateSession(ctx, &subscriber.SessionRequest{MAC: mac, Type: subscriber.SessionTypeIPoE, CircuitID: "port-1"})
	if err != nil {
		return nil
	}
	e.trace = append(e.trace, "create "+short(s.ID))
	if prefix == "created" {
		return s
	}
	if _, err := e.m.Authenticate(ctx, s.ID); err != nil {
		return nil
	}
	e.trace = append(e.trace, "authenticate "+short(s.ID))
	if prefix == "authenticated" {
		return s
	}
	p6 := ""
	if v6 {
		p6 = "v6"
	}
	if err := e.m.AssignAddress(ctx, s.ID, "v4", p6); err != nil {
		return nil
	}
	e.trace = append(e.trace, fmt.Sprintf("assign %v %v to %s", s.IPv4, s.IPv6, short(s.ID)))
	if prefix == "addressed" {
		return s
	}
	if err := e.m.ActivateSession(s.ID); err != nil {
		return nil
	}
	e.trace = append(e.trace, "activate "+short(s.ID))
	return s
}

func (e *subEnv) census() *census {
	c := newCensus()
	held, _, _ := e.al.snapshot()
	for ip, id := range held {
		c.tab("allocator.held")[ip] = short(id)
	}
	for _, s := range e.m.ListSessions() {
		c.tab("session")[short(s.ID)] = fmt.Sprintf("mac=%s v4=%v v6=%v", s.MAC, s.IPv4, s.IPv6)
		if x, ok := e.m.GetSessionByMAC(s.MAC); ok && x != nil {
			c.tab("by-mac")[s.MAC.String()] = short(x.ID)
		}
		if s.IPv4 != nil {
			if x, ok := e.m.GetSessionByIP(s.IPv4); ok && x != nil {
				c.tab("by-ip")[s.IPv4.String()] = short(x.ID)
			} else {
				c.tab("by-ip-missing")[s.IPv4.String()] = short(s.ID)
			}
		}
	}
	return c
}

var subMACs = []net.HardwareAddr{{0x02, 0x16, 0xdd, 0, 0, 1}, {0x02, 0xb1, 0xdd, 0, 0, 2}, {0x02, 0xb1, 0xdd, 0, 0, 3}, {0x02, 0xb1, 0xdd, 0, 0, 4}}

func (e *subEnv) judgeEnded(comp, ctxClass string, s *subscriber.Session, s0, s2 *census, wit func() any) {
	added, lost, changed := s2.diff(s0)
	var addr, idx, by []string
	for _, a := range added {
		switch tableOf(a) {
		case "allocator.held":
			addr = append(addr, a)
		case "session", "by-mac", "by-ip":
			idx = append(idx, a)
		default:
			by = append(by, a)
		}
	}
	for _, x := range append(lost, changed...) {
		by = append(by, x)
	}
	if len(addr) > 0 {
		run.Violation(comp, "address-returned", "allocator.held-left/"+ctxClass, fmt.Sprintf("addresses of the ended session were not released: %v", addr), wit())
	}
	if len(idx) > 0 {
		run.Violation(comp, "session-removed", strings.Join(tablesOf(idx), "+")+"-left/"+ctxClass, fmt.Sprintf("the ended session is still indexed: %v", idx), wit())
	}
	if len(by) > 0 {
		run.Violation(comp, "bystanders-untouched", strings.Join(tablesOf(by), "+"), fmt.Sprintf("entries of other sessions changed: %v", by), wit())
	}
	if _, mis, _ := e.al.snapshot(); len(mis) > 0 {
		run.Violation(comp, "released-once", "release-of-address-not-held/"+ctxClass, fmt.Sprintf("%v", mis), wit())
	}
	e.mu.Lock()
	n := e.events[s.ID]
	e.mu.Unlock()
	if n != 1 {
		run.Violation(comp, "one-terminate-event", fmt.Sprintf("events=%d/%s", n, ctxClass), fmt.Sprintf("%d session_terminate events for one ended session", n), wit())
	}
}

func TestSubscriberManager(t *testing.T) {
	reasons := []subscriber.TerminateReason{subscriber.TerminateUserRequest, subscriber.TerminateAdminReset, subscriber.TerminateLostCarrier, subscriber.TerminatePortError, subscriber.TerminateNASRequest, subscriber.TerminateNASReboot, subscriber.TerminateAuthFailed}
	paths := []string{"idle-timeout", "session-timeout", "shutdown"}
	for _, r := range reasons {
		paths = append(paths, "terminate:"+string(r))
	}
	n := 0
	for _, prefix := range []string{"created", "authenticated", "addressed", "active"} {
		for _, v6 := range []bool{false, true} {
			for _, path := range paths {
				for _, second := range []string{"none", "terminate-again", "cleanup-tick"} {
					if path == "shutdown" && second != "none" {
						continue
					}
					cell := fmt.Sprintf("subscriber/%s/v6=%v/%s/then-%s", prefix, v6, path, second)
					n++
					sample := n == 50
					bubbleMu.Lock()
					synctest.Test(t, func(t *testing.T) {
						cfg := subscriber.DefaultManagerConfig()
						cfg.CleanupInterval = 30 * time.Second
						cfg.DefaultIdleTimeout = 10 * time.Minute
						cfg.DefaultSessionTimeout = time.Hour
						e := newSubEnv(cfg, false)
						if err := e.m.Start(); err != nil {
							hfatalf(t, "%v", err)
						}
						stopped := false
						defer func() {
							if !stopped {
								e.m.Stop()
							}
						}()
						by := e.open(subMACs[1], "active", v6)
						if by == nil {
							run.Inconclusive(cell, "bystander could not be opened")
							return
						}
						s0 := e.census()
						s := e.open(subMACs[0], prefix, v6)
						if s == nil {
							run.Inconclusive(cell, "subject could not be opened")
							return
						}
						s1 := e.census()
						held, _, _ := s1.diff(s0)
						wit := func() any {
							_, _, lg := e.al.snapshot()
							return map[string]any{"cell": cell, "session": short(s.ID), "history": append([]string(nil), e.trace...), "allocator_log": lg}
						}
						comp := "subscriber.Manager.TerminateSession"
						switch {
						case strings.HasPrefix(path, "terminate:"):
							err := e.m.TerminateSession(context.Background(), s.ID, subscriber.TerminateReason(strings.TrimPrefix(path, "terminate:")))
							e.trace = append(e.trace, fmt.Sprintf("TerminateSession(%s) -> %v", path, err))
						case path == "idle-timeout":
							comp = "subscriber.Manager.cleanupExpiredSessions"
							// the bystander reports activity, the subject is silent
							for i := 0; i < 3; i++ {
								time.Sleep(cfg.DefaultIdleTimeout/2 + time.Second)
								synctest.Wait()
								_ = e.m.UpdateActivity(by.ID, 1, 1, 1, 1)
							}
							time.Sleep(cfg.CleanupInterval)
							synctest.Wait()
							e.trace = append(e.trace, "subject idle beyond the idle timeout (bystander active), cleanup loop ticked")
						case path == "session-timeout":
							comp = "subscriber.Manager.cleanupExpiredSessions"
							// the bystander was opened first: it would time out too. Judge the subject only; the bystander is expected to go as well.
							for i := 0; i < 8; i++ {
								time.Sleep(cfg.DefaultSessionTimeout / 8)
								synctest.Wait()
								_ = e.m.UpdateActivity(by.ID, 1, 1, 1, 1)
								_ = e.m.UpdateActivity(s.ID, 1, 1, 1, 1)
							}
							time.Sleep(cfg.CleanupInterval + time.Second)
							synctest.Wait()
							e.trace = append(e.trace, "both sessions active but older than the session timeout, cleanup loop ticked")
						case path == "shutdown":
							comp = "subscriber.Manager.Stop"
							e.m.Stop()
							stopped = true
							e.trace = append(e.trace, "Manager.Stop()")
						}
						s2 := e.census()
						run.Eval()
						run.Count("subscriber_cells", 1)
						run.Count("subscriber_path_"+strings.SplitN(path, ":", 2)[0], 1)
						run.Count("subscriber_resources_held", len(held))
						ctxClass := "no-address"
						if prefix == "addressed" || prefix == "active" {
							ctxClass = "address-held"
							run.Nontrivial(cell)
						}
						base := s0
						if path == "session-timeout" {
							base = newCensus() // everything timed out: nothing may be left at all
						}
						if path == "shutdown" {
							// at shutdown every session ends: nothing may be left held
							base = newCensus()
							left, _, _ := s2.diff(base)
							var addr []string
							for _, a := range left {
								if tableOf(a) == "allocator.held" {
									addr = append(addr, a)
								}
							}
							if len(addr) > 0 {
								run.Violation(comp, "address-returned", "allocator.held-left/sessions-not-ended", fmt.Sprintf("Stop() returned with addresses still allocated and no session ended: %v", addr), wit())
							}
						} else {
							e.judgeEnded(comp, ctxClass, s, base, s2, wit)
						}
						if second != "none" {
							_, _, lg1 := e.al.snapshot()
							e.mu.Lock()
							ev1 := e.events[s.ID]
							e.mu.Unlock()
							if second == "terminate-again" {
								err := e.m.TerminateSession(context.Background(), s.ID, subscriber.TerminateAdminReset)
								e.trace = append(e.trace, fmt.Sprintf("TerminateSession again -> %v", err))
							} else {
								time.Sleep(cfg.CleanupInterval)
								synctest.Wait()
								e.trace = append(e.trace, "one more cleanup tick")
							}
							s3 := e.census()
							a3, l3, c3 := s3.diff(s2)
							_, _, lg2 := e.al.snapshot()
							e.mu.Lock()
							ev2 := e.events[s.ID]
							e.mu.Unlock()
							var eff []string
							eff = append(eff, a3...)
							eff = append(eff, l3...)
							eff = append(eff, c3...)
							if len(lg2) != len(lg1) {
								eff = append(eff, fmt.Sprintf("allocator-calls %v", lg2[len(lg1):]))
							}
							if ev2 != ev1 {
								eff = append(eff, "another-terminate-event")
							}
							if len(eff) > 0 {
								run.Violation("subscriber.Manager.TerminateSession", "second-termination-no-effect", strings.Join(tablesOf(eff), "+"), fmt.Sprintf("%s after %s: %v", second, path, eff), wit())
							}
							run.Count("subscriber_second_terminations", 1)
						}
						if sample {
							left, _, _ := s2.diff(s0)
							run.Sample(map[string]any{"system": "subscriber.Manager", "cell": cell, "held_after_establishment": held, "left_after_termination": left, "history": e.trace})
						}
					})
					bubbleMu.Unlock()
				}
			}
		}
	}
}

// TestSubscriberConcurrentTermination: two callers end the same session; the verifPoint hook holds the first
// between the existence check and the index removal until the second has finished, a newcomer is given the
// freed address, then the first continues. Afterwards a third session asks for an address.
func TestSubscriberConcurrentTermination(t *testing.T) {
	defer func() { subscriber.VerifC16Hook = nil }()
	type pair struct{ a, b string }
	pairs := []pair{{"terminate", "terminate"}, {"terminate", "cleanup-idle"}, {"cleanup-idle", "terminate"}}
	for _, pr := range pairs {
		for _, newcomer := range []bool{false, true} {
			for _, v6 := range []bool{false, true} {
				cell := fmt.Sprintf("subscriber-concurrent/%s||%s/newcomer=%v/v6=%v", pr.a, pr.b, newcomer, v6)
				cfg := subscriber.DefaultManagerConfig()
				cfg.CleanupInterval = time.Hour // the loop is not used here; the idle path is driven by a tiny idle timeout and Start is not called
				e := newSubEnv(cfg, false)
				s := e.open(subMACs[0], "active", v6)
				if s == nil {
					run.Inconclusive(cell, "subject could not be opened")
					continue
				}
				ip := s.IPv4.String()
				var arrivals int
				var amu sync.Mutex
				firstArrived := make(chan struct{})
				proceed := make(chan struct{})
				reached := 0
				subscriber.VerifC16Hook = func(name string) {
					if name != "subscriber.terminate.between-check-and-remove" {
						return
					}
					amu.Lock()
					arrivals++
					k := arrivals
					reached++
					amu.Unlock()
					if k == 1 {
						close(firstArrived)
						<-proceed
					}
				}
				call := func(kind string) {
					_ = e.m.TerminateSession(context.Background(), s.ID, map[string]subscriber.TerminateReason{"terminate": subscriber.TerminateAdminReset, "cleanup-idle": subscriber.TerminateIdleTimeout}[kind])
				}
				done1, done2 := make(chan struct{}), make(chan struct{})
				go func() { call(pr.a); close(done1) }()
				select {
				case <-firstArrived:
				case <-done1:
				case <-time.After(5 * time.Second):
				}
				go func() { call(pr.b); close(done2) }()
				select {
				case <-done2:
				case <-time.After(2 * time.Second): // a fix that serialises whole terminations would block the second caller here
				}
				var nu *subscriber.Session
				if newcomer {
					nu = e.open(subMACs[2], "active", v6)
				}
				close(proceed)
				select {
				case <-done1:
				case <-time.After(5 * time.Second):
				}
				select {
				case <-done2:
				case <-time.After(5 * time.Second):
				}
				subscriber.VerifC16Hook = nil
				third := e.open(subMACs[3], "active", v6)
				run.Eval()
				run.Count("subscriber_concurrent_cases", 1)
				run.Count("subscriber_hook_point_reached", reached)
				if reached >= 2 {
					run.Nontrivial(cell)
				} else {
					run.Distinct("subscriber_concurrent_second_caller_stopped_at_check", cell)
					run.Nontrivial(cell)
				}
				held, mis, lg := e.al.snapshot()
				e.mu.Lock()
				ev := e.events[s.ID]
				e.mu.Unlock()
				wit := map[string]any{"cell": cell, "callers_past_existence_check": reached, "allocator_log": lg, "terminate_events": ev, "history": e.trace}
				comp := "subscriber.Manager.TerminateSession"
				e.al.mu.Lock()
				rel := e.al.rel[ip]
				e.al.mu.Unlock()
				if rel > 1 || len(mis) > 0 {
					cls := "released-twice"
					if newcomer && nu != nil && nu.IPv4 != nil && nu.IPv4.String() == ip {
						cls = "released-twice/address-of-newcomer-freed"
					}
					run.Violation(comp, "released-once", cls, fmt.Sprintf("address %s of one session was released %d times (misuse: %v)", ip, rel, mis), wit)
				}
				if ev != 1 {
					run.Violation(comp, "one-terminate-event", fmt.Sprintf("events=%d/concurrent", ev), fmt.Sprintf("%d session_terminate events for one session ended by two callers", ev), wit)
				}
				// two live sessions must not share an address, and every live session must hold its address
				seen := map[string]string{}
				for _, x := range e.m.ListSessions() {
					if x.IPv4 == nil {
						continue
					}
					k := x.IPv4.String()
					if o, dup := seen[k]; dup {
						run.Violation(comp, "two-paths-at-once-no-further-effect", "two-live-sessions-share-address", fmt.Sprintf("sessions %s and %s both hold %s", o, short(x.ID), k), wit)
					}
					seen[k] = short(x.ID)
					if held[k] == "" {
						run.Violation(comp, "two-paths-at-once-no-further-effect", "live-session-address-not-held", fmt.Sprintf("live session %s uses %s which the allocator considers free", short(x.ID), k), wit)
					}
					if y, ok := e.m.GetSessionByIP(x.IPv4); !ok || y == nil || y.ID != x.ID {
						run.Violation(comp, "two-paths-at-once-no-further-effect", "live-session-lost-ip-index", fmt.Sprintf("live session %s (%s) cannot be found by address any more", short(x.ID), k), wit)
					}
				}
				_ = third
			}
		}
	}
}

// ---------------------------------------------------------------- system E: Disconnect-Request through CoAProcessor

func TestCoADisconnect(t *testing.T) {
	dir, err := os.MkdirTemp("", "c16-acct")
	if err != nil {
		hfatalf(t, "%v", err)
	}
	defer os.RemoveAll(dir)
	rc := newRadClient(t, "c16-coa")
	reps := run.Pick(8, 60)
	for _, mode := range []string{"sequential-twice", "concurrent", "by-ip-twice"} {
		for r := 0; r < reps; r++ {
			if mode != "concurrent" && r > 1 {
				break
			}
			cell := "coa-disconnect/" + mode
			acfg := radius.DefaultAccountingConfig()
			acfg.PersistPath = fmt.Sprintf("%s/%s-%d", dir, mode, r)
			acfg.InterimEnabled = false
			am, err := radius.NewAccountingManager(rc, acfg, zap.NewNop())
			if err != nil {
				hfatalf(t, "%v", err)
			}
			if err := am.Start(); err != nil {
				hfatalf(t, "%v", err)
			}
			e := newSubEnv(subscriber.DefaultManagerConfig(), false)
			s := e.open(subMACs[0], "active", false)
			if s == nil {
				run.Inconclusive(cell, "session could not be opened")
				am.Stop()
				continue
			}
			_ = am.StartSession(&radius.AccountingSession{SessionID: s.ID, Username: "u", MAC: s.MAC, FramedIP: s.IPv4})
			p := radius.NewCoAProcessor(zap.NewNop())
			p.SetAccountingManager(am)
			info := func(x *subscriber.Session) *radius.SessionInfo {
				return &radius.SessionInfo{SessionID: x.ID, MAC: x.MAC, FramedIP: x.IPv4, State: string(x.State)}
			}
			p.SetSessionLookup(func(id string) (*radius.SessionInfo, bool) {
				if x, ok := e.m.GetSession(id); ok {
					return info(x), true
				}
				return nil, false
			})
			p.SetSessionLookupByIP(func(ip net.IP) (*radius.SessionInfo, bool) {
				if x, ok := e.m.GetSessionByIP(ip); ok && x != nil {
					return info(x), true
				}
				return nil, false
			})
			p.SetSessionTerminator(func(ctx context.Context, id string, reason uint32) error {
				return e.m.TerminateSession(ctx, id, subscriber.TerminateNASRequest)
			})
			req := &radius.DisconnectRequest{SessionID: s.ID, AcctSessionID: s.ID}
			if mode == "by-ip-twice" {
				req = &radius.DisconnectRequest{FramedIP: s.IPv4}
			}
			var res [2]*radius.DisconnectResponse
			if mode == "concurrent" {
				// the first caller to pass TerminateSession's existence check waits (bounded) for the second to pass it too
				var amu sync.Mutex
				arrivals := 0
				second := make(chan struct{})
				subscriber.VerifC16Hook = func(name string) {
					amu.Lock()
					arrivals++
					k := arrivals
					amu.Unlock()
					if k == 1 {
						select {
						case <-second:
						case <-time.After(300 * time.Millisecond):
						}
					} else if k == 2 {
						close(second)
					}
				}
				var wg sync.WaitGroup
				for i := range res {
					wg.Add(1)
					go func() { defer wg.Done(); res[i] = p.HandleDisconnect(context.Background(), req) }()
				}
				wg.Wait()
				subscriber.VerifC16Hook = nil
				amu.Lock()
				run.Count("coa_concurrent_callers_past_existence_check", arrivals)
				amu.Unlock()
			} else {
				res[0] = p.HandleDisconnect(context.Background(), req)
				res[1] = p.HandleDisconnect(context.Background(), req)
			}
			am.Stop()
			run.Eval()
			run.Count("coa_disconnect_cases", 1)
			run.Nontrivial(cell)
			starts, stops := rad.counts(s.ID)
			run.Count("coa_acct_starts_observed", starts)
			run.Count("coa_acct_stops_observed", stops)
			held, mis, lg := e.al.snapshot()
			e.mu.Lock()
			ev := e.events[s.ID]
			e.mu.Unlock()
			wit := map[string]any{"cell": cell, "responses": fmt.Sprintf("%+v / %+v", *res[0], *res[1]), "starts": starts, "stops": stops, "allocator_log": lg, "terminate_events": ev}
			comp := "radius.CoAProcessor.HandleDisconnect"
			if starts >= 1 && stops != 1 {
				cls := "no-stop"
				if stops > 1 {
					cls = "stop-repeated"
				}
				run.Violation(comp, "one-stop-per-start", cls+"/"+mode, fmt.Sprintf("%d Start and %d Stop for a session disconnected twice (%s)", starts, stops, mode), wit)
			}
			if len(held) != 0 {
				run.Violation(comp, "address-returned", "allocator.held-left/"+mode, fmt.Sprintf("%v", held), wit)
			}
			if len(mis) > 0 {
				run.Violation(comp, "released-once", "release-of-address-not-held/"+mode, fmt.Sprintf("%v", mis), wit)
			}
			if ev != 1 {
				run.Violation(comp, "one-terminate-event", fmt.Sprintf("events=%d/%s", ev, mode), "terminate events for a session disconnected twice", wit)
			}
		}
	}
	rad.forget()
}
