package c16

// Establishment cut short at every protocol phase, after which the client is never heard of again, followed by
// the server's periodic sweeps under virtual time - in particular sweeps in which nothing else expires.
// Oracle: once the offer hold time has passed, a bounded number of sweeps (two) later the address is back in
// the pool (or quarantined, if it was declined) and no offer record is left; the final census equals the one
// taken before the client appeared.

import (
	"fmt"
	"net"
	"sort"
	"strings"
	"testing"
	"testing/synctest"
	"time"
)

var sweepPhases = []string{
	"discover",                 // DISCOVER/OFFER, no REQUEST ever
	"discover-twice",           // the client repeats its DISCOVER, then silence
	"discover-request-refused", // REQUEST for an address of another client: NAK, the reservation stays
	"discover-decline",         // the offered address is declined
	"discover-release",         // the offered address is released
	"session-release-discover", // a whole session, released; then DISCOVER again and silence
	"lapse-rediscover",         // the lease lapses, no sweep yet, DISCOVER again and silence
}

var sweepScenarios = []string{
	"alone",                 // no other client: no sweep ever finds an expired lease
	"quiet-neighbours",      // other clients renew in time: no sweep finds an expired lease
	"long-lease-neighbours", // other clients hold day-long leases and stay silent
	"busy",                  // another client's lease expires in the sweep that follows the hold time
}

const sweepStep = time.Minute + time.Second // the server's ticker period (leaseCleanup), a little late

func TestIPoEPhasesSweeps(t *testing.T) {
	ks := loadKernels(t)
	defer ks.close()
	n := 0
	for _, k := range []ipoeKind{ipoeKinds[0], ipoeKinds[1]} {
		for _, phase := range sweepPhases {
			for _, sc := range sweepScenarios {
				if phase == "discover-request-refused" && sc == "alone" {
					continue // the refused REQUEST needs another client's address
				}
				for rep := 0; rep < run.Pick(1, 4); rep++ {
					runSweepCell(t, ks, k, phase, sc, n)
					n++
				}
			}
		}
	}
	rad.forget()
}

func (e *ipoeEnv) offerTable() kv {
	out := kv{}
	for mac, o := range e.srv.VerifC16Offers() {
		out[mac] = fmt.Sprintf("pool=%d", o.PoolID)
	}
	return out
}

func runSweepCell(t *testing.T, ks *kernels, k ipoeKind, phase, sc string, idx int) {
	bubbleMu.Lock()
	defer bubbleMu.Unlock()
	rng := run.SubRand("sweep-cell", idx)
	geo := ipoeGeometries[rng.IntN(len(ipoeGeometries))]
	lease := []time.Duration{2 * time.Minute, 10 * time.Minute, time.Hour}[rng.IntN(3)]
	if sc == "long-lease-neighbours" {
		lease = 24 * time.Hour
	}
	if sc == "busy" {
		lease = 2 * time.Minute // the neighbour's lease and the offer hold time end together
	}
	m3, m4 := byte(rng.IntN(256)), byte(rng.IntN(256))
	cell := fmt.Sprintf("sweeps/%s/%s/%s", k.Name, phase, sc)
	synctest.Test(t, func(t *testing.T) {
		e := newIPoEEnv(t, ks, ipoeVariants[0], geo[0], geo[1], lease)
		if sc == "quiet-neighbours" || sc == "long-lease-neighbours" || phase == "discover-request-refused" {
			if !e.addBystanders(2) {
				run.Inconclusive(cell, "neighbours could not be established")
				return
			}
		}
		renew := e.by
		sub := &dclient{Name: "subject", mac: net.HardwareAddr{0x02, 0x16, 0xfb, m3, m4, 0x51}}
		if k.Relayed {
			sub.relay = net.IPv4(10, 250, 0, 1)
			sub.cid = mkCID(fmt.Sprintf("SUBJ%c", 'A'+rng.IntN(26)), k.CIDLen)
		}
		s0 := e.census()
		off0 := e.offerTable()
		wit := func() any {
			return map[string]any{"cell": cell, "subject": sub.mac.String(), "address": fmt.Sprint(sub.ip), "lease_time": lease.String(), "history": append([]string(nil), e.trace...)}
		}
		// ---- phases that begin with a whole session
		switch phase {
		case "session-release-discover":
			if !e.discover(sub) || e.request(sub, sub.cid) != "ack" {
				run.Inconclusive(cell, "no session")
				return
			}
			e.release(sub)
		case "lapse-rediscover":
			if !e.discover(sub) || e.request(sub, sub.cid) != "ack" {
				run.Inconclusive(cell, "no session")
				return
			}
			e.advancePastLease()
		}
		// the neighbour whose lease will expire in the sweep after the hold time binds just before the subject's DISCOVER
		if sc == "busy" {
			nb := &dclient{Name: "expiring-neighbour", mac: net.HardwareAddr{0x02, 0xb3, 0xfb, 0, 0, 9}}
			if !e.discover(nb) || e.request(nb, nil) != "ack" {
				run.Inconclusive(cell, "neighbour could not be established")
				return
			}
		}
		if sc == "long-lease-neighbours" {
			e.by = nil // from here on they stay silent: their leases outlive the case
		}
		if !e.discover(sub) {
			run.Inconclusive(cell, "no offer")
			return
		}
		offered := sub.ip
		switch phase {
		case "discover-twice":
			time.Sleep(20 * time.Second)
			synctest.Wait()
			e.discover(sub)
		case "discover-request-refused":
			sub.ip = renew[0].ip
			res := e.request(sub, sub.cid)
			sub.ip = offered
			if res == "ack" {
				run.Violation("dhcp.Server.handleRequest", "address-returned", "address-of-another-client-acknowledged", "a REQUEST for an address leased to another client was acknowledged", wit())
				return
			}
		case "discover-decline":
			e.decline(sub)
		case "discover-release":
			e.release(sub)
		}
		alloc1, _, _ := e.pool.VerifC16Snapshot()
		_, recorded := e.offerTable()[sub.mac.String()]
		_, reserved := alloc1[sub.mac.String()]
		run.Count("sweep_reservation_after_phase:"+fmt.Sprintf("pool=%v,offer-record=%v", reserved, recorded), 1)
		// ---- silence; the ticker sweeps once a minute
		hold := 2 * time.Minute
		if lease < hold {
			hold = lease
		}
		start := time.Now()
		reclaimedAt, sweepsAfterHold := 0, 0
		var leftAtBound []string
		const bound = 2
		for i := 1; sweepsAfterHold < bound+1; i++ {
			time.Sleep(sweepStep)
			synctest.Wait()
			for _, b := range e.by {
				e.request(b, b.cid) // neighbours that renew in time
			}
			leases0 := len(e.srv.VerifC16Leases())
			e.cleanup()
			expired := leases0 - len(e.srv.VerifC16Leases())
			e.trace = append(e.trace, fmt.Sprintf("sweep %d at +%v: %d leases expired in it", i, time.Since(start), expired))
			run.Count(fmt.Sprintf("sweeps_with_%s", map[bool]string{true: "an_expired_lease", false: "no_expired_lease"}[expired > 0]), 1)
			if time.Since(start) > hold {
				sweepsAfterHold++
			}
			a, _, _ := e.pool.VerifC16Snapshot()
			_, inPool := a[sub.mac.String()]
			_, inOffers := e.offerTable()[sub.mac.String()]
			if !inPool && !inOffers && reclaimedAt == 0 {
				reclaimedAt = i
				if sweepsAfterHold == 0 {
					run.Count("offer_gone_before_hold_time", 1)
				}
			}
			if sweepsAfterHold == bound {
				leftAtBound = nil
				if inPool {
					leftAtBound = append(leftAtBound, "pool.allocated")
				}
				if inOffers {
					leftAtBound = append(leftAtBound, "offer-record")
				}
			}
		}
		run.Eval()
		run.Count("phase_sweep_cells", 1)
		run.Count("sweep_phase:"+phase, 1)
		run.Count("sweep_scenario:"+sc, 1)
		run.Distinct("phase_sweep_cells", cell)
		run.Distinct("offer_reclaimed_at", fmt.Sprintf("%s/%s: sweep %d (hold time %v)", phase, sc, reclaimedAt, hold))
		if reserved || recorded {
			run.Nontrivial(cell)
			run.Count("phase_sweep_cells_with_reservation", 1)
		}
		comp := "dhcp.Server.cleanupExpiredLeases"
		quiet := "sweeps-without-expired-lease"
		if sc == "busy" {
			quiet = "sweep-with-expired-lease"
		}
		if len(leftAtBound) > 0 {
			sort.Strings(leftAtBound)
			run.Violation(comp, "abandoned-offer-reclaimed", strings.Join(leftAtBound, "+")+"-left/"+quiet, fmt.Sprintf("%d sweeps after the offer hold time (%v) of a client that went silent after %s, it still has %v", bound, hold, phase, leftAtBound), wit())
		}
		// final state: everything as before the client appeared
		s2 := e.census()
		ic := ipoeCell{Variant: "sweeps:" + sc, Kind: k.Name, Prefix: "offer-only", Path: "expiry", Second: "none"}
		if phase == "discover-decline" {
			ic.Path = "decline"
		}
		if len(leftAtBound) == 0 {
			judgeIPoE(ic, sub, s0, s2, true, wit)
		}
		offN := e.offerTable()
		var offLeft []string
		for m := range offN {
			if _, was := off0[m]; !was {
				offLeft = append(offLeft, m)
			}
		}
		if len(offLeft) > 0 && len(leftAtBound) == 0 {
			run.Violation(comp, "abandoned-offer-reclaimed", "offer-record-left-at-end/"+quiet, fmt.Sprintf("offer records left after %d sweeps: %v", bound+1, offLeft), wit())
		}
		if idx%23 == 3 {
			run.Sample(map[string]any{"system": "ipoe-sweeps", "cell": cell, "reclaimed_at_sweep": reclaimedAt, "history": e.trace})
		}
	})
}
