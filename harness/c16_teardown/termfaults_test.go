package c16

// Faults during termination. The earlier fault cells (faults_test.go) injected faults while a session was being
// established; here every external step of a termination path fails - an error returned by the eBPF callback of
// pppoe.SessionTeardown, an Accounting-Stop exchange that is refused or times out, a refused address release of
// subscriber.Manager's allocator, a kernel map that refuses the delete (the manager holds a read-only handle of
// the same kernel map, obtained through a bpffs pin) - once, or until the harness clears the fault. Then the fault
// is gone and what the system or an operator would do next happens once: the client repeats its PADT / RELEASE,
// an administrator terminates the session again, the next sweep runs, the daemon shuts down.
//
// Oracle (from the statement: "afterwards its address is back in the pool ... no fast-path cache entry still
// answers for it, and exactly one Accounting-Stop was issued if a Start was"): after the fault is gone and one
// retry by any path has run, nothing the session held is left and one Stop was received. What the first, faulted
// termination leaves behind is recorded as an observation only.

import (
	"context"
	"errors"
	"fmt"
	"net"
	"os"
	"path/filepath"
	"sort"
	"strings"
	"sync"
	"syscall"
	"testing"
	"testing/synctest"
	"time"

	"github.com/cilium/ebpf"
	"github.com/insomniacslk/dhcp/dhcpv4"
	"go.uber.org/zap"

	"github.com/codelaboratoryltd/bng/pkg/pppoe"
	"github.com/codelaboratoryltd/bng/pkg/radius"
	"github.com/codelaboratoryltd/bng/pkg/subscriber"
)

// ---------------------------------------------------------------- pppoe.SessionTeardown

type tdFault struct {
	Name   string
	Ebpf   string // "", "once", "until-cleared": the eBPF callback returns an error and removes nothing
	Radius string // "", "reject", "drop": what the RADIUS server does with the session's Accounting-Stop
	Class  string // normalised fault class used in witness classes
}

var tdFaults = []tdFault{
	{Name: "ebpf-error-once", Ebpf: "once", Class: "ebpf-callback-error"},
	{Name: "ebpf-error-until-cleared", Ebpf: "until-cleared", Class: "ebpf-callback-error"},
	{Name: "radius-stop-refused", Radius: "reject", Class: "radius-stop-failed"},
	{Name: "radius-stop-timeout", Radius: "drop", Class: "radius-stop-failed"},
}

type tdfEnv struct {
	*tdEnv
	fmu      sync.Mutex
	ebpfMode string
	ebpfErrs map[string]int // RADIUS session id -> errors the callback returned
}

func newTDFEnv(t *testing.T, rc *radius.Client, cfg pppoe.TeardownConfig) *tdfEnv {
	e := &tdfEnv{tdEnv: &tdEnv{sm: pppoe.NewSessionManager(), fp: &fastPath{entries: map[string]string{}, calls: map[string]int{}}, padts: map[string]int{}}, ebpfErrs: map[string]int{}}
	var err error
	e.pool, err = pppoe.NewIPPool("10.45.16.0/29", "10.45.16.1")
	if err != nil {
		hfatalf(t, "%v", err)
	}
	e.rc = rc
	e.td = pppoe.NewSessionTeardown(cfg, zap.NewNop())
	e.td.SetRADIUSClient(e.rc)
	e.td.SetIPPool(e.pool)
	e.td.SetSessionManager(e.sm)
	e.td.SetUpdateEBPFMaps(func(s *pppoe.Session, remove bool) error {
		if remove {
			e.fmu.Lock()
			fail := e.ebpfMode != ""
			if e.ebpfMode == "once" {
				e.ebpfMode = ""
			}
			if fail {
				e.ebpfErrs[s.SessionID]++
			}
			e.fmu.Unlock()
			if fail {
				e.fp.mu.Lock()
				e.fp.calls[s.SessionID]++
				e.fp.mu.Unlock()
				return errors.New("delete from the subscriber map refused: operation not permitted")
			}
		}
		return e.fp.update(s, remove)
	})
	e.td.SetSendPADT(func(s *pppoe.Session, tags []pppoe.Tag) {
		e.mu.Lock()
		e.padts[s.SessionID]++
		e.mu.Unlock()
	})
	e.td.SetSendLCPTermReq(func(s *pppoe.Session, reason string) {})
	return e
}

func (e *tdfEnv) arm(mode string) {
	e.fmu.Lock()
	e.ebpfMode = mode
	e.fmu.Unlock()
}

func (e *tdfEnv) errsOf(id string) int {
	e.fmu.Lock()
	defer e.fmu.Unlock()
	return e.ebpfErrs[id]
}

// capacity drains the pool and gives everything back: the number of distinct addresses obtainable right now.
func poolCapacity(p *pppoe.IPPool) (n int, dup bool) {
	seen := map[string]bool{}
	var ids []string
	for i := 0; i < 64; i++ {
		id := fmt.Sprintf("c16-capacity-probe-%d", i)
		ip := p.Allocate(id)
		if ip == nil {
			break
		}
		ids = append(ids, id)
		if seen[ip.String()] {
			dup = true
		}
		seen[ip.String()] = true
	}
	for _, id := range ids {
		p.Release(id)
	}
	return len(seen), dup
}

// tdState is what one session holds, as far as the harness can see it from outside.
type tdState struct {
	Stops, Starts int
	InTable       bool
	ByMAC         bool
	FastPath      bool
	Capacity      int
	Dup           bool
}

func (e *tdfEnv) stateOf(s *pppoe.Session) tdState {
	st := tdState{}
	st.Starts, st.Stops = rad.counts(s.SessionID)
	st.InTable = e.sm.GetSession(s.ID) == s
	if x := e.sm.GetSessionByMAC(s.ClientMAC); x == s {
		st.ByMAC = true
	}
	if s.ClientIP != nil {
		e.fp.mu.Lock()
		st.FastPath = e.fp.entries[s.ClientIP.String()] == s.SessionID
		e.fp.mu.Unlock()
	}
	st.Capacity, st.Dup = poolCapacity(e.pool)
	return st
}

func (st tdState) left(cap0 int) []string {
	var l []string
	if st.InTable || st.ByMAC {
		l = append(l, "session-table")
	}
	if st.FastPath {
		l = append(l, "fast-path-entry")
	}
	if st.Capacity != cap0 {
		l = append(l, "address")
	}
	if st.Starts >= 1 && st.Stops == 0 {
		l = append(l, "no-stop-yet")
	}
	return l
}

var tdfPairsReached = map[string]bool{}

func TestSessionTeardownTermFaults(t *testing.T) {
	n := 0
	rcBubble := newRadClient(t, "c16-tdf")
	for _, f := range tdFaults {
		if f.Radius == "drop" {
			continue // real time, below
		}
		prefixes := []string{"established"}
		if f.Ebpf == "until-cleared" {
			prefixes = []string{"established", "authenticated"}
		}
		for _, prefix := range prefixes {
			for _, first := range tdPaths {
				for _, retry := range tdPaths {
					n++
					bubbleMu.Lock()
					synctest.Test(t, func(t *testing.T) {
						e := newTDFEnv(t, rcBubble, pppoe.DefaultTeardownConfig())
						runTDFaultCell(t, e, f, prefix, first, retry, false, n)
					})
					bubbleMu.Unlock()
				}
			}
		}
	}
	// the Accounting-Stop exchange times out (the server has the record and never answers): real time, short timeouts
	rcShort, err := radius.NewClient(radius.ClientConfig{
		Servers: []radius.ServerConfig{{Host: "127.0.0.1", Port: rad.port, Secret: radSecret}},
		NASID:   "c16-tdf-rt", Timeout: 150 * time.Millisecond, Retries: 0,
		RateLimit: radius.RateLimitConfig{RequestsPerSecond: 1e6, BurstSize: 100000},
	}, zap.NewNop())
	if err != nil {
		hfatalf(t, "%v", err)
	}
	cfg := pppoe.TeardownConfig{LCPTermTimeout: 10 * time.Millisecond, PADTRetries: 1, PADTRetryDelay: time.Millisecond, CleanupTimeout: 2 * time.Second, RADIUSTimeout: 200 * time.Millisecond}
	for i, first := range tdPaths {
		for j, retry := range tdPaths {
			if !run.Thorough() && (i+j)%3 != 0 {
				continue
			}
			n++
			e := newTDFEnv(t, rcShort, cfg)
			runTDFaultCell(t, e, tdFaults[3], "established", first, retry, true, n)
		}
	}
	// shutdown of a population with sessions in every phase, one of them meeting the fault
	for _, f := range tdFaults[1:3] {
		n++
		bubbleMu.Lock()
		synctest.Test(t, func(t *testing.T) {
			runTDPopulationShutdown(t, newTDFEnv(t, rcBubble, pppoe.DefaultTeardownConfig()), f)
		})
		bubbleMu.Unlock()
	}
	run.Count("termfault_teardown_fault_x_first_path_reached", len(tdfPairsReached))
	rad.forget()
}

func runTDFaultCell(t *testing.T, e *tdfEnv, f tdFault, prefix, first, retry string, real bool, idx int) {
	cell := fmt.Sprintf("teardown-termfault/%s/%s/%s/retry-%s", f.Name, prefix, first, retry)
	settle := func() {
		if !real {
			synctest.Wait()
		}
	}
	cap0, _ := poolCapacity(e.pool)
	by := e.open(pppBystander, "bystander", "established")
	s := e.open(pppSubject, "subject", prefix)
	if s == nil || by == nil {
		run.Inconclusive(cell, "sessions could not be opened")
		return
	}
	wit := func() any {
		return map[string]any{"cell": cell, "session_id": s.SessionID, "callback_errors": e.errsOf(s.SessionID), "history": append([]string(nil), e.trace...)}
	}
	// ---- the fault is in place while the session is ended for the first time
	if f.Ebpf != "" {
		e.arm(f.Ebpf)
	}
	if f.Radius != "" {
		rad.faultStops(s.SessionID, f.Radius)
	}
	e.trace = append(e.trace, "fault armed: "+f.Name)
	if p := guard(func() { e.terminate(first, s) }); p != "" {
		run.Violation(tdComponent[first], "terminates-without-crash", "panic/"+f.Class, first+" panicked: "+p, wit())
		return
	}
	settle()
	if real && f.Radius == "drop" {
		// the record was written to the server's socket before the exchange timed out: wait (bounded) until the
		// server goroutine has read it; a Stop that does not show up in time makes the clause inconclusive, never violated
		for i := 0; i < 2000; i++ {
			if _, sp := rad.counts(s.SessionID); sp > 0 {
				break
			}
			time.Sleep(5 * time.Millisecond)
		}
	}
	mid := e.stateOf(s)
	expectCap := cap0 - 1 // the bystander keeps its address
	if first == "terminate-all" {
		expectCap = cap0
	}
	reached := false
	switch {
	case f.Ebpf != "":
		reached = e.errsOf(s.SessionID) > 0
	case f.Radius != "":
		reached = mid.Stops > 0
	}
	e.trace = append(e.trace, fmt.Sprintf("after the faulted %s: stops=%d in-table=%v fast-path-entry=%v pool-capacity=%d (empty pool: %d)", first, mid.Stops, mid.InTable, mid.FastPath, mid.Capacity, cap0))
	run.Distinct("termfault_teardown_left_by_faulted_termination", fmt.Sprintf("%s/%s: %v", f.Name, prefix, mid.left(expectCap)))
	// ---- the fault is gone; one retry by some path
	e.arm("")
	rad.faultStops(s.SessionID, "")
	e.trace = append(e.trace, "fault cleared")
	if p := guard(func() { e.terminate(retry, s) }); p != "" {
		run.Violation(tdComponent[retry], "terminates-without-crash", "panic/retry-after-"+f.Class, retry+" panicked: "+p, wit())
		return
	}
	settle()
	if first == "terminate-all" && retry != "terminate-all" {
		// the first pass ended the other session under the same fault: it gets its retry as well
		_ = guard(func() { e.terminate("by-id", by) })
		settle()
	}
	if first == "terminate-all" || retry == "terminate-all" {
		expectCap = cap0
	}
	end := e.stateOf(s)
	run.Eval()
	run.Count("termfault_teardown_cells", 1)
	run.Count("termfault_teardown_fault:"+f.Name, 1)
	run.Count("termfault_teardown_retry:"+retry, 1)
	run.Distinct("termfault_teardown_cells", cell)
	if reached {
		run.Count("termfault_teardown_fault_reached", 1)
		run.Count("termfault_teardown_fault_reached:"+f.Class, 1)
		run.Nontrivial(cell)
		tdfPairsReached[f.Name+"|"+first] = true
	} else {
		run.Count("termfault_teardown_fault_not_reached", 1)
	}
	comp := "pppoe.SessionTeardown.cleanup"
	ctx := "after-" + f.Class + "-and-retry"
	if prefix != "established" {
		ctx += "/" + prefix
	}
	if end.Starts >= 1 && end.Stops == 0 {
		if real && f.Radius == "drop" {
			run.Inconclusive(cell, "no Accounting-Stop reached the RADIUS server within the bounded wait")
		} else {
			run.Violation(comp, "one-stop-per-start", "no-stop/"+ctx, fmt.Sprintf("%d Accounting-Start and no Accounting-Stop for a session ended by %s under %s and, with the fault gone, again by %s", end.Starts, first, f.Name, retry), wit())
		}
	}
	if end.Stops > 1 {
		if f.Radius != "" {
			// the exchange of the first Stop failed: sending the record again is not a second Stop of the statement
			run.Count("termfault_teardown_stop_sent_again_after_failed_exchange", 1)
		} else {
			run.Violation(comp, "one-stop-per-start", "stop-repeated/"+ctx, fmt.Sprintf("%d Accounting-Stop records for one session (%s under %s, retry %s)", end.Stops, first, f.Name, retry), wit())
		}
	}
	if end.Capacity != expectCap || end.Dup {
		run.Violation(comp, "address-returned", "pool-capacity-changed/"+ctx, fmt.Sprintf("the pool can hand out %d distinct addresses (duplicate=%v), %d expected once the session has ended", end.Capacity, end.Dup, expectCap), wit())
	}
	if end.InTable || end.ByMAC {
		run.Violation(comp, "session-removed", "session-table-left/"+ctx, fmt.Sprintf("the session is still in the session table (by id %v, by MAC %v)", end.InTable, end.ByMAC), wit())
	}
	if end.FastPath {
		run.Violation(comp, "no-fast-path-entry", "callback-entry-left/"+ctx, "the fast path entry of the ended session is still present after the fault cleared and the session was ended again", wit())
	}
	// the bystander is untouched unless everything was terminated
	if first != "terminate-all" && retry != "terminate-all" {
		if e.sm.GetSession(by.ID) != by {
			run.Violation(comp, "bystanders-untouched", "bystander-ended/"+ctx, "another session disappeared from the table", wit())
		}
		if _, sp := rad.counts(by.SessionID); sp != 0 {
			run.Violation(comp, "bystanders-untouched", "bystander-stopped/"+ctx, "another session got an Accounting-Stop", wit())
		}
	} else if st, sp := rad.counts(by.SessionID); st >= 1 && sp != 1 {
		run.Violation(tdComponent["terminate-all"], "one-stop-per-start", fmt.Sprintf("other-session-stops=%d/%s", sp, ctx), fmt.Sprintf("TerminateAll: the other session got %d Stop", sp), wit())
	}
	// ---- once more, by the handle and through the tables: nothing further
	acct1 := rad.total()
	relCalls := func() int { e.fp.mu.Lock(); defer e.fp.mu.Unlock(); return e.fp.calls[s.SessionID] }
	_ = relCalls
	_ = guard(func() { e.terminate("client-padt", s) })
	_ = guard(func() { e.terminate("by-mac", s) })
	settle()
	again := e.stateOf(s)
	var eff []string
	if again.Stops != end.Stops {
		eff = append(eff, "another-stop")
	} else if rad.total() != acct1 {
		eff = append(eff, "accounting-records")
	}
	if again.Capacity != end.Capacity {
		eff = append(eff, "pool-capacity")
	}
	if len(eff) > 0 {
		run.Violation(comp, "second-termination-no-effect", strings.Join(eff, "+")+"/"+ctx, fmt.Sprintf("ending the session a third and fourth time changed %v", eff), wit())
	}
	run.Count("termfault_teardown_further_terminations", 2)
	if idx%53 == 9 {
		run.Sample(map[string]any{"system": "pppoe.SessionTeardown termination fault", "cell": cell, "left_by_faulted_termination": mid.left(cap0 - 1), "left_after_retry": end.left(expectCap), "history": e.trace})
	}
}

// runTDPopulationShutdown: sessions in every phase at once, TerminateAll (shutdown) with the fault on one of the
// established sessions, the fault clears, TerminateAll again.
func runTDPopulationShutdown(t *testing.T, e *tdfEnv, f tdFault) {
	cell := "teardown-termfault/population-shutdown/" + f.Name
	cap0, _ := poolCapacity(e.pool)
	macs := []net.HardwareAddr{{0x02, 0x16, 0xbc, 0, 0, 1}, {0x02, 0x16, 0xbc, 0, 0, 2}, {0x02, 0x16, 0xbc, 0, 0, 3}, {0x02, 0x16, 0xbc, 0, 0, 4}}
	phases := []string{"unauthenticated", "authenticated", "established", "established"}
	var ss []*pppoe.Session
	for i, ph := range phases {
		s := e.open(macs[i], fmt.Sprintf("user%d", i), ph)
		if s == nil {
			run.Inconclusive(cell, "sessions could not be opened")
			return
		}
		ss = append(ss, s)
	}
	victim := ss[2]
	if f.Ebpf != "" {
		e.arm(f.Ebpf)
	}
	if f.Radius != "" {
		rad.faultStops(victim.SessionID, f.Radius)
	}
	n1 := 0
	p := guard(func() { n1 = e.td.TerminateAll(pppoe.TerminateCauseAdminReboot, "shutdown") })
	synctest.Wait()
	e.trace = append(e.trace, fmt.Sprintf("TerminateAll under %s -> %d sessions%s", f.Name, n1, panicNote(p)))
	left1 := e.sm.Count()
	e.arm("")
	rad.faultStops(victim.SessionID, "")
	n2 := 0
	p2 := guard(func() { n2 = e.td.TerminateAll(pppoe.TerminateCauseAdminReboot, "shutdown") })
	synctest.Wait()
	e.trace = append(e.trace, fmt.Sprintf("fault cleared, TerminateAll again -> %d sessions%s (the first pass had left %d in the table)", n2, panicNote(p2), left1))
	run.Eval()
	run.Count("termfault_teardown_population_shutdowns", 1)
	run.Nontrivial(cell)
	wit := func() any { return map[string]any{"cell": cell, "history": e.trace} }
	comp := tdComponent["terminate-all"]
	ctx := "shutdown-with-" + f.Class
	if p != "" || p2 != "" {
		run.Violation(comp, "terminates-without-crash", "panic/"+ctx, p+p2, wit())
		return
	}
	for i, s := range ss {
		st, sp := rad.counts(s.SessionID)
		if st >= 1 && sp == 0 {
			run.Violation(comp, "one-stop-per-start", "no-stop/"+ctx, fmt.Sprintf("session %d (%s): %d Start, no Stop after shutdown", i, phases[i], st), wit())
		}
		if sp > 1 && (f.Radius == "" || s != victim) {
			run.Violation(comp, "one-stop-per-start", "stop-repeated/"+ctx, fmt.Sprintf("session %d (%s): %d Stop records", i, phases[i], sp), wit())
		}
		if e.sm.GetSession(s.ID) != nil {
			run.Violation(comp, "session-removed", "session-table-left/"+ctx, fmt.Sprintf("session %d (%s) is still in the table after two shutdown passes", i, phases[i]), wit())
		}
		if s.ClientIP != nil {
			e.fp.mu.Lock()
			_, fpLeft := e.fp.entries[s.ClientIP.String()]
			e.fp.mu.Unlock()
			if fpLeft {
				cls := "callback-entry-left/" + ctx
				if f.Ebpf != "" { // the callback refuses every removal while the fault lasts: each established session met it
					cls = "callback-entry-left/after-" + f.Class + "-and-retry"
				}
				run.Violation("pppoe.SessionTeardown.cleanup", "no-fast-path-entry", cls, fmt.Sprintf("session %d: fast path entry left after two shutdown passes", i), wit())
			}
		}
	}
	if c, dup := poolCapacity(e.pool); c != cap0 || dup {
		run.Violation(comp, "address-returned", "pool-capacity-changed/"+ctx, fmt.Sprintf("after shutdown the pool can hand out %d distinct addresses, %d before any session", c, cap0), wit())
	}
}

// ---------------------------------------------------------------- pppoe.Server.Stop with sessions in each phase

// TestPPPoEServerStop: the bare pppoe.Server is stopped (context cancelled, Stop) while sessions are in every
// phase of the establishment sequence. The server keeps no accounting (it issues no Start: the Stop clause is
// vacuous, counted), its pool and tables die with the process; judged: no crash, stopping twice changes nothing.
func TestPPPoEServerStop(t *testing.T) {
	for _, withRadius := range []bool{false, true} {
		for _, prefix := range []string{"padr", "lcp", "pap-ok", "established"} {
			cell := fmt.Sprintf("pppoe-server-stop/radius=%v/%s", withRadius, prefix)
			bubbleMu.Lock()
			synctest.Test(t, func(t *testing.T) {
				acct0 := rad.total()
				e := newPPPEnv(t, withRadius)
				stopped := false
				defer func() {
					if !stopped {
						e.stop()
					}
				}()
				if _, ok := e.establish(pppBystander, "bystander", "established"); !ok {
					run.Inconclusive(cell, "bystander session could not be established")
					return
				}
				if _, ok := e.establish(pppSubject, "subject", prefix); !ok {
					run.Inconclusive(cell, "subject could not reach prefix")
					return
				}
				s1 := e.census()
				// shutdown as cmd/bng does it: the context of Start is cancelled, then Stop closes the socket
				e.cancel()
				p := guard(func() { _ = e.srv.Stop() })
				synctest.Wait()
				stopped = true
				s2 := e.census()
				p2 := guard(func() { _ = e.srv.Stop() })
				synctest.Wait()
				s3 := e.census()
				run.Eval()
				run.Count("pppoe_server_stop_cells", 1)
				run.Nontrivial(cell)
				wit := func() any { return map[string]any{"cell": cell, "history": e.trace} }
				if p != "" || p2 != "" {
					run.Violation("pppoe.Server.Stop", "terminates-without-crash", "panic/"+prefix, "Stop panicked: "+p+p2, wit())
				}
				a, l, c := s3.diff(s2)
				if eff := append(append(a, l...), c...); len(eff) > 0 {
					run.Violation("pppoe.Server.Stop", "second-termination-no-effect", strings.Join(tablesOf(eff), "+"), fmt.Sprintf("the second Stop changed %v", eff), wit())
				}
				left, _, _ := s2.diff(newCensus())
				held := 0
				for _, x := range left {
					if tableOf(x) == "pool.allocated" {
						held++
					}
				}
				run.Count("pppoe_server_stop_addresses_still_allocated_in_the_dying_process", held)
				if gone, _, _ := s1.diff(s2); len(gone) > 0 {
					run.Count("pppoe_server_stop_released_something", 1)
				}
				run.Count("pppoe_server_stop_accounting_records_observed", rad.total()-acct0) // the server starts no accounting session: nothing to stop
			})
			bubbleMu.Unlock()
		}
	}
}

// ---------------------------------------------------------------- subscriber.Manager: the allocator refuses a release

type subRelFault struct {
	Which string // "v4", "v6", "both"
	V6    bool
	Mode  string // "once", "until-cleared"
}

func TestSubscriberTermFaults(t *testing.T) {
	var faults []subRelFault
	for _, mode := range []string{"once", "until-cleared"} {
		faults = append(faults, subRelFault{"v4", false, mode}, subRelFault{"v4", true, mode}, subRelFault{"v6", true, mode}, subRelFault{"both", true, mode})
	}
	prefixes := []string{"active"}
	if run.Thorough() {
		prefixes = []string{"addressed", "active"}
	}
	n := 0
	reached := map[string]bool{}
	for _, f := range faults {
		for _, prefix := range prefixes {
			for _, first := range []string{"terminate", "idle-timeout", "shutdown"} {
				retries := []string{"terminate-again", "cleanup-tick", "shutdown"}
				if first == "shutdown" {
					retries = []string{"terminate-again", "shutdown"} // the loop has ended with the first Stop
				}
				for _, retry := range retries {
					n++
					cell := fmt.Sprintf("subscriber-termfault/release-%s-refused-%s/v6=%v/%s/%s/retry-%s", f.Which, f.Mode, f.V6, prefix, first, retry)
					bubbleMu.Lock()
					synctest.Test(t, func(t *testing.T) {
						if runSubTermFault(t, cell, f, prefix, first, retry, n) {
							reached[f.Which+"|"+first] = true
						}
					})
					bubbleMu.Unlock()
				}
			}
		}
	}
	run.Count("termfault_subscriber_fault_x_first_path_reached", len(reached))
}

func runSubTermFault(t *testing.T, cell string, f subRelFault, prefix, first, retry string, idx int) (reached bool) {
	cfg := subscriber.DefaultManagerConfig()
	cfg.CleanupInterval = 30 * time.Second
	cfg.DefaultIdleTimeout = 10 * time.Minute
	cfg.DefaultSessionTimeout = 0
	e := newSubEnv(cfg, false)
	if err := e.m.Start(); err != nil {
		hfatalf(t, "%v", err)
	}
	stops := 0
	stop := func() {
		stops++
		_ = e.m.Stop()
	}
	defer func() {
		if stops == 0 {
			e.m.Stop()
		}
	}()
	by := e.open(subMACs[1], "active", f.V6)
	if by == nil {
		run.Inconclusive(cell, "bystander could not be opened")
		return
	}
	s0 := e.census()
	s := e.open(subMACs[0], prefix, f.V6)
	if s == nil {
		run.Inconclusive(cell, "subject could not be opened")
		return
	}
	ip4, ip6 := s.IPv4.String(), ""
	if s.IPv6 != nil {
		ip6 = s.IPv6.String()
	}
	armed := true
	var fmu sync.Mutex
	used := map[string]bool{}
	e.al.relFault = func(addr string) error {
		fmu.Lock()
		defer fmu.Unlock()
		if !armed {
			return nil
		}
		hit := (addr == ip4 && (f.Which == "v4" || f.Which == "both")) || (addr == ip6 && ip6 != "" && (f.Which == "v6" || f.Which == "both"))
		if !hit || (f.Mode == "once" && used[addr]) {
			return nil
		}
		used[addr] = true
		return errors.New("allocator back end unavailable")
	}
	wit := func() any {
		_, _, lg := e.al.snapshot()
		return map[string]any{"cell": cell, "session": short(s.ID), "history": append([]string(nil), e.trace...), "allocator_log": lg}
	}
	keepBystanderAlive := func(d time.Duration) {
		for el := time.Duration(0); el < d; el += cfg.DefaultIdleTimeout / 2 {
			time.Sleep(cfg.DefaultIdleTimeout / 2)
			synctest.Wait()
			_ = e.m.UpdateActivity(by.ID, 1, 1, 1, 1)
		}
	}
	e.trace = append(e.trace, fmt.Sprintf("fault armed: the allocator refuses the release of the subject's %s address (%s)", f.Which, f.Mode))
	comp := "subscriber.Manager.TerminateSession"
	var panicText string
	switch first {
	case "terminate":
		var err error
		panicText = guard(func() { err = e.m.TerminateSession(context.Background(), s.ID, subscriber.TerminateUserRequest) })
		e.trace = append(e.trace, fmt.Sprintf("TerminateSession(user_request) -> %v", err))
	case "idle-timeout":
		keepBystanderAlive(cfg.DefaultIdleTimeout + 2*cfg.CleanupInterval)
		time.Sleep(cfg.CleanupInterval)
		synctest.Wait()
		e.trace = append(e.trace, "subject idle beyond the idle timeout (bystander active), cleanup loop ticked")
	case "shutdown":
		panicText = guard(stop)
		e.trace = append(e.trace, "Manager.Stop()")
	}
	if panicText != "" {
		run.Violation(comp, "terminates-without-crash", "panic/release-refused", first+" panicked: "+panicText, wit())
		return
	}
	e.al.mu.Lock()
	nRefused := 0
	for _, c := range e.al.failed {
		nRefused += c
	}
	e.al.mu.Unlock()
	reached = nRefused > 0
	mid := e.census()
	leftMid, _, _ := mid.diff(s0)
	if first == "shutdown" {
		leftMid, _, _ = mid.diff(newCensus())
	}
	run.Distinct("termfault_subscriber_left_by_faulted_termination", fmt.Sprintf("%s/%s/%s: %v", f.Which, f.Mode, first, tablesOf(leftMid)))
	e.trace = append(e.trace, fmt.Sprintf("after the faulted %s: %v", first, leftMid))
	// ---- the fault is gone; one retry
	fmu.Lock()
	armed = false
	fmu.Unlock()
	e.trace = append(e.trace, "fault cleared")
	switch retry {
	case "terminate-again":
		err := e.m.TerminateSession(context.Background(), s.ID, subscriber.TerminateAdminReset)
		e.trace = append(e.trace, fmt.Sprintf("TerminateSession(admin_reset) -> %v", err))
	case "cleanup-tick":
		keepBystanderAlive(cfg.DefaultIdleTimeout + 2*cfg.CleanupInterval)
		e.trace = append(e.trace, "time passes beyond the idle timeout again (bystander active), cleanup loop ticked")
	case "shutdown":
		if p := guard(stop); p != "" {
			run.Violation("subscriber.Manager.Stop", "terminates-without-crash", "panic/retry-after-release-refused", "Stop panicked: "+p, wit())
			return
		}
		e.trace = append(e.trace, "Manager.Stop()")
	}
	s2 := e.census()
	run.Eval()
	run.Count("termfault_subscriber_cells", 1)
	run.Count("termfault_subscriber_fault:release-"+f.Which+"-"+f.Mode, 1)
	run.Distinct("termfault_subscriber_cells", cell)
	if reached {
		run.Count("termfault_subscriber_fault_reached", 1)
		run.Nontrivial(cell)
	}
	base := s0
	if first == "shutdown" || retry == "shutdown" {
		base = newCensus() // every session has ended
	}
	ctx := "after-release-refused-and-retry"
	added, lost, changed := s2.diff(base)
	var addr, idx2, other []string
	for _, a := range added {
		switch tableOf(a) {
		case "allocator.held":
			addr = append(addr, a)
		case "session", "by-mac", "by-ip":
			idx2 = append(idx2, a)
		default:
			other = append(other, a)
		}
	}
	other = append(append(other, lost...), changed...)
	if len(addr) > 0 {
		run.Violation(comp, "address-returned", "allocator.held-left/"+ctx, fmt.Sprintf("with the fault gone and the session ended again by %s the allocator still holds %v", retry, addr), wit())
	}
	if len(idx2) > 0 {
		run.Violation(comp, "session-removed", strings.Join(tablesOf(idx2), "+")+"-left/"+ctx, fmt.Sprintf("the ended session is still indexed: %v", idx2), wit())
	}
	if len(other) > 0 {
		run.Violation(comp, "bystanders-untouched", strings.Join(tablesOf(other), "+")+"/"+ctx, fmt.Sprintf("entries of other sessions changed: %v", other), wit())
	}
	if _, mis, _ := e.al.snapshot(); len(mis) > 0 {
		run.Violation(comp, "released-once", "release-of-address-not-held/"+ctx, fmt.Sprintf("%v", mis), wit())
	}
	e.mu.Lock()
	ev := e.events[s.ID]
	e.mu.Unlock()
	if ev != 1 {
		run.Violation(comp, "one-terminate-event", fmt.Sprintf("events=%d/%s", ev, ctx), fmt.Sprintf("%d session_terminate events (each one Accounting-Stop) for one session ended by %s under the fault and again by %s", ev, first, retry), wit())
	}
	if idx%29 == 4 {
		run.Sample(map[string]any{"system": "subscriber.Manager termination fault", "cell": cell, "left_by_faulted_termination": leftMid, "history": e.trace})
	}
	return reached
}

// ---------------------------------------------------------------- dhcp.Server: a kernel map refuses the delete

var (
	c16bpffsOnce sync.Once
	c16bpffsDir  string
	roSeq        int
)

// c16bpffs mounts a private bpf filesystem (needed only to obtain read-only handles of a map).
func c16bpffs() string {
	c16bpffsOnce.Do(func() {
		d, err := os.MkdirTemp("", "c16bpffs")
		if err != nil {
			return
		}
		if err := syscall.Mount("bpf", d, "bpf", 0, ""); err != nil {
			os.Remove(d)
			return
		}
		c16bpffsDir = d
	})
	return c16bpffsDir
}

func c16bpffsTeardown() {
	if c16bpffsDir != "" {
		_ = syscall.Unmount(c16bpffsDir, syscall.MNT_DETACH)
		_ = os.Remove(c16bpffsDir)
	}
}

// roHandle returns a second handle of the same kernel map through which the kernel refuses every update and delete
// (BPF_F_RDONLY), while lookups and iteration work: the table stays as it is and can still be read.
func roHandle(m *ebpf.Map, name string) (*ebpf.Map, error) {
	d := c16bpffs()
	if d == "" {
		return nil, errors.New("no bpf filesystem")
	}
	roSeq++
	p := filepath.Join(d, fmt.Sprintf("c16_%d_%d_%s", os.Getpid(), roSeq, name))
	if err := m.Pin(p); err != nil {
		return nil, err
	}
	ro, err := ebpf.LoadPinnedMap(p, &ebpf.LoadPinOptions{ReadOnly: true})
	_ = m.Unpin()
	if err != nil {
		return nil, err
	}
	probe := foreignKey(m.KeySize(), 250)
	if err := ro.Put(probe, make([]byte, m.ValueSize())); err == nil {
		_ = m.Delete(probe)
		ro.Close()
		return nil, fmt.Errorf("read-only handle of %s accepted a write", name)
	}
	if err := ro.Delete(probe); err == nil || errors.Is(err, ebpf.ErrKeyNotExist) {
		ro.Close()
		return nil, fmt.Errorf("read-only handle of %s did not refuse a delete (%v)", name, err)
	}
	return ro, nil
}

type termPos struct {
	Name    string
	Maps    [][2]string
	Relayed bool
	QinQ    bool
}

var termPositions = []termPos{
	{Name: "fastpath-mac-delete", Maps: [][2]string{{"dhcp", "subscriber_pools"}}},
	{Name: "fastpath-vlan-delete", Maps: [][2]string{{"dhcp", "vlan_subscriber_pools"}}, QinQ: true},
	{Name: "circuit-id-hash-delete", Maps: [][2]string{{"dhcp", "circuit_id_map"}}, Relayed: true},
	{Name: "circuit-id-subscriber-delete", Maps: [][2]string{{"dhcp", "circuit_id_subscribers"}}, Relayed: true},
	{Name: "qos-egress-delete", Maps: [][2]string{{"qos", "qos_egress"}}},
	{Name: "qos-ingress-delete", Maps: [][2]string{{"qos", "qos_ingress"}}},
	{Name: "nat-subscriber-delete", Maps: [][2]string{{"nat", "subscriber_nat"}}},
	{Name: "every-delete", Maps: [][2]string{{"dhcp", "subscriber_pools"}, {"dhcp", "vlan_subscriber_pools"}, {"dhcp", "circuit_id_map"}, {"dhcp", "circuit_id_subscribers"}, {"qos", "qos_egress"}, {"qos", "qos_ingress"}, {"nat", "subscriber_nat"}}},
}

// managerTablesOf: the manager-side tables that go with a kernel map (their release is tied to the map delete).
var managerTablesOf = map[string][]string{
	"qos_egress": {"qos.count"}, "qos_ingress": {"qos.count"},
	"subscriber_nat": {"nat.count", "nat.pool", "nat.alloc"},
}

var termfaultComponent = map[string]string{
	"no-fast-path-entry": "dhcp.Server.removeFromFastPath",
	"qos-removed":        "dhcp.Server.releaseSessionResources",
	"nat-removed":        "dhcp.Server.releaseSessionResources",
}

var termPairsReached = map[string]bool{}

func TestIPoETermFaults(t *testing.T) {
	ks := loadKernels(t)
	defer ks.close()
	ro := map[string]*ebpf.Map{}
	defer func() {
		for _, m := range ro {
			m.Close()
		}
	}()
	for g, names := range censusMaps {
		for _, name := range names {
			var src *ebpf.Map
			switch g {
			case "dhcp":
				src = ks.dhcp.Coll.Maps[name]
			case "qos":
				src = ks.qos.Coll.Maps[name]
			case "nat":
				src = ks.nat.Coll.Maps[name]
			}
			h, err := roHandle(src, name)
			if err != nil {
				run.Inconclusive("ipoe-termfault", fmt.Sprintf("no read-only handle of %s: %v", name, err))
				return
			}
			ro[name] = h
		}
	}
	kinds := []ipoeKind{ipoeKinds[0], ipoeKinds[1], ipoeKinds[5]} // direct, circuit-id 12, QinQ
	n := 0
	for _, k := range kinds {
		for _, pos := range termPositions {
			if (pos.Relayed && !k.Relayed) || (pos.QinQ && !k.QinQ) {
				continue
			}
			if k.Name != "direct" && !pos.Relayed && !pos.QinQ && pos.Name != "every-delete" {
				continue // the MAC, QoS and NAT positions do not depend on the kind
			}
			for _, path := range []string{"release", "decline", "expiry", "lapse-rediscover"} {
				for _, retry := range []string{"release-again", "sweep", "shutdown"} {
					if !run.Thorough() && k.Name != "direct" && pos.Name == "every-delete" && retry != "sweep" {
						continue
					}
					for rep := 0; rep < run.Pick(1, 3); rep++ {
						runIPoETermFault(t, ks, ro, k, pos, path, retry, n)
						n++
					}
				}
			}
		}
	}
	run.Count("termfault_ipoe_position_x_path_reached", len(termPairsReached))
	rad.forget()
}

func runIPoETermFault(t *testing.T, ks *kernels, ro map[string]*ebpf.Map, k ipoeKind, pos termPos, path, retry string, idx int) {
	bubbleMu.Lock()
	defer bubbleMu.Unlock()
	rng := run.SubRand("ipoe-termfault", idx)
	geo := ipoeGeometries[rng.IntN(len(ipoeGeometries))]
	lease := []time.Duration{2 * time.Minute, time.Hour, 24 * time.Hour}[rng.IntN(3)]
	m3, m4 := byte(rng.IntN(256)), byte(rng.IntN(256))
	nBy := 1 + rng.IntN(2)
	cell := fmt.Sprintf("ipoe-termfault/%s/%s/%s/retry-%s", pos.Name, k.Name, path, retry)
	synctest.Test(t, func(t *testing.T) {
		e := newIPoEEnv(t, ks, ipoeVariants[0], geo[0], geo[1], lease)
		if !e.addBystanders(nBy) {
			run.Inconclusive(cell, "bystanders could not be established")
			return
		}
		sub := &dclient{Name: "subject", mac: net.HardwareAddr{0x02, 0x16, 0xfc, m3, m4, 0x51}}
		if k.Relayed {
			sub.relay = net.IPv4(10, 250, 0, 1)
			sub.cid = mkCID(fmt.Sprintf("SUBJ%c", 'A'+rng.IntN(26)), k.CIDLen)
		}
		s0 := e.census()
		wit := func() any {
			return map[string]any{"cell": cell, "read_only_maps": pos.Maps, "subject": sub.mac.String(), "address": fmt.Sprint(sub.ip), "circuit_id": string(sub.cid), "session_id": sub.sid, "history": append([]string(nil), e.trace...)}
		}
		if !e.establish(sub, k, "bound") {
			run.Inconclusive(cell, "subject could not be established")
			return
		}
		s1 := e.census()
		held, _, _ := s1.diff(s0)
		// ---- the lease runs out with every map writable (bystanders renew); the fault is in place for the step that ends the session
		if path == "expiry" || strings.HasPrefix(path, "lapse-rediscover") {
			e.advancePastLease()
		}
		e.alt = map[string]*ebpf.Map{}
		for _, gm := range pos.Maps {
			e.alt[gm[1]] = ro[gm[1]]
		}
		e.rewire()
		e.trace = append(e.trace, fmt.Sprintf("the kernel now refuses updates and deletes of %v (read-only handles)", pos.Maps))
		var panicText string
		switch path {
		case "release":
			panicText = e.release(sub)
		case "decline":
			panicText = e.decline(sub)
		case "expiry":
			panicText = e.cleanup()
		case "lapse-rediscover":
			e.prevSid = sub.sid
			r, p := e.send(e.msg(sub, dhcpv4.MessageTypeDiscover, nil, nil, sub.cid))
			panicText = p
			if r != nil && r.MessageType() == dhcpv4.MessageTypeOffer {
				sub.ip, sub.bound = r.YourIPAddr, false
				e.reoffer = r.YourIPAddr
				e.trace = append(e.trace, fmt.Sprintf("%s DISCOVER after its lease lapsed (no cleanup tick yet) -> OFFER %v", sub.Name, sub.ip))
			} else {
				e.trace = append(e.trace, sub.Name+" DISCOVER after its lease lapsed (no cleanup tick yet) -> no offer"+panicNote(p))
			}
		}
		comp := componentOfPath[path]
		if panicText != "" {
			run.Violation(comp, "terminates-without-crash", "panic/delete-refused", fmt.Sprintf("%s panicked: %s", path, panicText), wit())
			return
		}
		sMid := e.census()
		leftMid, _, _ := sMid.diff(s0)
		refused := 0
		for _, x := range leftMid {
			for _, gm := range pos.Maps {
				if tableOf(x) == "map:"+gm[1] {
					refused++
				}
			}
		}
		run.Distinct("termfault_ipoe_left_by_faulted_termination", fmt.Sprintf("%s/%s/%s: %v", pos.Name, k.Name, path, tablesOf(leftMid)))
		// ---- the fault is gone; one retry
		e.alt = nil
		e.rewire()
		e.trace = append(e.trace, "the maps accept deletes again")
		acctMid := rad.total()
		var p2 string
		switch retry {
		case "release-again":
			p2 = e.release(sub)
			e.reoffer = nil // a RELEASE gives the new offer up as well
		case "sweep":
			e.advancePastLease()
			p2 = e.cleanup()
			e.reoffer = nil // the abandoned new offer is reclaimed by the sweep after its hold time
		case "shutdown":
			p2 = guard(func() { e.srv.VerifC16StopAllAccounting(radius.TerminateCauseNASReboot) })
			synctest.Wait()
			e.trace = append(e.trace, "shutdown: stopAllAccounting"+panicNote(p2))
		}
		if p2 != "" {
			run.Violation(componentOfPath[map[string]string{"release-again": "release", "sweep": "expiry", "shutdown": "shutdown"}[retry]], "terminates-without-crash", "panic/retry-after-delete-refused", fmt.Sprintf("%s after %s panicked: %s", retry, path, p2), wit())
			return
		}
		s2 := e.census()
		if e.reoffer != nil {
			delete(s2.tab("pool.allocated"), sub.mac.String())
			s2.tab("pool.available")[e.reoffer.String()] = ""
		}
		run.Eval()
		run.Count("termfault_ipoe_cells", 1)
		run.Count("termfault_ipoe_position:"+pos.Name, 1)
		run.Count("termfault_ipoe_path:"+path, 1)
		run.Count("termfault_ipoe_retry:"+retry, 1)
		run.Distinct("termfault_ipoe_cells", cell)
		if refused > 0 {
			run.Count("termfault_ipoe_delete_refused_observed", 1)
			run.Count("termfault_ipoe_delete_refused_observed:"+pos.Name, 1)
			termPairsReached[pos.Name+"|"+path] = true
			if len(held) > 0 {
				run.Nontrivial(cell)
			}
		} else {
			run.Count("termfault_ipoe_delete_not_attempted_or_not_refused:"+pos.Name, 1)
		}
		// what is left in the tables whose delete was refused (and in the manager tables tied to them) is one clause each;
		// everything else is judged as in a fault-free cell
		attributable := map[string]bool{}
		for _, gm := range pos.Maps {
			attributable["map:"+gm[1]] = true
			for _, tb := range managerTablesOf[gm[1]] {
				attributable[tb] = true
			}
		}
		added, lost, changed := s2.diff(s0)
		byRule := map[string][]string{}
		for _, x := range append(append(added, lost...), changed...) {
			if tb := tableOf(x); attributable[tb] {
				byRule[clauseOfTable[tb]] = append(byRule[clauseOfTable[tb]], x)
			}
		}
		for rule, xs := range byRule {
			sort.Strings(xs)
			if len(xs) > 6 {
				xs = xs[:6]
			}
			run.Violation(termfaultComponent[rule], rule, "left-after-refused-delete-and-retry", fmt.Sprintf("the kernel refused the delete while the session was ended by %s; with the maps writable again and %s done, still: %v", path, retry, xs), wit())
		}
		rest := newCensus()
		for tb, m := range s2.T {
			src := m
			if attributable[tb] {
				src = s0.T[tb]
			}
			for kk, vv := range src {
				rest.tab(tb)[kk] = vv
			}
		}
		for tb := range attributable {
			if _, ok := s2.T[tb]; !ok {
				for kk, vv := range s0.T[tb] {
					rest.tab(tb)[kk] = vv
				}
			}
		}
		ic := ipoeCell{Variant: "termfault:" + pos.Name, Kind: k.Name, Prefix: "bound", Path: path, Second: "none"}
		judgeIPoE(ic, sub, s0, rest, true, wit)
		acctSub := sub
		if e.prevSid != "" {
			c := *sub
			c.sid = e.prevSid
			acctSub = &c
		}
		starts, stops, _ := judgeAcct(ic, comp, acctSub, wit, true)
		run.Count("termfault_ipoe_acct_starts_observed", starts)
		run.Count("termfault_ipoe_acct_stops_observed", stops)
		if retry != "shutdown" {
			// bystanders renew silently: any accounting record of the retry is an effect of ending the session again
			if nrec := rad.total() - acctMid; nrec != 0 {
				run.Violation(comp, "second-termination-no-effect", "accounting-records/retry-after-refused-delete", fmt.Sprintf("%s after %s issued %d accounting records", retry, path, nrec), wit())
			}
		}
		if idx%41 == 6 {
			left, _, _ := s2.diff(s0)
			run.Sample(map[string]any{"system": "ipoe termination fault", "cell": cell, "held_after_establishment": held, "left_by_faulted_termination": leftMid, "left_after_retry": left, "acct": fmt.Sprintf("starts=%d stops=%d", starts, stops), "history": e.trace})
		}
	})
}
