package c16

// Context-honouring collaborators. The allocators used by the other subscriber.Manager cells ignore the context they
// are handed, as an in-memory pool does. The collaborators a deployment plugs in are network-backed: they build their
// request from the context (nexus.HTTPAllocator: http.NewRequestWithContext; radius.Client: rate limiter and exchange
// wait on it) and do nothing at all once that context is done. Here every termination path of subscriber.Manager runs
// against such collaborators:
//
//   - "ctx-honouring": the recording allocator behind a front that refuses a release whose context is already done and
//     abandons a release in flight when its context ends (what an HTTP client does), under virtual time;
//   - "nexus-http": the real nexus.HTTPAllocator talking to a harness allocation service (httptest, the REST surface the
//     client uses: pools, POST/GET/DELETE allocations), with radius.AccountingManager + radius.Client against the
//     harness RADIUS server as the accounting handler and an authenticator that honours its context; real time.
//
// Paths: TerminateSession with every reason, re-authentication failure, idle and session timeout through the cleanup
// loop, Stop, a Disconnect-Request through radius.CoAProcessor and through the real radius.CoAServer (UDP on
// loopback), sessions that arrive after Stop and are ended by TerminateSession or by a second Stop, and terminations
// that race with Stop: a release of TerminateSession / of the cleanup tick / of a Disconnect-Request is in flight when
// Stop (or the cancellation of the CoA server's context) arrives, and Stop's own release is in flight when an operator
// ends the same session. Every cell ends with the daemon going down (Stop), so the shutdown path is judged in each.
//
// Oracle (statement: "for every way a subscriber session can end ... afterwards its address is back in the pool"):
// once every caller has returned, the allocator's authoritative table (the recording table / the table of the remote
// service) holds no address of an ended session. No fault is injected: the allocator is healthy throughout, so the
// only way a release can fail is that bng handed it a context that was done (class released-with-cancelled-context/*)
// - releases refused for other reasons are the subject of the termination-fault cells (listed finding C16/T2).

import (
	"context"
	"crypto/md5"
	"encoding/binary"
	"encoding/json"
	"errors"
	"fmt"
	"net"
	"net/http"
	"net/http/httptest"
	"os"
	"sort"
	"strings"
	"sync"
	"testing"
	"testing/synctest"
	"time"

	"go.uber.org/zap"

	"github.com/codelaboratoryltd/bng/pkg/nexus"
	"github.com/codelaboratoryltd/bng/pkg/radius"
	"github.com/codelaboratoryltd/bng/pkg/subscriber"
)

// ---------------------------------------------------------------- holds

// relHold keeps one release in flight: arrived is closed when the request has reached the allocator, the request
// goes on when release is closed - or is abandoned when the context it was built from ends first.
type relHold struct {
	arrived, release chan struct{}
	aonce, ronce     sync.Once
}

func newRelHold() *relHold {
	return &relHold{arrived: make(chan struct{}), release: make(chan struct{})}
}
func (h *relHold) arrive() { h.aonce.Do(func() { close(h.arrived) }) }
func (h *relHold) open()   { h.ronce.Do(func() { close(h.release) }) }
func (h *relHold) reached() bool {
	select {
	case <-h.arrived:
		return true
	default:
		return false
	}
}

// chAlloc is what a cell needs from an allocator besides the AddressAllocator interface.
type chAlloc interface {
	subscriber.AddressAllocator
	heldBy() map[string]string // authoritative table: address -> session id
	stats() chStats
	hold(addr string) *relHold // the next release of addr is kept in flight
	logLines() []string
}

type chStats struct {
	Attempts map[string]int // address -> release requests bng made
	Dead     map[string]int // address -> of those, requests whose context was done on arrival or ended in flight
	Done     map[string]int // address -> releases carried out
	Misuse   []string       // releases of addresses that are not held
}

// ---------------------------------------------------------------- allocator 1: in-process, honours its context

type ctxAlloc struct {
	rec      *recAlloc
	mu       sync.Mutex
	attempts map[string]int
	dead     map[string]int
	holds    map[string]*relHold
}

func newCtxAlloc(n int) *ctxAlloc {
	return &ctxAlloc{rec: newRecAlloc(n), attempts: map[string]int{}, dead: map[string]int{}, holds: map[string]*relHold{}}
}

func (a *ctxAlloc) note(line string) {
	a.rec.mu.Lock()
	a.rec.log = append(a.rec.log, line)
	a.rec.mu.Unlock()
}

func (a *ctxAlloc) AllocateIPv4(ctx context.Context, s *subscriber.Session, pool string) (net.IP, net.IPMask, net.IP, error) {
	if err := ctx.Err(); err != nil {
		a.note("alloc4 for " + short(s.ID) + " NOT SENT: " + err.Error())
		return nil, nil, nil, fmt.Errorf("request failed: %w", err)
	}
	return a.rec.AllocateIPv4(ctx, s, pool)
}

func (a *ctxAlloc) AllocateIPv6(ctx context.Context, s *subscriber.Session, pool string) (net.IP, *net.IPNet, error) {
	if err := ctx.Err(); err != nil {
		a.note("alloc6 for " + short(s.ID) + " NOT SENT: " + err.Error())
		return nil, nil, fmt.Errorf("request failed: %w", err)
	}
	return a.rec.AllocateIPv6(ctx, s, pool)
}

// enter is the network part of a release: nothing is sent on a done context, a request in flight is abandoned when
// its context ends.
func (a *ctxAlloc) enter(ctx context.Context, kind, k string) error {
	a.mu.Lock()
	a.attempts[k]++
	h := a.holds[k]
	delete(a.holds, k)
	a.mu.Unlock()
	if err := ctx.Err(); err != nil {
		a.mu.Lock()
		a.dead[k]++
		a.mu.Unlock()
		a.note(kind + " " + k + " NOT SENT: the context of the request was already done (" + err.Error() + ")")
		return fmt.Errorf("request failed: %w", err)
	}
	if h != nil {
		h.arrive()
		select {
		case <-h.release:
		case <-ctx.Done():
		}
		if err := ctx.Err(); err != nil {
			a.mu.Lock()
			a.dead[k]++
			a.mu.Unlock()
			a.note(kind + " " + k + " ABANDONED IN FLIGHT: the context of the request ended (" + err.Error() + ")")
			return fmt.Errorf("request failed: %w", err)
		}
	}
	return nil
}

func (a *ctxAlloc) ReleaseIPv4(ctx context.Context, ip net.IP) error {
	if err := a.enter(ctx, "release4", ip.String()); err != nil {
		return err
	}
	return a.rec.ReleaseIPv4(ctx, ip)
}

func (a *ctxAlloc) ReleaseIPv6(ctx context.Context, ip net.IP) error {
	if err := a.enter(ctx, "release6", ip.String()); err != nil {
		return err
	}
	return a.rec.ReleaseIPv6(ctx, ip)
}

func (a *ctxAlloc) heldBy() map[string]string { h, _, _ := a.rec.snapshot(); return h }
func (a *ctxAlloc) logLines() []string        { _, _, l := a.rec.snapshot(); return l }

func (a *ctxAlloc) hold(addr string) *relHold {
	h := newRelHold()
	a.mu.Lock()
	a.holds[addr] = h
	a.mu.Unlock()
	return h
}

func (a *ctxAlloc) stats() chStats {
	st := chStats{Attempts: map[string]int{}, Dead: map[string]int{}, Done: map[string]int{}}
	a.mu.Lock()
	for k, v := range a.attempts {
		st.Attempts[k] = v
	}
	for k, v := range a.dead {
		st.Dead[k] = v
	}
	a.mu.Unlock()
	a.rec.mu.Lock()
	for k, v := range a.rec.rel {
		st.Done[k] = v
	}
	st.Misuse = append(st.Misuse, a.rec.misuse...)
	a.rec.mu.Unlock()
	return st
}

// ---------------------------------------------------------------- allocator 2: nexus.HTTPAllocator and an allocation service

// nexusSvc is the remote allocation service: subscriber id -> address. It implements what nexus.HTTPAllocator calls.
type nexusSvc struct {
	srv       *httptest.Server
	mu        sync.Mutex
	held      map[string]string // subscriber id -> address
	free      map[string][]string
	holds     map[string]*relHold // subscriber id -> its next DELETE is answered late
	deletes   map[string]int      // subscriber id -> DELETE requests received
	abandoned map[string]int      // subscriber id -> DELETE requests the client gave up before they were carried out
	log       []string
}

func newNexusSvc() *nexusSvc {
	s := &nexusSvc{}
	s.reset()
	s.srv = httptest.NewServer(s)
	return s
}

func (s *nexusSvc) reset() {
	s.mu.Lock()
	defer s.mu.Unlock()
	s.held = map[string]string{}
	s.free = map[string][]string{}
	for i := 0; i < 8; i++ {
		s.free["v4"] = append(s.free["v4"], fmt.Sprintf("10.47.0.%d", 2+i))
		s.free["v6"] = append(s.free["v6"], fmt.Sprintf("2001:db8:47::%x", 2+i))
	}
	s.holds = map[string]*relHold{}
	s.deletes = map[string]int{}
	s.abandoned = map[string]int{}
	s.log = nil
}

var nexusPools = map[string]nexus.PoolResponse{
	"v4": {ID: "v4", CIDR: "10.47.0.0/24", Prefix: 32, Gateway: "10.47.0.1"},
	"v6": {ID: "v6", CIDR: "2001:db8:47::/64", Prefix: 128},
}

func (s *nexusSvc) poolOf(addr string) string {
	if strings.Contains(addr, ":") {
		return "v6"
	}
	return "v4"
}

func (s *nexusSvc) ServeHTTP(w http.ResponseWriter, r *http.Request) {
	writeJSON := func(code int, v any) {
		w.Header().Set("Content-Type", "application/json")
		w.WriteHeader(code)
		_ = json.NewEncoder(w).Encode(v)
	}
	p := r.URL.Path
	switch {
	case r.Method == http.MethodGet && strings.HasPrefix(p, "/api/v1/pools/"):
		pr, ok := nexusPools[strings.TrimPrefix(p, "/api/v1/pools/")]
		if !ok {
			http.Error(w, "no such pool", http.StatusNotFound)
			return
		}
		writeJSON(http.StatusOK, pr)
	case r.Method == http.MethodPost && p == "/api/v1/allocations":
		var req nexus.AllocationRequest
		if err := json.NewDecoder(r.Body).Decode(&req); err != nil || req.SubscriberID == "" {
			http.Error(w, "bad request", http.StatusBadRequest)
			return
		}
		s.mu.Lock()
		if _, ok := s.held[req.SubscriberID]; ok {
			s.mu.Unlock()
			http.Error(w, "exists", http.StatusConflict)
			return
		}
		fr := s.free[req.PoolID]
		if len(fr) == 0 {
			s.mu.Unlock()
			http.Error(w, "exhausted", http.StatusServiceUnavailable)
			return
		}
		sort.Strings(fr)
		ip := fr[0]
		s.free[req.PoolID] = fr[1:]
		s.held[req.SubscriberID] = ip
		s.log = append(s.log, "POST allocation "+short(req.SubscriberID)+" -> "+ip)
		s.mu.Unlock()
		writeJSON(http.StatusCreated, nexus.AllocationResponse{PoolID: req.PoolID, SubscriberID: req.SubscriberID, IP: ip, Prefix: nexusPools[req.PoolID].Prefix, Timestamp: time.Now()})
	case strings.HasPrefix(p, "/api/v1/allocations/"):
		id := strings.TrimPrefix(p, "/api/v1/allocations/")
		switch r.Method {
		case http.MethodGet:
			s.mu.Lock()
			ip, ok := s.held[id]
			s.mu.Unlock()
			if !ok {
				http.Error(w, "not found", http.StatusNotFound)
				return
			}
			writeJSON(http.StatusOK, nexus.AllocationResponse{PoolID: s.poolOf(ip), SubscriberID: id, IP: ip, Prefix: nexusPools[s.poolOf(ip)].Prefix, Timestamp: time.Now()})
		case http.MethodDelete:
			s.mu.Lock()
			s.deletes[id]++
			h := s.holds[id]
			delete(s.holds, id)
			s.mu.Unlock()
			if h != nil {
				// a slow service: the request is carried out later - unless the client has hung up by then
				h.arrive()
				select {
				case <-h.release:
				case <-r.Context().Done():
				}
				if r.Context().Err() != nil {
					s.mu.Lock()
					s.abandoned[id]++
					s.log = append(s.log, "DELETE allocation "+short(id)+" abandoned: the client hung up before the request was carried out")
					s.mu.Unlock()
					return
				}
			}
			s.mu.Lock()
			ip, ok := s.held[id]
			if ok {
				delete(s.held, id)
				s.free[s.poolOf(ip)] = append(s.free[s.poolOf(ip)], ip)
				s.log = append(s.log, "DELETE allocation "+short(id)+" ("+ip+")")
			} else {
				s.log = append(s.log, "DELETE allocation "+short(id)+" NOT HELD")
			}
			s.mu.Unlock()
			if !ok {
				http.Error(w, "not found", http.StatusNotFound)
				return
			}
			w.WriteHeader(http.StatusNoContent)
		default:
			http.Error(w, "unsupported", http.StatusMethodNotAllowed)
		}
	default:
		http.Error(w, "unsupported", http.StatusNotFound)
	}
}

// nexusAlloc adapts nexus.HTTPAllocator (keyed by subscriber id) to subscriber.AddressAllocator (releases by
// address): it remembers which subscriber id an address was allocated under, nothing else.
type nexusAlloc struct {
	svc      *nexusSvc
	client   *nexus.HTTPAllocator
	mu       sync.Mutex
	byIP     map[string]string // address -> subscriber id at the service
	attempts map[string]int
	dead     map[string]int
	done     map[string]int
	misuse   []string
	log      []string
}

func newNexusAlloc(svc *nexusSvc) *nexusAlloc {
	return &nexusAlloc{svc: svc, client: nexus.NewHTTPAllocator(svc.srv.URL), byIP: map[string]string{}, attempts: map[string]int{}, dead: map[string]int{}, done: map[string]int{}}
}

func (a *nexusAlloc) AllocateIPv4(ctx context.Context, s *subscriber.Session, pool string) (net.IP, net.IPMask, net.IP, error) {
	ip, mask, gw, err := a.client.AllocateIPv4(ctx, s.ID, pool)
	if err != nil {
		return nil, nil, nil, err
	}
	a.mu.Lock()
	a.byIP[ip.String()] = s.ID
	a.mu.Unlock()
	return ip.To4(), mask, gw, nil
}

func (a *nexusAlloc) AllocateIPv6(ctx context.Context, s *subscriber.Session, pool string) (net.IP, *net.IPNet, error) {
	ip, pfx, err := a.client.AllocateIPv6(ctx, s.ID+"-v6", pool)
	if err != nil {
		return nil, nil, err
	}
	a.mu.Lock()
	a.byIP[ip.String()] = s.ID + "-v6"
	a.mu.Unlock()
	return ip, pfx, nil
}

func (a *nexusAlloc) release(ctx context.Context, kind string, ip net.IP, rel func(context.Context, string) error) error {
	k := ip.String()
	a.mu.Lock()
	a.attempts[k]++
	id, ok := a.byIP[k]
	if !ok {
		a.misuse = append(a.misuse, kind+" "+k+" (not held)")
		a.log = append(a.log, kind+" "+k+" NOT HELD")
		a.mu.Unlock()
		return errors.New("not held")
	}
	a.mu.Unlock()
	deadOnArrival := ctx.Err() != nil
	err := rel(ctx, id)
	a.mu.Lock()
	defer a.mu.Unlock()
	if err != nil {
		if deadOnArrival || ctx.Err() != nil {
			a.dead[k]++
			how := "the context of the request ended while it was in flight"
			if deadOnArrival {
				how = "the context of the request was already done"
			}
			a.log = append(a.log, kind+" "+k+" FAILED: "+how+": "+err.Error())
		} else {
			a.log = append(a.log, kind+" "+k+" FAILED: "+err.Error())
		}
		return err
	}
	a.done[k]++
	delete(a.byIP, k)
	a.log = append(a.log, kind+" "+k+" ok")
	return nil
}

func (a *nexusAlloc) ReleaseIPv4(ctx context.Context, ip net.IP) error {
	return a.release(ctx, "release4", ip, a.client.ReleaseIPv4)
}

func (a *nexusAlloc) ReleaseIPv6(ctx context.Context, ip net.IP) error {
	return a.release(ctx, "release6", ip, a.client.ReleaseIPv6)
}

// heldBy reads the table of the remote service.
func (a *nexusAlloc) heldBy() map[string]string {
	out := map[string]string{}
	a.svc.mu.Lock()
	for id, ip := range a.svc.held {
		out[ip] = strings.TrimSuffix(id, "-v6")
	}
	a.svc.mu.Unlock()
	return out
}

func (a *nexusAlloc) hold(addr string) *relHold {
	h := newRelHold()
	a.mu.Lock()
	id := a.byIP[addr]
	a.mu.Unlock()
	a.svc.mu.Lock()
	a.svc.holds[id] = h
	a.svc.mu.Unlock()
	return h
}

func (a *nexusAlloc) stats() chStats {
	st := chStats{Attempts: map[string]int{}, Dead: map[string]int{}, Done: map[string]int{}}
	a.mu.Lock()
	defer a.mu.Unlock()
	for k, v := range a.attempts {
		st.Attempts[k] = v
	}
	for k, v := range a.dead {
		st.Dead[k] = v
	}
	for k, v := range a.done {
		st.Done[k] = v
	}
	st.Misuse = append(st.Misuse, a.misuse...)
	return st
}

func (a *nexusAlloc) logLines() []string {
	a.mu.Lock()
	l := append([]string(nil), a.log...)
	a.mu.Unlock()
	a.svc.mu.Lock()
	for _, x := range a.svc.log {
		l = append(l, "service: "+x)
	}
	a.svc.mu.Unlock()
	return l
}

// ---------------------------------------------------------------- authenticator that honours its context

type chAuth struct {
	mu     sync.Mutex
	idle   map[string]time.Duration
	sess   map[string]time.Duration
	reject map[string]bool
}

func (a *chAuth) Authenticate(ctx context.Context, req *subscriber.SessionRequest) (*subscriber.AuthResult, error) {
	if err := ctx.Err(); err != nil {
		return nil, fmt.Errorf("access-request not sent: %w", err)
	}
	k := req.MAC.String()
	a.mu.Lock()
	defer a.mu.Unlock()
	if a.reject[k] {
		return &subscriber.AuthResult{Success: false, Error: "rejected"}, nil
	}
	return &subscriber.AuthResult{Success: true, SubscriberID: "sub-" + k, ISPID: "isp", IdleTimeout: a.idle[k], SessionTimeout: a.sess[k]}, nil
}

// ---------------------------------------------------------------- cells

type chCell struct {
	Alloc  string // "ctx-honouring", "nexus-http"
	V6     bool
	Prefix string // "addressed", "active"
	Path   string
}

var chReasons = []subscriber.TerminateReason{subscriber.TerminateUserRequest, subscriber.TerminateAdminReset, subscriber.TerminateLostCarrier, subscriber.TerminatePortError, subscriber.TerminateNASRequest, subscriber.TerminateNASReboot, subscriber.TerminateAuthFailed}

var chRacePaths = []string{"terminate-in-flight-at-stop", "cleanup-tick-in-flight-at-stop", "coa-disconnect-in-flight-at-stop", "stop-in-flight+terminate"}

var chServerPaths = []string{"coa-server/disconnect-request", "coa-server/disconnect-request-in-flight-at-shutdown"}

// chComponent: the call site a leak found on the path is attributed to.
func chComponent(path string) string {
	switch {
	case strings.HasPrefix(path, "coa-server/"):
		return "radius.CoAServer.handleDisconnectRequest"
	case strings.HasPrefix(path, "coa-disconnect"):
		return "radius.CoAProcessor.HandleDisconnect"
	case path == "idle-timeout" || path == "session-timeout" || path == "cleanup-tick-in-flight-at-stop":
		return "subscriber.Manager.cleanupExpiredSessions"
	case path == "shutdown" || path == "late-session/stop-again" || path == "stop-in-flight+terminate":
		return "subscriber.Manager.Stop"
	}
	return "subscriber.Manager.TerminateSession"
}

// chPathClass: the path with the terminate reason folded away.
func chPathClass(path string) string {
	if strings.HasPrefix(path, "terminate:") {
		return "terminate"
	}
	return path
}

var (
	chSvc       *nexusSvc
	chHeldPairs = map[string]bool{}
)

func TestContextHonouringCollaborators(t *testing.T) {
	defer func() { subscriber.VerifC16Hook = nil }()
	subscriber.VerifC16Hook = nil
	dir, err := os.MkdirTemp("", "c16-ctx")
	if err != nil {
		hfatalf(t, "%v", err)
	}
	defer os.RemoveAll(dir)
	chSvc = newNexusSvc()
	defer chSvc.srv.Close()
	rc := newRadClient(t, "c16-ctx")
	var paths []string
	for _, r := range chReasons {
		paths = append(paths, "terminate:"+string(r))
	}
	paths = append(paths, "reauth-failed", "idle-timeout", "session-timeout", "shutdown", "coa-disconnect", "late-session/terminate-after-stop", "late-session/stop-again")
	paths = append(paths, chRacePaths...)
	n := 0
	for rep := 0; rep < run.Pick(1, 4); rep++ {
		for _, al := range []string{"ctx-honouring", "nexus-http"} {
			for _, v6 := range []bool{false, true} {
				for _, prefix := range []string{"addressed", "active"} {
					for _, path := range append(append([]string(nil), paths...), chServerPaths...) {
						if al == "nexus-http" && !run.Thorough() {
							// the remote allocator: one terminate reason per address family and every other path
							if prefix == "addressed" || (strings.HasPrefix(path, "terminate:") && path != "terminate:user_request" && path != "terminate:nas_reboot") {
								continue
							}
						}
						if strings.HasPrefix(path, "coa-server/") && prefix == "addressed" && !run.Thorough() {
							continue
						}
						n++
						c := chCell{Alloc: al, V6: v6, Prefix: prefix, Path: path}
						if al == "ctx-honouring" && !strings.HasPrefix(path, "coa-server/") {
							bubbleMu.Lock()
							synctest.Test(t, func(t *testing.T) { runCtxCell(t, c, n, true, rc, dir) })
							bubbleMu.Unlock()
						} else {
							runCtxCell(t, c, n, false, rc, dir)
						}
					}
				}
			}
		}
	}
	run.Count("ctx_held_point_x_path_reached", len(chHeldPairs))
	rad.forget()
}

func runCtxCell(t *testing.T, c chCell, idx int, bubble bool, rc *radius.Client, dir string) {
	cell := fmt.Sprintf("ctx-collaborators/%s/v6=%v/%s/%s", c.Alloc, c.V6, c.Prefix, c.Path)
	rng := run.SubRand("ctx-cell", idx)
	nBy := 1 + rng.IntN(3)
	holdV6 := c.V6 && rng.IntN(2) == 1
	remote := c.Alloc == "nexus-http"
	bg := context.Background()

	// ---- time: virtual in a bubble, real (short timers, bounded waits) otherwise
	cfg := subscriber.DefaultManagerConfig()
	cfg.DefaultIdleTimeout = 0
	cfg.DefaultSessionTimeout = 0
	idleT, sessT := 10*time.Minute, time.Hour
	cfg.CleanupInterval = 30 * time.Second
	if !bubble {
		cfg.CleanupInterval = 4 * time.Millisecond
		idleT, sessT = time.Millisecond, time.Millisecond
	}
	const bound = 20 * time.Second
	// settle: every goroutine of the cell has gone as far as it can for now
	// (real time: it has returned or waits for a lock / for the loop goroutine inside the manager)
	quiesce := func(c chan struct{}) {
		if bubble {
			synctest.Wait()
		} else if c != nil {
			settle([]chan struct{}{c}, "subscriber.(*Manager).", 1500*time.Millisecond)
		}
	}
	finished := func(c chan struct{}) bool {
		if bubble {
			synctest.Wait()
			select {
			case <-c:
				return true
			default:
				return false
			}
		}
		return waitFor(c, bound)
	}
	// until: cond becomes true; virtual time advances second by second up to 4 x span (a release that is being held is
	// noticed within one virtual second: it is never in flight for longer than any sane client timeout), real time is polled
	until := func(span time.Duration, cond func() bool) bool {
		if bubble {
			synctest.Wait()
			for el := time.Duration(0); el < 4*span && !cond(); el += time.Second {
				time.Sleep(time.Second)
				synctest.Wait()
			}
			return cond()
		}
		for dl := time.Now().Add(bound); time.Now().Before(dl); time.Sleep(2 * time.Millisecond) {
			if cond() {
				return true
			}
		}
		return cond()
	}
	launch := func(f func()) chan struct{} {
		ch := make(chan struct{})
		go func() { defer close(ch); f() }()
		return ch
	}

	// ---- the system
	var al chAlloc
	if remote {
		chSvc.reset()
		al = newNexusAlloc(chSvc)
	} else {
		al = newCtxAlloc(8)
	}
	auth := &chAuth{idle: map[string]time.Duration{}, sess: map[string]time.Duration{}, reject: map[string]bool{}}
	e := &subEnv{al: newRecAlloc(0), events: map[string]int{}}
	e.m = subscriber.NewManager(cfg, auth, al, zap.NewNop())
	var am *radius.AccountingManager
	if remote {
		acfg := radius.DefaultAccountingConfig()
		acfg.PersistPath = fmt.Sprintf("%s/%d", dir, idx)
		acfg.InterimEnabled = false
		var err error
		if am, err = radius.NewAccountingManager(rc, acfg, zap.NewNop()); err != nil {
			hfatalf(t, "%v", err)
		}
		if err := am.Start(); err != nil {
			hfatalf(t, "%v", err)
		}
	}
	amStopped := false
	stopAM := func() {
		if am != nil && !amStopped {
			amStopped = true
			am.Stop()
		}
	}
	defer stopAM()
	e.m.OnEvent(func(ev *subscriber.SessionEvent) {
		if ev.Type != subscriber.EventSessionTerminate {
			return
		}
		e.mu.Lock()
		e.events[ev.SessionID]++
		e.mu.Unlock()
		if am != nil {
			_ = am.StopSession(ev.SessionID, radius.TerminateCauseUserRequest)
		}
	})
	started, stops := false, 0
	startLoop := func() {
		if !started {
			started = true
			_ = e.m.Start()
		}
	}
	stop := func() { _ = e.m.Stop() }
	defer func() {
		if started && stops == 0 {
			e.m.Stop()
		}
	}()
	var all []*subscriber.Session
	open := func(mac net.HardwareAddr, prefix string) *subscriber.Session {
		s := e.open(mac, prefix, c.V6)
		if s == nil {
			return nil
		}
		all = append(all, s)
		if am != nil && (prefix == "active" || prefix == "addressed") {
			_ = am.StartSession(&radius.AccountingSession{SessionID: s.ID, Username: "u-" + short(s.ID), MAC: s.MAC, FramedIP: s.IPv4})
		}
		return s
	}
	subjMAC := net.HardwareAddr{0x02, 0x16, 0xc7, byte(idx >> 8), byte(idx), 0x01}
	switch c.Path {
	case "idle-timeout", "cleanup-tick-in-flight-at-stop":
		auth.idle[subjMAC.String()] = idleT
	case "session-timeout":
		auth.sess[subjMAC.String()] = sessT
	}
	var bys []*subscriber.Session
	for i := 0; i < nBy; i++ {
		b := open(net.HardwareAddr{0x02, 0xb1, 0xc7, byte(idx >> 8), byte(idx), byte(0x10 + i)}, "active")
		if b == nil {
			run.Inconclusive(cell, "a neighbour session could not be opened")
			return
		}
		bys = append(bys, b)
	}
	s := open(subjMAC, c.Prefix)
	if s == nil {
		run.Inconclusive(cell, "the subject could not be opened")
		return
	}
	addrsOf := func(x *subscriber.Session) []string {
		var out []string
		if x.IPv4 != nil {
			out = append(out, x.IPv4.String())
		}
		if x.IPv6 != nil {
			out = append(out, x.IPv6.String())
		}
		return out
	}
	heldAtStart := 0
	h0 := al.heldBy()
	for _, a := range addrsOf(s) {
		if h0[a] == s.ID {
			heldAtStart++
		}
	}
	holdAddr := s.IPv4.String()
	if holdV6 && s.IPv6 != nil {
		holdAddr = s.IPv6.String()
	}
	coa := radius.NewCoAProcessor(zap.NewNop())
	info := func(x *subscriber.Session) *radius.SessionInfo {
		return &radius.SessionInfo{SessionID: x.ID, MAC: x.MAC, FramedIP: x.IPv4, State: string(x.State)}
	}
	coa.SetSessionLookup(func(id string) (*radius.SessionInfo, bool) {
		if x, ok := e.m.GetSession(id); ok {
			return info(x), true
		}
		return nil, false
	})
	coa.SetSessionTerminator(func(ctx context.Context, id string, reason uint32) error {
		return e.m.TerminateSession(ctx, id, subscriber.TerminateNASRequest)
	})
	wit := func() any {
		e.mu.Lock()
		hist := append([]string(nil), e.trace...)
		e.mu.Unlock()
		return map[string]any{"cell": cell, "subject": short(s.ID), "subject_addresses": addrsOf(s), "neighbours": len(bys), "history": hist, "allocator_log": al.logLines(), "allocator_table": al.heldBy()}
	}
	tr := func(format string, a ...any) {
		e.mu.Lock()
		e.trace = append(e.trace, fmt.Sprintf(format, a...))
		e.mu.Unlock()
	}
	gone := func(x *subscriber.Session) func() bool {
		return func() bool { _, ok := e.m.GetSession(x.ID); return !ok }
	}

	// ---- the path
	// who ends by what: the subject by the path; in a cell in which the daemon goes down as part of the path, the other
	// sessions by the plain shutdown path
	type chGroup struct {
		comp, pc string
		who      []*subscriber.Session
	}
	var late *subscriber.Session
	var originals []*subscriber.Session
	everything := false // the path ends every session
	holdReached, wantHold := false, false
	pending := []chan struct{}{}
	switch {
	case strings.HasPrefix(c.Path, "terminate:"):
		err := e.m.TerminateSession(bg, s.ID, subscriber.TerminateReason(strings.TrimPrefix(c.Path, "terminate:")))
		tr("TerminateSession(%s) with a live context -> %v", c.Path, err)
	case c.Path == "reauth-failed":
		auth.mu.Lock()
		auth.reject[subjMAC.String()] = true
		auth.mu.Unlock()
		res, err := e.m.Authenticate(bg, s.ID)
		ok := res != nil && res.Success
		tr("re-authentication of the subject -> success=%v err=%v", ok, err)
		err = e.m.TerminateSession(bg, s.ID, subscriber.TerminateAuthFailed)
		tr("TerminateSession(auth_failed) -> %v", err)
	case c.Path == "idle-timeout" || c.Path == "session-timeout":
		startLoop()
		if !until(idleT+sessT, gone(s)) {
			run.Inconclusive(cell, "the cleanup loop did not end the subject within the bound")
			return
		}
		tr("the cleanup loop ended the subject (%s)", c.Path)
	case c.Path == "shutdown":
		startLoop()
		stops++
		stop()
		everything = true
		tr("Manager.Stop()")
	case c.Path == "coa-disconnect":
		r := coa.HandleDisconnect(bg, &radius.DisconnectRequest{SessionID: s.ID, AcctSessionID: s.ID})
		tr("Disconnect-Request through CoAProcessor (live context) -> success=%v %s", r.Success, r.Message)
	case strings.HasPrefix(c.Path, "late-session/"):
		startLoop()
		stops++
		stop()
		tr("Manager.Stop()")
		originals = append([]*subscriber.Session(nil), all...)
		late = open(net.HardwareAddr{0x02, 0x1a, 0xc7, byte(idx >> 8), byte(idx), 0x77}, c.Prefix)
		if late == nil {
			run.Inconclusive(cell, "no session could be opened after Stop")
			return
		}
		tr("a session arrives after Stop: %s holds %v", short(late.ID), addrsOf(late))
		if c.Path == "late-session/terminate-after-stop" {
			err := e.m.TerminateSession(bg, late.ID, subscriber.TerminateUserRequest)
			tr("TerminateSession(user_request) of the late session with a live context -> %v", err)
		} else {
			stops++
			stop()
			tr("Manager.Stop() again")
		}
		everything = true
	case c.Path == "terminate-in-flight-at-stop" || c.Path == "coa-disconnect-in-flight-at-stop":
		startLoop()
		wantHold = true
		h := al.hold(holdAddr)
		c1 := launch(func() {
			if c.Path == "terminate-in-flight-at-stop" {
				err := e.m.TerminateSession(bg, s.ID, subscriber.TerminateAdminReset)
				tr("... the held TerminateSession(admin_reset) -> %v", err)
			} else {
				r := coa.HandleDisconnect(bg, &radius.DisconnectRequest{SessionID: s.ID, AcctSessionID: s.ID})
				tr("... the held Disconnect-Request -> success=%v %s", r.Success, r.Message)
			}
		})
		until(0, func() bool { return h.reached() || isClosed(c1) })
		holdReached = h.reached()
		tr("%s: the release of %s is in flight: %v", c.Path, holdAddr, holdReached)
		stops++
		c2 := launch(stop)
		quiesce(c2)
		tr("Manager.Stop() meanwhile (returned before the release was answered: %v)", isClosed(c2))
		h.open()
		pending = append(pending, c1, c2)
		everything = true
	case c.Path == "cleanup-tick-in-flight-at-stop":
		wantHold = true
		h := al.hold(holdAddr)
		startLoop()
		until(idleT, func() bool { return h.reached() || gone(s)() })
		holdReached = h.reached()
		tr("the cleanup loop found the subject idle; the release of %s is in flight: %v", holdAddr, holdReached)
		stops++
		c2 := launch(stop)
		quiesce(c2)
		tr("Manager.Stop() meanwhile (returned before the release was answered: %v)", isClosed(c2))
		h.open()
		pending = append(pending, c2)
		everything = true
	case c.Path == "stop-in-flight+terminate":
		startLoop()
		wantHold = true
		h := al.hold(holdAddr)
		stops++
		c1 := launch(stop)
		until(0, func() bool { return h.reached() || isClosed(c1) })
		holdReached = h.reached()
		tr("Manager.Stop(): its release of %s is in flight: %v", holdAddr, holdReached)
		c2 := launch(func() {
			err := e.m.TerminateSession(bg, s.ID, subscriber.TerminateAdminReset)
			tr("... TerminateSession(admin_reset) of the same session meanwhile -> %v", err)
		})
		quiesce(c2)
		h.open()
		pending = append(pending, c1, c2)
		everything = true
	case strings.HasPrefix(c.Path, "coa-server/"):
		srv, err := radius.NewCoAServer(radius.CoAServerConfig{Address: "127.0.0.1:0", Secret: radSecret}, zap.NewNop())
		if err != nil {
			hfatalf(t, "%v", err)
		}
		srv.SetDisconnectHandler(coa.HandleDisconnect)
		sctx, cancel := context.WithCancel(bg)
		defer cancel()
		if err := srv.Start(sctx); err != nil {
			run.Inconclusive(cell, fmt.Sprintf("the CoA server could not listen: %v", err))
			return
		}
		defer srv.Stop()
		startLoop()
		inFlight := c.Path == "coa-server/disconnect-request-in-flight-at-shutdown"
		var h *relHold
		if inFlight {
			wantHold = true
			h = al.hold(holdAddr)
		}
		reply := make(chan byte, 1)
		c1 := launch(func() { reply <- sendDisconnectRequest(srv.VerifC15Addr(), s.ID, byte(idx), bound) })
		if inFlight {
			until(0, func() bool { return h.reached() || isClosed(c1) })
			holdReached = h.reached()
			tr("Disconnect-Request for the subject sent to the CoA server; the release of %s is in flight: %v", holdAddr, holdReached)
			cancel()
			tr("the daemon shuts down: the context the CoA server was started with is cancelled")
			waitFor(c1, 1500*time.Millisecond)
			h.open()
		}
		if !waitFor(c1, bound) {
			run.Inconclusive(cell, "the CoA server did not answer within the bound")
			return
		}
		code := <-reply
		tr("Disconnect-Request through the CoA server -> reply code %d (41 ACK, 42 NAK, 0 none)", code)
		if code == 0 {
			run.Inconclusive(cell, "no reply from the CoA server")
			return
		}
		cancel()
		_ = srv.Stop()
	default:
		hfatalf(t, "unknown path %s", c.Path)
	}
	for _, p := range pending {
		if !finished(p) {
			for _, q := range pending {
				waitFor(q, time.Second)
			}
			run.Inconclusive(cell, "a termination did not return after the held release was answered")
			return
		}
	}
	comp := chComponent(c.Path)
	pc := chPathClass(c.Path)
	groups := []chGroup{{comp, pc, []*subscriber.Session{s}}}
	switch {
	case c.Path == "shutdown":
		groups = []chGroup{{comp, pc, all}}
	case late != nil:
		groups = []chGroup{{"subscriber.Manager.Stop", "shutdown", originals}, {comp, pc, []*subscriber.Session{late}}}
	case everything:
		groups = append(groups, chGroup{"subscriber.Manager.Stop", "shutdown", bys})
	}
	var ended []*subscriber.Session
	for _, g := range groups {
		ended = append(ended, g.who...)
	}

	// ---- judge the path
	run.Eval()
	run.Count("ctx_cells", 1)
	run.Count("ctx_cells:"+c.Alloc, 1)
	run.Count("ctx_path:"+pc, 1)
	run.Distinct("ctx_cells", cell)
	if wantHold {
		if holdReached {
			run.Count("ctx_release_in_flight_reached", 1)
			chHeldPairs[c.Alloc+"|"+c.Path] = true
		} else {
			run.Count("ctx_release_in_flight_not_reached", 1)
		}
	}
	judgeAddrs := func(comp, pc string, who []*subscriber.Session) (requests int) {
		held, st := al.heldBy(), al.stats()
		byClass := map[string][]string{}
		for _, x := range who {
			for _, a := range addrsOf(x) {
				requests += st.Attempts[a]
				run.Count("ctx_release_requests_reached_allocator", st.Attempts[a])
				run.Count("ctx_releases_carried_out", st.Done[a])
				run.Count("ctx_release_requests_with_dead_context", st.Dead[a])
				if held[a] != x.ID {
					continue
				}
				cls := "allocator.held-left/" + pc
				switch {
				case st.Dead[a] > 0:
					cls = "released-with-cancelled-context/" + pc
				case st.Attempts[a] == 0:
					cls = "allocator.held-left/never-released/" + pc
				}
				byClass[cls] = append(byClass[cls], fmt.Sprintf("%s (session %s: %d release requests, %d of them with a context that was done, %d carried out)", a, short(x.ID), st.Attempts[a], st.Dead[a], st.Done[a]))
			}
		}
		for cls, xs := range byClass {
			sort.Strings(xs)
			run.Violation(comp, "address-returned", cls, fmt.Sprintf("the allocator is healthy and still holds addresses of sessions that have ended (%s, %s): %v", c.Alloc, c.Path, xs), wit())
		}
		if len(st.Misuse) > 0 {
			run.Violation(comp, "released-once", "release-of-address-not-held/ctx-collaborators/"+pc, fmt.Sprintf("%v", st.Misuse), wit())
		}
		return requests
	}
	judgeGone := func(comp, pc string, who []*subscriber.Session) {
		for _, x := range who {
			var left []string
			if _, ok := e.m.GetSession(x.ID); ok {
				left = append(left, "session")
			}
			if y, ok := e.m.GetSessionByMAC(x.MAC); ok && y != nil && y.ID == x.ID {
				left = append(left, "by-mac")
			}
			if len(left) > 0 {
				run.Violation(comp, "session-removed", strings.Join(left, "+")+"-left/ctx-collaborators/"+pc, fmt.Sprintf("session %s is still indexed after %s: %v", short(x.ID), c.Path, left), wit())
			}
			e.mu.Lock()
			ev := e.events[x.ID]
			e.mu.Unlock()
			if ev != 1 {
				run.Violation(comp, "one-terminate-event", fmt.Sprintf("events=%d/ctx-collaborators/%s", ev, pc), fmt.Sprintf("%d session_terminate events for session %s ended by %s", ev, short(x.ID), c.Path), wit())
			}
		}
	}
	requests := 0
	for _, g := range groups {
		n := judgeAddrs(g.comp, g.pc, g.who)
		judgeGone(g.comp, g.pc, g.who)
		if g.comp == comp && g.pc == pc {
			requests += n
		}
	}
	if heldAtStart > 0 && requests > 0 {
		run.Nontrivial(cell)
		run.Count("ctx_cells_with_release_of_a_held_address", 1)
	}
	// neighbours are untouched by a path that ends one session
	endedSet := map[string]bool{}
	for _, x := range ended {
		endedSet[x.ID] = true
	}
	var alive []*subscriber.Session
	held := al.heldBy()
	for _, x := range all {
		if endedSet[x.ID] {
			continue
		}
		alive = append(alive, x)
		for _, a := range addrsOf(x) {
			if held[a] != x.ID {
				run.Violation(comp, "bystanders-untouched", "allocator.held-lost/ctx-collaborators/"+pc, fmt.Sprintf("address %s of live session %s is no longer allocated to it", a, short(x.ID)), wit())
			}
		}
		if _, ok := e.m.GetSession(x.ID); !ok {
			run.Violation(comp, "bystanders-untouched", "session-lost/ctx-collaborators/"+pc, fmt.Sprintf("live session %s disappeared", short(x.ID)), wit())
		}
	}

	// ---- the daemon goes down: whatever is still alive ends by the shutdown path
	if len(alive) > 0 {
		startLoop()
		stops++
		p := guard(stop)
		tr("finally the daemon goes down: Manager.Stop()%s", panicNote(p))
		if p != "" {
			run.Violation("subscriber.Manager.Stop", "terminates-without-crash", "panic/ctx-collaborators", "Stop panicked: "+p, wit())
			return
		}
		run.Count("ctx_final_shutdown_sessions", len(alive))
		judgeAddrs("subscriber.Manager.Stop", "shutdown", alive)
		judgeGone("subscriber.Manager.Stop", "shutdown", alive)
	}
	// nothing at all may be left in the authoritative table now
	if left := al.heldBy(); len(left) > 0 {
		known := map[string]bool{}
		for _, x := range all {
			for _, a := range addrsOf(x) {
				known[a] = true
			}
		}
		for a, id := range left {
			if !known[a] {
				run.Violation(comp, "address-returned", "allocator.held-left/unknown-address/"+pc, fmt.Sprintf("the allocator holds %s for %s, which no session of the cell was given", a, short(id)), wit())
			}
		}
	}
	// ---- accounting (remote cells): one Stop for every Start once everything has ended
	if am != nil {
		stopAM()
		for _, x := range all {
			starts, stopsSeen := rad.counts(x.ID)
			for i := 0; i < 1000 && starts >= 1 && stopsSeen == 0; i++ {
				time.Sleep(10 * time.Millisecond) // a record may still sit in the server's socket buffer on a starved machine
				starts, stopsSeen = rad.counts(x.ID)
			}
			run.Count("ctx_acct_starts_observed", starts)
			run.Count("ctx_acct_stops_observed", stopsSeen)
			if starts >= 1 && stopsSeen != 1 {
				cls := "no-stop"
				if stopsSeen > 1 {
					cls = "stop-repeated"
				}
				run.Violation(comp, "one-stop-per-start", cls+"/ctx-collaborators/"+pc, fmt.Sprintf("session %s: %d Accounting-Start and %d Accounting-Stop records after %s and shutdown", short(x.ID), starts, stopsSeen, c.Path), wit())
			}
		}
	}
	if remote {
		chSvc.mu.Lock()
		nd, na := 0, 0
		for _, v := range chSvc.deletes {
			nd += v
		}
		for _, v := range chSvc.abandoned {
			na += v
		}
		chSvc.mu.Unlock()
		run.Count("ctx_http_deletes_received_by_service", nd)
		run.Count("ctx_http_deletes_abandoned_by_client", na)
	}
	if idx%23 == 5 {
		run.Sample(wit())
	}
}

func isClosed(c chan struct{}) bool {
	select {
	case <-c:
		return true
	default:
		return false
	}
}

// sendDisconnectRequest sends one RFC 5176 Disconnect-Request (code 40, Acct-Session-Id) and returns the code of
// the reply (0: none within the bound). Request authenticator per RFC 5176 section 2.3 / RFC 2866 section 3.
func sendDisconnectRequest(to net.Addr, session string, id byte, bound time.Duration) byte {
	if to == nil {
		return 0
	}
	conn, err := net.Dial("udp4", to.String())
	if err != nil {
		return 0
	}
	defer conn.Close()
	attrs := append([]byte{44, byte(2 + len(session))}, session...)
	pkt := make([]byte, 20, 20+len(attrs))
	pkt[0], pkt[1] = 40, id
	binary.BigEndian.PutUint16(pkt[2:], uint16(20+len(attrs)))
	pkt = append(pkt, attrs...)
	h := md5.New()
	h.Write(pkt)
	h.Write([]byte(radSecret))
	copy(pkt[4:20], h.Sum(nil))
	if _, err := conn.Write(pkt); err != nil {
		return 0
	}
	_ = conn.SetReadDeadline(time.Now().Add(bound))
	buf := make([]byte, 4096)
	n, err := conn.Read(buf)
	if err != nil || n < 20 {
		return 0
	}
	return buf[0]
}
