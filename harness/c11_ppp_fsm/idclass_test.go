package c11

// Identifier classes for every peer packet type that is not a Configure-Ack/-Nak/-Reject:
// Terminate-Ack, Terminate-Request, Code-Reject (critical / other), Protocol-Reject (LCP /
// other), Echo-Reply and Discard-Request, each carrying
//   cur  = the identifier of the automaton's latest Configure-Request,
//   term = the identifier of its latest Terminate-Request,
//   nc   = the identifier of the latest packet it originated that is neither of the two
//          (Code-Reject, Protocol-Reject, Echo-Request: LCP only - IPCP and IPv6CP originate
//          nothing but Configure- and Terminate-Requests),
//   old  = the identifier of an older packet it originated,
//   new  = an identifier it never used,
// delivered in every RFC 1661 state of LCP, IPCP and IPv6CP. All identifiers come from the
// packets the automaton handed to the send callback.
//
// Oracle (judgePeerPacket, and the leaves-opened clause of judgeEvent):
//   - property text + RFC 1661 4.1: a Terminate-Ack or Terminate-Request delivered in Opened
//     leaves Opened whatever its identifier (the table does not make RTA/RTR conditional on it);
//   - RFC 1661 4.1, row RTA: Ack-Rcvd -> Req-Sent; Closing -> Closed and Stopping -> Stopped
//     when the identifier is that of the outstanding Terminate-Request (a Terminate-Ack with any
//     other identifier may end the termination or be ignored: both accepted); no state change in
//     Initial, Starting, Closed, Stopped, Req-Sent, Ack-Sent;
//   - differential: for the rows RFC 1661 gives every control protocol alike (RTA, RTR, RXJ-,
//     RXJ+) the same packet with the same identifier class in the same state is compared across
//     LCP, IPCP and IPv6CP at the level {opened, negotiating, ending}; an automaton is reported
//     only when it differs from another one AND is not where the RFC table puts it (differences
//     the table allows, and deviations all three share, are only counted).
// Code-/Protocol-Reject, Echo-Reply and Discard are otherwise judged by the clauses that hold for
// every event (Opened only on mutual agreement, termination against a silent peer).

import (
	"fmt"
	"math/rand/v2"
	"sort"
	"strings"
	"sync"
	"testing"
)

var pktBases = []string{"RTA", "RTR", "CRJcrit", "CRJother", "PRJlcp", "PRJother", "EREP", "DISCARD"}
var pktClasses = []string{"cur", "term", "nc", "old", "new"}
var rfcStates = []string{"Initial", "Starting", "Closed", "Stopped", "Closing", "Stopping", "Req-Sent", "Ack-Rcvd", "Ack-Sent", "Opened"}

// peerBase names the delivered packet for the identifier-class bookkeeping ("" = not one of these packets).
func peerBase(kind string, code byte) string {
	b, _ := peerKind(kind)
	switch code {
	case cTermAck, cTermReq, cCodeRej, cProtRej, cEchoRep, cDiscard:
		for _, k := range pktBases {
			if k == b {
				return b
			}
		}
	}
	return ""
}

func pktClassName(cls string) string {
	switch cls {
	case "cur":
		return "id-of-latest-configure-request"
	case "term":
		return "id-of-latest-terminate-request"
	case "nc":
		return "id-of-latest-other-originated-packet"
	case "old":
		return "id-of-older-originated-packet"
	case "new":
		return "never-used-id"
	}
	return cls
}

// olderIDs: identifiers of originated packets that are none of cur / term / nc.
func (m *monitor) olderIDs() []byte {
	var out []byte
	for _, id := range m.origLog {
		if (m.hasOur && id == m.ourID) || (m.hasTerm && id == m.termID) || (m.hasNC && id == m.ncID) {
			continue
		}
		out = append(out, id)
	}
	return out
}

func (m *monitor) ncDistinct() bool {
	return m.hasNC && m.ncCode != cTermReq && !(m.hasOur && m.ncID == m.ourID) && !(m.hasTerm && m.ncID == m.termID)
}

// hasPktID: an identifier of the class exists in the present situation (independent of any random choice).
func (m *monitor) hasPktID(cls string) bool {
	switch cls {
	case "cur":
		return m.hasOur
	case "term":
		return m.hasTerm && !(m.hasOur && m.termID == m.ourID)
	case "nc":
		return m.ncDistinct()
	case "old":
		return len(m.olderIDs()) > 0
	case "new":
		return m.hasID("new")
	}
	return false
}

func (m *monitor) pktIDFor(cls string, r *rand.Rand) (byte, bool) {
	if !m.hasPktID(cls) {
		return 0, false
	}
	switch cls {
	case "cur":
		return m.ourID, true
	case "term":
		return m.termID, true
	case "nc":
		return m.ncID, true
	case "old":
		ids := m.olderIDs()
		if r.IntN(2) == 0 {
			return ids[len(ids)-1], true
		}
		return ids[r.IntN(len(ids))], true
	case "new":
		return m.idFor("new", r)
	}
	return 0, false
}

// classifyID: what an identifier is to the automaton, from the packets it was observed to originate.
func (m *monitor) classifyID(id byte) string {
	switch {
	case m.hasOur && id == m.ourID:
		return "cur"
	case m.hasTerm && id == m.termID:
		return "term"
	case m.hasNC && id == m.ncID:
		return "nc"
	case m.used[id]:
		return "old"
	}
	return "new"
}

// judgePeerPacket: counters for every delivered Terminate-Request/-Ack, Code-/Protocol-Reject, Echo-Reply and
// Discard-Request by identifier class and state, and the Terminate-Ack row of the RFC 1661 table.
func (c *caseCtx) judgePeerPacket(rec *evRec) {
	sp := c.sp
	if rec.Err != "" || rec.Panic != "" {
		run.Count("idclass_packet_refused_or_panicked(not judged)", 1)
		return
	}
	run.Count("idclass_packets_delivered", 1)
	run.Count("idclass_"+rec.PBase+"_"+rec.PClass, 1)
	run.Count("idclass_"+sp.proto+"_"+rec.PClass, 1)
	run.Count("idclass_in_"+rec.From, 1)
	run.Distinct("idclass_cells", sp.proto+"|"+rec.PBase+"|"+rec.PClass+"|"+rec.From)
	run.Distinct("idclass_transitions", sp.proto+"|"+rec.PBase+"|"+rec.PClass+"|"+rec.From+"|"+rec.To)
	if !rec.IDLast {
		run.Count("idclass_id_other_than_last_sent", 1)
	}
	run.Nontrivial("idclass|" + sp.name + "|" + rec.PBase + "|" + rec.PClass + "|" + rec.From)
	if rec.PBase != "RTA" {
		return
	}
	if rec.Inner != rec.Kind {
		run.Count("rta_in_timer_race(table not judged)", 1)
		return
	}
	comp := sp.typ + ".receiveTerminateAck"
	idText := fmt.Sprintf("identifier %d: %s", rec.Pkt[1], pktClassName(rec.PClass))
	run.Count("rta_table_judged", 1)
	run.Count("rta_table_judged_in_"+rec.From, 1)
	switch rec.From {
	case "Opened":
		// judged by the leaves-opened clause (the statement asks for no more than leaving Opened)
		if rec.To == "Req-Sent" {
			run.Count("rta_in_opened_went_to_Req-Sent", 1)
		}
	case "Ack-Rcvd":
		run.Count("rta_in_ackrcvd_judged", 1)
		if !rec.IDLast {
			run.Count("rta_in_ackrcvd_with_id_other_than_last_sent", 1)
		}
		if rec.To != "Req-Sent" {
			c.viol(comp, "terminate-ack-rfc1661-table", "RTA-in-Ack-Rcvd:"+stays(rec),
				fmt.Sprintf("%s is in %s after a Terminate-Ack (%s) delivered in Ack-Rcvd; RFC 1661 4.1: RTA in Ack-Rcvd returns to Req-Sent (the peer's acknowledgement is void)", sp.proto, rec.To, idText))
		}
	case "Closing", "Stopping":
		done := map[string]string{"Closing": "Closed", "Stopping": "Stopped"}[rec.From]
		if !rec.TermMatch {
			run.Count("rta_not_matching_an_outstanding_terminate_request_in_closing_or_stopping", 1)
		}
		switch {
		case rec.TermMatch:
			run.Count("rta_matching_outstanding_terminate_request_judged", 1)
			run.Count("rta_matching_outstanding_terminate_request_judged_in_"+rec.From, 1)
			if rec.To != done {
				c.viol(comp, "terminate-ack-rfc1661-table", "RTA-with-id-of-outstanding-terminate-request-in-"+rec.From+":"+stays(rec),
					fmt.Sprintf("%s is in %s after the Terminate-Ack answering its outstanding Terminate-Request (%s) delivered in %s; RFC 1661 4.1: this-layer-finished, %s", sp.proto, rec.To, idText, rec.From, done))
			}
		case rec.To == done:
			run.Count("rta_not_matching_a_terminate_request_ended_termination(accepted)", 1)
		case rec.To == rec.From:
			run.Count("rta_not_matching_a_terminate_request_ignored(accepted)", 1)
		default:
			c.viol(comp, "terminate-ack-rfc1661-table", "RTA-in-"+rec.From+":"+stays(rec),
				fmt.Sprintf("%s is in %s after a Terminate-Ack (%s) delivered in %s; RFC 1661 4.1 allows %s (or, for a non-matching identifier, no change)", sp.proto, rec.To, idText, rec.From, done))
		}
	default:
		// Initial, Starting, Closed, Stopped, Req-Sent, Ack-Sent: the table keeps the state
		if rec.To != rec.From {
			c.viol(comp, "terminate-ack-rfc1661-table", "RTA-in-"+rec.From+":"+stays(rec),
				fmt.Sprintf("%s went from %s to %s on a Terminate-Ack (%s); RFC 1661 4.1 keeps the state", sp.proto, rec.From, rec.To, idText))
		}
	}
}

func stays(rec *evRec) string {
	if rec.To == rec.From {
		return "stays-" + rec.From
	}
	return "goes-to-" + rec.To
}

// ---------------------------------------------------------------- the grid

// richPrefixes: like statePrefixes, but behind a preamble after which the automaton has used an older
// Configure-Request identifier, a Terminate-Request identifier and a current Configure-Request identifier:
// Up, Open (Configure-Request), Close (Terminate-Request), Terminate-Ack, Open (Configure-Request).
func richPrefixes(sp *spec, variant int) map[string][]string {
	pre := []string{"Up", "Open", "Close", "RTA@term", "Open"}
	if variant == 2 {
		pre = append(pre, "TO") // one retransmission more: another older identifier
	}
	with := func(s ...string) []string { return append(append([]string(nil), pre...), s...) }
	tos := make([]string, sp.maxConf+1)
	for i := range tos {
		tos[i] = "TO"
	}
	m := map[string][]string{
		"Initial":  with("Down", "Close"),
		"Starting": with("Down"),
		"Closed":   with("Close", "RTA@term"),
		"Stopped":  with(tos...),
		"Closing":  with("Close"),
		"Stopping": with("RCR+", "RCAcur", "RTR"),
		"Req-Sent": with(),
		"Ack-Rcvd": with("RCAcur"),
		"Ack-Sent": with("RCR+"),
		"Opened":   with("RCR+", "RCAcur"),
	}
	if variant == 2 && sp.proto == "LCP" {
		// LCP originates other packets too: a Protocol-Reject by the server (any state), an Echo-Request (Opened)
		// or a Code-Reject for an unknown code, after the latest Configure-Request
		for st, p := range m {
			extra := "SPR"
			if st == "Opened" {
				extra = "SER"
			} else if st == "Req-Sent" || st == "Ack-Sent" {
				extra = "UNK"
			}
			m[st] = append(p, extra)
		}
	}
	return m
}

type diffObs struct {
	mu sync.Mutex
	// base|cls|from -> proto -> to-state -> count
	cells map[string]map[string]map[string]int
}

func (d *diffObs) add(base, cls, from, proto, to string) {
	d.mu.Lock()
	defer d.mu.Unlock()
	k := base + "|" + cls + "|" + from
	if d.cells[k] == nil {
		d.cells[k] = map[string]map[string]int{}
	}
	if d.cells[k][proto] == nil {
		d.cells[k][proto] = map[string]int{}
	}
	d.cells[k][proto][to]++
}

func stateCat(s string) string {
	switch s {
	case "Opened":
		return "opened"
	case "Req-Sent", "Ack-Rcvd", "Ack-Sent":
		return "negotiating"
	}
	return "ending" // Closing, Stopping, Closed, Stopped, Initial, Starting
}

// rfcRow: RFC 1661 section 4.1, the rows every control protocol shares: the states the table allows after the
// event (RTA in Closing/Stopping: also no change, for a Terminate-Ack that does not match).
func rfcRow(base, from string) []string {
	same := []string{from}
	switch base {
	case "RTA":
		switch from {
		case "Closing":
			return []string{"Closed", "Closing"}
		case "Stopping":
			return []string{"Stopped", "Stopping"}
		case "Ack-Rcvd", "Opened":
			return []string{"Req-Sent"}
		}
		return same
	case "RTR":
		switch from {
		case "Req-Sent", "Ack-Rcvd", "Ack-Sent":
			return []string{"Req-Sent"}
		case "Opened":
			return []string{"Stopping"}
		}
		return same
	case "CRJcrit": // RXJ-
		switch from {
		case "Closing":
			return []string{"Closed"}
		case "Stopping", "Req-Sent", "Ack-Rcvd", "Ack-Sent":
			return []string{"Stopped"}
		case "Opened":
			return []string{"Stopping"}
		}
		return same
	case "CRJother": // RXJ+
		if from == "Ack-Rcvd" {
			return []string{"Req-Sent"}
		}
		return same
	}
	return nil
}

func keysOf(m map[string]int) []string {
	var out []string
	for k := range m {
		out = append(out, k)
	}
	sort.Strings(out)
	return out
}

// judgeDifferentialTable compares, cell by cell, what LCP, IPCP and IPv6CP did with the same packet (same
// identifier class) in the same state.
func judgeDifferentialTable(d *diffObs, typOf map[string]string, witness map[string][]string) {
	d.mu.Lock()
	defer d.mu.Unlock()
	var cells []string
	for k := range d.cells {
		cells = append(cells, k)
	}
	sort.Strings(cells)
	for _, k := range cells {
		f := strings.Split(k, "|")
		base, cls, from := f[0], f[1], f[2]
		allowed := rfcRow(base, from)
		if allowed == nil || len(d.cells[k]) < 2 {
			continue
		}
		run.Count("differential_table_cells_compared", 1)
		run.Count("differential_table_cells_compared_"+base, 1)
		okCat := map[string]bool{}
		okState := map[string]bool{}
		for _, s := range allowed {
			okCat[stateCat(s)] = true
			okState[s] = true
		}
		cats := map[string]map[string]bool{}
		for proto, tos := range d.cells[k] {
			cats[proto] = map[string]bool{}
			for to := range tos {
				cats[proto][stateCat(to)] = true
				if !okState[to] {
					run.Count("rfc1661_table_difference_observed_"+base+"_in_"+from+"_goes_to_"+to+"(counted)", 1)
				}
			}
		}
		for proto, tos := range d.cells[k] {
			for _, to := range keysOf(tos) {
				if okCat[stateCat(to)] {
					continue
				}
				// not where the table puts it; does another automaton behave differently?
				var others []string
				for q, qc := range cats {
					if q != proto && !qc[stateCat(to)] {
						var ql []string
						for x := range qc {
							ql = append(ql, x)
						}
						sort.Strings(ql)
						others = append(others, q+" is then "+strings.Join(ql, "/"))
					}
				}
				if len(others) == 0 {
					run.Count("rfc1661_table_deviation_shared_by_all_automata(counted)", 1)
					continue
				}
				sort.Strings(others)
				handler := handlerOf(base)
				if strings.HasPrefix(base, "CRJ") && proto != "LCP" {
					handler = "ReceivePacket" // the network control protocols have no Code-Reject handler of their own
				}
				want := strings.Join(allowed, " or ")
				desc := fmt.Sprintf("%s in %s: %s (%s) leaves %s in %s, RFC 1661 4.1 gives %s for every control protocol; %s",
					base, from, base, pktClassName(cls), proto, to, want, strings.Join(others, ", "))
				run.Violation(typOf[proto]+"."+handler, "same-table-as-rfc1661-across-automata",
					base+"-in-"+stateCat(from)+":"+stateCat(to)+"-where-rfc1661-and-other-automata-"+catList(okCat),
					desc, map[string]any{"cell": k, "observed": d.cells[k], "rfc1661": allowed, "trace": witness[k+"|"+proto+"|"+to], "detail": desc})
			}
		}
	}
}

func catList(m map[string]bool) string {
	var l []string
	for k := range m {
		l = append(l, k)
	}
	sort.Strings(l)
	return strings.Join(l, "/")
}

// TestIdentifierClasses: per automaton x state x prefix variant x packet type x identifier class one case:
// the prefix, the packet, (thorough: a short random tail), the silent-peer run.
func TestIdentifierClasses(t *testing.T) {
	rounds := run.Pick(1, 4)
	d := &diffObs{cells: map[string]map[string]map[string]int{}}
	typOf := map[string]string{}
	witness := map[string][]string{}
	var wmu sync.Mutex
	t.Run("grid", func(t *testing.T) {
		for si, sp := range allSpecs() {
			sp, si := sp, si
			typOf[sp.proto] = sp.typ
			t.Run(sp.name, func(t *testing.T) {
				t.Parallel()
				tail := []string{"RCR+", "RCAcur", "RCR+", "RCAcur", "TO", "RTA", "RTR", "Open", "RCNcur"}
				n := 0
				for round := 0; round < rounds; round++ {
					for variant := 0; variant < 3; variant++ {
						pre := statePrefixes(sp)
						if variant > 0 {
							pre = richPrefixes(sp, variant)
						}
						for _, st := range rfcStates {
							for _, base := range pktBases {
								for _, cls := range pktClasses {
									n++
									rng := run.SubRand("idclass-"+sp.name, si*1000003+n)
									var seq []ev
									for _, k := range pre[st] {
										seq = append(seq, ev{Kind: k, Seed: rng.Uint64()})
									}
									at := len(seq)
									seq = append(seq, ev{Kind: base + "@" + cls, Seed: rng.Uint64()})
									if round > 0 {
										for m := rng.IntN(4); m > 0; m-- {
											seq = append(seq, ev{Kind: tail[rng.IntN(len(tail))], Seed: rng.Uint64()})
										}
									}
									var rec *evRec
									res := execSeqAt(t, sp, seq, at, &rec)
									run.Count("idclass_grid_cases", 1)
									if rec == nil || rec.NA {
										// no identifier of the class exists behind this prefix (e.g. no Terminate-Request was ever sent)
										run.Count("idclass_grid_class_not_available_after_prefix", 1)
										continue
									}
									record(sp, seq, res)
									run.Count("idclass_grid_packets_delivered", 1)
									if rec.From != st {
										run.Count("idclass_grid_prefix_ended_in_another_state(judged there)", 1)
										run.Distinct("idclass_grid_prefix_misses", fmt.Sprintf("%s|prefix %d|wanted %s|reached %s", sp.name, variant, st, rec.From))
									}
									if rec.Err != "" || rec.Panic != "" || rec.PBase == "" {
										continue
									}
									d.add(rec.PBase, rec.PClass, rec.From, sp.proto, rec.To)
									wk := rec.PBase + "|" + rec.PClass + "|" + rec.From + "|" + sp.proto + "|" + rec.To
									wmu.Lock()
									if witness[wk] == nil {
										witness[wk] = res.trace
									}
									wmu.Unlock()
									if n == 1500 && si%4 == 0 {
										run.Sample(map[string]any{"kind": "identifier-class", "trace": res.trace})
									}
								}
							}
						}
					}
				}
			})
		}
	})
	judgeDifferentialTable(d, typOf, witness)
}

// execSeqAt is execSeq that also hands back the record of event number at.
func execSeqAt(t *testing.T, sp *spec, seq []ev, at int, out **evRec) result {
	res := execSeq(t, sp, seq, 0)
	if at < len(res.recs) {
		*out = res.recs[at]
	}
	return res
}
