package c11

// The C11 oracle. Everything here is decided from what was observed at the
// automaton's boundary: the packets it handed to the send callback, the packets
// and administrative events the harness delivered, IsOpened()/GetState() after
// each event, and virtual time. The verif hooks (restart counter, timer field)
// are used to fingerprint states, to name witness classes and, in the
// "non-matching reply is silently discarded" clause only, to see that a discarded
// packet neither reset the restart counter nor touched the restart timer.

import (
	"bytes"
	"encoding/hex"
	"fmt"
	"math/rand/v2"
	"net"
	"runtime"
	"strings"
	"testing/synctest"
	"time"

	"github.com/codelaboratoryltd/bng/pkg/pppoe"
)

type monitor struct {
	hasOur     bool
	ourID      byte
	ourData    []byte
	ourByTimer bool // latest Configure-Request was sent by the restart-timer callback
	peerAcked  bool // a Configure-Ack carrying ourID was delivered after that request and no newer request was sent
	hasPeer    bool
	peerID     byte
	peerData   []byte
	weAcked    bool // the peer's latest Configure-Request was answered with a Configure-Ack

	// identifiers the automaton was observed to use for packets it originated (send callback)
	reqIDs     []byte    // identifiers of all its Configure-Requests, oldest first
	reqData    [][]byte  // their option bytes, same order
	contentPending bool  // after its latest Configure-Request it told the peer (in a Configure-Nak) a value of its own that differs from that request's: its next request will differ in content
	hasNC      bool      // it originated a packet that is not a Configure-Request (Terminate-Request, Code-Reject, Protocol-Reject, Echo-Request)
	ncID       byte      // identifier of the latest such packet
	ncCode     byte      // its code
	ncAfterReq bool      // it was sent after the latest Configure-Request
	used       [256]bool // every identifier it used for an originated packet
	hasOrig    bool
	lastOrig   byte // identifier of the latest originated packet of any kind

	// idclass_test.go: Terminate-Requests and the order of all originated packets
	hasTerm      bool
	termID       byte   // identifier of its latest Terminate-Request
	termAfterReq bool   // that Terminate-Request was sent after its latest Configure-Request (it is outstanding in this termination)
	origLog      []byte // identifiers of every packet it originated, oldest first
}

// originated: codes for which the sender chooses the identifier (RFC 1661 section 5); replies echo the peer's.
func originated(code byte) bool {
	switch code {
	case cConfReq, cTermReq, cCodeRej, cProtRej, cEchoReq, cDiscard:
		return true
	}
	return false
}

// olderReqIDs: identifiers of earlier Configure-Requests that differ from the latest one's.
func (m *monitor) olderReqIDs() []byte {
	var out []byte
	if len(m.reqIDs) < 2 {
		return nil
	}
	for _, id := range m.reqIDs[:len(m.reqIDs)-1] {
		if id != m.ourID {
			out = append(out, id)
		}
	}
	return out
}

// hasID: an identifier of the class exists in the present situation (independent of any random choice).
func (m *monitor) hasID(class string) bool {
	switch class {
	case "cur":
		return m.hasOur
	case "old":
		return len(m.olderReqIDs()) > 0
	case "sup":
		return m.hasOur && m.supData() != nil
	case "nc":
		return m.hasNC && !(m.hasOur && m.ncID == m.ourID)
	case "peer":
		return m.hasPeer && !(m.hasOur && m.peerID == m.ourID)
	case "new":
		for id := 0; id < 256; id++ {
			if !m.used[id] {
				return true
			}
		}
	}
	return false
}

// idFor picks the identifier of a peer reply of the given class.
func (m *monitor) idFor(class string, r *rand.Rand) (byte, bool) {
	if !m.hasID(class) {
		return 0, false
	}
	switch class {
	case "cur", "alt", "sup":
		return m.ourID, m.hasOur
	case "old":
		ids := m.olderReqIDs()
		if r.IntN(2) == 0 {
			return ids[len(ids)-1], true // the request just before the latest (a reply that crossed a retransmission)
		}
		return ids[r.IntN(len(ids))], true
	case "nc":
		return m.ncID, true
	case "peer":
		return m.peerID, true
	case "new":
		// never used by the automaton: preferably the one it will use next
		cands := []byte{m.lastOrig + 1, m.lastOrig + 1, m.lastOrig + 2, m.ourID + 0x40, 0, 0xff, byte(r.IntN(256))}
		for i, n := r.IntN(len(cands)), 0; n < len(cands); i, n = (i+1)%len(cands), n+1 {
			if !m.used[cands[i]] {
				return cands[i], true
			}
		}
		for id := 0; id < 256; id++ {
			if !m.used[id] {
				return byte(id), true
			}
		}
	}
	return 0, false
}

func (m *monitor) ok() bool { return m.peerAcked && m.weAcked }

func (m *monitor) onSent(p pkt, stBefore string) {
	if p.Bad {
		return
	}
	if originated(p.Code) {
		m.used[p.ID] = true
		m.hasOrig, m.lastOrig = true, p.ID
		m.origLog = append(m.origLog, p.ID)
		if p.Code == cTermReq {
			m.hasTerm, m.termID, m.termAfterReq = true, p.ID, true
		}
		if p.Code != cConfReq {
			m.hasNC, m.ncID, m.ncCode, m.ncAfterReq = true, p.ID, p.Code, true
		}
	}
	switch p.Code {
	case cConfReq:
		m.hasOur, m.ourID, m.ourData = true, p.ID, p.Data
		m.reqIDs = append(m.reqIDs, p.ID)
		m.reqData = append(m.reqData, append([]byte(nil), p.Data...))
		m.contentPending = false
		m.ncAfterReq = false
		m.termAfterReq = false
		m.peerAcked = false
		m.ourByTimer = p.ByTimer
	case cConfAck:
		if m.hasPeer && p.ID == m.peerID {
			m.weAcked = true
		}
	case cConfNak:
		// a Nak that suggests a new magic number because the peer's equals the automaton's own (looped-back link):
		// the automaton has changed the value it will put in its next Configure-Request
		if m.hasOur && bytes.Contains(p.Data, []byte{5, 6}) && m.hasPeer && bytes.Contains(m.peerData, []byte{5, 6}) {
			if mine := optVal(m.ourData, 5); mine != nil && bytes.Equal(optVal(m.peerData, 5), mine) && !bytes.Equal(optVal(p.Data, 5), mine) {
				m.contentPending = true
			}
		}
	}
}

// optVal returns the value of the first option of type t in an option list (nil if absent or malformed).
func optVal(data []byte, t byte) []byte {
	for i := 0; i+2 <= len(data); {
		l := int(data[i+1])
		if l < 2 || i+l > len(data) {
			return nil
		}
		if data[i] == t {
			return data[i+2 : i+l]
		}
		i += l
	}
	return nil
}

// supData: the option bytes of an earlier Configure-Request that carried the SAME identifier as the latest one but
// different content, with no request under another identifier in between (so this is not identifier wrap-around).
// A Configure-Ack echoing those bytes is the peer's genuine, late acknowledgement of the superseded request - it is
// not an acknowledgement of the most recent one. An automaton that gives every new request content a fresh
// identifier (RFC 1661 section 5.1: the Identifier MUST be changed whenever the content of the Options field
// changes) never produces this situation.
func (m *monitor) supData() []byte {
	for i := len(m.reqIDs) - 2; i >= 0; i-- {
		if m.reqIDs[i] != m.ourID {
			return nil
		}
		if !bytes.Equal(m.reqData[i], m.ourData) {
			return m.reqData[i]
		}
	}
	return nil
}

func (m *monitor) onDeliver(code, id byte, data []byte) {
	switch code {
	case cConfReq:
		m.hasPeer, m.peerID, m.peerData = true, id, data
		m.weAcked = false
	case cConfAck:
		if m.hasOur && id == m.ourID {
			if sd := m.supData(); sd != nil && bytes.Equal(data, sd) {
				// the genuine acknowledgement of a superseded request that shared the identifier: not an
				// acknowledgement of the most recent Configure-Request
				break
			}
			m.peerAcked = true
		}
	case cTermReq:
		// a terminate event ends the negotiation: both acknowledgements must be obtained afresh
		m.peerAcked, m.weAcked = false, false
	}
}

func (m *monitor) onAdminReset() { m.peerAcked, m.weAcked = false, false }

// evRec is what was observed for one event.
type evRec struct {
	Kind      string
	Inner     string // Kind without the RACE: prefix
	NA        bool   // not applicable in this situation (nothing was done)
	Pkt       []byte // delivered packet
	From, To  string
	Pre       []pkt // sent while advancing to the race instant
	Sent      []pkt // sent during / after delivery
	Err       string
	Panic     string
	rcB, rcA  int
	tsB, tsA  bool
	okBefore  bool
	Effective bool
	unmetB    bool // before: a state that needs the restart timer, and the timer field is nil (hook)
	unmetA    bool
	TimerRan  bool // some packet of this event came from the timer goroutine
	RaceHeld  bool
	// peer Configure-Ack/-Nak/-Reject only, all taken from the monitor just before delivery:
	IDClass    string // cur old nc new alt peer
	Mismatch   bool   // the automaton has sent a Configure-Request and the reply's identifier differs from the latest one's
	NoReq      bool   // the automaton never sent a Configure-Request (no identifier can match)
	NCAfterReq bool   // it originated a non-Configure-Request packet after its latest Configure-Request
	ReqID      byte   // identifier of its latest Configure-Request
	// peer Terminate-Request/-Ack, Code-/Protocol-Reject, Echo-Reply, Discard-Request (idclass_test.go), from the monitor just before delivery:
	PBase     string // RTA RTR CRJcrit CRJother PRJlcp PRJother EREP DISCARD
	PClass    string // cur term nc old new: what the packet's identifier is to the automaton
	IDLast    bool   // the identifier is the one of the latest packet the automaton originated
	TermMatch bool   // the identifier is that of a Terminate-Request sent after the latest Configure-Request (outstanding)
}

func (r *evRec) String() string {
	var b strings.Builder
	b.WriteString(r.Kind)
	if r.NA {
		b.WriteString(" (n/a)")
		return b.String()
	}
	if r.Pkt != nil {
		fmt.Fprintf(&b, " <%s id=%d %s>", codeName(r.Pkt[0]), r.Pkt[1], hex.EncodeToString(r.Pkt[4:]))
	}
	fmt.Fprintf(&b, " %s->%s", r.From, r.To)
	if len(r.Pre)+len(r.Sent) > 0 {
		b.WriteString(" sent[")
		for i, p := range append(append([]pkt(nil), r.Pre...), r.Sent...) {
			if i > 0 {
				b.WriteString(" ")
			}
			b.WriteString(p.String())
		}
		b.WriteString("]")
	}
	if r.Err != "" {
		b.WriteString(" err=" + r.Err)
	}
	if r.Panic != "" {
		b.WriteString(" PANIC=" + r.Panic)
	}
	return b.String()
}

func (c *caseCtx) trace() []string {
	out := []string{"spec=" + c.sp.name}
	for _, r := range c.recs {
		out = append(out, r.String())
	}
	return out
}

func (c *caseCtx) sleepWait(d time.Duration) {
	if d > 0 {
		time.Sleep(d)
	}
	synctest.Wait()
}

// step executes one event against the real automaton and updates the monitor.
func (c *caseCtx) step(e ev, judge bool) *evRec {
	r := rand.New(rand.NewPCG(e.Seed, 0xC11))
	rec := &evRec{Kind: e.Kind, Inner: strings.TrimPrefix(e.Kind, "RACE:")}
	rec.From, rec.rcB, rec.tsB, rec.okBefore = c.m.St(), c.m.RestartCount(), c.m.TimerSet(), c.mon.ok()
	c.recs = append(c.recs, rec)
	n0 := len(c.sent)
	race := rec.Inner != rec.Kind
	if !c.applicable(e.Kind) {
		rec.NA = true
		return rec
	}
	var due time.Time
	reqCtx := ""
	if race {
		// applicable only while a restart timer can be pending: the automata arm it when they
		// send a Configure-/Terminate-Request (observed in the send callback)
		due = c.lastReq.Add(c.rt())
		c.sleepWait(time.Until(due) - time.Nanosecond)
		rec.Pre = append([]pkt(nil), c.sent[n0:]...)
		for _, p := range rec.Pre {
			c.mon.onSent(p, rec.From)
		}
		n0 = len(c.sent)
	}
	switch k := rec.Inner; {
	case k == "Up":
		c.m.Up()
	case k == "Down":
		c.m.Down()
		c.mon.onAdminReset()
	case k == "Open":
		c.m.Open()
	case k == "Close":
		c.m.Close()
		c.mon.onAdminReset()
	case k == "SETIP":
		n := altPeer
		if c.static.Equal(altPeer) {
			n = staticPeer
		}
		c.ipcp.SetPeerIP(n)
		c.static = n
	case k == "TO":
		time.Sleep(c.rt())
	case k == "ADV:half":
		time.Sleep(c.rt() / 2)
	case k == "ADV:rt-1":
		time.Sleep(c.rt() - 1)
	case k == "ADV:rt+1":
		time.Sleep(c.rt() + 1)
	case k == "ADV:2rt":
		time.Sleep(2 * c.rt())
	case k == "SPR":
		// the server refuses a frame of a protocol it does not run: Protocol-Reject, which consumes an LCP identifier
		protos := []uint16{0x8057, 0x002b, 0x8031, 0x80fd, 0x8021}
		d := make([]byte, r.IntN(9))
		for i := range d {
			d[i] = byte(r.IntN(256))
		}
		c.lcp.SendProtocolReject(protos[r.IntN(len(protos))], d)
	case k == "SER":
		c.lcp.SendEchoRequest()
	case k == "KA":
		// one tick of the session keep-alive (keepalive.go) in virtual time: its ticker goroutine calls
		// SendEchoRequest when LCP is Opened. A fresh SessionKeepAlive per event (Stop is final).
		ka := pppoe.NewSessionKeepAlive(c.sess, c.lcp, pppoe.KeepAliveConfig{Enabled: true, Interval: time.Millisecond, Timeout: time.Hour, MaxFailures: 1 << 20}, c.lg)
		ka.Start()
		time.Sleep(1500 * time.Microsecond)
		synctest.Wait()
		ka.Stop()
	default:
		p, ok := c.concretise(k, r)
		if !ok {
			rec.NA = true
			return rec
		}
		rec.Pkt = p
		if p[0] == cConfReq {
			reqCtx = c.ctxKey()
		}
		if _, cls := replyClass(k); cls != "" {
			rec.IDClass = cls
			rec.NoReq = !c.mon.hasOur
			rec.Mismatch = c.mon.hasOur && p[1] != c.mon.ourID
			rec.NCAfterReq = c.mon.hasNC && c.mon.ncAfterReq
			rec.ReqID = c.mon.ourID
		}
		if b := peerBase(rec.Inner, p[0]); b != "" {
			rec.PBase, rec.PClass = b, c.mon.classifyID(p[1])
			rec.IDLast = c.mon.hasOrig && p[1] == c.mon.lastOrig
			rec.TermMatch = c.mon.hasTerm && c.mon.termAfterReq && p[1] == c.mon.termID
		}
		c.mon.onDeliver(p[0], p[1], p[4:])
		if race {
			rec.RaceHeld = false
			c.core.hold = func() {
				// inside the automaton's critical section, before the handler proper:
				// stay here until the restart timer's instant has come, so that its
				// callback has fired and queues behind this handler
				rec.RaceHeld = true
				if d := time.Until(due); d > 0 {
					time.Sleep(d)
				}
				for i := 0; i < 300; i++ {
					runtime.Gosched()
				}
			}
		}
		func() {
			defer func() {
				if x := recover(); x != nil {
					rec.Panic = fmt.Sprint(x)
					c.panics++
				}
			}()
			if err := c.m.ReceivePacket(p); err != nil {
				rec.Err = err.Error()
			}
		}()
		c.core.hold = nil
	}
	synctest.Wait()
	rec.Sent = append([]pkt(nil), c.sent[n0:]...)
	for _, p := range rec.Sent {
		c.mon.onSent(p, rec.From)
		if p.ByTimer {
			rec.TimerRan = true
		}
	}
	for _, p := range rec.Pre {
		if p.ByTimer {
			rec.TimerRan = true
		}
	}
	rec.To, rec.rcA, rec.tsA = c.m.St(), c.m.RestartCount(), c.m.TimerSet()
	rec.unmetB, rec.unmetA = !terminal[rec.From] && !rec.tsB, !terminal[rec.To] && !rec.tsA
	rec.Effective = rec.From != rec.To || len(rec.Sent)+len(rec.Pre) > 0 || rec.rcA != rec.rcB || rec.tsA != rec.tsB
	if rec.Pkt != nil && rec.Pkt[0] == cConfReq && rec.Err == "" && rec.Panic == "" {
		c.noteRequest(rec, reqCtx)
	}
	if judge {
		c.judgeEvent(rec)
	}
	return rec
}

func (c *caseCtx) rt() time.Duration { return c.sp.rt }

func (c *caseCtx) viol(component, rule, class, desc string) {
	run.Violation(component, rule, class, desc, map[string]any{"spec": c.sp.name, "trace": c.trace(), "detail": desc})
}

// judgeEvent applies the per-event oracle clauses.
func (c *caseCtx) judgeEvent(rec *evRec) {
	sp := c.sp
	opened := c.m.IsOpened()
	if opened != (rec.To == "Opened") {
		// IsOpened and GetState are two views of one field; a disagreement means the harness cannot read the state
		run.Inconclusive(sp.name, "IsOpened() and GetState() disagree")
	}
	// (a) Opened only on mutual agreement
	if opened {
		run.Count("opened_observations", 1)
		if rec.From != "Opened" {
			run.Count("entered_opened", 1)
		}
		if !c.mon.ok() && (rec.From != "Opened" || rec.okBefore) {
			missing := "neither-request-acked"
			switch {
			case c.mon.weAcked:
				missing = "peer-never-acked-latest-request"
			case c.mon.peerAcked:
				missing = "latest-peer-request-not-acked"
			}
			comp := sp.typ + "." + handlerOf(rec.Inner)
			class := missing + ":" + rec.From + "+" + handlerOf(rec.Inner)
			if rec.IDClass != "" && (rec.Mismatch || rec.NoReq) && rec.From != "Opened" {
				// the event that opened the automaton is a peer reply whose identifier is not the latest Configure-Request's
				class = missing + ":opened-by-reply-with-" + idClassName(rec.IDClass) + ":" + rec.From + "+" + handlerOf(rec.Inner)
			} else if !c.mon.peerAcked && c.mon.hasOur && c.mon.ourByTimer {
				// the unacknowledged request came from the restart-timer callback, which then did not make the
				// automaton wait for its acknowledgement
				comp = sp.typ + ".timeout"
				class = missing + ":latest-request-sent-by-timer-callback:opened-from-" + rec.From + "-in-" + handlerOf(rec.Inner)
			}
			how := ""
			if rec.Pkt != nil && rec.IDClass != "" {
				how = fmt.Sprintf("; the delivered %s carried id=%d (%s)", codeName(rec.Pkt[0]), rec.Pkt[1], idClassName(rec.IDClass))
			}
			if c.accepted != "" {
				how += "; earlier the automaton acted on " + c.accepted
			}
			c.viol(comp, "opened-implies-mutual-ack", class,
				fmt.Sprintf("%s reports Opened after %s although %s (our latest Configure-Request id=%d acked by peer: %v; peer's latest Configure-Request acked by us: %v)%s",
					sp.proto, rec.Kind, missing, c.mon.ourID, c.mon.peerAcked, c.mon.weAcked, how))
		}
	}
	// (b) renegotiation, terminate and lower-layer-down leave Opened
	mustLeave := false
	base, _ := peerKind(rec.Inner)
	switch k := rec.Inner; {
	case k == "Down" || k == "Close" || base == "RTR":
		mustLeave = true
	case base == "RTA" && rec.From == "Opened" && rec.Err == "" && rec.Panic == "":
		// RFC 1661 section 4.1: RTA in Opened = this-layer-down, send Configure-Request, Req-Sent (the peer restarted);
		// the table does not make the event conditional on the Terminate-Ack's identifier
		mustLeave = true
		run.Count("rta_in_opened_judged", 1)
		run.Count("rta_in_opened_judged_"+sp.proto, 1)
		if !rec.IDLast {
			run.Count("rta_in_opened_with_id_other_than_last_sent", 1)
			run.Count("rta_in_opened_with_id_other_than_last_sent_"+sp.proto, 1)
		}
	case rec.From == "Opened" && (strings.HasPrefix(k, "RCR") || k == "RCNcur" || k == "RCJcur" || k == "RCAcur") && rec.Err == "" && rec.Panic == "":
		// renegotiation events: RFC 1661 section 4.1 lists RCR, RCA, RCN and RCJ in Opened as this-layer-down plus a
		// new Configure-Request; RCA/RCN/RCJ are events only when they carry the latest Configure-Request's identifier
		mustLeave = true
	}
	if mustLeave {
		run.Count("leave_opened_judged", 1)
		if rec.From == "Opened" {
			run.Count("leave_opened_judged_from_opened", 1)
		}
		if opened {
			how := ""
			if rec.PBase != "" {
				how = fmt.Sprintf(" (identifier %d: %s)", rec.Pkt[1], pktClassName(rec.PClass))
			}
			// the class names the event without its identifier class: one defect, one triple
			ik := rec.Inner
			if _, pc := peerKind(ik); pc != "" {
				ik = base
			}
			c.viol(sp.typ+"."+handlerOf(rec.Inner), "leaves-opened", "still-opened-after-"+ik+"-in-"+rec.From,
				fmt.Sprintf("%s still reports Opened after %s delivered in %s%s", sp.proto, rec.Inner, rec.From, how))
		}
	}
	// (c) replies
	if rec.Pkt != nil && rec.Err == "" && rec.Panic == "" {
		c.judgeReplies(rec)
	}
	// (d) peer replies whose identifier is not the latest Configure-Request's are silently discarded
	if rec.IDClass != "" && rec.Pkt != nil {
		c.judgeDiscard(rec)
	}
	// (e) identifier classes of the other peer packets; Terminate-Ack against the RFC 1661 table
	if rec.PBase != "" && rec.Pkt != nil {
		c.judgePeerPacket(rec)
	}
	// our own identifier-consuming packets (observation)
	if rec.Pkt == nil || rec.Inner == "UNK" {
		for _, p := range rec.Sent {
			if originated(p.Code) && p.Code != cConfReq {
				run.Count("own_"+codeName(p.Code)+"_after_"+rec.Inner, 1)
				run.Count("own_nonconfigure_packets_in_"+rec.From, 1)
			}
		}
	}
}

func idClassName(cls string) string {
	switch cls {
	case "cur":
		return "id-of-latest-configure-request"
	case "alt":
		return "id-of-latest-configure-request-options-altered"
	case "old":
		return "id-of-older-configure-request"
	case "nc":
		return "id-of-latest-non-configure-packet"
	case "new":
		return "never-used-id"
	case "peer":
		return "id-of-peers-configure-request"
	}
	return cls
}

// judgeDiscard: RFC 1661 section 5.2-5.4: the identifier of a Configure-Ack/-Nak/-Reject must match
// that of the last transmitted Configure-Request, otherwise the packet is silently discarded. Judged
// on what is visible at the boundary (state, packets handed to the send callback by the delivering
// goroutine) plus the restart counter and restart timer accessors. Not judged when the automaton never
// sent a Configure-Request (matching is undefined; RFC 1661 lets Closed/Stopped answer with Terminate-Ack)
// and not for timer-vs-packet schedules (the timer's own action overlaps the event).
func (c *caseCtx) judgeDiscard(rec *evRec) {
	sp := c.sp
	rk := "RC" + rec.Inner[2:3]
	if rec.NoReq {
		run.Count("reply_before_any_configure_request(not judged)", 1)
		return
	}
	if !rec.Mismatch {
		run.Count("matching_reply_delivered", 1)
		run.Count("matching_"+rk+"_in_"+rec.From, 1)
		if rec.Effective {
			run.Count("matching_"+rk+"_acted_on_in_"+rec.From, 1)
		}
		return
	}
	run.Count("mismatched_reply_delivered", 1)
	run.Count("mismatched_"+rk+"_"+rec.IDClass, 1)
	run.Count("mismatched_reply_in_"+rec.From, 1)
	run.Count("mismatched_reply_"+sp.proto, 1)
	if rec.NCAfterReq {
		run.Count("mismatched_reply_while_nonconfigure_packet_sent_after_latest_request", 1)
		if rec.IDClass == "nc" {
			run.Count("mismatched_reply_with_id_of_that_nonconfigure_packet_in_"+rec.From, 1)
		}
	}
	run.Distinct("mismatched_reply_cases", sp.proto+"|"+rec.From+"|"+rec.Inner)
	run.Nontrivial("discard|" + sp.name + "|" + rec.From + "|" + rec.Inner + "|" + fmt.Sprint(rec.NCAfterReq))
	if rec.Inner != rec.Kind {
		run.Count("mismatched_reply_in_timer_race(discard not judged)", 1)
		return
	}
	if rec.Panic != "" {
		return
	}
	var effects []string
	if rec.To != rec.From {
		effects = append(effects, "state-changed:"+rec.From+"->"+rec.To)
	}
	for _, p := range rec.Sent {
		if !p.ByTimer {
			effects = append(effects, "sent-"+codeName(p.Code))
		}
	}
	if rec.rcA != rec.rcB {
		effects = append(effects, "restart-counter-changed")
	}
	if rec.tsA != rec.tsB {
		if rec.tsB {
			effects = append(effects, "restart-timer-stopped")
		} else {
			effects = append(effects, "restart-timer-started")
		}
	}
	run.Count("mismatched_reply_discard_judged", 1)
	if len(effects) == 0 {
		run.Count("mismatched_reply_ignored", 1)
		run.Count("mismatched_reply_ignored_in_"+rec.From, 1)
		return
	}
	c.accepted = fmt.Sprintf("a %s with id=%d (%s; latest Configure-Request id=%d) in %s: %s", codeName(rec.Pkt[0]), rec.Pkt[1], idClassName(rec.IDClass), rec.ReqID, rec.From, strings.Join(effects, ","))
	c.viol(sp.typ+"."+handlerOf(rec.Inner), "non-matching-reply-discarded", idClassName(rec.IDClass)+":"+effects[0]+":in-"+rec.From,
		fmt.Sprintf("%s acted on a %s whose identifier %d is not that of its latest Configure-Request (%d): %s (%s) in %s",
			sp.proto, codeName(rec.Pkt[0]), rec.Pkt[1], rec.ReqID, strings.Join(effects, ", "), idClassName(rec.IDClass), rec.From))
}

// ownVal: the option carries a value the automaton itself used (magic number / interface identifier);
// whether a peer may use it depends on the automaton's current value, so it is kept out of the
// "acknowledged before, so not offending" comparison.
func (c *caseCtx) ownVal(o topt) bool {
	if (c.sp.proto == "LCP" && o.T == 5) || (c.sp.proto == "IPV6CP" && o.T == 1) {
		return c.own[hex.EncodeToString(o.D)]
	}
	return false
}

func repeatsType(os []topt) bool {
	var seen [256]bool
	for _, o := range os {
		if seen[o.T] {
			return true
		}
		seen[o.T] = true
	}
	return false
}

func optKey(ctx string, o topt) string { return ctx + "|" + hex.EncodeToString(o.bytes()) }

func (c *caseCtx) judgeReplies(rec *evRec) {
	sp := c.sp
	code, id, data := rec.Pkt[0], rec.Pkt[1], rec.Pkt[4:]
	comp := sp.typ + ".receiveConfigureRequest"
	ctx := ""
	if sp.proto == "IPCP" {
		ctx = fmt.Sprintf("%v|%v|%v", c.assigned(), c.pool != nil && c.pool.released, c.pool != nil && c.pool.allocs > 0)
	}
	for _, p := range rec.Sent {
		if p.ByTimer || p.Bad {
			continue
		}
		switch {
		case code == cConfReq && (p.Code == cConfAck || p.Code == cConfNak || p.Code == cConfRej):
			run.Count("replies_judged", 1)
			run.Count("reply_"+sp.proto+"_"+codeName(p.Code), 1)
			if p.ID != id {
				c.viol(comp, "reply-echoes-identifier", codeName(p.Code)+"-id-differs", fmt.Sprintf("%s answered Configure-Request id=%d with %s id=%d", sp.proto, id, codeName(p.Code), p.ID))
			}
			reqOpts, _ := parseOpts(data)
			repOpts, okp := parseOpts(p.Data)
			classes := contentClasses(reqOpts, len(data))
			for _, cl := range classes {
				run.Count("rcr_content_"+cl, 1)
				run.Count("rcr_content_"+cl+"_answered_"+codeName(p.Code), 1)
				run.Count("rcr_content_"+cl+"_"+sp.proto, 1)
				run.Distinct("rcr_content_cases", sp.proto+"|"+cl+"|"+rec.From+"|"+codeName(p.Code))
				if cl != "single-option" && cl != "distinct-types" {
					run.Nontrivial("content|" + sp.name + "|" + cl + "|" + rec.From + "|" + codeName(p.Code))
				}
			}
			if len(reqOpts) > 1 && len(reqOpts) <= 8 {
				run.Distinct("rcr_option_type_orders_"+sp.proto, typeOrder(reqOpts))
			}
			if !okp {
				c.viol(comp, "reply-options", codeName(p.Code)+"-malformed-options", fmt.Sprintf("%s sent a %s whose option list does not parse: %x", sp.proto, codeName(p.Code), p.Data))
				continue
			}
			switch p.Code {
			case cConfAck:
				run.Count("acks_compared_with_request", 1)
				// an option this automaton refused when it stood alone (same configuration context, learned from
				// earlier single-option requests under this spec) must not be covered by an acknowledgement
				refusedAlone := false
				for _, o := range reqOpts {
					if c.ownVal(o) {
						continue
					}
					how, bad := sp.offending[optKey(ctx, o)]
					if !bad || sp.acceptable[optKey(ctx, o)] {
						continue
					}
					refusedAlone = true
					run.Count("acks_covering_option_refused_alone", 1)
					shape := "distinct-option-types"
					for _, x := range reqOpts {
						if x.T == o.T && !bytes.Equal(x.D, o.D) {
							shape = "repeated-option-type"
						}
					}
					verb := "naks"
					if how == "ConfRej" {
						verb = "rejects"
					}
					c.viol(comp, "ack-only-acceptable-options", "acks-option-it-"+verb+"-alone:"+shape,
						fmt.Sprintf("%s acknowledged Configure-Request %x containing option %x, which the same automaton answers with %s when the option stands alone in the same configuration", sp.proto, data, o.bytes(), how))
				}
				if len(reqOpts) > 1 {
					run.Count("acks_of_multi_option_requests_checked_against_single_option_answers", 1)
				}
				if !bytes.Equal(p.Data, data) {
					c.viol(comp, "ack-repeats-options", ackDiffClass(reqOpts, repOpts, okp), fmt.Sprintf("%s Configure-Ack data %x differs from the request's %x", sp.proto, p.Data, data))
				} else if !refusedAlone && !repeatsType(reqOpts) {
					// learned as acknowledged: only from lists in which every option type occurs once (in a list
					// that repeats a type one cannot tell from the outside which instance the automaton looked at)
					for _, o := range reqOpts {
						if !c.ownVal(o) {
							sp.acceptable[optKey(ctx, o)] = true
						}
					}
				}
				if sp.proto == "IPCP" {
					for _, o := range repOpts {
						if o.T != 3 {
							continue
						}
						run.Count("ipcp_acked_addresses_judged", 1)
						a := c.assigned()
						if a != nil && len(o.D) == 4 && a.Equal(net.IP(o.D)) {
							run.Count("ipcp_acked_assigned_address", 1)
							continue
						}
						class := "differs-from-assigned"
						why := fmt.Sprintf("the session's assigned address is %v", a)
						if a == nil {
							class = "no-address-assigned:" + sp.ipMode
							why = "no address is assigned to the session (" + sp.ipMode + ")"
							if rec.From == "Initial" || rec.From == "Starting" {
								class += ":lower-layer-down"
								why += " and the lower layer is down (" + rec.From + ")"
							}
							if c.pool != nil && c.pool.released {
								class = "address-released-by-Down"
								why = "the pool allocation was released by Down() and never re-acquired"
								if other := c.pool.inner.Allocate("sess-probe"); other != nil {
									if other.Equal(net.IP(o.D)) {
										why += "; the pool hands the same address to another session"
									}
									c.pool.inner.Release("sess-probe")
								}
							}
						}
						c.viol(sp.typ+".processConfigureOptions", "ipcp-acks-only-assigned-address", class,
							fmt.Sprintf("IPCP acknowledged IP-Address %v although %s", net.IP(o.D), why))
					}
				}
			case cConfNak, cConfRej:
				if len(reqOpts) == 1 && len(repOpts) > 0 && !c.ownVal(reqOpts[0]) {
					// the answer to an option standing alone (learned for the differential clause above)
					if _, had := sp.offending[optKey(ctx, reqOpts[0])]; !had {
						run.Count("options_learned_refused_alone", 1)
					}
					sp.offending[optKey(ctx, reqOpts[0])] = codeName(p.Code)
				}
				if p.Code == cConfRej {
					// unchanged copies: no more copies of an option than the request held
					cnt := map[string]int{}
					for _, q := range reqOpts {
						cnt[string(q.bytes())]++
					}
					extra := false
					for _, o := range repOpts {
						k := string(o.bytes())
						if _, in := cnt[k]; in {
							cnt[k]--
							if cnt[k] < 0 {
								extra = true
							}
						}
					}
					run.Count("rejects_copy_count_judged", 1)
					if extra {
						c.viol(comp, "nak-reject-only-offending", "ConfRej-more-copies-than-request", fmt.Sprintf("%s Configure-Reject %x lists an option more often than the request %x contained it", sp.proto, p.Data, data))
					}
				}
				for _, o := range repOpts {
					var same []topt
					for _, q := range reqOpts {
						if q.T == o.T {
							same = append(same, q)
						}
					}
					if len(same) == 0 {
						c.viol(comp, "nak-reject-only-offending", codeName(p.Code)+"-option-not-in-request", fmt.Sprintf("%s %s lists option type %d which the request did not contain", sp.proto, codeName(p.Code), o.T))
						continue
					}
					if p.Code == cConfRej {
						eq := false
						for _, q := range same {
							if bytes.Equal(q.D, o.D) {
								eq = true
							}
						}
						if !eq {
							c.viol(comp, "nak-reject-only-offending", "ConfRej-option-bytes-differ", fmt.Sprintf("%s Configure-Reject option %x is not byte-identical to the request's", sp.proto, o.bytes()))
							continue
						}
						if sp.acceptable[optKey(ctx, o)] && !c.ownVal(o) {
							c.viol(comp, "nak-reject-only-offending", "ConfRej-lists-option-it-acknowledges", fmt.Sprintf("%s Configure-Reject lists option %x which the same automaton acknowledges in the same configuration", sp.proto, o.bytes()))
						}
					} else {
						all := true
						for _, q := range same {
							if !sp.acceptable[optKey(ctx, q)] || c.ownVal(q) {
								all = false
							}
						}
						if all {
							c.viol(comp, "nak-reject-only-offending", "ConfNak-lists-option-it-acknowledges", fmt.Sprintf("%s Configure-Nak lists option type %d whose requested value %x the same automaton acknowledges in the same configuration", sp.proto, o.T, same[0].bytes()))
						}
					}
				}
			}
		case code == cTermReq && p.Code == cTermAck:
			run.Count("replies_judged", 1)
			run.Count("reply_"+sp.proto+"_TermAck", 1)
			if p.ID != id {
				c.viol(sp.typ+".receiveTerminateRequest", "reply-echoes-identifier", "TermAck-id-differs", fmt.Sprintf("%s answered Terminate-Request id=%d with Terminate-Ack id=%d", sp.proto, id, p.ID))
			}
		case code == cEchoReq && p.Code == cEchoRep:
			run.Count("replies_judged", 1)
			run.Count("reply_"+sp.proto+"_EchoRep", 1)
			if p.ID != id {
				c.viol(sp.typ+".receiveEchoRequest", "reply-echoes-identifier", "EchoRep-id-differs", fmt.Sprintf("%s answered Echo-Request id=%d with Echo-Reply id=%d", sp.proto, id, p.ID))
			}
		}
	}
}

// judgeSilence is the termination clause: from the last delivered event on the peer is
// silent; after (MaxConfigure+MaxTerminate+2) restart periods the automaton must rest in a
// state that needs no timer, nothing may fire afterwards, and it must not have sent more
// Configure-/Terminate-Requests than configured.
func (c *caseCtx) judgeSilence() {
	sp := c.sp
	// packets from the last non-time event on
	last := -1
	for i, r := range c.recs {
		if !r.NA && !isTimeKind(r.Inner) {
			last = i
		}
	}
	from := 0
	if last >= 0 {
		n := 0
		for _, r := range c.recs[:last] {
			n += len(r.Pre) + len(r.Sent)
		}
		n += len(c.recs[last].Pre) // sent while waiting for the race instant, i.e. before the event itself
		from = n
	} else {
		from = len(c.sent)
	}
	steps := sp.maxConf + sp.maxTerm + 2
	lastActivity := -1
	for i := 0; i < steps; i++ {
		n := len(c.sent)
		s := c.m.St()
		c.sleepWait(sp.rt)
		if len(c.sent) != n || c.m.St() != s {
			lastActivity = i
		}
		for _, p := range c.sent[n:] {
			c.mon.onSent(p, s)
		}
		if c.m.IsOpened() && s != "Opened" {
			c.viol(sp.typ+".timeout", "opened-implies-mutual-ack", "opened-during-silence", sp.proto+" entered Opened from "+s+" while the peer was silent")
		}
	}
	end := c.m.St()
	nEnd := len(c.sent)
	c.sleepWait(2 * sp.rt)
	quiet := len(c.sent) == nEnd && c.m.St() == end
	nConf, nTerm := 0, 0
	for _, p := range c.sent[from:] {
		switch p.Code {
		case cConfReq:
			nConf++
		case cTermReq:
			nTerm++
		}
	}
	run.Count("silence_runs", 1)
	run.Count("silence_end_"+end, 1)
	run.Count("silent_configure_requests", nConf)
	run.Count("silent_terminate_requests", nTerm)
	// the event that left the automaton in a timer state without a timer (named with the help of the hook)
	strand, how := "unknown", "unknown"
	for _, r := range c.recs {
		if !r.NA && r.unmetA && !r.unmetB {
			strand, how = handlerOf(r.Inner), r.From+"->"+r.To
		}
	}
	comp := sp.typ + "." + strand
	if !terminal[end] {
		class := "no-timer-since-" + how
		if strand == "unknown" {
			// no delivered event left it without a timer: the timer's own expiry did
			comp, class = sp.typ+".timeout", "no-timer-after-timer-expiry-in-"+end
		}
		what := "no restart timer is running (nothing happened during the last " + fmt.Sprint(steps-1-lastActivity) + " restart periods)"
		if lastActivity >= steps-2 || !quiet {
			class = "still-retransmitting-in-" + end
			what = "it is still retransmitting"
			comp = sp.typ + ".timeout"
		}
		c.viol(comp, "terminates-against-silent-peer", class,
			fmt.Sprintf("%s is still in %s after %d restart periods of silence: %s", sp.proto, end, steps, what))
	} else if !quiet {
		c.viol(comp, "terminates-against-silent-peer", "activity-after-rest-in-"+end,
			fmt.Sprintf("%s rested in %s but a timer fired afterwards", sp.proto, end))
	}
	if nConf > sp.maxConf {
		c.viol(sp.typ+".sendConfigureRequest", "retransmission-bound", "configure-requests:"+rel(nConf, sp.maxConf, "MaxConfigure", sp.maxTerm, "MaxTerminate"),
			fmt.Sprintf("%s sent %d Configure-Requests to a silent peer, configured maximum %d", sp.proto, nConf, sp.maxConf))
	}
	if nTerm > sp.maxTerm {
		c.viol(sp.typ+".sendTerminateRequest", "retransmission-bound", "terminate-requests:"+rel(nTerm, sp.maxTerm, "MaxTerminate", sp.maxConf, "MaxConfigure"),
			fmt.Sprintf("%s sent %d Terminate-Requests to a silent peer, configured maximum %d", sp.proto, nTerm, sp.maxTerm))
	}
}

// rel normalises how far a request count is above its bound: within the other configured
// bound (the automaton counts against the wrong parameter) or above both.
func rel(n, bound int, bn string, other int, on string) string {
	if n <= other {
		return "exceeds-" + bn + "-within-" + on
	}
	return "exceeds-both-bounds"
}

func (c *caseCtx) fingerprint() string {
	rc := c.m.RestartCount()
	if rc < -1 {
		rc = -1
	}
	if rc > c.sp.maxConf+1 {
		rc = c.sp.maxConf + 1
	}
	pend := c.hasReq && c.lastReq.Add(c.sp.rt).After(time.Now())
	ip := ""
	if c.sp.proto == "IPCP" {
		switch {
		case c.assigned() != nil:
			ip = "a:" + c.assigned().String()
		case c.pool != nil && c.pool.released:
			ip = "released"
		default:
			ip = "none"
		}
	}
	m := &c.mon
	// identifier situation: an older Configure-Request id exists; a non-Configure-Request id exists
	// (1 = older than the latest Configure-Request, 2 = sent after it)
	nc := 0
	if m.hasID("nc") {
		nc = 1
		if m.ncAfterReq {
			nc = 2
		}
	}
	return fmt.Sprintf("%s|%v%v%v%v%v|%d|%v%v|%s|%v%d|%v%v", c.m.St(), m.hasOur, m.peerAcked, m.hasPeer, m.weAcked, m.ourByTimer, rc, c.m.TimerSet(), pend, ip, m.hasID("old"), nc, m.contentPending, m.hasID("sup"))
}
