package c11

import (
	"fmt"
	"math/rand/v2"
	"os"
	"strings"
	"sync"
	"sync/atomic"
	"testing"
	"testing/synctest"
	"time"

	"verif/harness/internal/vk"
)

var run *vk.Run

var progress atomic.Int64

func TestMain(m *testing.M) {
	run = vk.Start("C11", "exploration")
	run.Rule("event sequences over {Up,Down,Open,Close,restart-timer expiry, RCR acceptable/nak-able/rejectable/mixed, RCA/RCN/RCJ carrying each of: the identifier of the automaton's latest Configure-Request (cur), of an older Configure-Request (old), of the latest packet it originated that is not a Configure-Request - Code-Reject, Protocol-Reject, Echo-Request, Terminate-Request - (nc), an identifier it never used (new), RCA cur with altered options, RTR, RTA, unimplemented code (LCP answers Code-Reject), peer Code-Reject critical/other, and for LCP: peer Protocol-Reject LCP/other, echo 0/3/4/8 bytes, Discard, SendProtocolReject by the server, SendEchoRequest, one keep-alive ticker tick (SessionKeepAlive in virtual time); and reply/request/terminate packets delivered while the restart timer fires (handler held inside the automaton's lock across the timer instant)} against the real LCP, IPCP and IPv6CP automata in virtual time: breadth-first with fingerprint (state, monitor booleans, restart counter, timer, identifier situation: older-request id exists, non-Configure packet sent before/after the latest request) to a fixed point or the depth bound, option contents seeded-random, plus seeded random walks with partial time advances; every sequence ends with a silent-peer run. All identifiers and option lists used for peer replies are taken from the packets the automaton handed to the send callback. non-trivial = distinct sequence in which the automaton sent a Configure-Request and a delivered packet moved it to another state (the negotiation code was reached), or distinct (automaton, state, reply kind, identifier class) in which a reply with a non-matching identifier reached the identifier check. Request content: besides the acceptable/nak-able/rejectable/mixed lists, peer Configure-Requests with one option alone (RCRone), a repeated option with the same value (RCRdup), a repeated option type with conflicting values (RCRdupx), no options (RCRempty) - these four also in the breadth-first alphabet -, unknown/unsupported/wrong-length options between negotiable ones (RCRunk), all negotiable options in every order (RCRperm), lists filling the 1488 option bytes of a PPPoE-sized packet (RCRmax) and everything mixed (RCRall) in random walks; TestRequestContent puts each automaton into each of the ten RFC 1661 states and delivers a differential sandwich (every distinct option of a composite request alone, the composite request, the same options alone again), also drawn inside random walks. non-trivial for these = distinct (automaton, content class computed from the request bytes, state, answer code) that reached the option processing, or distinct (automaton, state, option) judged by the differential clause")
	run.Rule("identifier classes of the other peer packets (idclass_test.go): Terminate-Ack, Terminate-Request, Code-Reject critical/other, Protocol-Reject LCP/other, Echo-Reply and Discard-Request carrying the identifier of the automaton's latest Configure-Request (cur), of its latest Terminate-Request (term), of the latest other packet it originated (nc: LCP only, the network control protocols originate nothing else), of an older originated packet (old) or one it never used (new) - TestIdentifierClasses delivers each of the 8 x 5 combinations in each of the ten RFC 1661 states of every automaton behind three prefixes (the shortest one; one after an earlier Configure-Request/Terminate-Request/Terminate-Ack/re-Open exchange; that plus a retransmission and, for LCP, a Protocol-Reject/Echo-Request/Code-Reject of its own), thorough tier with random tails; RTA@cur/RTA@term are in the breadth-first alphabet and nine combinations in the random walks; every such packet delivered anywhere (also the plain RTA/RTR/CRJ/PRJ with a random identifier) is classified from the packets the automaton sent. non-trivial = distinct (automaton spec, packet type, identifier class, state) that reached the handler. The differential table compares LCP, IPCP and IPv6CP per (packet type, identifier class, state) on the rows RFC 1661 4.1 shares (RTA, RTR, RXJ-, RXJ+) at the level opened/negotiating/ending")
	run.Assume("a Terminate-Ack counts as the answer to the outstanding Terminate-Request when it carries the identifier of the latest Terminate-Request and that request was sent after the latest Configure-Request; only then is Closing->Closed / Stopping->Stopped demanded, any other Terminate-Ack there may end the termination or be ignored (RFC 1661 5.5 'the Identifier MUST match' read either way)")
	run.Assume("the restart timer is armed when a Configure-/Terminate-Request is handed to the send callback (used only to aim the timer-vs-packet schedules, not by any oracle clause)")
	run.Assume("a Configure-Ack whose identifier matches the latest request counts as the peer's acknowledgement whatever its option bytes (the anchor's mechanism: identifier match; RFC 1661 5.2 would also let the automaton discard an Ack whose options differ, so both behaviours are accepted and the altered-options Ack is only counted)")
	run.Assume("packets the automaton's parser refuses with an error are not events of the property's alphabet and are not generated")
	run.Assume("VerifC11RestartCount/VerifC11TimerSet return the automaton's restart counter and whether its restart timer field is set; the non-matching-reply clause uses them to see that a discarded reply neither reset the counter nor touched the timer")
	run.Assume("a Configure-Ack/-Nak/-Reject delivered before the automaton ever sent a Configure-Request has no identifier to match; what the automaton does with it is not judged by the discard clause (Opened is still judged)")
	run.Assume("whether an option is acceptable may depend, besides the option itself, only on the automaton's configuration and - for IPCP - on the address currently assigned to the session; options carrying a value the automaton itself used (magic number, interface identifier) are excluded from the differential clause because their answer depends on the automaton's current value")
	run.Assume("the differential clause (an acknowledged request must not contain an option the automaton refuses when it stands alone) is judged only from the automaton's own answers: in a sandwich the single-option answer must be the same before and after the composite request; across cases a (context, option) pair that was ever acknowledged alone is not judged")
	run.Assume("RFC 1661 5.3 lets a Configure-Nak carry several instances / other values of an option type of the request, so only the option types of a Nak are compared with the request; the order of options inside a Configure-Reject is not judged (the statement does not fix it)")
	run.Floor("rcr_content_repeated-type-same-value_answered_ConfAck", 1000)
	run.Floor("rcr_content_repeated-type-same-value_LCP", 500)
	run.Floor("rcr_content_repeated-type-same-value_IPCP", 500)
	run.Floor("rcr_content_repeated-type-same-value_IPV6CP", 300)
	run.Floor("rcr_content_repeated-type-conflicting-values", 1500)
	run.Floor("rcr_content_empty", 1000)
	run.Floor("rcr_content_maximal", 200)
	run.Floor("acks_of_multi_option_requests_checked_against_single_option_answers", 2000)
	run.Floor("rejects_copy_count_judged", 5000)
	run.Floor("differential_acked_option_judged", 800)
	run.Floor("differential_acked_option_judged_of_repeated_type", 150)
	run.Floor("differential_acked_option_judged_LCP", 300)
	run.Floor("differential_acked_option_judged_IPCP", 300)
	run.Floor("differential_acked_option_judged_IPV6CP", 50)
	run.Floor("silence_runs", 2000)
	run.Floor("opened_observations", 100)
	run.Floor("replies_judged", 1000)
	run.Floor("race_timer_ran_after_handler", 10)
	run.Floor("mismatched_reply_discard_judged", 2000)
	run.Floor("mismatched_reply_while_nonconfigure_packet_sent_after_latest_request", 200)
	run.Floor("mismatched_reply_with_id_of_that_nonconfigure_packet_in_Ack-Sent", 20)
	run.Floor("mismatched_reply_with_id_of_that_nonconfigure_packet_in_Req-Sent", 20)
	run.Floor("mismatched_reply_with_id_of_that_nonconfigure_packet_in_Opened", 5)
	run.Floor("mismatched_reply_in_Ack-Sent", 50)
	run.Floor("mismatched_reply_in_Ack-Rcvd", 50)
	run.Floor("matching_reply_delivered", 1000)
	run.Floor("idclass_packets_delivered", 8000)
	run.Floor("rta_in_opened_judged", 100)
	run.Floor("rta_in_opened_with_id_other_than_last_sent", 60)
	run.Floor("rta_in_opened_with_id_other_than_last_sent_LCP", 15)
	run.Floor("rta_in_opened_with_id_other_than_last_sent_IPCP", 15)
	run.Floor("rta_in_opened_with_id_other_than_last_sent_IPV6CP", 10)
	run.Floor("rta_in_ackrcvd_judged", 50)
	run.Floor("rta_in_ackrcvd_with_id_other_than_last_sent", 30)
	run.Floor("rta_matching_outstanding_terminate_request_judged_in_Closing", 20)
	run.Floor("rta_not_matching_an_outstanding_terminate_request_in_closing_or_stopping", 20)
	run.Floor("idclass_RTA_term", 50)
	run.Floor("idclass_RTA_old", 50)
	run.Floor("idclass_RTA_new", 50)
	run.Floor("idclass_RTA_cur", 50)
	run.Floor("idclass_RTA_nc", 10)
	run.Floor("idclass_RTR_term", 50)
	run.Floor("idclass_CRJcrit_old", 50)
	run.Floor("idclass_EREP_nc", 10)
	run.Floor("differential_table_cells_compared", 100)
	stop := make(chan struct{})
	go watchdog(stop)
	code := m.Run()
	close(stop)
	ec := run.Finish()
	if code != 0 && ec == 0 {
		ec = 2
	}
	os.Exit(ec)
}

// watchdog: a wall-clock guard whose firing is inconclusive, never a verdict.
func watchdog(stop chan struct{}) {
	last, lastT := progress.Load(), time.Now()
	for {
		select {
		case <-stop:
			return
		case <-time.After(2 * time.Second):
		}
		if p := progress.Load(); p != last {
			last, lastT = p, time.Now()
			continue
		}
		if time.Since(lastT) > 120*time.Second {
			run.Inconclusive("watchdog", fmt.Sprintf("no case completed for 120 s after %d cases (a virtual-time bubble cannot advance)", last))
			run.Finish()
			os.Exit(2)
		}
	}
}

type result struct {
	fp       string
	app      map[string]bool // which events of the spec's alphabet are applicable after the sequence
	nontriv  bool
	trace    []string
	lastRec  *evRec
	allNA    bool
	panicked int
	recs     []*evRec
}

// execSeq runs one event sequence against a fresh automaton inside a virtual-time bubble.
// Events with index >= judgeFrom are judged and counted (the prefix was judged when the parent ran).
func execSeq(t *testing.T, sp *spec, seq []ev, judgeFrom int) (res result) {
	synctest.Test(t, func(t *testing.T) {
		c, err := newCase(sp)
		if err != nil {
			t.Errorf("%s: %v", sp.name, err)
			return
		}
		sentReq, moved := false, false
		for i, e := range seq {
			rec := c.step(e, i >= judgeFrom)
			res.lastRec = rec
			for _, p := range append(append([]pkt(nil), rec.Pre...), rec.Sent...) {
				if p.Code == cConfReq {
					sentReq = true
				}
			}
			if rec.Pkt != nil && rec.From != rec.To {
				moved = true
			}
			if i >= judgeFrom {
				observe(c, rec)
			}
		}
		res.fp = c.fingerprint()
		res.app = map[string]bool{}
		for _, k := range sp.alpha {
			res.app[k] = c.applicable(k)
		}
		res.nontriv = sentReq && moved
		if judgeFrom == 0 {
			c.judgeDifferential()
		}
		c.judgeSilence()
		res.trace = c.trace()
		res.recs = c.recs
		res.panicked = c.panics
		c.m.Down()
		synctest.Wait()
	})
	progress.Add(1)
	return res
}

func observe(c *caseCtx, rec *evRec) {
	sp := c.sp
	if rec.NA {
		run.Count("events_not_applicable", 1)
		return
	}
	run.Count("events_delivered", 1)
	run.Count("ev_"+sp.proto+"_"+kindClass(rec.Kind), 1)
	run.Distinct("states_"+sp.proto, rec.To)
	run.Distinct("state_event_pairs", sp.proto+"|"+rec.From+"|"+kindClass(rec.Kind))
	run.Distinct("transitions", sp.proto+"|"+rec.From+"|"+kindClass(rec.Kind)+"|"+rec.To)
	for _, p := range append(append([]pkt(nil), rec.Pre...), rec.Sent...) {
		run.Count("sent_"+codeName(p.Code), 1)
		if p.ByTimer {
			run.Count("sent_by_timer_callback", 1)
		}
	}
	if rec.Inner != rec.Kind {
		run.Count("race_events", 1)
		if rec.RaceHeld {
			run.Count("race_handler_held_across_timer_instant", 1)
		}
		if rec.TimerRan {
			run.Count("race_timer_ran_after_handler", 1)
			run.Distinct("race_interleavings", sp.proto+"|"+rec.From+"|"+rec.Inner+"|"+rec.To)
		}
	}
	if rec.Panic != "" {
		run.Count("panics_recovered_not_judged_here(C09)", 1)
		run.Distinct("panic_sites", sp.proto+"|"+rec.Inner+"|"+rec.From)
	}
	if rec.Err != "" {
		run.Count("packets_refused_by_parser", 1)
	}
	if rec.Inner == "RCAalt" && rec.From != rec.To {
		run.Count("ack_with_altered_options_accepted(observation)", 1)
	}
}

func record(sp *spec, seq []ev, res result) {
	run.Eval()
	if res.nontriv {
		var b strings.Builder
		b.WriteString(sp.name)
		for _, e := range seq {
			fmt.Fprintf(&b, " %s/%d", e.Kind, e.Seed)
		}
		run.Nontrivial(b.String())
	}
}

func TestBFS(t *testing.T) {
	depth := run.Pick(7, 16)
	run.Extra("bfs_depth_bound", depth)
	var mu sync.Mutex
	fixed := map[string]any{}
	for si, sp := range allSpecs() {
		sp, si := sp, si
		t.Run(sp.name, func(t *testing.T) {
			t.Parallel()
			rng := run.SubRand("bfs-"+sp.name, si)
			type node struct {
				seq []ev
				app map[string]bool
			}
			seen := map[string]bool{}
			root := execSeq(t, sp, nil, 0)
			frontier := []node{{nil, root.app}}
			d := depth
			if sp.defaults && !run.Thorough() {
				d = depth - 1 // default-parameter automata (10 retransmissions) one level shallower in the quick tier
			}
			reached := false
			sampled := 0
			execs := 0
			lv := 0
			for lv = 1; lv <= d && len(frontier) > 0; lv++ {
				var next []node
				for _, n := range frontier {
					for _, k := range sp.alpha {
						seed := rng.Uint64()
						if !n.app[k] {
							// cannot be built in this situation (no such identifier / no pending timer): nothing to execute
							run.Count("bfs_children_not_applicable", 1)
							continue
						}
						seq := append(append([]ev(nil), n.seq...), ev{Kind: k, Seed: seed})
						res := execSeq(t, sp, seq, len(seq)-1)
						execs++
						if res.lastRec == nil || res.lastRec.NA {
							continue
						}
						record(sp, seq, res)
						run.Count("bfs_sequences", 1)
						if !seen[res.fp] {
							seen[res.fp] = true
							run.Distinct("fingerprints", sp.name+"|"+res.fp)
							next = append(next, node{seq, res.app})
							if sampled < 1 && lv >= 4 && res.lastRec.To == "Opened" {
								sampled++
								run.Sample(map[string]any{"kind": "bfs", "trace": res.trace})
							}
						}
					}
				}
				frontier = next
			}
			if len(frontier) == 0 {
				reached = true
			}
			mu.Lock()
			fixed[sp.name] = map[string]any{"fixed_point": reached, "levels": lv - 1, "fingerprints": len(seen), "executions": execs}
			mu.Unlock()
		})
	}
	t.Cleanup(func() { run.Extra("bfs", fixed) })
}

func TestRandomWalks(t *testing.T) {
	walks := run.Pick(400, 6000)
	for si, sp := range allSpecs() {
		sp, si := sp, si
		t.Run(sp.name, func(t *testing.T) {
			t.Parallel()
			kinds := append(append([]string(nil), sp.alpha...), walkOnly...)
			for w := 0; w < walks; w++ {
				rng := run.SubRand("walk-"+sp.name, si*1000003+w)
				seq := randomSeq(rng, kinds, 6+rng.IntN(30))
				res := execSeq(t, sp, seq, 0)
				record(sp, seq, res)
				run.Count("random_walks", 1)
				if w == 0 && si%3 == 0 {
					run.Sample(map[string]any{"kind": "random-walk", "trace": res.trace})
				}
			}
		})
	}
}

// randomSeq: start with a plausible opening most of the time, then draw events with a bias
// towards negotiation packets and timer-vs-packet schedules.
func randomSeq(r *rand.Rand, kinds []string, n int) []ev {
	var seq []ev
	add := func(k string) { seq = append(seq, ev{Kind: k, Seed: r.Uint64()}) }
	if r.IntN(10) < 8 {
		if r.IntN(2) == 0 {
			add("Open")
			add("Up")
		} else {
			add("Up")
			add("Open")
		}
	}
	hot := []string{"RCR+", "RCAcur", "RCR+", "RCAcur", "RCR-", "RCNcur", "RCJcur", "TO", "RACE:RCAcur", "RACE:RCR+", "RTR", "RTA", "RCRmix", "RCRrej",
		"RCAold", "RCAnc", "RCAnc", "RCAnew", "RCNnc", "RCJnc", "UNK", "UNK", "SPR", "SER", "KA",
		"RCRone", "RCRdup", "RCRdupx", "RCRempty", "RCRunk", "RCRperm", "RCRmax", "RCRall", "RCRloop", "RCRloop", "RCAsup", "RCAsup"}
	in := map[string]bool{}
	for _, k := range kinds {
		in[k] = true
	}
	var h []string
	for _, k := range hot {
		if in[k] {
			h = append(h, k)
		}
	}
	hot = h
	for len(seq) < n {
		if r.IntN(16) == 0 {
			// differential sandwich: every distinct option of a composite request alone, the request, the options alone again
			seq = append(seq, sandwich(r, compositeShapes[r.IntN(len(compositeShapes))])...)
			continue
		}
		if r.IntN(10) < 6 {
			add(hot[r.IntN(len(hot))])
		} else {
			add(kinds[r.IntN(len(kinds))])
		}
	}
	return seq
}
