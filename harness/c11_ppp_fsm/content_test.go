package c11

// Configure-Request *content*: option lists with repeated option types (same value /
// conflicting values), unknown or unsupported options mixed with negotiable ones, every
// order, empty and maximal lists - for LCP, IPCP and IPv6CP.
//
// The generator below only proposes lists; its notion of "believed acceptable" is a hint
// that decides which shapes are drawn, never a verdict. Every clause is judged from what
// the automaton itself handed to the send callback:
//   - a Configure-Ack carries the request's identifier and option bytes unchanged
//     (judgeReplies, monitor_test.go),
//   - a Configure-Reject carries unchanged copies of request options, no more copies of an
//     option than the request held; a Configure-Nak names only option types of the request,
//   - differential: an option (type+value) that the automaton refuses (Nak/Reject) when it
//     stands alone in a Configure-Request - observed both before and after, in the same
//     configuration context - must not be acknowledged as part of a longer list.

import (
	"bytes"
	"encoding/hex"
	"fmt"
	"math/rand/v2"
	"strconv"
	"strings"
	"testing"
)

// ---------------------------------------------------------------- candidate options (generator hints)

type cands struct {
	types []byte          // option types the generator believes negotiable, in a fixed order
	acc   map[byte][]topt // values believed acceptable
	nak   map[byte][]topt // values believed to be answered with a Configure-Nak
	rej   []topt          // unknown types, unsupported options, negotiable types with a wrong length
}

func (c *caseCtx) cands(r *rand.Rand) cands {
	cd := cands{acc: map[byte][]topt{}, nak: map[byte][]topt{}}
	k := uint32(r.IntN(4))
	switch c.sp.proto {
	case "LCP":
		cd.types = []byte{1, 5, 7, 8}
		mine := c.ourOpt(5)
		m1, m2 := uint32(0x1BADCAFE)+k, uint32(0x2BADCAFE)+k
		for c.own[hex.EncodeToString(u32(m1))] {
			m1 += 0x10
		}
		for c.own[hex.EncodeToString(u32(m2))] {
			m2 += 0x10
		}
		for _, v := range []uint16{1492, 1400, 576, 64, 65, 1491} {
			cd.acc[1] = append(cd.acc[1], topt{1, u16(v)})
		}
		cd.acc[5] = []topt{{5, u32(m1)}, {5, u32(m2)}}
		cd.acc[7] = []topt{{7, nil}}
		cd.acc[8] = []topt{{8, nil}}
		for _, v := range []uint16{10, 63, 0, 1493, 1500, 9000, 65535} {
			cd.nak[1] = append(cd.nak[1], topt{1, u16(v)})
		}
		cd.nak[5] = []topt{{5, u32(0)}}
		if mine != nil {
			cd.nak[5] = append(cd.nak[5], topt{5, append([]byte(nil), mine...)}) // collision with the automaton's own magic number
		}
		cd.rej = []topt{
			{0x63, []byte{1, 2}}, {3, u16(0xC023)}, {3, []byte{0xc2, 0x23, 5}}, {4, []byte{0xc0, 0x25, 0, 0, 0, 10}}, {13, []byte{9}},
			{0, nil}, {0xff, []byte{0xff}}, {2, u32(0)},
			{1, nil}, {1, []byte{5, 0x78, 0}}, {1, []byte{5}}, {5, []byte{1, 2, 3}}, {5, []byte{1, 2, 3, 4, 5}}, {7, []byte{1}}, {8, []byte{0, 0}},
			{0x42, bytes.Repeat([]byte{0xA5}, 253)},
		}
	case "IPCP":
		cd.types = []byte{3, 129, 131}
		a := c.assigned()
		if a != nil {
			cd.acc[3] = []topt{{3, append([]byte(nil), a.To4()...)}}
			o := append([]byte(nil), a.To4()...)
			o[3] ^= 0x1f
			cd.nak[3] = []topt{{3, []byte{0, 0, 0, 0}}, {3, o}, {3, append([]byte(nil), foreignIP...)}}
		} else {
			// nothing is assigned to the session: every address is the peer's own choice
			cd.nak[3] = []topt{{3, []byte{0, 0, 0, 0}}, {3, append([]byte(nil), foreignIP...)}, {3, []byte{10, 9, 0, 2}}}
			if c.nakAddr != nil {
				cd.nak[3] = append(cd.nak[3], topt{3, append([]byte(nil), c.nakAddr.To4()...)})
			}
		}
		cd.acc[129] = []topt{{129, []byte{1, 1, 1, byte(1 + k)}}, {129, []byte{8, 8, 4, 4}}}
		cd.acc[131] = []topt{{131, []byte{9, 9, 9, byte(9 + k)}}, {131, []byte{4, 4, 4, 4}}}
		cd.nak[129] = []topt{{129, []byte{0, 0, 0, 0}}}
		cd.nak[131] = []topt{{131, []byte{0, 0, 0, 0}}}
		cd.rej = []topt{
			{2, []byte{0x00, 0x2d, 0x0f, 0x01}}, {1, []byte{10, 0, 0, 1, 10, 0, 0, 2}}, {0x63, []byte{7}}, {130, []byte{1, 1, 1, 1}}, {132, []byte{2, 2, 2, 2}}, {4, []byte{10, 0, 0, 9}},
			{0, nil}, {0xff, nil},
			{3, []byte{10, 0, 0}}, {3, nil}, {3, []byte{10, 0, 0, 50, 0}}, {129, []byte{1, 1, 1, 1, 1}}, {131, []byte{9}},
			{0x42, bytes.Repeat([]byte{0x5A}, 253)},
		}
	case "IPV6CP":
		cd.types = []byte{1}
		mine := c.ourOpt(1)
		i1, i2 := uint64(0x0200112233445500)+uint64(k), uint64(0x0200998877665500)+uint64(k)
		for c.own[hex.EncodeToString(u64(i1))] {
			i1 += 0x100
		}
		for c.own[hex.EncodeToString(u64(i2))] {
			i2 += 0x100
		}
		cd.acc[1] = []topt{{1, u64(i1)}, {1, u64(i2)}}
		cd.nak[1] = []topt{{1, u64(0)}}
		if mine != nil {
			cd.nak[1] = append(cd.nak[1], topt{1, append([]byte(nil), mine...)})
		}
		cd.rej = []topt{
			{0x63, []byte{1, 2, 3}}, {2, []byte{0, 1}}, {3, []byte{10, 0, 0, 1}}, {0, nil}, {0xff, []byte{1}},
			{1, nil}, {1, []byte{1, 2, 3, 4, 5, 6, 7}}, {1, []byte{1, 2, 3, 4, 5, 6, 7, 8, 9}},
			{0x42, bytes.Repeat([]byte{0x3C}, 253)},
		}
	}
	return cd
}

func insertAt(r *rand.Rand, os []topt, o topt) []topt {
	i := r.IntN(len(os) + 1)
	out := make([]topt, 0, len(os)+1)
	out = append(out, os[:i]...)
	out = append(out, o)
	return append(out, os[i:]...)
}

func encLen(os []topt) int {
	n := 0
	for _, o := range os {
		n += 2 + len(o.D)
	}
	return n
}

// maxOptBytes: option bytes that fit a Configure packet within the PPPoE MRU (1492 - 4 header bytes).
const maxOptBytes = 1488

// contentShapes: every request-content shape the generator knows. bfsShapes are cheap enough for the
// breadth-first alphabet, the others are drawn in random walks and in TestRequestContent.
var bfsShapes = []string{"one", "dup", "dupx", "empty"}
var walkShapes = []string{"unk", "perm", "max", "all"}
var compositeShapes = []string{"dup", "dupx", "dupx", "unk", "perm", "max", "all"}

func shapeKind(shape string) string { return "RCR" + shape }

// shapeOpts builds the option list of a peer Configure-Request of the given shape.
func (c *caseCtx) shapeOpts(r *rand.Rand, shape string) []topt {
	cd := c.cands(r)
	pick := func(v []topt) topt { return v[r.IntN(len(v))] }
	// base: a subset (at least min) of the negotiable types, one believed-acceptable value each, in random order
	base := func(min int) []topt {
		var ts []byte
		for _, t := range cd.types {
			if len(cd.acc[t]) > 0 {
				ts = append(ts, t)
			}
		}
		r.Shuffle(len(ts), func(i, j int) { ts[i], ts[j] = ts[j], ts[i] })
		n := len(ts)
		if min < n {
			n = min + r.IntN(len(ts)-min+1)
		}
		var out []topt
		for _, t := range ts[:n] {
			out = append(out, pick(cd.acc[t]))
		}
		return out
	}
	switch shape {
	case "empty":
		return nil
	case "one":
		var all []topt
		for _, t := range cd.types {
			all = append(all, cd.acc[t]...)
			all = append(all, cd.nak[t]...)
		}
		all = append(all, cd.rej...)
		return []topt{pick(all)}
	case "perm":
		var os []topt
		for _, t := range cd.types {
			if len(cd.acc[t]) > 0 {
				os = append(os, pick(cd.acc[t]))
			}
		}
		return shuffle(r, os)
	case "dup":
		// a repeated option, every instance carrying the same value
		b := base(1)
		if len(b) == 0 {
			b = []topt{pick(cd.rej)} // nothing negotiable in this situation: repeat an unknown option
		}
		o := b[r.IntN(len(b))]
		for n := 1 + r.IntN(2); n > 0; n-- {
			b = insertAt(r, b, o)
		}
		return b
	case "dupx":
		// a repeated option type whose instances carry different values
		var ts []byte
		for _, t := range cd.types {
			if len(cd.acc[t])+len(cd.nak[t]) > 1 {
				ts = append(ts, t)
			}
		}
		t := ts[r.IntN(len(ts))]
		b := dropType(base(0), t)
		var first, other topt
		pool := append(append([]topt(nil), cd.acc[t]...), cd.nak[t]...)
		if len(cd.acc[t]) > 0 {
			first = pick(cd.acc[t])
		} else {
			first = pick(pool)
		}
		for tries := 0; ; tries++ {
			other = pick(pool)
			if len(cd.nak[t]) > 0 && r.IntN(3) > 0 {
				other = pick(cd.nak[t])
			}
			if !bytes.Equal(other.D, first.D) || tries > 20 {
				break
			}
		}
		b = insertAt(r, b, first)
		b = insertAt(r, b, other)
		if r.IntN(4) == 0 {
			b = insertAt(r, b, pick(pool))
		}
		return b
	case "unk":
		// unknown / unsupported / wrong-length options in between negotiable ones
		b := base(0)
		n := 1 + r.IntN(3)
		var last topt
		for i := 0; i < n; i++ {
			last = pick(cd.rej)
			if len(last.D) > 100 && r.IntN(2) == 0 {
				last = pick(cd.rej)
			}
			b = insertAt(r, b, last)
		}
		if r.IntN(4) == 0 {
			b = insertAt(r, b, last) // the same unknown option twice
		}
		return b
	case "all":
		b := base(0)
		for n := 1 + r.IntN(2); n > 0; n-- {
			t := cd.types[r.IntN(len(cd.types))]
			if len(cd.nak[t]) > 0 {
				b = insertAt(r, b, pick(cd.nak[t]))
			}
		}
		for n := r.IntN(3); n > 0; n-- {
			b = insertAt(r, b, pick(cd.rej))
		}
		if len(b) > 0 && r.IntN(2) == 0 {
			b = insertAt(r, b, b[r.IntN(len(b))])
		}
		return b
	case "max":
		// as many options as fit the packet (sometimes a shorter budget): believed-acceptable options repeated,
		// the same plus maximal-length unknown options, or a long run of different unknown types
		budget := maxOptBytes
		if r.IntN(4) == 0 {
			budget = 200 + r.IntN(maxOptBytes-200)
		}
		var cyc []topt
		switch r.IntN(3) {
		case 0:
			cyc = base(1)
		case 1:
			cyc = append(base(1), topt{0x42, bytes.Repeat([]byte{byte(r.IntN(256))}, 253)})
			if r.IntN(2) == 0 {
				cyc = append(cyc, topt{0x43, bytes.Repeat([]byte{7}, 253)})
			}
			cyc = shuffle(r, cyc)
		default:
			for i := 0; i < 48; i++ {
				cyc = append(cyc, topt{byte(0x20 + i), bytes.Repeat([]byte{byte(i)}, r.IntN(40))})
			}
		}
		if len(cyc) == 0 {
			cyc = []topt{pick(cd.rej)}
		}
		var out []topt
		n := 0
		for i := 0; ; i++ {
			o := cyc[i%len(cyc)]
			if n+2+len(o.D) > budget {
				break
			}
			out = append(out, o)
			n += 2 + len(o.D)
		}
		// fill the remaining bytes exactly with one unknown option when possible
		if rest := budget - n; rest >= 2 && rest <= 255 && r.IntN(2) == 0 {
			out = append(out, topt{0x44, bytes.Repeat([]byte{1}, rest-2)})
		}
		return out
	}
	return nil
}

func distinctOpts(os []topt) []topt {
	seen := map[string]bool{}
	var out []topt
	for _, o := range os {
		k := string(o.bytes())
		if !seen[k] {
			seen[k] = true
			out = append(out, o)
		}
	}
	return out
}

// maxProbes: single-option probe requests per side of a differential sandwich.
const maxProbes = 8

// concretiseContent turns an RCR<shape> / RCRprobe:<shape>:<i> event into a Configure-Request.
// A probe shares its seed with the composite request it belongs to: it regenerates the same list
// (when the situation is the same) and asks for its i-th distinct option alone.
func (c *caseCtx) concretiseContent(kind string, r *rand.Rand) ([]byte, bool) {
	if rest, ok := strings.CutPrefix(kind, "RCRprobe:"); ok {
		j := strings.LastIndexByte(rest, ':')
		if j < 0 {
			return nil, false
		}
		i, err := strconv.Atoi(rest[j+1:])
		if err != nil {
			return nil, false
		}
		id := byte(r.IntN(256))
		d := distinctOpts(c.shapeOpts(r, rest[:j]))
		if i >= len(d) {
			return nil, false
		}
		return mkPkt(cConfReq, id+1+byte(i), encOpts(d[i:i+1])), true
	}
	shape := strings.TrimPrefix(kind, "RCR")
	for _, s := range append(append([]string(nil), bfsShapes...), walkShapes...) {
		if s == shape {
			id := byte(r.IntN(256))
			return mkPkt(cConfReq, id, encOpts(c.shapeOpts(r, shape))), true
		}
	}
	return nil, false
}

// sandwich: single-option probes for every distinct option of a composite request, the composite
// request, and the same probes again.
func sandwich(r *rand.Rand, shape string) []ev {
	s := r.Uint64()
	var seq []ev
	for i := 0; i < maxProbes; i++ {
		seq = append(seq, ev{Kind: fmt.Sprintf("RCRprobe:%s:%d", shape, i), Seed: s})
	}
	seq = append(seq, ev{Kind: shapeKind(shape), Seed: s})
	for i := 0; i < maxProbes; i++ {
		seq = append(seq, ev{Kind: fmt.Sprintf("RCRprobe:%s:%d", shape, i), Seed: s})
	}
	return seq
}

// kindClass folds the per-index probe kinds into one name for counters.
func kindClass(k string) string {
	if i := strings.Index(k, "RCRprobe:"); i >= 0 {
		return k[:i] + "RCRprobe"
	}
	return k
}

// ---------------------------------------------------------------- what was observed for each delivered Configure-Request

type reqObs struct {
	idx    int    // index into c.recs
	ctx    string // configuration context just before delivery (IPCP: assigned address / pool situation)
	from   string
	data   []byte
	opts   []topt
	parsed bool
	reply  byte // code of the Configure-Ack/-Nak/-Reject the delivering goroutine handed to the send callback (0 = none)
	rep    []byte
}

// ctxKey: what, besides the option itself, the answer to an option may legitimately depend on.
func (c *caseCtx) ctxKey() string {
	if c.sp.proto == "IPCP" {
		return fmt.Sprintf("%v|%v|%v", c.assigned(), c.pool != nil && c.pool.released, c.pool != nil && c.pool.allocs > 0)
	}
	return ""
}

func (c *caseCtx) noteRequest(rec *evRec, ctx string) {
	q := &reqObs{idx: len(c.recs) - 1, ctx: ctx, from: rec.From, data: rec.Pkt[4:]}
	q.opts, q.parsed = parseOpts(q.data)
	for _, p := range rec.Sent {
		if p.ByTimer || p.Bad {
			continue
		}
		if p.Code == cConfAck || p.Code == cConfNak || p.Code == cConfRej {
			q.reply, q.rep = p.Code, p.Data
			break
		}
	}
	c.reqLog = append(c.reqLog, q)
}

// contentClasses names what a request's option list looks like, from its bytes alone.
func contentClasses(os []topt, n int) []string {
	var out []string
	if len(os) == 0 {
		return []string{"empty"}
	}
	if len(os) == 1 {
		out = append(out, "single-option")
	}
	byType := map[byte][]topt{}
	for _, o := range os {
		byType[o.T] = append(byType[o.T], o)
	}
	same, conflict := false, false
	for _, v := range byType {
		for i := 1; i < len(v); i++ {
			if bytes.Equal(v[i].D, v[0].D) {
				same = true
			} else {
				conflict = true
			}
		}
	}
	if same {
		out = append(out, "repeated-type-same-value")
	}
	if conflict {
		out = append(out, "repeated-type-conflicting-values")
	}
	if len(os) > 1 && !same && !conflict {
		out = append(out, "distinct-types")
	}
	if n >= 1000 || len(os) >= 64 {
		out = append(out, "maximal")
	}
	return out
}

func typeOrder(os []topt) string {
	var b strings.Builder
	for i, o := range os {
		if i >= 12 {
			b.WriteString(",...")
			break
		}
		if i > 0 {
			b.WriteByte(',')
		}
		b.WriteString(strconv.Itoa(int(o.T)))
	}
	return b.String()
}

// ackDiffClass normalises how a Configure-Ack's option list differs from the request's.
func ackDiffClass(req, ack []topt, ackParsed bool) string {
	if !ackParsed {
		return "ack-data-differs"
	}
	if len(ack) < len(req) {
		// is the Ack the request with options left out?
		j := 0
		var omitted []int
		for i, o := range req {
			if j < len(ack) && ack[j].T == o.T && bytes.Equal(ack[j].D, o.D) {
				j++
			} else {
				omitted = append(omitted, i)
			}
		}
		if j == len(ack) {
			allRepeats := true
			for _, i := range omitted {
				earlier := false
				for _, o := range req[:i] {
					if o.T == req[i].T {
						earlier = true
					}
				}
				if !earlier {
					allRepeats = false
				}
			}
			if allRepeats {
				return "ack-omits-repeated-option-type"
			}
			return "ack-omits-options"
		}
	}
	if len(ack) == len(req) {
		cnt := map[string]int{}
		for _, o := range req {
			cnt[string(o.bytes())]++
		}
		for _, o := range ack {
			cnt[string(o.bytes())]--
		}
		perm := true
		for _, v := range cnt {
			if v != 0 {
				perm = false
			}
		}
		if perm {
			return "ack-reorders-options"
		}
	}
	return "ack-data-differs"
}

// judgeDifferential: for every acknowledged request with two or more options, every distinct option of it
// that the same automaton, in the same configuration context, answered when it stood alone both before and
// after - if both of those answers refuse it (Nak / Reject), the acknowledgement covered an option the
// automaton does not accept. Options carrying a value the automaton itself used (magic number, interface
// identifier) are left out: their answer depends on the automaton's current value.
func (c *caseCtx) judgeDifferential() {
	sp := c.sp
	for i, q := range c.reqLog {
		if !q.parsed || len(q.opts) < 2 || q.reply == 0 {
			continue
		}
		run.Count("differential_composite_requests", 1)
		run.Count("differential_composite_answered_"+codeName(q.reply), 1)
		if q.reply != cConfAck {
			continue
		}
		seen := map[string]bool{}
		for _, o := range q.opts {
			k := string(o.bytes())
			if seen[k] {
				continue
			}
			seen[k] = true
			if c.ownVal(o) {
				run.Count("differential_option_with_automatons_own_value(not judged)", 1)
				continue
			}
			alone := func(p *reqObs) bool {
				return p.parsed && len(p.opts) == 1 && p.reply != 0 && p.ctx == q.ctx && p.opts[0].T == o.T && bytes.Equal(p.opts[0].D, o.D)
			}
			var before, after *reqObs
			for j := i - 1; j >= 0 && before == nil; j-- {
				if alone(c.reqLog[j]) {
					before = c.reqLog[j]
				}
			}
			for j := i + 1; j < len(c.reqLog) && after == nil; j++ {
				if alone(c.reqLog[j]) {
					after = c.reqLog[j]
				}
			}
			if before == nil || after == nil {
				run.Count("differential_option_without_probe_on_both_sides(not judged)", 1)
				continue
			}
			if before.reply != after.reply {
				run.Count("differential_option_answer_changed_between_probes(not judged)", 1)
				continue
			}
			run.Count("differential_acked_option_judged", 1)
			run.Count("differential_acked_option_judged_"+sp.proto, 1)
			run.Count("differential_acked_option_judged_in_"+q.from, 1)
			repeated := false
			for _, x := range q.opts {
				if x.T == o.T && !bytes.Equal(x.D, o.D) {
					repeated = true
				}
			}
			if repeated {
				run.Count("differential_acked_option_judged_of_repeated_type", 1)
			}
			run.Nontrivial("differential|" + sp.name + "|" + q.from + "|" + hex.EncodeToString(o.bytes()) + "|" + fmt.Sprint(repeated))
			if before.reply == cConfAck {
				run.Count("differential_acked_option_also_acked_alone", 1)
				continue
			}
			how := "naks"
			if before.reply == cConfRej {
				how = "rejects"
			}
			shape := "distinct-option-types"
			if repeated {
				shape = "repeated-option-type"
			}
			c.viol(sp.typ+".receiveConfigureRequest", "ack-only-acceptable-options", "acks-option-it-"+how+"-alone:"+shape,
				fmt.Sprintf("%s acknowledged Configure-Request %x (in %s) containing option %x, which it %s when the option stands alone (asked before and after, same configuration): alone -> %s %x",
					sp.proto, q.data, q.from, o.bytes(), how, codeName(before.reply), before.rep))
		}
	}
}

// ---------------------------------------------------------------- dedicated workload

// statePrefixes: short event sequences that put a fresh automaton into each state of RFC 1661 section 4.2.
func statePrefixes(sp *spec) map[string][]string {
	to := func(n int) []string {
		out := []string{"Up", "Open"}
		for i := 0; i < n; i++ {
			out = append(out, "TO")
		}
		return out
	}
	return map[string][]string{
		"Initial":  {},
		"Starting": {"Open"},
		"Closed":   {"Up"},
		"Req-Sent": {"Up", "Open"},
		"Ack-Sent": {"Up", "Open", "RCR+"},
		"Ack-Rcvd": {"Up", "Open", "RCAcur"},
		"Opened":   {"Up", "Open", "RCR+", "RCAcur"},
		"Closing":  {"Up", "Open", "Close"},
		"Stopping": {"Up", "Open", "RCR+", "RCAcur", "RTR"},
		"Stopped":  to(sp.maxConf + 1),
	}
}

var prefixWeights = []string{"Req-Sent", "Req-Sent", "Ack-Sent", "Ack-Sent", "Ack-Rcvd", "Ack-Rcvd", "Opened", "Opened", "Opened",
	"Initial", "Starting", "Closed", "Closing", "Stopping", "Stopped"}

// TestRequestContent: per automaton and per state, differential sandwiches (probes, composite request,
// probes) for every composite shape, followed by a short random tail so that whatever the automaton made
// of the request is carried on into the Opened / silence clauses.
func TestRequestContent(t *testing.T) {
	cases := run.Pick(360, 5000)
	for si, sp := range allSpecs() {
		sp, si := sp, si
		t.Run(sp.name, func(t *testing.T) {
			t.Parallel()
			pre := statePrefixes(sp)
			tail := []string{"RCAcur", "RCAcur", "RCR+", "RCNcur", "TO", "RTR", "RCRdup", "RCRdupx", "RCRempty", "RCRone", "RCRperm"}
			for n := 0; n < cases; n++ {
				rng := run.SubRand("content-"+sp.name, si*1000003+n)
				st := prefixWeights[n%len(prefixWeights)]
				shape := compositeShapes[(n/len(prefixWeights))%len(compositeShapes)]
				var seq []ev
				for _, k := range pre[st] {
					seq = append(seq, ev{Kind: k, Seed: rng.Uint64()})
				}
				seq = append(seq, sandwich(rng, shape)...)
				for m := rng.IntN(4); m > 0; m-- {
					seq = append(seq, ev{Kind: tail[rng.IntN(len(tail))], Seed: rng.Uint64()})
				}
				res := execSeq(t, sp, seq, 0)
				record(sp, seq, res)
				run.Count("content_cases", 1)
				run.Count("content_cases_"+shape, 1)
				if n == len(prefixWeights) && si%3 == 0 {
					run.Sample(map[string]any{"kind": "request-content", "trace": res.trace})
				}
			}
		})
	}
}
