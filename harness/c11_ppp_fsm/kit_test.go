package c11

// Harness kit for C11: adapters around the three real automata, an independent
// TLV codec, the harness-owned boundaries (send callback, logger core, address
// pool recorder) and the event alphabet. Nothing here decides a verdict; the
// oracle lives in monitor_test.go.

import (
	"bytes"
	"encoding/binary"
	"encoding/hex"
	"fmt"
	"math/rand/v2"
	"net"
	"runtime"
	"strconv"
	"strings"
	"time"

	"github.com/codelaboratoryltd/bng/pkg/pppoe"
	"go.uber.org/zap"
	"go.uber.org/zap/zapcore"
)

// ---------------------------------------------------------------- automata

type fsm interface {
	Up()
	Down()
	Open()
	Close()
	ReceivePacket([]byte) error
	St() string
	IsOpened() bool
	RestartCount() int // verif hook, used for fingerprints / witness classes only
	TimerSet() bool    // verif hook, used for fingerprints / witness classes only
}

type lcpA struct{ *pppoe.LCPStateMachine }

func (a lcpA) St() string        { return a.GetState().String() }
func (a lcpA) RestartCount() int { return a.VerifC11RestartCount() }
func (a lcpA) TimerSet() bool    { return a.VerifC11TimerSet() }

type ipcpA struct{ *pppoe.IPCPStateMachine }

func (a ipcpA) St() string        { return a.GetState().String() }
func (a ipcpA) RestartCount() int { return a.VerifC11RestartCount() }
func (a ipcpA) TimerSet() bool    { return a.VerifC11TimerSet() }

type ip6A struct{ *pppoe.IPV6CPStateMachine }

func (a ip6A) St() string        { return a.GetState().String() }
func (a ip6A) RestartCount() int { return a.VerifC11RestartCount() }
func (a ip6A) TimerSet() bool    { return a.VerifC11TimerSet() }

// terminal = states in which RFC 1661 runs no restart timer.
var terminal = map[string]bool{"Initial": true, "Starting": true, "Closed": true, "Stopped": true, "Opened": true}

const (
	cConfReq = 1
	cConfAck = 2
	cConfNak = 3
	cConfRej = 4
	cTermReq = 5
	cTermAck = 6
	cCodeRej = 7
	cProtRej = 8
	cEchoReq = 9
	cEchoRep = 10
	cDiscard = 11
)

// ---------------------------------------------------------------- TLV codec (independent of bng)

type topt struct {
	T byte
	D []byte
}

func (o topt) bytes() []byte { return append([]byte{o.T, byte(2 + len(o.D))}, o.D...) }

func encOpts(os []topt) []byte {
	var b []byte
	for _, o := range os {
		b = append(b, o.bytes()...)
	}
	return b
}

func parseOpts(d []byte) ([]topt, bool) {
	var out []topt
	for i := 0; i < len(d); {
		if i+2 > len(d) {
			return out, false
		}
		l := int(d[i+1])
		if l < 2 || i+l > len(d) {
			return out, false
		}
		out = append(out, topt{T: d[i], D: append([]byte(nil), d[i+2:i+l]...)})
		i += l
	}
	return out, true
}

func mkPkt(code, id byte, data []byte) []byte {
	b := make([]byte, 4+len(data))
	b[0], b[1] = code, id
	binary.BigEndian.PutUint16(b[2:], uint16(4+len(data)))
	copy(b[4:], data)
	return b
}

type pkt struct {
	Proto   uint16
	Code    byte
	ID      byte
	Data    []byte
	ByTimer bool // sent by a goroutine other than the one delivering events (= restart timer callback)
	Bad     bool // header did not parse
}

func (p pkt) String() string {
	s := fmt.Sprintf("%s(id=%d %s)", codeName(p.Code), p.ID, hex.EncodeToString(p.Data))
	if p.ByTimer {
		s = "timer:" + s
	}
	return s
}

func codeName(c byte) string {
	switch c {
	case cConfReq:
		return "ConfReq"
	case cConfAck:
		return "ConfAck"
	case cConfNak:
		return "ConfNak"
	case cConfRej:
		return "ConfRej"
	case cTermReq:
		return "TermReq"
	case cTermAck:
		return "TermAck"
	case cCodeRej:
		return "CodeRej"
	case cProtRej:
		return "ProtRej"
	case cEchoReq:
		return "EchoReq"
	case cEchoRep:
		return "EchoRep"
	case cDiscard:
		return "Discard"
	}
	return "Code" + strconv.Itoa(int(c))
}

func goid() uint64 {
	var b [64]byte
	n := runtime.Stack(b[:], false)
	f := strings.Fields(string(b[:n]))
	if len(f) < 2 {
		return 0
	}
	id, _ := strconv.ParseUint(f[1], 10, 64)
	return id
}

// ---------------------------------------------------------------- logger core with a hold point

// holdCore is the zap core handed to the automaton. The automata log under their
// mutex at the top of ReceivePacket; when a hold is armed the first log call runs
// it, which lets the harness keep a handler inside its critical section across the
// instant the restart timer fires (timer-vs-packet schedule).
type holdCore struct{ hold func() }

func (c *holdCore) Enabled(zapcore.Level) bool        { return c.hold != nil }
func (c *holdCore) With([]zapcore.Field) zapcore.Core { return c }
func (c *holdCore) Check(e zapcore.Entry, ce *zapcore.CheckedEntry) *zapcore.CheckedEntry {
	if c.hold != nil {
		return ce.AddCore(e, c)
	}
	return ce
}
func (c *holdCore) Write(zapcore.Entry, []zapcore.Field) error {
	if h := c.hold; h != nil {
		c.hold = nil
		h()
	}
	return nil
}
func (c *holdCore) Sync() error { return nil }

// ---------------------------------------------------------------- address pool recorder (IPCP)

const sessID = "sess-A"

// recPool wraps the real pppoe.IPPool and records what the pool currently holds for the session.
type recPool struct {
	inner    *pppoe.IPPool
	cur      net.IP
	released bool
	allocs   int
	releases int
}

func (p *recPool) Allocate(id string) net.IP {
	ip := p.inner.Allocate(id)
	if id == sessID {
		p.allocs++
		if ip != nil {
			p.cur = append(net.IP(nil), ip...)
			p.released = false
		}
	}
	return ip
}

func (p *recPool) Release(id string) {
	p.inner.Release(id)
	if id == sessID {
		p.releases++
		if p.cur != nil {
			p.cur = nil
			p.released = true
		}
	}
}

// ---------------------------------------------------------------- specs

type spec struct {
	name     string
	proto    string // LCP IPCP IPV6CP
	typ      string // bng type name
	maxConf  int
	maxTerm  int
	rt       time.Duration
	ipMode   string // IPCP: static pool exhausted nopool
	dns      bool
	defaults bool
	alpha    []string
	// learned: options this automaton acknowledged in a pure Configure-Ack under this spec
	acceptable map[string]bool
	// learned: options this automaton answered with Configure-Nak / Configure-Reject when they stood alone
	// in a Configure-Request under this spec (value = the answer's code name)
	offending map[string]string
}

var ourMagic = uint32(0xA1B2C3D4)
var ourIfID = uint64(0x0200AABBCCDDEE01)
var staticPeer = net.IPv4(10, 0, 0, 50).To4()
var altPeer = net.IPv4(10, 0, 0, 77).To4()
var foreignIP = net.IPv4(10, 66, 0, 5).To4()

func allSpecs() []*spec {
	rt := 3 * time.Second
	s := []*spec{
		{name: "lcp-mc3-mt2", proto: "LCP", typ: "pppoe.LCPStateMachine", maxConf: 3, maxTerm: 2, rt: rt},
		{name: "lcp-mc2-mt4", proto: "LCP", typ: "pppoe.LCPStateMachine", maxConf: 2, maxTerm: 4, rt: 2 * time.Second},
		{name: "lcp-default", proto: "LCP", typ: "pppoe.LCPStateMachine", maxConf: 10, maxTerm: 2, rt: rt, defaults: true},
		{name: "ipcp-static", proto: "IPCP", typ: "pppoe.IPCPStateMachine", maxConf: 3, maxTerm: 3, rt: rt, ipMode: "static", dns: true},
		{name: "ipcp-pool", proto: "IPCP", typ: "pppoe.IPCPStateMachine", maxConf: 3, maxTerm: 3, rt: rt, ipMode: "pool"},
		{name: "ipcp-exhausted", proto: "IPCP", typ: "pppoe.IPCPStateMachine", maxConf: 2, maxTerm: 2, rt: rt, ipMode: "exhausted", dns: true},
		{name: "ipcp-nopool-default", proto: "IPCP", typ: "pppoe.IPCPStateMachine", maxConf: 10, maxTerm: 10, rt: rt, ipMode: "nopool", defaults: true},
		{name: "ipv6cp-mr3", proto: "IPV6CP", typ: "pppoe.IPV6CPStateMachine", maxConf: 3, maxTerm: 3, rt: rt},
		{name: "ipv6cp-default", proto: "IPV6CP", typ: "pppoe.IPV6CPStateMachine", maxConf: 10, maxTerm: 10, rt: rt, defaults: true},
	}
	for _, x := range s {
		x.acceptable = map[string]bool{}
		x.offending = map[string]string{}
		x.alpha = alphabet(x)
	}
	return s
}

// ---------------------------------------------------------------- one execution context

type caseCtx struct {
	sp       *spec
	m        fsm
	core     *holdCore
	mainG    uint64
	sent     []pkt
	lastReq  time.Time // virtual time of the last Configure-/Terminate-Request seen in the send callback
	hasReq   bool
	pool     *recPool
	static   net.IP
	ipcp     *pppoe.IPCPStateMachine
	lcp      *pppoe.LCPStateMachine // LCP only: SendProtocolReject / SendEchoRequest / keep-alive are LCP entry points
	sess     *pppoe.Session         // LCP only: the session the keep-alive watches
	lg       *zap.Logger
	mon      monitor
	recs     []*evRec
	panics   int
	nakAddr  net.IP          // IP-Address the automaton last suggested in a Configure-Nak (observed)
	own      map[string]bool // magic numbers / interface identifiers the automaton used itself
	accepted string          // description of the latest non-matching reply the automaton acted on (for witness texts)
	reqLog   []*reqObs       // every Configure-Request delivered in this case and the answer observed (content_test.go)
}

func (c *caseCtx) send(proto uint16, data []byte) {
	p := pkt{Proto: proto, ByTimer: goid() != c.mainG}
	if len(data) < 4 {
		p.Bad = true
	} else {
		p.Code, p.ID = data[0], data[1]
		l := int(binary.BigEndian.Uint16(data[2:4]))
		if l < 4 || l > len(data) {
			p.Bad = true
		} else {
			p.Data = append([]byte(nil), data[4:l]...)
		}
	}
	if p.Code == cConfReq || p.Code == cTermReq {
		c.lastReq = time.Now()
		c.hasReq = true
	}
	if p.Code == cConfNak && proto == 0x8021 {
		os, _ := parseOpts(p.Data)
		for _, o := range os {
			if o.T == 3 && len(o.D) == 4 {
				c.nakAddr = net.IP(o.D)
			}
		}
	}
	if p.Code == cConfReq {
		os, _ := parseOpts(p.Data)
		for _, o := range os {
			c.own[hex.EncodeToString(o.D)] = true
		}
	}
	c.sent = append(c.sent, p)
}

func newCase(sp *spec) (*caseCtx, error) {
	c := &caseCtx{sp: sp, core: &holdCore{}, mainG: goid(), own: map[string]bool{hex.EncodeToString(u32(ourMagic)): true, hex.EncodeToString(u64(ourIfID)): true}}
	lg := zap.New(c.core)
	c.lg = lg
	switch sp.proto {
	case "LCP":
		cfg := pppoe.DefaultLCPConfig()
		cfg.MagicNumber = ourMagic
		if !sp.defaults {
			cfg.MaxConfigure, cfg.MaxTerminate, cfg.RestartTimer = sp.maxConf, sp.maxTerm, sp.rt
			cfg.MaxRetransmit = 7 // deliberately different from both bounds
			cfg.PFC = true
		}
		m, err := pppoe.NewLCPStateMachine(cfg, c.send, lg)
		if err != nil {
			return nil, err
		}
		c.m = lcpA{m}
		c.lcp = m
		c.sess = &pppoe.Session{ID: 7}
	case "IPCP":
		cfg := pppoe.DefaultIPCPConfig()
		if !sp.defaults {
			cfg.MaxRetransmit, cfg.RestartTimer = sp.maxConf, sp.rt
		}
		if sp.dns {
			cfg.PrimaryDNS = net.IPv4(8, 8, 8, 8)
		}
		switch sp.ipMode {
		case "static":
			cfg.PeerIP = staticPeer
			c.static = staticPeer
		case "pool", "exhausted":
			// 10.9.0.0/30 with gateway .1 has exactly one usable address (.2)
			p, err := pppoe.NewIPPool("10.9.0.0/30", "10.9.0.1")
			if err != nil {
				return nil, err
			}
			if sp.ipMode == "exhausted" {
				if p.Allocate("sess-B") == nil {
					return nil, fmt.Errorf("pool setup: no address for sess-B")
				}
			}
			c.pool = &recPool{inner: p}
			cfg.IPPool = c.pool
		}
		m := pppoe.NewIPCPStateMachine(cfg, sessID, c.send, lg)
		c.ipcp = m
		c.m = ipcpA{m}
	case "IPV6CP":
		cfg := pppoe.IPV6CPConfig{LocalInterfaceID: ourIfID, MaxRetransmit: sp.maxConf, RestartTimer: sp.rt}
		if sp.defaults {
			cfg.MaxRetransmit, cfg.RestartTimer = 0, 0 // documented fall-backs: 10 retransmissions, 3 s
		}
		m, err := pppoe.NewIPV6CPStateMachine(cfg, c.send, lg)
		if err != nil {
			return nil, err
		}
		c.m = ip6A{m}
	}
	return c, nil
}

// assigned returns the address currently assigned to the session by configuration
// or by the pool (nil = none), as the harness-owned boundaries recorded it.
func (c *caseCtx) assigned() net.IP {
	if c.static != nil {
		return c.static
	}
	if c.pool != nil {
		return c.pool.cur
	}
	return nil
}

// ---------------------------------------------------------------- events

type ev struct {
	Kind string
	Seed uint64
}

func alphabet(sp *spec) []string {
	// Peer replies come in four identifier classes, all computed from what the automaton was
	// observed to emit: cur = id of its latest Configure-Request, old = id of an earlier
	// Configure-Request, nc = id of the latest packet it originated that is not a
	// Configure-Request (Code-Reject, Protocol-Reject, Echo-Request, Terminate-Request),
	// new = an id it never used. alt = cur with altered option bytes.
	a := []string{"Up", "Down", "Open", "Close", "TO",
		"RCR+", "RCR-", "RCRrej", "RCRmix",
		// request content (content_test.go): one option alone, a repeated option (same value), a repeated
		// option type with different values, no options at all
		"RCRone", "RCRdup", "RCRdupx", "RCRempty",
		"RCAcur", "RCAold", "RCAnc", "RCAnew", "RCAalt",
		// RCAsup: the late, genuine Ack of an earlier request whose identifier the automaton re-used for a request
		// with different content (applicable only if it ever does that)
		"RCAsup",
		"RCNcur", "RCNold", "RCNnc", "RCNnew",
		"RCJcur", "RCJold", "RCJnc", "RCJnew",
		"RTR", "RTA", "UNK", "CRJcrit", "CRJother",
		// Terminate-Ack carrying the identifier of the latest Configure-Request / of the latest Terminate-Request
		// (the plain RTA carries a random one); the full packet-type x identifier-class grid is idclass_test.go
		"RTA@cur", "RTA@term"}
	if sp.proto == "LCP" {
		// SPR = SendProtocolReject called by the server, SER = SendEchoRequest called directly,
		// KA = one tick of the session keep-alive ticker (virtual time) which calls SendEchoRequest
		a = append(a, "PRJlcp", "PRJother", "ECHO0", "ECHO3", "ECHO4", "ECHO8", "DISCARD", "SPR", "SER", "KA")
		// RCRloop: the peer's Configure-Request carries the automaton's own magic number (looped-back link, RFC 1661
		// section 6.4): the automaton Naks with a new number and changes the one it will send itself
		a = append(a, "RCRloop")
	}
	if sp.proto == "IPCP" && sp.ipMode == "static" {
		a = append(a, "SETIP")
	}
	for _, k := range []string{"RCAcur", "RCR+", "RCR-", "RCNcur", "RCJcur", "RTR", "RTA", "RCAold", "RCAnc"} {
		a = append(a, "RACE:"+k)
	}
	return a
}

// replyClass splits a peer-reply event kind into its code letter (A, N, J) and identifier class.
func replyClass(kind string) (code byte, class string) {
	k := strings.TrimPrefix(kind, "RACE:")
	if len(k) < 4 || !strings.HasPrefix(k, "RC") || (k[2] != 'A' && k[2] != 'N' && k[2] != 'J') {
		return 0, ""
	}
	switch k[3:] {
	case "cur", "old", "nc", "new", "alt", "peer", "sup":
		return k[2], k[3:]
	}
	return 0, ""
}

// applicable: whether the event can be built in the present situation. It depends only on
// what was observed so far (monitor, virtual time), never on the event's random seed, so the
// breadth-first search can skip inapplicable children without executing them.
func (c *caseCtx) applicable(kind string) bool {
	k := strings.TrimPrefix(kind, "RACE:")
	if k != kind {
		// a restart timer can only be pending while RestartTimer has not elapsed since the last
		// Configure-/Terminate-Request seen in the send callback
		if !c.hasReq || !c.lastReq.Add(c.rt()).After(time.Now().Add(time.Nanosecond)) {
			return false
		}
	}
	if _, cls := replyClass(k); cls != "" {
		if cls == "alt" {
			return c.mon.hasOur && len(c.mon.ourData) > 0
		}
		return c.mon.hasID(cls)
	}
	if _, pcls := peerKind(k); pcls != "" {
		return c.mon.hasPktID(pcls)
	}
	switch k {
	case "SPR", "SER", "KA":
		return c.lcp != nil
	case "SETIP":
		return c.ipcp != nil && c.static != nil
	}
	return true
}

var walkOnly = []string{"RTA@old", "RTA@nc", "RTA@new", "RTR@term", "RTR@cur", "CRJcrit@cur", "CRJother@term", "EREP@nc", "EREP", "RCRunk", "RCRperm", "RCRmax", "RCRall", "ADV:half", "ADV:rt-1", "ADV:rt+1", "ADV:2rt", "RCApeer", "RCNpeer", "RCJpeer", "RACE:RCNold", "RACE:RCJnc", "RACE:RCAnew"}

func handlerOf(kind string) string {
	k, _ := peerKind(kind)
	switch {
	case k == "Up" || k == "Down" || k == "Open" || k == "Close":
		return k
	case k == "SETIP":
		return "SetPeerIP"
	case k == "SPR":
		return "SendProtocolReject"
	case k == "SER" || k == "KA":
		return "SendEchoRequest"
	case k == "TO" || strings.HasPrefix(k, "ADV:"):
		return "timeout"
	case strings.HasPrefix(k, "RCR"):
		return "receiveConfigureRequest"
	case strings.HasPrefix(k, "RCA"):
		return "receiveConfigureAck"
	case strings.HasPrefix(k, "RCN"):
		return "receiveConfigureNak"
	case strings.HasPrefix(k, "RCJ"):
		return "receiveConfigureReject"
	case k == "RTR":
		return "receiveTerminateRequest"
	case k == "RTA":
		return "receiveTerminateAck"
	case strings.HasPrefix(k, "CRJ"):
		return "receiveCodeReject"
	case strings.HasPrefix(k, "PRJ"):
		return "receiveProtocolReject"
	case strings.HasPrefix(k, "ECHO"):
		return "receiveEchoRequest"
	case k == "EREP":
		return "receiveEchoReply"
	}
	return "ReceivePacket"
}

func isTimeKind(k string) bool { return k == "TO" || strings.HasPrefix(k, "ADV:") }

func u32(v uint32) []byte { b := make([]byte, 4); binary.BigEndian.PutUint32(b, v); return b }
func u16(v uint16) []byte { b := make([]byte, 2); binary.BigEndian.PutUint16(b, v); return b }
func u64(v uint64) []byte { b := make([]byte, 8); binary.BigEndian.PutUint64(b, v); return b }

// ourOpt returns the value of option t in the automaton's latest Configure-Request (observed), if any.
func (c *caseCtx) ourOpt(t byte) []byte {
	if !c.mon.hasOur {
		return nil
	}
	os, _ := parseOpts(c.mon.ourData)
	for _, o := range os {
		if o.T == t {
			return o.D
		}
	}
	return nil
}

func shuffle(r *rand.Rand, os []topt) []topt {
	r.Shuffle(len(os), func(i, j int) { os[i], os[j] = os[j], os[i] })
	return os
}

// reqOpts builds the option list of a peer Configure-Request of the given flavour:
// good = every option within what the protocol lets a peer ask for, nak = at least one
// option with an unacceptable value, rej = at least one unknown / unnegotiable option.
func (c *caseCtx) reqOpts(r *rand.Rand, flavour string) []topt {
	var good, nak, rej []topt
	switch c.sp.proto {
	case "LCP":
		mine := c.ourOpt(5)
		magic := uint32(0x1BADCAFE) + uint32(r.IntN(4))
		if mine != nil && bytes.Equal(mine, u32(magic)) {
			magic ^= 0x10
		}
		mrus := []uint16{1492, 1400, 576, 64}
		if r.IntN(4) > 0 {
			good = append(good, topt{1, u16(mrus[r.IntN(len(mrus))])})
		}
		if r.IntN(4) > 0 {
			good = append(good, topt{5, u32(magic)})
		}
		if r.IntN(3) == 0 {
			good = append(good, topt{7, nil})
		}
		if r.IntN(3) == 0 {
			good = append(good, topt{8, nil})
		}
		switch r.IntN(3) {
		case 0:
			nak = append(nak, topt{1, u16(10)})
			good = dropType(good, 1)
		case 1:
			nak = append(nak, topt{1, u16(1500)})
			good = dropType(good, 1)
		default:
			nak = append(nak, topt{5, u32(0)})
			good = dropType(good, 5)
		}
		switch r.IntN(3) {
		case 0:
			rej = append(rej, topt{0x63, []byte{1, 2}})
		case 1:
			rej = append(rej, topt{3, u16(0xC023)})
		default:
			rej = append(rej, topt{13, []byte{9}})
		}
	case "IPCP":
		a := c.assigned()
		if a == nil {
			a = foreignIP // nothing is assigned: whatever the peer proposes is its own choice
			if c.nakAddr != nil && r.IntN(4) > 0 {
				a = c.nakAddr // ... or, as a real peer does, the address the automaton last suggested in a Configure-Nak
			}
		}
		good = append(good, topt{3, append([]byte(nil), a.To4()...)})
		if r.IntN(3) == 0 {
			good = append(good, topt{129, []byte{1, 1, 1, 1}})
		}
		if r.IntN(4) == 0 {
			good = append(good, topt{131, []byte{9, 9, 9, 9}})
		}
		switch r.IntN(3) {
		case 0:
			nak = append(nak, topt{3, []byte{0, 0, 0, 0}})
		case 1:
			o := append([]byte(nil), a.To4()...)
			o[3] ^= 0x1f
			nak = append(nak, topt{3, o})
		default:
			nak = append(nak, topt{3, []byte{0, 0, 0, 0}}, topt{129, []byte{0, 0, 0, 0}})
			good = dropType(good, 129)
		}
		good0 := dropType(good, 3)
		switch r.IntN(3) {
		case 0:
			rej = append(rej, topt{2, []byte{0x00, 0x2d, 0x0f, 0x01}})
		case 1:
			rej = append(rej, topt{0x63, []byte{7}})
		default:
			rej = append(rej, topt{1, []byte{10, 0, 0, 1, 10, 0, 0, 2}})
		}
		if flavour == "nak" || flavour == "mix" {
			good = good0
		}
	case "IPV6CP":
		mine := c.ourOpt(1)
		id := uint64(0x0200112233445500) + uint64(r.IntN(8))
		if mine != nil && bytes.Equal(mine, u64(id)) {
			id ^= 0x100
		}
		good = append(good, topt{1, u64(id)})
		if r.IntN(2) == 0 || mine == nil {
			nak = append(nak, topt{1, u64(0)})
		} else {
			nak = append(nak, topt{1, append([]byte(nil), mine...)}) // collision with the automaton's own identifier
		}
		if r.IntN(2) == 0 {
			rej = append(rej, topt{0x63, []byte{1, 2, 3}})
		} else {
			rej = append(rej, topt{2, []byte{0, 1}})
		}
		if flavour == "nak" || flavour == "mix" {
			good = nil
		}
	}
	switch flavour {
	case "good":
		return shuffle(r, good)
	case "nak":
		return shuffle(r, append(good, nak...))
	case "rej":
		return shuffle(r, append(good, rej...))
	}
	return shuffle(r, append(append(good, nak...), rej...))
}

func dropType(os []topt, t byte) []topt {
	var out []topt
	for _, o := range os {
		if o.T != t {
			out = append(out, o)
		}
	}
	return out
}

// replyOpts builds the option list of a peer Configure-Nak / Configure-Reject.
func (c *caseCtx) replyOpts(code byte, r *rand.Rand) []topt {
	if code == 'N' {
		switch c.sp.proto {
		case "LCP":
			return [][]topt{{{1, u16(1400)}}, {{5, u32(0x0BADF00D)}}, {{3, []byte{0xc2, 0x23, 5}}}, {{1, u16(1000)}, {5, u32(7)}}}[r.IntN(4)]
		case "IPCP":
			return []topt{{3, []byte{10, 0, 0, byte(90 + r.IntN(9))}}}
		}
		return []topt{{1, u64(0x0200000000000000 + uint64(1+r.IntN(9)))}}
	}
	os, _ := parseOpts(c.mon.ourData)
	if len(os) > 0 {
		return []topt{os[r.IntN(len(os))]}
	}
	return []topt{{0x63, []byte{1}}}
}

// concretise turns an abstract packet event into bytes using only what the
// harness observed (the packets the automaton handed to the send callback).
// The caller has checked applicable(kind).
func (c *caseCtx) concretise(kind string, r *rand.Rand) (p []byte, ok bool) {
	if code, cls := replyClass(kind); cls != "" {
		id, ok := c.mon.idFor(cls, r)
		if !ok {
			return nil, false
		}
		switch code {
		case 'A':
			d := c.mon.ourData
			if cls == "sup" { // the peer's genuine acknowledgement of a superseded request that carried the same identifier
				d = c.mon.supData()
			}
			if cls == "alt" { // matching identifier, options altered (judged under the lenient reading: identifier match = acknowledgement)
				d = append([]byte(nil), d...)
				d[len(d)-1] ^= 0x5a
			}
			return mkPkt(cConfAck, id, d), true
		case 'N':
			return mkPkt(cConfNak, id, encOpts(c.replyOpts('N', r))), true
		default:
			return mkPkt(cConfRej, id, encOpts(c.replyOpts('J', r))), true
		}
	}
	if p, ok := c.concretiseContent(kind, r); ok {
		return p, true
	}
	if base, pcls := peerKind(kind); pcls != "" {
		// a peer packet other than Configure-Ack/-Nak/-Reject whose identifier is taken from what the automaton
		// was observed to use (idclass_test.go)
		id, ok := c.mon.pktIDFor(pcls, r)
		if !ok {
			return nil, false
		}
		return c.peerPacket(base, id, r)
	}
	switch kind {
	case "RTR", "RTA", "CRJcrit", "CRJother", "PRJlcp", "PRJother", "DISCARD", "EREP":
		return c.peerPacket(kind, byte(r.IntN(256)), r)
	}
	switch kind {
	case "RCR+":
		return mkPkt(cConfReq, byte(r.IntN(256)), encOpts(c.reqOpts(r, "good"))), true
	case "RCR-":
		return mkPkt(cConfReq, byte(r.IntN(256)), encOpts(c.reqOpts(r, "nak"))), true
	case "RCRrej":
		return mkPkt(cConfReq, byte(r.IntN(256)), encOpts(c.reqOpts(r, "rej"))), true
	case "RCRmix":
		return mkPkt(cConfReq, byte(r.IntN(256)), encOpts(c.reqOpts(r, "mix"))), true
	case "RCRloop":
		mine := c.ourOpt(5)
		if mine == nil {
			mine = u32(ourMagic)
		}
		os := []topt{{5, append([]byte(nil), mine...)}}
		if r.IntN(2) == 0 {
			os = append([]topt{{1, u16(1492)}}, os...)
		}
		return mkPkt(cConfReq, byte(r.IntN(256)), encOpts(os)), true
	case "UNK":
		// a code the automaton does not implement: LCP answers with a Code-Reject, which consumes one
		// of its identifiers (12 = Identification, 13 = Time-Remaining, 14 = Reset-Request are real codes)
		codes := []byte{12, 13, 14, 0, 0x55, 0xff}
		if c.sp.proto != "LCP" {
			codes = []byte{8, 9, 10, 12, 0, 0x55} // LCP-only codes sent to a network control protocol
		}
		return mkPkt(codes[r.IntN(len(codes))], byte(r.IntN(256)), []byte{1, 2, 3}[:r.IntN(4)]), true
	case "ECHO0", "ECHO3", "ECHO4", "ECHO8":
		n := int(kind[4] - '0')
		d := make([]byte, n)
		for i := range d {
			d[i] = byte(r.IntN(256))
		}
		return mkPkt(cEchoReq, byte(r.IntN(256)), d), true
	}
	return nil, false
}

// peerKind splits a kind such as "RTA@term" (optionally behind "RACE:") into the packet kind and the
// identifier class; cls is empty for kinds without a class.
func peerKind(kind string) (base, cls string) {
	k := strings.TrimPrefix(kind, "RACE:")
	if i := strings.IndexByte(k, '@'); i >= 0 {
		return k[:i], k[i+1:]
	}
	return k, ""
}

// peerPacket builds a Terminate-Request/-Ack, Code-Reject, Protocol-Reject, Echo-Reply or Discard-Request
// with the given identifier.
func (c *caseCtx) peerPacket(base string, id byte, r *rand.Rand) ([]byte, bool) {
	switch base {
	case "RTR":
		return mkPkt(cTermReq, id, []byte("bye")[:r.IntN(4)]), true
	case "RTA":
		return mkPkt(cTermAck, id, nil), true
	case "CRJcrit":
		return mkPkt(cCodeRej, id, mkPkt(byte(1+r.IntN(4)), c.mon.ourID, nil)), true
	case "CRJother":
		return mkPkt(cCodeRej, id, mkPkt(cEchoReq, 1, u32(0))), true
	case "PRJlcp":
		return mkPkt(cProtRej, id, append(u16(0xC021), 1, 1, 0, 4)), true
	case "PRJother":
		return mkPkt(cProtRej, id, append(u16(0x8021), 1, 1, 0, 4)), true
	case "DISCARD":
		return mkPkt(cDiscard, id, u32(0x01020304)), true
	case "EREP":
		// Echo-Reply: the peer's magic number (or zero before one was negotiated) and sometimes trailing data
		d := u32([]uint32{0x1BADCAFE, 0, ourMagic}[r.IntN(3)])
		return mkPkt(cEchoRep, id, append(d, []byte{1, 2, 3, 4}[:r.IntN(5)]...)), true
	}
	return nil, false
}
