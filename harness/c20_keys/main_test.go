// Package c20 monitors property C20: subscriber-identifying keys (QinQ VLAN
// pairs, PPPoE session ids, circuit-id keys, by-MAC / by-IP index keys) map to
// at most one subscriber, stay in range, agree in both lookup directions, and
// are reusable after release without disturbing any other mapping.
package c20

import (
	"fmt"
	"os"
	"runtime"
	"strings"
	"sync"
	"testing"

	"verif/harness/internal/vk"
)

var run *vk.Run

func TestMain(m *testing.M) {
	run = vk.Start("C20", "exploration")
	run.Rule("histories over small key universes (2x2..3x4 tag ranges, 3 subscribers/MACs, 2-3 addresses) for every keyed component: " +
		"bounded-exhaustive enumeration (every history of every length up to the stated depth, each judged at its end, extensions of a violating history skipped) plus seeded random walks; " +
		"circuit-ids: generated families up to 64 bytes (prefix chains, trailing-NUL variants, single-byte differences at every position, structured OLT-style ids, random) compared pairwise through the real key functions and through real kernel hash maps; " +
		"distinct_nontrivial hashes enumerated histories up to length 5 and every walk; longer enumerated histories are distinct by construction and appear in the observed *_histories_with_* counters and in nontrivial_histories_not_hashed only; " +
		"PPPoE session states: the same id histories with sessions left in the table in each of the seven session states (exported setter; SessionTeardown with a failing/succeeding fast-path update; and through pppoe.Server's receive loop: PADR, LCP Configure-Ack, PAP rejected/accepted by a loopback RADIUS server, IPCP Configure-Ack, PADT, LCP Terminate-Request) while the id counter wraps or is placed just below an id that is in the table; " +
		"qinq.Mapper additionally under 2-4 concurrent callers running seeded programs of 2-6 calls (Register/Unregister/UnregisterSubscriber/GetVLAN/GetSubscriber) on 2-3 subscribers and 2-3 pairs of a fresh, pre-filled mapper, every call stamped by a logical clock (non-trivial there = distinct round in which a release overlapped an accepted Register of another caller); " +
		"non-trivial = distinct history in which a key changed holder (released/moved and obtained again), or two live objects carried the same key, or the PPPoE id counter wrapped (for the state histories: wrapped/came round and a session state was changed), or (circuit-ids) a family in which at least one pair of distinct ids was compared")
	run.Assume("placing the PPPoE id counter (hook) stands for the creations and removals by other stations that bring it there; TestPPPoERealWrap reaches the wrap without the hook")
	run.Assume("components are driven sequentially (the property quantifies over histories and inputs, not schedules), except the two VLAN-pair tables whose methods take a lock because provisioning paths share them: nexus.VLANAllocator.Allocate and every method of qinq.Mapper are also called by callers released together; for the mapper a history of overlapping calls is judged by: some order of the calls (each caller's program order and every returned-before-started pair kept) explains every returned value and the mappings read back at quiescence")
	run.Assume("subscriber.Manager is given a correct address allocator by the harness (addresses unique among live sessions, released on request)")
	run.Assume("FNV-1a 64-bit collisions cannot be produced by search; the hash-keyed circuit_id_map is exercised with collision-free universes and its collision detector with same-id/different-MAC probes only")
	// floors far below what the quick tier observes: a run under them could not judge the property
	for k, n := range map[string]int64{
		"vlan_exhaustive_histories": 100000, "vlan_drained_pairs": 100000, "qinq_exhaustive_histories": 100000,
		"pppoe_exhaustive_histories": 20000, "pppoe_id_wraps": 1000, "pppoe_histories_two_sessions_one_mac": 1000,
		"cid_pairs_compared": 10000, "state_leases_exhaustive_histories": 10000, "state_sessions_exhaustive_histories": 1000,
		"state_subscribers_exhaustive_histories": 1000, "subscriber_manager_exhaustive_histories": 500, "allocstore_exhaustive_histories": 10000,
	} {
		run.Floor(k, n)
	}
	// session-state dimension: the free-id search met ids held by sessions in every state after a wrap
	for _, st := range allStates {
		run.Floor("pppoe_search_after_wrap_met_id_held_in_state_"+stateName(st), 300)
	}
	// qinq.Mapper under concurrent callers: rounds in which a release was not ordered (by the logical clock) against an accepted Register of another caller
	run.Floor("qinq_concurrent_rounds_with_release_overlapping_register", int64(qinqConcRounds()/40))
	run.Floor("pppoe_state_exhaustive_histories", 100000)
	run.Floor("pppoe_histories_with_state_changes_and_wrap", 10000)
	run.Floor("pppoe_server_state_cases", 100)
	run.Floor("pppoe_server_failed_pap_left_closed_session_in_table", 50)
	run.Floor("pppoe_server_counter_comes_round_to_state_Closed", 20)
	code := m.Run()
	flushViolations()
	ec := run.Finish()
	if code != 0 && ec == 0 {
		ec = 2
	}
	os.Exit(ec)
}

// ---------------------------------------------------------------------------
// bounded-exhaustive enumeration

// histRunner replays one history from scratch and judges it at its end.
// It returns false when the history violated a clause (its extensions are then skipped).
type histRunner func(h []int) bool

// enumerate runs every history over alphabet {0..n-1} of length 1..depth (DFS,
// replay from scratch), in parallel over the first symbol. canon, when
// non-nil, prunes histories that are not canonical under subscriber renaming.
func enumerate(n, depth int, canon func(h []int) bool, mk func() (histRunner, func())) int64 {
	var total int64
	var mu sync.Mutex
	var wg sync.WaitGroup
	sem := make(chan struct{}, runtime.NumCPU())
	type pre struct{ a, b int }
	var pres []pre
	for a := 0; a < n; a++ {
		if depth >= 2 {
			for b := 0; b < n; b++ {
				pres = append(pres, pre{a, b})
			}
		} else {
			pres = append(pres, pre{a, -1})
		}
	}
	// length-1 histories
	firstOK := make([]bool, n)
	{
		r, done := mk()
		for a := 0; a < n; a++ {
			h := []int{a}
			if canon != nil && !canon(h) {
				continue
			}
			firstOK[a] = r(h)
			total++
		}
		done()
	}
	if depth < 2 {
		return total
	}
	for _, p := range pres {
		if !firstOK[p.a] {
			continue
		}
		p := p
		wg.Add(1)
		sem <- struct{}{}
		go func() {
			defer wg.Done()
			defer func() { <-sem }()
			r, done := mk()
			defer done()
			var cnt int64
			h := make([]int, 0, depth)
			h = append(h, p.a, p.b)
			var rec func()
			rec = func() {
				if canon != nil && !canon(h) {
					return
				}
				cnt++
				if !r(h) {
					return
				}
				if len(h) == depth {
					return
				}
				for x := 0; x < n; x++ {
					h = append(h, x)
					rec()
					h = h[:len(h)-1]
				}
			}
			rec()
			mu.Lock()
			total += cnt
			mu.Unlock()
		}()
	}
	wg.Wait()
	return total
}

// ---------------------------------------------------------------------------
// small helpers

type pendingViolation struct {
	component, rule, class, desc string
	witness                      map[string]any
	histLen, count               int
}

var (
	pendMu  sync.Mutex
	pending = map[string]*pendingViolation{}
)

// violate buffers a witness; per (component, rule, class) the shortest history is kept as the witness
// (parallel enumeration would otherwise report whichever goroutine came first).
func violate(component, rule, class, desc string, hist []string, extra map[string]any) {
	w := map[string]any{"history": hist}
	for k, v := range extra {
		w[k] = v
	}
	pv := &pendingViolation{component: component, rule: rule, class: class, desc: desc + " | history: " + strings.Join(hist, " ; "), witness: w, histLen: len(hist), count: 1}
	key := component + "|" + rule + "|" + class
	pendMu.Lock()
	defer pendMu.Unlock()
	if old, ok := pending[key]; ok {
		if pv.histLen < old.histLen || (pv.histLen == old.histLen && pv.desc < old.desc) {
			pv.count = old.count + 1
			pending[key] = pv
		} else {
			old.count++
		}
		return
	}
	pending[key] = pv
}

func flushViolations() {
	pendMu.Lock()
	defer pendMu.Unlock()
	for _, pv := range pending {
		for i := 0; i < pv.count; i++ {
			run.Violation(pv.component, pv.rule, pv.class, pv.desc, pv.witness)
		}
	}
}

func sprint(a ...any) string { return fmt.Sprint(a...) }

// localCounts batches counters so the hot loops do not contend on the kit's mutex.
type localCounts struct {
	evals int
	c     map[string]int
	d     map[string]map[string]struct{}
	n     map[string]struct{}
}

func newLocal() *localCounts {
	return &localCounts{c: map[string]int{}, d: map[string]map[string]struct{}{}, n: map[string]struct{}{}}
}
func (l *localCounts) count(k string, n int) { l.c[k] += n }
func (l *localCounts) distinct(set, k string) {
	m := l.d[set]
	if m == nil {
		m = map[string]struct{}{}
		l.d[set] = m
	}
	m[k] = struct{}{}
}
func (l *localCounts) nontrivial(k string) {
	if strings.HasSuffix(k, "|") { // enumerated history longer than maxHashedLen: counted, not hashed
		l.c["nontrivial_histories_not_hashed"]++
		return
	}
	l.n[k] = struct{}{}
	if len(l.n) >= 8192 {
		l.flush()
	}
}
func (l *localCounts) flush() {
	run.Evals(l.evals)
	l.evals = 0
	for k, v := range l.c {
		run.Count(k, v)
	}
	for s, m := range l.d {
		for k := range m {
			run.Distinct(s, k)
		}
	}
	for k := range l.n {
		run.Nontrivial(k)
	}
	l.c = map[string]int{}
	l.d = map[string]map[string]struct{}{}
	l.n = map[string]struct{}{}
}

// logEntry is one lazily formatted history line (formatting every op of millions of histories is the
// dominant cost otherwise).
type logEntry struct {
	f string
	a []any
}

func fmtLog(l []logEntry) []string {
	out := make([]string, len(l))
	for i, e := range l {
		out[i] = fmt.Sprintf(e.f, e.a...)
	}
	return out
}
