package c20

import (
	"context"
	"fmt"
	"math/rand/v2"
	"sort"
	"strings"
	"sync/atomic"
	"testing"

	"github.com/codelaboratoryltd/bng/pkg/nexus"
)

// ---------------------------------------------------------------------------
// nexus.VLANAllocator: bijection NTE <-> (S-tag, C-tag)

type vpair struct{ s, c uint16 }

func (p vpair) String() string { return fmt.Sprintf("%d.%d", p.s, p.c) }

type vlanGeom struct{ sLo, sHi, cLo, cHi uint16 }

func (g vlanGeom) String() string {
	return fmt.Sprintf("S%d-%d/C%d-%d", g.sLo, g.sHi, g.cLo, g.cHi)
}
func (g vlanGeom) capacity() int     { return int(g.sHi-g.sLo+1) * int(g.cHi-g.cLo+1) }
func (g vlanGeom) inS(s uint16) bool { return s >= g.sLo && s <= g.sHi }
func (g vlanGeom) inC(c uint16) bool { return c >= g.cLo && c <= g.cHi }
func (g vlanGeom) pairs() []vpair {
	var out []vpair
	for s := g.sLo; s <= g.sHi; s++ {
		for c := g.cLo; c <= g.cHi; c++ {
			out = append(out, vpair{s, c})
		}
	}
	return out
}

// op kinds (per NTE)
const (
	vAlloc = iota
	vAllocSLo
	vAllocSHi
	vAllocSOut
	vRelease
	vLoadConflict
	vLoadMoved
	vLoadZero
	vLoadSame  // random walks only
	vLoadZeroC // random walks only: (s, 0)
	vKinds
)

var vKindName = [...]string{"alloc", "alloc-stag", "alloc-stag", "alloc-stag-out-of-range", "release", "load-conflicting", "load-moved", "load-zero-tag", "load-same", "load-zero-tag"}

type vop struct {
	kind int
	nte  int
}

type vheld struct {
	p    vpair
	reqS bool // S-tag was an input of AllocateWithSTag
}

type vlanRun struct {
	g     vlanGeom
	ntes  []string
	v     *nexus.VLANAllocator
	model map[string]vheld
	hist  []logEntry
	last  string // kind name of the last op
	// observations
	everHeld map[vpair]string // pair -> last NTE that held it
	reuse    bool
	shared   bool
	bad      bool
	quiet    bool // do not report, only remember that the history failed
	lc       *localCounts
}

const vlanComp = "nexus.VLANAllocator"

func newVlanRun(g vlanGeom, ntes []string, lc *localCounts) *vlanRun {
	return &vlanRun{
		g: g, ntes: ntes, lc: lc,
		v: nexus.NewVLANAllocator(nexus.VLANAllocatorConfig{
			STagRange: nexus.VLANRange{Start: g.sLo, End: g.sHi},
			CTagRange: nexus.VLANRange{Start: g.cLo, End: g.cHi},
		}),
		model:    map[string]vheld{},
		everHeld: map[vpair]string{},
	}
}

func (r *vlanRun) logf(f string, a ...any) { r.hist = append(r.hist, logEntry{f, a}) }
func (r *vlanRun) history() []string       { return fmtLog(r.hist) }

func (r *vlanRun) fail(component, rule, what string) {
	r.bad = true
	if r.quiet {
		return
	}
	violate(component, rule, "after-"+r.last, what, r.history(), map[string]any{"geometry": r.g.String()})
}

func (r *vlanRun) holderOf(p vpair, except string) (string, bool) {
	for _, n := range r.ntes {
		if n == except {
			continue
		}
		if h, ok := r.model[n]; ok && h.p == p {
			return n, true
		}
	}
	return "", false
}

func (r *vlanRun) freePairs(underS int) []vpair {
	var out []vpair
	for _, p := range r.g.pairs() {
		if underS >= 0 && p.s != uint16(underS) {
			continue
		}
		if _, held := r.holderOf(p, ""); !held {
			out = append(out, p)
		}
	}
	return out
}

func (r *vlanRun) noteHeld(n string, p vpair) {
	if prev, ok := r.everHeld[p]; ok && prev != n {
		r.reuse = true
	}
	r.everHeld[p] = n
}

// apply executes one op against the real allocator and the model.
func (r *vlanRun) apply(o vop) {
	n := r.ntes[o.nte]
	r.last = vKindName[o.kind]
	r.lc.count("vlan_op_"+r.last, 1)
	before, wasHeld := r.model[n]
	switch o.kind {
	case vAlloc:
		a, err := r.v.Allocate(n)
		if err != nil {
			r.logf("Allocate(%s)=err(%v)", n, err)
			r.lc.count("vlan_exhausted", 1)
			if wasHeld {
				r.fail(vlanComp+".Allocate", "holder-keeps-key", fmt.Sprintf("Allocate(%s) failed although %s holds %s", n, n, before.p))
			} else if fp := r.freePairs(-1); len(fp) > 0 {
				r.fail(vlanComp+".Allocate", "released-key-reusable", fmt.Sprintf("Allocate(%s) reports exhaustion although %v is held by nobody", n, fp))
			}
			return
		}
		got := vpair{a.STag, a.CTag}
		r.logf("Allocate(%s)=%s", n, got)
		if a.NTEID != n {
			r.fail(vlanComp+".Allocate", "forward-lookup-agrees", fmt.Sprintf("Allocate(%s) returned an allocation of %q", n, a.NTEID))
			return
		}
		if wasHeld {
			if got != before.p {
				r.fail(vlanComp+".Allocate", "holder-keeps-key", fmt.Sprintf("Allocate(%s) returned %s although %s holds %s", n, got, n, before.p))
			}
			return
		}
		if o2, held := r.holderOf(got, n); held {
			r.fail(vlanComp+".Allocate", "at-most-one-holder", fmt.Sprintf("Allocate(%s) returned %s which %s holds", n, got, o2))
			return
		}
		r.model[n] = vheld{p: got}
		r.noteHeld(n, got)
	case vAllocSLo, vAllocSHi, vAllocSOut:
		s := r.g.sLo
		if o.kind == vAllocSHi {
			s = r.g.sHi
		} else if o.kind == vAllocSOut {
			s = r.g.sHi + 5
		}
		a, err := r.v.AllocateWithSTag(n, s)
		if err != nil {
			r.logf("AllocateWithSTag(%s,%d)=err(%v)", n, s, err)
			r.lc.count("vlan_exhausted", 1)
			// acceptable only if every C-tag under s is held by somebody else
			free := 0
			for c := r.g.cLo; c <= r.g.cHi; c++ {
				if _, held := r.holderOf(vpair{s, c}, n); !held {
					free++
				}
			}
			if free > 0 {
				r.fail(vlanComp+".AllocateWithSTag", "released-key-reusable", fmt.Sprintf("AllocateWithSTag(%s,%d) reports exhaustion although %d C-tags under S %d are held by nobody else", n, s, free, s))
				return
			}
			// the statement does not say whether a failed move keeps the old pair: adopt what Get shows
			if g, ok := r.v.Get(n); ok {
				gp := vpair{g.STag, g.CTag}
				if !wasHeld || gp != before.p {
					r.fail(vlanComp+".AllocateWithSTag", "forward-lookup-agrees", fmt.Sprintf("after a failed AllocateWithSTag(%s,%d) Get(%s) shows %s (held before: %v %s)", n, s, n, gp, wasHeld, before.p))
				}
			} else {
				delete(r.model, n)
			}
			return
		}
		got := vpair{a.STag, a.CTag}
		r.logf("AllocateWithSTag(%s,%d)=%s", n, s, got)
		if a.NTEID != n {
			r.fail(vlanComp+".AllocateWithSTag", "forward-lookup-agrees", fmt.Sprintf("AllocateWithSTag(%s) returned an allocation of %q", n, a.NTEID))
			return
		}
		if got.s != s {
			r.fail(vlanComp+".AllocateWithSTag", "in-range", fmt.Sprintf("AllocateWithSTag(%s,%d) returned S-tag %d", n, s, got.s))
			return
		}
		if wasHeld && before.p.s == s {
			if got != before.p {
				r.fail(vlanComp+".AllocateWithSTag", "holder-keeps-key", fmt.Sprintf("AllocateWithSTag(%s,%d) returned %s although %s holds %s", n, s, got, n, before.p))
			}
			return
		}
		if o2, held := r.holderOf(got, n); held {
			r.fail(vlanComp+".AllocateWithSTag", "at-most-one-holder", fmt.Sprintf("AllocateWithSTag(%s,%d) returned %s which %s holds", n, s, got, o2))
			return
		}
		r.model[n] = vheld{p: got, reqS: true}
		r.noteHeld(n, got)
	case vRelease:
		r.v.Release(n)
		r.logf("Release(%s)", n)
		delete(r.model, n)
	case vLoadConflict, vLoadMoved, vLoadZero, vLoadSame, vLoadZeroC:
		var p vpair
		switch o.kind {
		case vLoadConflict:
			// the pair of the next other holder in cyclic order; none -> first free pair
			found := false
			for k := 1; k < len(r.ntes); k++ {
				if h, ok := r.model[r.ntes[(o.nte+k)%len(r.ntes)]]; ok && r.g.inS(h.p.s) {
					p, found = h.p, true
					break
				}
			}
			if !found {
				fp := r.freePairs(-1)
				if len(fp) == 0 {
					r.logf("load-skip")
					return
				}
				p = fp[0]
				r.last = "load-fresh"
				if wasHeld {
					r.last = "load-moved"
				}
			}
		case vLoadMoved:
			fp := r.freePairs(-1)
			if len(fp) == 0 {
				r.logf("load-skip")
				return
			}
			p = fp[len(fp)-1]
			if !wasHeld {
				r.last = "load-fresh"
			}
		case vLoadZero:
			p = vpair{0, r.g.cLo}
		case vLoadZeroC:
			p = vpair{r.g.sLo, 0}
		case vLoadSame:
			if !wasHeld {
				r.logf("load-skip")
				return
			}
			p = before.p
		}
		err := r.v.LoadFromStore(context.Background(), []*nexus.NTE{{ID: n, STag: p.s, CTag: p.c}})
		r.logf("LoadFromStore(%s:%s)=%v", n, p, err)
		// the statement does not say how a load is resolved: adopt what Get shows, judge the invariants on it
		snapshotBefore := r.modelKey()
		for _, m := range r.ntes {
			if a, ok := r.v.Get(m); ok {
				gp := vpair{a.STag, a.CTag}
				old, had := r.model[m]
				if !had || old.p != gp {
					r.model[m] = vheld{p: gp}
					r.noteHeld(m, gp)
				}
			} else {
				delete(r.model, m)
			}
		}
		if (o.kind == vLoadZero || o.kind == vLoadZeroC) && r.modelKey() != snapshotBefore {
			r.fail(vlanComp+".LoadFromStore", "in-range", fmt.Sprintf("loading %s with a zero tag changed the mappings from %s to %s", n, snapshotBefore, r.modelKey()))
		}
	}
}

func (r *vlanRun) modelKey() string {
	var parts []string
	for _, n := range r.ntes {
		if h, ok := r.model[n]; ok {
			parts = append(parts, n+":"+h.p.String())
		}
	}
	return strings.Join(parts, ",")
}

// check judges the invariants observable without disturbing the allocator.
func (r *vlanRun) check() {
	if r.bad {
		return
	}
	seen := map[vpair]string{}
	held := 0
	for _, n := range r.ntes {
		a, ok := r.v.Get(n)
		h, want := r.model[n]
		if ok != want {
			r.fail(vlanComp+".Get", "forward-lookup-agrees", fmt.Sprintf("Get(%s) found=%v but the history says held=%v (%s)", n, ok, want, h.p))
			return
		}
		if !ok {
			continue
		}
		held++
		gp := vpair{a.STag, a.CTag}
		if gp != h.p || a.NTEID != n {
			r.fail(vlanComp+".Get", "forward-lookup-agrees", fmt.Sprintf("Get(%s) = %s owner %q, the history says %s", n, gp, a.NTEID, h.p))
			return
		}
		if o2, dup := seen[gp]; dup {
			r.shared = true
			r.fail(vlanComp, "at-most-one-holder", fmt.Sprintf("pair %s is held by %s and by %s", gp, o2, n))
			return
		}
		seen[gp] = n
		if !r.g.inC(gp.c) || (!h.reqS && !r.g.inS(gp.s)) {
			r.fail(vlanComp, "in-range", fmt.Sprintf("%s holds %s outside the configured ranges %s", n, gp, r.g))
			return
		}
	}
	st := r.v.Stats()
	if st.TotalAllocations != held {
		r.fail(vlanComp+".Stats", "forward-lookup-agrees", fmt.Sprintf("Stats.TotalAllocations=%d but %d NTEs hold a pair", st.TotalAllocations, held))
		return
	}
	if st.TotalCapacity != r.g.capacity() {
		r.fail(vlanComp+".Stats", "in-range", fmt.Sprintf("Stats.TotalCapacity=%d, ranges give %d", st.TotalCapacity, r.g.capacity()))
	}
}

// drain obtains every pair nobody holds through fresh NTEs (destroys the instance).
func (r *vlanRun) drain() {
	if r.bad {
		return
	}
	r.last = "drain(" + r.last + ")"
	heldIn := map[vpair]string{}
	for _, n := range r.ntes {
		if h, ok := r.model[n]; ok {
			heldIn[h.p] = n
		}
	}
	free := map[vpair]bool{}
	for _, p := range r.g.pairs() {
		if _, h := heldIn[p]; !h {
			free[p] = true
		}
	}
	want := len(free)
	got := 0
	for i := 0; i < r.g.capacity()+2; i++ {
		n := fmt.Sprintf("drain%d", i)
		a, err := r.v.Allocate(n)
		if err != nil {
			break
		}
		gp := vpair{a.STag, a.CTag}
		r.logf("Allocate(%s)=%s", n, gp)
		if o2, h := heldIn[gp]; h {
			r.fail(vlanComp+".Allocate", "at-most-one-holder", fmt.Sprintf("Allocate(%s) returned %s which %s holds", n, gp, o2))
			return
		}
		if !free[gp] {
			r.fail(vlanComp+".Allocate", "in-range", fmt.Sprintf("Allocate(%s) returned %s outside the configured ranges %s", n, gp, r.g))
			return
		}
		if prev, ok := r.everHeld[gp]; ok && prev != n {
			r.reuse = true
		}
		delete(free, gp)
		heldIn[gp] = n
		got++
	}
	r.lc.count("vlan_drained_pairs", got)
	if got == want {
		// the same for the ISP-assigned S-tag outside the range that the histories use
		s := r.g.sHi + 5
		heldUnder := 0
		for _, n := range r.ntes {
			if h, ok := r.model[n]; ok && h.p.s == s {
				heldUnder++
			}
		}
		wantS := int(r.g.cHi-r.g.cLo+1) - heldUnder
		gotS := 0
		seen := map[uint16]bool{}
		for i := 0; i < wantS+2; i++ {
			n := fmt.Sprintf("drainS%d", i)
			a, err := r.v.AllocateWithSTag(n, s)
			if err != nil {
				break
			}
			r.logf("AllocateWithSTag(%s,%d)=%d.%d", n, s, a.STag, a.CTag)
			if o2, h := r.holderOf(vpair{a.STag, a.CTag}, ""); h || seen[a.CTag] || a.STag != s || !r.g.inC(a.CTag) {
				r.fail(vlanComp+".AllocateWithSTag", "at-most-one-holder", fmt.Sprintf("AllocateWithSTag(%s,%d) returned %d.%d (held by %q, repeated=%v)", n, s, a.STag, a.CTag, o2, seen[a.CTag]))
				return
			}
			seen[a.CTag] = true
			gotS++
		}
		if gotS != wantS {
			r.fail(vlanComp, "released-key-reusable", fmt.Sprintf("under requested S-tag %d only %d of the %d C-tags nobody holds can be obtained", s, gotS, wantS))
		}
		return
	}
	if got != want {
		var left []string
		for p := range free {
			left = append(left, p.String())
		}
		sort.Strings(left)
		r.fail(vlanComp, "released-key-reusable", fmt.Sprintf("pairs %v are held by nobody but cannot be obtained (%d of %d free pairs obtainable)", left, got, want))
	}
}

func (r *vlanRun) record(key string) {
	r.lc.evals++
	r.lc.distinct("vlan_states", r.g.String()+"|"+r.modelKey())
	if r.reuse {
		r.lc.count("vlan_histories_with_reuse", 1)
	}
	if r.reuse || r.shared {
		r.lc.nontrivial("vlan|" + r.g.String() + "|" + key)
	}
}

func vlanSymbols(nNTE int, kinds []int) []vop {
	var out []vop
	for _, k := range kinds {
		for n := 0; n < nNTE; n++ {
			out = append(out, vop{k, n})
		}
	}
	return out
}

// canonNTE accepts histories whose NTEs first appear in the order a, b, c (renaming symmetry).
func canonNTE(alpha []vop) func(h []int) bool {
	return func(h []int) bool {
		next := 0
		for _, x := range h {
			n := alpha[x].nte
			if n > next {
				return false
			}
			if n == next {
				next++
			}
		}
		return true
	}
}

// histKey identifies an enumerated history for the distinct-non-trivial count. Histories longer than
// maxHashedLen are distinct by construction but are not hashed (the set would need gigabytes in the
// thorough tier); they are counted in the *_histories_with_* counters only.
const maxHashedLen = 5

func histKey(h []int) string {
	if len(h) > maxHashedLen {
		return ""
	}
	b := make([]byte, len(h))
	for i, x := range h {
		b[i] = byte('0' + x)
	}
	return string(b)
}

func TestVLANExhaustive(t *testing.T) {
	type job struct {
		g     vlanGeom
		depth int
		kinds []int
		name  string
	}
	full := []int{vAlloc, vAllocSLo, vAllocSHi, vAllocSOut, vRelease, vLoadConflict, vLoadMoved, vLoadZero}
	core := []int{vAlloc, vAllocSHi, vRelease, vLoadConflict, vLoadMoved}
	jobs := []job{
		{vlanGeom{10, 11, 20, 21}, run.Pick(5, 6), full, "full"},
		{vlanGeom{10, 11, 20, 22}, run.Pick(4, 5), full, "full"},
		{vlanGeom{10, 12, 20, 21}, run.Pick(4, 5), full, "full"},
		{vlanGeom{4093, 4094, 4093, 4094}, run.Pick(4, 5), full, "full"},
	}
	if run.Thorough() {
		// depth 7 over {alloc, alloc-with-stag, release, load-conflicting, load-moved}
		jobs = append(jobs, job{vlanGeom{10, 11, 20, 21}, 7, core, "core"})
	}
	ntes := []string{"a", "b", "c"}
	for _, j := range jobs {
		j := j
		alpha := vlanSymbols(3, j.kinds)
		var sampled atomic.Bool
		n := enumerate(len(alpha), j.depth, canonNTE(alpha), func() (histRunner, func()) {
			lc := newLocal()
			cnt := 0
			return func(h []int) bool {
				r := newVlanRun(j.g, ntes, lc)
				for _, x := range h {
					if r.apply(alpha[x]); r.bad {
						break
					}
				}
				r.check()
				r.drain()
				r.record(histKey(h))
				if len(h) == j.depth && r.reuse && !r.bad && sampled.CompareAndSwap(false, true) {
					run.Sample(map[string]any{"component": vlanComp, "kind": "exhaustive", "geometry": j.g.String(), "history": r.history()})
				}
				if cnt++; cnt%50000 == 0 {
					lc.flush()
				}
				return !r.bad
			}, lc.flush
		})
		run.Count("vlan_exhaustive_histories", int(n))
		run.Extra("vlan_exhaustive_depth_"+j.g.String()+"_"+j.name+"-alphabet", j.depth)
	}
}

func vlanRandomOps(rng *rand.Rand, nNTE, n int, withBadLoads bool) []vop {
	ops := make([]vop, 0, n)
	for i := 0; i < n; i++ {
		x := rng.IntN(100)
		var k int
		switch {
		case x < 30:
			k = vAlloc
		case x < 40:
			k = vAllocSLo
		case x < 50:
			k = vAllocSHi
		case x < 54:
			k = vAllocSOut
		case x < 82:
			k = vRelease
		case x < 88:
			k = vLoadSame
		case x < 92:
			k = vLoadZero
		case x < 95:
			k = vLoadZeroC
		default:
			if withBadLoads {
				k = vLoadConflict + rng.IntN(2)
			} else {
				k = vAlloc
			}
		}
		ops = append(ops, vop{k, rng.IntN(nNTE)})
	}
	return ops
}

// runVlanWalk replays ops, judging after every op and draining at the end.
func runVlanWalk(g vlanGeom, ntes []string, ops []vop, lc *localCounts, quiet bool) *vlanRun {
	r := newVlanRun(g, ntes, lc)
	r.quiet = quiet
	for _, o := range ops {
		if r.apply(o); r.bad {
			return r
		}
		if r.check(); r.bad {
			return r
		}
	}
	r.drain()
	return r
}

func TestVLANRandomWalks(t *testing.T) {
	geoms := []vlanGeom{{10, 12, 20, 23}, {10, 11, 20, 21}, {100, 103, 100, 107}}
	walks := run.Pick(60, 600)
	length := 1000
	lc := newLocal()
	for gi, g := range geoms {
		var ntes []string
		for i := 0; i < g.capacity()+2; i++ {
			ntes = append(ntes, fmt.Sprintf("n%d", i))
		}
		for w := 0; w < walks; w++ {
			rng := run.SubRand(fmt.Sprintf("vlan-walk-%d", gi), w)
			bad := w%4 == 3 // every fourth walk also loads conflicting / moved pairs
			ops := vlanRandomOps(rng, len(ntes), length, bad)
			// judged quietly first; a failing walk is reported through its shortest failing prefix, so that
			// the witness is minimal and its class names the op that broke the invariant
			r := runVlanWalk(g, ntes, ops, lc, true)
			if r.bad {
				for n := 1; n <= len(ops); n++ {
					if runVlanWalk(g, ntes, ops[:n], newLocal(), true).bad {
						runVlanWalk(g, ntes, ops[:n], newLocal(), false)
						break
					}
				}
				run.Count("vlan_walks_failed_and_minimised", 1)
			}
			run.Count("vlan_random_walks", 1)
			run.Count("vlan_random_walk_ops", len(r.hist))
			r.record(fmt.Sprintf("walk-%d-%d", gi, w))
			if w == 0 {
				h := r.history()
				if len(h) > 40 {
					h = h[:40]
				}
				run.Sample(map[string]any{"component": vlanComp, "kind": "random-walk (first 40 ops)", "geometry": g.String(), "history": h})
			}
		}
	}
	lc.flush()
}
