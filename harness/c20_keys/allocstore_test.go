package c20

import (
	"context"
	"encoding/json"
	"errors"
	"fmt"
	"net"
	"sort"
	"strings"
	"sync/atomic"
	"testing"

	"github.com/codelaboratoryltd/bng/pkg/allocator"
)

// ---------------------------------------------------------------------------
// allocator.MemoryAllocationStore: (pool, subscriber) <-> address, an API that can refuse a conflict:
// full bijection model.

const asComp = "allocator.MemoryAllocationStore"

type asHolder struct{ pool, sub string }

type asSym struct {
	kind      int // 0 save, 1 remove, 2 JSON round trip
	pool, sub string
	ip        string
}

type asRun struct {
	s      *allocator.MemoryAllocationStore
	model  map[asHolder]string
	hist   []logEntry
	last   string
	bad    bool
	reuse  bool
	ever   map[string]asHolder
	lc     *localCounts
	pools  []string
	subs   []string
	ips    []string
	reload int
}

func newAsRun(lc *localCounts, pools, subs, ips []string) *asRun {
	return &asRun{s: allocator.NewMemoryAllocationStore(), model: map[asHolder]string{}, ever: map[string]asHolder{}, lc: lc, pools: pools, subs: subs, ips: ips}
}
func (r *asRun) logf(f string, a ...any) { r.hist = append(r.hist, logEntry{f, a}) }
func (r *asRun) fail(component, rule, what string) {
	r.bad = true
	violate(component, rule, "after-"+r.last, what, fmtLog(r.hist), nil)
}
func (r *asRun) holderOf(ip string) (asHolder, bool) {
	for h, v := range r.model {
		if v == ip {
			return h, true
		}
	}
	return asHolder{}, false
}

func cidr32(ip string) *net.IPNet {
	return &net.IPNet{IP: net.ParseIP(ip).To4(), Mask: net.CIDRMask(32, 32)}
}

func (r *asRun) apply(o asSym) {
	ctx := context.Background()
	switch o.kind {
	case 0:
		h := asHolder{o.pool, o.sub}
		other, held := r.holderOf(o.ip)
		old, had := r.model[h]
		r.last = "save"
		switch {
		case held && other != h:
			r.last = "save-address-held-by-other"
		case had && old != o.ip:
			r.last = "save-move"
		case had:
			r.last = "save-same"
		}
		r.lc.count("allocstore_op_"+r.last, 1)
		err := r.s.SaveAllocation(ctx, allocator.AllocationRecord{SubscriberID: o.sub, PoolID: o.pool, PoolType: allocator.PoolTypeIPv4Address, Prefix: cidr32(o.ip), MAC: "02:00:00:00:00:01"})
		r.logf("Save(%s/%s, %s)=%v", o.pool, o.sub, o.ip, err)
		if held && other != h {
			if err == nil {
				r.fail(asComp+".SaveAllocation", "at-most-one-holder", fmt.Sprintf("Save(%s/%s,%s) accepted although %s/%s holds %s", o.pool, o.sub, o.ip, other.pool, other.sub, o.ip))
			} else if !errors.Is(err, allocator.ErrConflict) {
				r.lc.count("allocstore_refusals_other_error", 1)
			}
			return
		}
		if err != nil {
			r.fail(asComp+".SaveAllocation", "released-key-reusable", fmt.Sprintf("Save(%s/%s,%s) refused (%v) although nobody else holds %s", o.pool, o.sub, o.ip, err, o.ip))
			return
		}
		r.model[h] = o.ip
		if prev, ok := r.ever[o.ip]; ok && prev != h {
			r.reuse = true
		}
		r.ever[o.ip] = h
	case 1:
		r.last = "remove"
		r.lc.count("allocstore_op_remove", 1)
		err := r.s.RemoveAllocation(ctx, o.pool, o.sub)
		r.logf("Remove(%s/%s)=%v", o.pool, o.sub, err)
		delete(r.model, asHolder{o.pool, o.sub})
	case 2:
		r.last = "json-round-trip"
		r.lc.count("allocstore_op_json_round_trip", 1)
		b, err := json.Marshal(r.s)
		if err != nil {
			r.logf("MarshalJSON=%v", err)
			r.fail(asComp+".MarshalJSON", "forward-lookup-agrees", fmt.Sprintf("MarshalJSON failed: %v", err))
			return
		}
		n := allocator.NewMemoryAllocationStore()
		if err := json.Unmarshal(b, n); err != nil {
			r.logf("UnmarshalJSON=%v", err)
			r.fail(asComp+".UnmarshalJSON", "forward-lookup-agrees", fmt.Sprintf("UnmarshalJSON of its own output failed: %v", err))
			return
		}
		r.logf("reload through JSON (%d bytes)", len(b))
		r.s = n
		r.reload++
	}
}

func (r *asRun) check() {
	if r.bad {
		return
	}
	ctx := context.Background()
	for _, ip := range r.ips {
		rec, err := r.s.GetByIP(ctx, net.ParseIP(ip))
		h, held := r.holderOf(ip)
		switch {
		case held && (err != nil || rec == nil):
			r.fail(asComp+".GetByIP", "reverse-lookup-agrees", fmt.Sprintf("%s/%s holds %s but GetByIP(%s) fails: %v", h.pool, h.sub, ip, ip, err))
			return
		case held && (rec.SubscriberID != h.sub || rec.PoolID != h.pool || !rec.Prefix.IP.Equal(net.ParseIP(ip))):
			r.fail(asComp+".GetByIP", "reverse-lookup-agrees", fmt.Sprintf("%s/%s holds %s but GetByIP(%s) returns %s/%s %s", h.pool, h.sub, ip, ip, rec.PoolID, rec.SubscriberID, rec.Prefix))
			return
		case !held && err == nil:
			r.fail(asComp+".GetByIP", "lookup-never-returns-removed", fmt.Sprintf("nobody holds %s but GetByIP(%s) returns %s/%s %s", ip, ip, rec.PoolID, rec.SubscriberID, rec.Prefix))
			return
		}
	}
	total := 0
	for _, sub := range r.subs {
		recs, err := r.s.GetBySubscriber(ctx, sub)
		var got, want []string
		for _, rec := range recs {
			got = append(got, rec.PoolID+"="+rec.Prefix.IP.String())
			if rec.SubscriberID != sub {
				r.fail(asComp+".GetBySubscriber", "lookup-returns-own-key", fmt.Sprintf("GetBySubscriber(%s) returns a record of %s", sub, rec.SubscriberID))
				return
			}
		}
		for h, ip := range r.model {
			if h.sub == sub {
				want = append(want, h.pool+"="+ip)
			}
		}
		sort.Strings(got)
		sort.Strings(want)
		if err != nil || strings.Join(got, ",") != strings.Join(want, ",") {
			r.fail(asComp+".GetBySubscriber", "forward-lookup-agrees", fmt.Sprintf("GetBySubscriber(%s) = %v (err %v), the history says %v", sub, got, err, want))
			return
		}
		total += len(got)
	}
	for _, pool := range r.pools {
		recs, err := r.s.GetByPool(ctx, pool)
		var got, want []string
		for _, rec := range recs {
			got = append(got, rec.SubscriberID+"="+rec.Prefix.IP.String())
		}
		for h, ip := range r.model {
			if h.pool == pool {
				want = append(want, h.sub+"="+ip)
			}
		}
		sort.Strings(got)
		sort.Strings(want)
		if err != nil || strings.Join(got, ",") != strings.Join(want, ",") {
			r.fail(asComp+".GetByPool", "forward-lookup-agrees", fmt.Sprintf("GetByPool(%s) = %v (err %v), the history says %v", pool, got, err, want))
			return
		}
	}
	if c := r.s.Count(); c != len(r.model) {
		r.fail(asComp+".Count", "forward-lookup-agrees", fmt.Sprintf("Count()=%d with %d allocations", c, len(r.model)))
	}
}

func (r *asRun) stateKey() string {
	var parts []string
	for h, ip := range r.model {
		parts = append(parts, h.pool+"/"+h.sub+"="+ip)
	}
	sort.Strings(parts)
	return strings.Join(parts, ",")
}

func (r *asRun) record(key string) {
	r.lc.evals++
	r.lc.distinct("allocstore_states", r.stateKey())
	if r.reuse {
		r.lc.count("allocstore_histories_with_reuse", 1)
		r.lc.nontrivial("allocstore|" + key)
	}
}

func TestAllocationStoreExhaustive(t *testing.T) {
	pools, subs, ips := []string{"p0", "p1"}, []string{"a", "b"}, []string{"10.9.0.1", "10.9.0.2", "10.9.0.3"}
	var alpha []asSym
	for _, p := range pools {
		for _, s := range subs {
			for _, ip := range ips {
				alpha = append(alpha, asSym{0, p, s, ip})
			}
			alpha = append(alpha, asSym{1, p, s, ""})
		}
	}
	alpha = append(alpha, asSym{kind: 2})
	depth := run.Pick(4, 5)
	var sampled atomic.Bool
	n := enumerate(len(alpha), depth, nil, func() (histRunner, func()) {
		lc := newLocal()
		return func(h []int) bool {
			r := newAsRun(lc, pools, subs, ips)
			for _, x := range h {
				if r.apply(alpha[x]); r.bad {
					break
				}
			}
			r.check()
			r.record(histKey(h))
			if len(h) == depth && r.reuse && r.reload > 0 && !r.bad && sampled.CompareAndSwap(false, true) {
				run.Sample(map[string]any{"component": asComp, "kind": "exhaustive", "history": fmtLog(r.hist)})
			}
			return !r.bad
		}, lc.flush
	})
	run.Count("allocstore_exhaustive_histories", int(n))
	run.Extra("allocstore_exhaustive_depth", depth)
}

func TestAllocationStoreRandomWalks(t *testing.T) {
	pools, subs := []string{"p0", "p1", "p2"}, []string{"a", "b", "c", "d", "e"}
	var ips []string
	for i := 1; i <= 8; i++ {
		ips = append(ips, fmt.Sprintf("10.9.0.%d", i))
	}
	walks := run.Pick(60, 600)
	lc := newLocal()
	for w := 0; w < walks; w++ {
		rng := run.SubRand("allocstore-walk", w)
		r := newAsRun(lc, pools, subs, ips)
		for i := 0; i < 400 && !r.bad; i++ {
			switch x := rng.IntN(20); {
			case x < 11:
				r.apply(asSym{0, pools[rng.IntN(len(pools))], subs[rng.IntN(len(subs))], ips[rng.IntN(len(ips))]})
			case x < 19:
				r.apply(asSym{1, pools[rng.IntN(len(pools))], subs[rng.IntN(len(subs))], ""})
			default:
				r.apply(asSym{kind: 2})
			}
			r.check()
		}
		run.Count("allocstore_random_walks", 1)
		run.Count("allocstore_random_walk_ops", len(r.hist))
		r.record(fmt.Sprintf("walk-%d", w))
	}
	lc.flush()
}
