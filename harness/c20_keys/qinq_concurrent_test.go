package c20

import (
	"fmt"
	"runtime"
	"strings"
	"sync"
	"sync/atomic"
	"testing"

	"github.com/codelaboratoryltd/bng/pkg/qinq"
)

// ---------------------------------------------------------------------------
// qinq.Mapper under concurrent callers.
//
// The mapper is shared between the provisioning paths (every method takes its lock), so "any history" includes
// histories whose calls overlap. Several callers run short programs of Register / Unregister / UnregisterSubscriber /
// GetVLAN / GetSubscriber on two or three subscribers and three or four pairs, released together by a spin barrier.
// Every call is stamped from one atomic counter before it is made and after it returned (a logical clock: a call whose
// return stamp is below another call's start stamp really returned before the other began).
//
// Oracle: the same subscriber<->pair model the sequential tests use, lifted to overlapping calls in the only way the
// statement allows: there must be SOME order of the calls - respecting each caller's program order and every
// returned-before-started pair - in which every returned value (Register's refusal or acceptance, both lookups) and the
// mappings read back at quiescence are what the model gives. If no order exists, then in whichever order the calls
// took effect some lookup disagreed with the mappings, or a release removed a mapping it was not asked to remove, or a
// registration nobody released is gone. Where the statement leaves freedom (refuse or move a pair somebody else
// holds) the model follows the answer the mapper gave. At quiescence the two directions must agree outright.

const (
	ckReg = iota
	ckUnreg
	ckUnregSub
	ckGetVLAN
	ckGetSub
)

var ckName = [...]string{"Register", "Unregister", "UnregisterSubscriber", "GetVLAN", "GetSubscriber"}

type cop struct {
	kind, p, s int
	// observed
	err       error
	gotP      int // pair index returned by GetVLAN (-1 none, -2 a pair outside the universe)
	gotS      int // subscriber index returned by GetSubscriber (-1 none, -2 unknown name)
	call, ret int64
}

type cstate [4]int8 // subscriber index -> pair index, -1 = no mapping

func (s cstate) holder(p int, n int) int {
	for i := 0; i < n; i++ {
		if int(s[i]) == p {
			return i
		}
	}
	return -1
}

type linCheck struct {
	thr    [][]cop
	nSubs  int
	valid  []bool
	final  *cstate
	seen   map[uint64]struct{}
	finals map[cstate]struct{}
}

// step: is the observed result of o possible in state st, and what is the state afterwards.
func (l *linCheck) step(st cstate, o *cop) (bool, cstate) {
	switch o.kind {
	case ckReg:
		h := st.holder(o.p, l.nSubs)
		switch {
		case !l.valid[o.p]:
			return o.err != nil, st
		case h >= 0 && h != o.s:
			if o.err != nil {
				return true, st // refused: allowed
			}
			st[h] = -1 // moved: allowed; two holders never
			st[o.s] = int8(o.p)
			return true, st
		default:
			if o.err != nil {
				return false, st
			}
			st[o.s] = int8(o.p)
			return true, st
		}
	case ckUnreg:
		if h := st.holder(o.p, l.nSubs); h >= 0 {
			st[h] = -1
		}
		return true, st
	case ckUnregSub:
		st[o.s] = -1
		return true, st
	case ckGetVLAN:
		return o.gotP == int(st[o.s]), st
	default:
		return o.gotS == st.holder(o.p, l.nSubs), st
	}
}

func (l *linCheck) key(pos []int, st cstate) uint64 {
	var k uint64
	for _, p := range pos {
		k = k<<5 | uint64(p)
	}
	for i := 0; i < 4; i++ {
		k = k<<3 | uint64(st[i]+1)
	}
	return k
}

// search explores the orders from (pos, st). With l.final set it stops at the first order that explains everything;
// with l.finals set it collects the mappings every explaining order of the calls alone ends with.
func (l *linCheck) search(pos []int, st cstate) bool {
	k := l.key(pos, st)
	if _, dup := l.seen[k]; dup {
		return false
	}
	l.seen[k] = struct{}{}
	done := true
	for t := range l.thr {
		if pos[t] == len(l.thr[t]) {
			continue
		}
		done = false
		o := &l.thr[t][pos[t]]
		first := true
		for u := range l.thr {
			if u != t && pos[u] < len(l.thr[u]) && l.thr[u][pos[u]].ret < o.call {
				first = false // u's pending call returned before o began: o cannot come first
				break
			}
		}
		if !first {
			continue
		}
		ok, nst := l.step(st, o)
		if !ok {
			continue
		}
		pos[t]++
		r := l.search(pos, nst)
		pos[t]--
		if r {
			return true
		}
	}
	if done {
		if l.finals != nil {
			l.finals[st] = struct{}{}
			return false
		}
		return l.final == nil || st == *l.final
	}
	return false
}

func qinqConcRounds() int { return run.Pick(60000, 600000) }

func TestQinQConcurrentCallers(t *testing.T) {
	cfg := qinq.Config{Enabled: true, STagRanges: []qinq.VLANRange{{Start: 100, End: 101}}, CTagRange: qinq.VLANRange{Start: 10, End: 11}}
	const cfgName = "S100-101/C10-11"
	pairs := []qinq.VLANPair{{STag: 100, CTag: 10}, {STag: 100, CTag: 11}, {STag: 101, CTag: 10}, {STag: 102, CTag: 10}}
	valid := []bool{true, true, true, false}
	subs := []string{"x", "y", "z"}
	pairIdx := map[qinq.VLANPair]int{}
	for i, p := range pairs {
		pairIdx[p] = i
	}
	subIdx := map[string]int{}
	for i, s := range subs {
		subIdx[s] = i
	}

	rounds := qinqConcRounds()
	rng := run.Rand("qinq-conc")
	lc := newLocal()
	defer lc.flush()
	// callers: four long-lived goroutines. Rounds are handed to them in batches; inside a batch the callers meet at a
	// spin barrier before every round (one counter per round), so a round's programs start together and overlap without
	// anybody having to be woken, and a caller the operating system took off its processor delays one round, not all.
	const maxCallers = 4
	const batchN = 64
	type cround struct {
		m      *qinq.Mapper
		thr    [][]cop
		nSubs  int
		pre    []string
		init   cstate
		clock  atomic.Int64
		arrive atomic.Int32
	}
	runProg := func(rd *cround, prog []cop) {
		m, clock, nSubs := rd.m, &rd.clock, rd.nSubs
		for i := range prog {
			o := &prog[i]
			switch o.kind {
			case ckReg:
				o.call = clock.Add(1)
				o.err = m.Register(pairs[o.p], subs[o.s])
				o.ret = clock.Add(1)
			case ckUnreg:
				o.call = clock.Add(1)
				m.Unregister(pairs[o.p])
				o.ret = clock.Add(1)
			case ckUnregSub:
				o.call = clock.Add(1)
				m.UnregisterSubscriber(subs[o.s])
				o.ret = clock.Add(1)
			case ckGetVLAN:
				o.call = clock.Add(1)
				p, ok := m.GetVLAN(subs[o.s])
				o.ret = clock.Add(1)
				o.gotP = -1
				if ok {
					if i, known := pairIdx[p]; known {
						o.gotP = i
					} else {
						o.gotP = -2
					}
				}
			default:
				o.call = clock.Add(1)
				s, ok := m.GetSubscriber(pairs[o.p])
				o.ret = clock.Add(1)
				o.gotS = -1
				if ok {
					if i, known := subIdx[s]; known && i < nSubs {
						o.gotS = i
					} else {
						o.gotS = -2
					}
				}
			}
		}
	}
	var jobs [maxCallers]chan []*cround
	var batchDone, callersGone sync.WaitGroup
	for c := 0; c < maxCallers; c++ {
		jobs[c] = make(chan []*cround)
		callersGone.Add(1)
		go func() {
			defer callersGone.Done()
			for batch := range jobs[c] {
				for _, rd := range batch {
					rd.arrive.Add(1)
					for spin := 1; rd.arrive.Load() < maxCallers; spin++ {
						if spin&0x3fff == 0 {
							runtime.Gosched() // fewer processors than callers: let the others run
						}
					}
					if c < len(rd.thr) {
						runProg(rd, rd.thr[c])
					}
				}
				batchDone.Done()
			}
		}()
	}
	defer func() {
		for c := range jobs {
			close(jobs[c])
		}
		callersGone.Wait()
	}()
	readState := func(m *qinq.Mapper, nSubs int) (cstate, bool) {
		st := cstate{-1, -1, -1, -1}
		for s := 0; s < nSubs; s++ {
			if p, ok := m.GetVLAN(subs[s]); ok {
				i, known := pairIdx[p]
				if !known {
					return st, false
				}
				st[s] = int8(i)
			}
		}
		return st, true
	}
	var sampled bool
	unexplained := 0
	for base := 0; base < rounds; base += batchN {
		batch := make([]*cround, 0, batchN)
		for r := base; r < rounds && r < base+batchN; r++ {
			rd := &cround{nSubs: 2 + rng.IntN(2), m: qinq.NewMapper(cfg)}
			nPairs := 2 + rng.IntN(2) // valid pairs in play
			for s := 0; s < rd.nSubs; s++ {
				if rng.IntN(10) < 7 {
					p := rng.IntN(nPairs)
					err := rd.m.Register(pairs[p], subs[s])
					rd.pre = append(rd.pre, fmt.Sprintf("Register(%s,%s)=%v", pairs[p], subs[s], err))
				}
			}
			var okInit bool
			if rd.init, okInit = readState(rd.m, rd.nSubs); !okInit {
				run.Inconclusive("qinq-concurrent", "initial mappings hold a pair outside the universe")
				return
			}
			rd.thr = make([][]cop, 2+rng.IntN(3))
			for t := range rd.thr {
				rd.thr[t] = make([]cop, 2+rng.IntN(5))
				for i := range rd.thr[t] {
					o := &rd.thr[t][i]
					o.s = rng.IntN(rd.nSubs)
					o.p = rng.IntN(nPairs)
					switch x := rng.IntN(100); {
					case x < 45:
						o.kind = ckReg
						if rng.IntN(25) == 0 {
							o.p = 3 // outside the configured S range
						}
					case x < 60:
						o.kind = ckUnreg
					case x < 80:
						o.kind = ckUnregSub
					case x < 90:
						o.kind = ckGetVLAN
					default:
						o.kind = ckGetSub
					}
				}
			}
			batch = append(batch, rd)
		}
		batchDone.Add(maxCallers)
		for c := range jobs {
			jobs[c] <- batch
		}
		batchDone.Wait()

		for bi, rd := range batch {
			r := base + bi
			m, thr, nSubs, nThr, pre, init := rd.m, rd.thr, rd.nSubs, len(rd.thr), rd.pre, rd.init
			// ---- quiescence: read everything back
			final, okFinal := readState(m, nSubs)
			lc.evals++
			lc.count("qinq_concurrent_rounds", 1)
			render := func() []string {
				out := []string{"config " + cfgName, "before: " + strings.Join(pre, " ; ")}
				for t := range thr {
					var b []string
					for i := range thr[t] {
						o := &thr[t][i]
						var s string
						switch o.kind {
						case ckReg:
							s = fmt.Sprintf("Register(%s,%s)=%v", pairs[o.p], subs[o.s], o.err)
						case ckUnreg:
							s = fmt.Sprintf("Unregister(%s)", pairs[o.p])
						case ckUnregSub:
							s = fmt.Sprintf("UnregisterSubscriber(%s)", subs[o.s])
						case ckGetVLAN:
							v := "none"
							if o.gotP >= 0 {
								v = pairs[o.gotP].String()
							} else if o.gotP == -2 {
								v = "a pair nobody registered"
							}
							s = fmt.Sprintf("GetVLAN(%s)=%s", subs[o.s], v)
						default:
							v := "none"
							if o.gotS >= 0 {
								v = subs[o.gotS]
							} else if o.gotS == -2 {
								v = "a name nobody registered"
							}
							s = fmt.Sprintf("GetSubscriber(%s)=%s", pairs[o.p], v)
						}
						b = append(b, fmt.Sprintf("%s[%d..%d]", s, o.call, o.ret))
					}
					out = append(out, fmt.Sprintf("caller %d: %s", t, strings.Join(b, " ; ")))
				}
				var f []string
				for s := 0; s < nSubs; s++ {
					p, ok := m.GetVLAN(subs[s])
					f = append(f, fmt.Sprintf("GetVLAN(%s)=%s,%v", subs[s], p, ok))
				}
				for p := 0; p < len(pairs); p++ {
					s, ok := m.GetSubscriber(pairs[p])
					f = append(f, fmt.Sprintf("GetSubscriber(%s)=%q,%v", pairs[p], s, ok))
				}
				return append(out, "at quiescence: "+strings.Join(f, " ; "))
			}
			bad := func(component, rule, class, msg string) {
				violate(component, rule, class+"/concurrent-callers", msg, render(), map[string]any{"config": cfgName})
			}
			if !okFinal {
				bad(qinqComp, "in-range", "pair-nobody-registered-at-quiescence", "a subscriber holds a pair no caller ever named")
				continue
			}
			// both directions agree at quiescence, every pair has at most one holder
			agree := true
			seenPair := map[int]int{}
			for s := 0; s < nSubs && agree; s++ {
				if final[s] < 0 {
					continue
				}
				p := int(final[s])
				if o2, dup := seenPair[p]; dup {
					bad(qinqComp, "at-most-one-holder", "at-quiescence", fmt.Sprintf("pair %s is mapped to %s and to %s after concurrent calls", pairs[p], subs[o2], subs[s]))
					agree = false
					break
				}
				seenPair[p] = s
				if back, ok := m.GetSubscriber(pairs[p]); !ok || back != subs[s] {
					bad(qinqComp+".GetSubscriber", "reverse-lookup-agrees", "at-quiescence", fmt.Sprintf("GetVLAN(%s)=%s but GetSubscriber(%s)=%q,%v after concurrent calls", subs[s], pairs[p], pairs[p], back, ok))
					agree = false
				}
				if !valid[p] {
					bad(qinqComp, "in-range", "at-quiescence", fmt.Sprintf("%s holds %s outside the configured ranges", subs[s], pairs[p]))
					agree = false
				}
			}
			for p := 0; p < len(pairs) && agree; p++ {
				if s, ok := m.GetSubscriber(pairs[p]); ok {
					if fw, ok2 := m.GetVLAN(s); !ok2 || fw != pairs[p] {
						bad(qinqComp+".GetVLAN", "forward-lookup-agrees", "at-quiescence", fmt.Sprintf("GetSubscriber(%s)=%s but GetVLAN(%s)=%s,%v after concurrent calls", pairs[p], s, s, fw, ok2))
						agree = false
					}
				}
			}
			if agree {
				held := 0
				for s := 0; s < nSubs; s++ {
					if final[s] >= 0 {
						held++
					}
				}
				if st := m.Stats(); st.TotalMappings != held {
					bad(qinqComp+".Stats", "reverse-lookup-agrees", "at-quiescence", fmt.Sprintf("Stats.TotalMappings=%d with %d subscribers mapped after concurrent calls", st.TotalMappings, held))
					agree = false
				}
			}

			// ---- what was observed: calls of different callers that were not ordered by the clock
			relOverReg, anyOverlap := 0, 0
			for t := range thr {
				for i := range thr[t] {
					a := &thr[t][i]
					for u := t + 1; u < len(thr); u++ {
						for j := range thr[u] {
							b := &thr[u][j]
							if a.ret < b.call || b.ret < a.call {
								continue
							}
							anyOverlap++
							ra, rb := a.kind == ckUnreg || a.kind == ckUnregSub, b.kind == ckUnreg || b.kind == ckUnregSub
							if (ra && b.kind == ckReg && b.err == nil) || (rb && a.kind == ckReg && a.err == nil) {
								relOverReg++
							}
						}
					}
				}
			}
			lc.count("qinq_concurrent_calls", func() int {
				n := 0
				for t := range thr {
					n += len(thr[t])
				}
				return n
			}())
			lc.count("qinq_concurrent_pairs_of_calls_not_ordered_by_the_clock", anyOverlap)
			lc.count("qinq_concurrent_release_overlapping_an_accepted_register", relOverReg)
			if relOverReg > 0 {
				lc.count("qinq_concurrent_rounds_with_release_overlapping_register", 1)
				var sig strings.Builder
				for t := range thr {
					for i := range thr[t] {
						o := &thr[t][i]
						fmt.Fprintf(&sig, "%d%d%d", o.kind, o.p, o.s)
					}
					sig.WriteByte('/')
				}
				lc.nontrivial(fmt.Sprintf("qinqconc|%d|%v|%s", nSubs, init, sig.String()))
			}
			if !agree {
				continue
			}

			// ---- some order of the calls explains every answer and the mappings left behind
			pos := make([]int, nThr)
			l := &linCheck{thr: thr, nSubs: nSubs, valid: valid, final: &final, seen: map[uint64]struct{}{}}
			if l.search(pos, init) {
				if !sampled && relOverReg > 0 && r > rounds/2 {
					sampled = true
					run.Sample(map[string]any{"component": qinqComp, "kind": "concurrent-callers", "history": render()})
				}
				continue
			}
			// no order: say what does not fit
			unexplained++
			l = &linCheck{thr: thr, nSubs: nSubs, valid: valid, seen: map[uint64]struct{}{}, finals: map[cstate]struct{}{}}
			l.search(pos, init)
			if len(l.finals) == 0 {
				bad(qinqComp, "overlapping-calls-take-effect-in-some-order", "returned-values-fit-no-order",
					"no order of the overlapping calls (callers' program order and returned-before-started kept) gives the values Register/GetVLAN/GetSubscriber returned")
				continue
			}
			lost, appeared, differs := -1, -1, -1
			for s := 0; s < nSubs; s++ {
				vals := map[int8]struct{}{}
				for f := range l.finals {
					vals[f[s]] = struct{}{}
				}
				_, fits := vals[final[s]]
				_, noneOK := vals[-1]
				switch {
				case fits:
				case final[s] < 0:
					lost = s
				case len(vals) == 1 && noneOK:
					appeared = s
				default:
					differs = s
				}
			}
			switch {
			case lost >= 0:
				bad(qinqComp, "release-disturbs-no-other-mapping", "registered-mapping-nobody-released-is-gone",
					fmt.Sprintf("in every order of the overlapping calls that explains the returned values %s still holds a pair at the end, yet at quiescence %s has no mapping: a release removed a mapping it was not asked to remove", subs[lost], subs[lost]))
			case appeared >= 0:
				bad(qinqComp, "release-disturbs-no-other-mapping", "released-mapping-still-there",
					fmt.Sprintf("in every order of the overlapping calls that explains the returned values %s holds nothing at the end, yet at quiescence it holds %s", subs[appeared], pairs[final[appeared]]))
			case differs >= 0:
				bad(qinqComp, "overlapping-calls-take-effect-in-some-order", "mapping-at-quiescence-fits-no-order",
					fmt.Sprintf("at quiescence %s holds %s, which no order of the overlapping calls that explains the returned values ends with", subs[differs], pairs[final[differs]]))
			default:
				bad(qinqComp, "overlapping-calls-take-effect-in-some-order", "mappings-at-quiescence-fit-no-order-together",
					"each subscriber's mapping at quiescence is possible on its own, but no single order of the overlapping calls that explains the returned values ends with all of them")
			}
		}
	}
	t.Logf("rounds no order of the calls explains: %d of %d", unexplained, rounds)
}
