package c20

import (
	"context"
	"fmt"
	"net"
	"sort"
	"strings"
	"sync"
	"sync/atomic"
	"testing"
	"testing/synctest"
	"time"

	"go.uber.org/zap"

	"github.com/codelaboratoryltd/bng/pkg/state"
	"github.com/codelaboratoryltd/bng/pkg/subscriber"
)

// ---------------------------------------------------------------------------
// primary map + secondary indexes (state.Store leases / sessions / subscribers, subscriber.Manager)
//
// Oracle (DESIGN C20, weaker form for stores whose API cannot refuse a duplicate key):
//  (1) a lookup never returns a removed object, nor an object whose own key differs from the one asked for;
//  (2) whenever exactly one live object carries a key, the lookup by that key returns that object;
//  (3) lookup by id returns exactly the live objects.
// Where the API refuses duplicates (subscriber.Manager by MAC; by IP through the allocator) two live
// holders of one key are a violation as well.

type lookupRes struct {
	found  bool
	nilObj bool
	id     string
	own    map[string]string
}

type idxAdapter interface {
	name() string
	indexes() []string
	create(keys map[string]string, ttl time.Duration) (string, error)
	update(id string, old, keys map[string]string, ttl time.Duration) (bool, error) // supported, err
	remove(id string) error
	byID(id string) lookupRes
	byKey(index, key string) lookupRes
	refuses(index string) bool
	expiryAfterUpdate(old time.Time, ttl time.Duration) time.Time
	component(op, index string) string
	start()
	stop()
}

type idxObj struct {
	id      string
	keys    map[string]string
	live    bool
	seq     int
	expires time.Time // zero: never
}

type idxRun struct {
	a           idxAdapter
	univ        map[string][]string
	objs        []*idxObj
	hist        []logEntry
	lastOp      string
	lastObj     *idxObj
	lastOld     map[string]string
	lastRemoved []*idxObj // every object the last op removed (a cleanup sweep may remove several)
	dirty       map[string]bool
	keyChanged  map[string]bool
	bad         bool
	shared      bool
	reuse       bool
	ever        map[string]string
	lc          *localCounts
}

func newIdxRun(a idxAdapter, univ map[string][]string, lc *localCounts) *idxRun {
	return &idxRun{a: a, univ: univ, dirty: map[string]bool{}, keyChanged: map[string]bool{}, ever: map[string]string{}, lc: lc}
}

func (r *idxRun) logf(f string, a ...any) { r.hist = append(r.hist, logEntry{f, a}) }

func (r *idxRun) fail(component, rule, class, what string, fatal bool) {
	if fatal {
		r.bad = true
	}
	violate(component, rule, class, what, fmtLog(r.hist), map[string]any{"store": r.a.name()})
}

func (r *idxRun) holders(index, key string, except *idxObj) []*idxObj {
	var out []*idxObj
	for _, o := range r.objs {
		if o.live && o != except && o.keys[index] == key {
			out = append(out, o)
		}
	}
	return out
}

func keysStr(k map[string]string) string {
	var parts []string
	for i, v := range k {
		if v != "" {
			parts = append(parts, i+"="+v)
		}
	}
	sort.Strings(parts)
	return strings.Join(parts, ",")
}

func (r *idxRun) noteKeys(o *idxObj) {
	for idx, k := range o.keys {
		if k == "" {
			continue
		}
		if len(r.holders(idx, k, o)) > 0 {
			r.shared = true
		}
		if prev, ok := r.ever[idx+"="+k]; ok && prev != o.id {
			r.reuse = true
		}
		r.ever[idx+"="+k] = o.id
	}
}

func (r *idxRun) create(keys map[string]string, ttl time.Duration) {
	r.lastOp, r.lastObj, r.lastOld, r.lastRemoved = "create", nil, nil, nil
	r.lc.count(r.a.name()+"_op_create", 1)
	id, err := r.a.create(keys, ttl)
	r.logf("create(%s)=%s,%v", keysStr(keys), short(id), err)
	if err != nil {
		// a refusal is acceptable only where the API refuses duplicates and a live object holds one of the keys
		justified := false
		for idx, k := range keys {
			if k != "" && r.a.refuses(idx) && len(r.holders(idx, k, nil)) > 0 {
				justified = true
			}
		}
		if !justified {
			r.fail(r.a.component("create", ""), "released-key-reusable", "create-refused-without-live-holder", fmt.Sprintf("create(%s) refused (%v) although no live object holds any of its keys", keysStr(keys), err), true)
		}
		return
	}
	o := &idxObj{id: id, keys: keys, live: true, seq: len(r.objs)}
	if ttl > 0 {
		o.expires = time.Now().Add(ttl)
	}
	for idx, k := range keys {
		if k != "" && r.a.refuses(idx) {
			if h := r.holders(idx, k, nil); len(h) > 0 {
				r.objs = append(r.objs, o)
				r.fail(r.a.component("create", idx), "at-most-one-holder", idx+":create-accepted-held-key", fmt.Sprintf("create(%s) accepted although live object %s holds %s=%s", keysStr(keys), short(h[0].id), idx, k), true)
				return
			}
		}
	}
	r.objs = append(r.objs, o)
	r.lastObj = o
	r.noteKeys(o)
}

func (r *idxRun) update(slot int, index, key string, ttl time.Duration) {
	if slot >= len(r.objs) || !r.objs[slot].live {
		return
	}
	o := r.objs[slot]
	nk := map[string]string{}
	for i, v := range o.keys {
		nk[i] = v
	}
	nk[index] = key
	r.lastOp, r.lastObj, r.lastOld, r.lastRemoved = "update-"+index, o, o.keys, nil
	if o.keys[index] == key {
		r.lastOp = "update-same-" + index
	}
	sup, err := r.a.update(o.id, o.keys, nk, ttl)
	if !sup {
		r.lastOp = "none"
		return
	}
	r.lc.count(r.a.name()+"_op_"+r.lastOp, 1)
	r.logf("update(%s: %s -> %s)=%v", short(o.id), keysStr(o.keys), keysStr(nk), err)
	if err != nil {
		justified := r.a.refuses(index) && len(r.holders(index, key, o)) > 0
		if !justified {
			r.fail(r.a.component("update", index), "released-key-reusable", index+":update-refused-without-live-holder", fmt.Sprintf("update of %s to %s=%s refused (%v) although no other live object holds it", short(o.id), index, key, err), true)
		}
		return
	}
	if r.a.refuses(index) {
		if h := r.holders(index, key, o); len(h) > 0 {
			r.fail(r.a.component("update", index), "at-most-one-holder", index+":update-accepted-held-key", fmt.Sprintf("update of %s to %s=%s accepted although live object %s holds it", short(o.id), index, key, short(h[0].id)), true)
			return
		}
	}
	if o.keys[index] != key {
		r.keyChanged[index] = true
	}
	o.keys = nk
	o.expires = r.a.expiryAfterUpdate(o.expires, ttl)
	r.noteKeys(o)
}

func (r *idxRun) remove(slot int) {
	if slot >= len(r.objs) {
		return
	}
	o := r.objs[slot]
	r.lastOp, r.lastObj, r.lastOld, r.lastRemoved = "delete", o, o.keys, []*idxObj{o}
	if !o.live {
		r.lastOp = "delete-again"
	}
	r.lc.count(r.a.name()+"_op_"+r.lastOp, 1)
	err := r.a.remove(o.id)
	r.logf("delete(%s)=%v", short(o.id), err)
	if o.live && err != nil {
		r.fail(r.a.component("delete", ""), "forward-lookup-agrees", "delete-of-live-object-refused", fmt.Sprintf("delete(%s) of a live object failed: %v", short(o.id), err), true)
		return
	}
	o.live = false
}

// sweep marks the objects that a background cleanup removed (observed through lookup by id).
func (r *idxRun) sweep(what string) {
	now := time.Now()
	gone := 0
	r.lastRemoved = nil
	for _, o := range r.objs {
		if !o.live {
			continue
		}
		if res := r.a.byID(o.id); !res.found {
			if o.expires.IsZero() || now.Before(o.expires) {
				r.lastOp = what
				r.fail(r.a.component("cleanup", ""), "no-other-mapping-disturbed", "unexpired-object-removed", fmt.Sprintf("%s is gone after %s although it expires at +%s", short(o.id), what, o.expires.Sub(now)), true)
				return
			}
			o.live = false
			r.lastOp, r.lastObj, r.lastOld = what, o, o.keys
			r.lastRemoved = append(r.lastRemoved, o)
			gone++
		}
	}
	r.lc.count(r.a.name()+"_expired_objects", gone)
}

func short(id string) string {
	if len(id) > 8 {
		return id[:8]
	}
	return id
}

// blame names the mutator that the inconsistency is attributed to and a coarse witness class:
// once a successful update has changed the key of this index in the history, the update path is blamed
// (stores that do not re-index on update produce many different symptoms afterwards); otherwise the last op.
func (r *idxRun) blame(index, key string, holder *idxObj) (string, string) {
	if r.keyChanged[index] {
		return r.a.component("update", index), index + ":key-changing-update-breaks-index"
	}
	op := r.lastOp
	switch {
	case strings.HasPrefix(op, "delete"), strings.HasPrefix(op, "cleanup"):
		kind := "delete"
		if strings.HasPrefix(op, "cleanup") {
			kind = "cleanup"
		}
		for _, x := range r.lastRemoved {
			if holder != nil && x != holder && x.keys[index] == key {
				return r.a.component(kind, index), index + ":removal-drops-key-shared-with-live-holder"
			}
		}
		return r.a.component(kind, index), index + ":after-" + kind
	case op == "create":
		return r.a.component("create", index), index + ":after-create"
	}
	return r.a.component("get", index), index + ":after-" + op
}

func (r *idxRun) check() {
	if r.bad {
		return
	}
	// (3) by id
	for _, o := range r.objs {
		res := r.a.byID(o.id)
		switch {
		case o.live && (!res.found || res.nilObj || res.id != o.id):
			r.fail(r.a.component("get", "id"), "forward-lookup-agrees", "id:after-"+r.lastOp, fmt.Sprintf("live object %s is not returned by its id (found=%v)", short(o.id), res.found), true)
			return
		case !o.live && res.found:
			r.fail(r.a.component("get", "id"), "lookup-never-returns-removed", "id:after-"+r.lastOp, fmt.Sprintf("removed object %s is still returned by its id", short(o.id)), true)
			return
		case o.live:
			for idx, k := range o.keys {
				if res.own[idx] != k {
					r.fail(r.a.component("get", "id"), "forward-lookup-agrees", "id:after-"+r.lastOp, fmt.Sprintf("object %s read by id carries %s=%q, the history says %q", short(o.id), idx, res.own[idx], k), true)
					return
				}
			}
		}
	}
	// (1) and (2) by key
	for _, idx := range r.a.indexes() {
		for _, k := range r.univ[idx] {
			h := r.holders(idx, k, nil)
			res := r.a.byKey(idx, k)
			dk := idx + "=" + k
			problem, rule := "", ""
			var holder *idxObj
			if len(h) == 1 {
				holder = h[0]
			}
			if res.found {
				var who *idxObj
				for _, o := range r.objs {
					if o.id == res.id {
						who = o
					}
				}
				switch {
				case res.nilObj:
					problem, rule = fmt.Sprintf("lookup %s=%s reports success with a nil object (index entry outlived its object)", idx, k), "lookup-never-returns-removed"
				case who == nil || !who.live:
					problem, rule = fmt.Sprintf("lookup %s=%s returns removed object %s", idx, k, short(res.id)), "lookup-never-returns-removed"
				case res.own[idx] != k:
					problem, rule = fmt.Sprintf("lookup %s=%s returns object %s whose own %s is %q", idx, k, short(res.id), idx, res.own[idx]), "lookup-returns-own-key"
				}
			}
			if problem == "" && holder != nil && (!res.found || res.id != holder.id) {
				problem, rule = fmt.Sprintf("object %s is the only live object with %s=%s but the lookup returns %s", short(holder.id), idx, k, describeRes(res)), "sole-holder-found"
			}
			if problem == "" && len(h) > 1 && r.a.refuses(idx) {
				problem, rule = fmt.Sprintf("%d live objects carry %s=%s", len(h), idx, k), "at-most-one-holder"
			}
			if problem == "" {
				delete(r.dirty, dk)
				continue
			}
			if r.dirty[dk] {
				continue
			}
			r.dirty[dk] = true
			comp, class := r.blame(idx, k, holder)
			r.fail(comp, rule, class, problem, false)
		}
	}
}

func describeRes(res lookupRes) string {
	switch {
	case !res.found:
		return "not found"
	case res.nilObj:
		return "success with nil object"
	}
	return "object " + short(res.id)
}

func (r *idxRun) stateKey() string {
	var parts []string
	for _, o := range r.objs {
		if o.live {
			parts = append(parts, keysStr(o.keys))
		}
	}
	sort.Strings(parts)
	return r.a.name() + "|" + strings.Join(parts, ";")
}

func (r *idxRun) record(key string) {
	r.lc.evals++
	r.lc.distinct("index_states", r.stateKey())
	if r.shared {
		r.lc.count(r.a.name()+"_histories_two_objects_one_key", 1)
	}
	if r.reuse {
		r.lc.count(r.a.name()+"_histories_with_key_reuse", 1)
	}
	if r.shared || r.reuse {
		r.lc.nontrivial("idx|" + r.a.name() + "|" + key)
	}
}

// ---------------------------------------------------------------------------
// adapters

var nop = zap.NewNop()

func parseMAC(s string) net.HardwareAddr {
	if s == "" {
		return nil
	}
	m, _ := net.ParseMAC(s)
	return m
}
func parseIP(s string) net.IP {
	if s == "" {
		return nil
	}
	return net.ParseIP(s)
}
func ipStr(ip net.IP) string {
	if ip == nil {
		return ""
	}
	return ip.String()
}
func macStr(m net.HardwareAddr) string {
	if m == nil {
		return ""
	}
	return m.String()
}

func storeCfg() state.Config {
	c := state.DefaultConfig()
	c.LeaseCleanupInterval = 10 * time.Second
	c.SessionCleanupInterval = 10 * time.Second
	c.NATCleanupInterval = time.Hour
	return c
}

// --- state.Store leases
type leaseAd struct{ s *state.Store }

func (a *leaseAd) name() string      { return "state_leases" }
func (a *leaseAd) indexes() []string { return []string{"ip", "mac"} }
func (a *leaseAd) refuses(string) bool {
	return false
}
func (a *leaseAd) component(op, idx string) string {
	switch {
	case op == "get" && idx == "ip":
		return "state.Store.GetLeaseByIP"
	case op == "get" && idx == "mac":
		return "state.Store.GetLeaseByMAC"
	case op == "get":
		return "state.Store.GetLease"
	case op == "cleanup":
		return "state.Store.cleanupExpiredLeases"
	}
	return "state.Store." + map[string]string{"create": "CreateLease", "update": "UpdateLease", "delete": "DeleteLease"}[op]
}
func (a *leaseAd) mk(id string, k map[string]string, ttl time.Duration) *state.Lease {
	l := &state.Lease{ID: id, IPv4: parseIP(k["ip"]), MAC: parseMAC(k["mac"]), PoolID: "p", State: state.LeaseStateBound, ExpiresAt: time.Now().Add(24 * time.Hour)}
	if ttl > 0 {
		l.ExpiresAt = time.Now().Add(ttl)
	}
	return l
}
func (a *leaseAd) create(k map[string]string, ttl time.Duration) (string, error) {
	l := a.mk("", k, ttl)
	err := a.s.CreateLease(l)
	return l.ID, err
}
func (a *leaseAd) update(id string, _, k map[string]string, ttl time.Duration) (bool, error) {
	return true, a.s.UpdateLease(a.mk(id, k, ttl))
}
func (a *leaseAd) remove(id string) error { return a.s.DeleteLease(id) }
func (a *leaseAd) res(l *state.Lease, err error) lookupRes {
	if err != nil {
		return lookupRes{}
	}
	if l == nil {
		return lookupRes{found: true, nilObj: true}
	}
	return lookupRes{found: true, id: l.ID, own: map[string]string{"ip": ipStr(l.IPv4), "mac": macStr(l.MAC)}}
}
func (a *leaseAd) byID(id string) lookupRes { return a.res(a.s.GetLease(id)) }
func (a *leaseAd) byKey(idx, k string) lookupRes {
	if idx == "ip" {
		return a.res(a.s.GetLeaseByIP(parseIP(k)))
	}
	return a.res(a.s.GetLeaseByMAC(parseMAC(k)))
}
func (a *leaseAd) expiryAfterUpdate(_ time.Time, ttl time.Duration) time.Time {
	if ttl > 0 {
		return time.Now().Add(ttl)
	}
	return time.Time{}
}
func (a *leaseAd) start() { a.s.Start() }
func (a *leaseAd) stop()  { a.s.Stop() }

// --- state.Store sessions
type sessAd struct{ s *state.Store }

func (a *sessAd) name() string        { return "state_sessions" }
func (a *sessAd) indexes() []string   { return []string{"ip", "mac"} }
func (a *sessAd) refuses(string) bool { return false }
func (a *sessAd) component(op, idx string) string {
	switch {
	case op == "get" && idx == "ip":
		return "state.Store.GetSessionByIP"
	case op == "get" && idx == "mac":
		return "state.Store.GetSessionByMAC"
	case op == "get":
		return "state.Store.GetSession"
	case op == "cleanup":
		return "state.Store.cleanupIdleSessions"
	}
	return "state.Store." + map[string]string{"create": "CreateSession", "update": "UpdateSession", "delete": "DeleteSession"}[op]
}
func (a *sessAd) create(k map[string]string, ttl time.Duration) (string, error) {
	s := &state.Session{IPv4: parseIP(k["ip"]), MAC: parseMAC(k["mac"]), SessionTimeout: ttl}
	err := a.s.CreateSession(s)
	return s.ID, err
}
func (a *sessAd) update(id string, _, k map[string]string, ttl time.Duration) (bool, error) {
	old, err := a.s.GetSession(id)
	if err != nil {
		return true, err
	}
	n := *old // UpdateSession replaces the stored object; timing fields are carried over
	n.IPv4, n.MAC = parseIP(k["ip"]), parseMAC(k["mac"])
	return true, a.s.UpdateSession(&n)
}
func (a *sessAd) remove(id string) error { return a.s.DeleteSession(id) }
func (a *sessAd) res(s *state.Session, err error) lookupRes {
	if err != nil {
		return lookupRes{}
	}
	if s == nil {
		return lookupRes{found: true, nilObj: true}
	}
	return lookupRes{found: true, id: s.ID, own: map[string]string{"ip": ipStr(s.IPv4), "mac": macStr(s.MAC)}}
}
func (a *sessAd) byID(id string) lookupRes { return a.res(a.s.GetSession(id)) }
func (a *sessAd) byKey(idx, k string) lookupRes {
	if idx == "ip" {
		return a.res(a.s.GetSessionByIP(parseIP(k)))
	}
	return a.res(a.s.GetSessionByMAC(parseMAC(k)))
}
func (a *sessAd) expiryAfterUpdate(old time.Time, _ time.Duration) time.Time { return old }
func (a *sessAd) start()                                                     { a.s.Start() }
func (a *sessAd) stop()                                                      { a.s.Stop() }

// --- state.Store subscribers (indexes: NTE id, MAC)
type subAd struct{ s *state.Store }

func (a *subAd) name() string        { return "state_subscribers" }
func (a *subAd) indexes() []string   { return []string{"nte", "mac"} }
func (a *subAd) refuses(string) bool { return false }
func (a *subAd) component(op, idx string) string {
	switch {
	case op == "get" && idx == "nte":
		return "state.Store.GetSubscriberByNTE"
	case op == "get" && idx == "mac":
		return "state.Store.GetSubscriberByMAC"
	case op == "get":
		return "state.Store.GetSubscriber"
	}
	return "state.Store." + map[string]string{"create": "CreateSubscriber", "update": "UpdateSubscriber", "delete": "DeleteSubscriber"}[op]
}
func (a *subAd) create(k map[string]string, _ time.Duration) (string, error) {
	s := &state.Subscriber{NTEID: k["nte"], MAC: parseMAC(k["mac"])}
	err := a.s.CreateSubscriber(s)
	return s.ID, err
}
func (a *subAd) update(id string, _, k map[string]string, _ time.Duration) (bool, error) {
	return true, a.s.UpdateSubscriber(&state.Subscriber{ID: id, NTEID: k["nte"], MAC: parseMAC(k["mac"])})
}
func (a *subAd) remove(id string) error { return a.s.DeleteSubscriber(id) }
func (a *subAd) res(s *state.Subscriber, err error) lookupRes {
	if err != nil {
		return lookupRes{}
	}
	if s == nil {
		return lookupRes{found: true, nilObj: true}
	}
	return lookupRes{found: true, id: s.ID, own: map[string]string{"nte": s.NTEID, "mac": macStr(s.MAC)}}
}
func (a *subAd) byID(id string) lookupRes { return a.res(a.s.GetSubscriber(id)) }
func (a *subAd) byKey(idx, k string) lookupRes {
	if idx == "nte" {
		return a.res(a.s.GetSubscriberByNTE(k))
	}
	return a.res(a.s.GetSubscriberByMAC(parseMAC(k)))
}
func (a *subAd) expiryAfterUpdate(old time.Time, _ time.Duration) time.Time { return old }
func (a *subAd) start()                                                     {}
func (a *subAd) stop()                                                      {}

// --- subscriber.Manager with a correct harness allocator: pool "pool-<ip>" holds exactly that address;
// a session holds at most one IPv4 address (asking from another pool hands the old one back).
type oneAddrAllocator struct {
	mu     sync.Mutex
	holder map[string]string // ip -> session id
}

func (p *oneAddrAllocator) AllocateIPv4(_ context.Context, s *subscriber.Session, poolID string) (net.IP, net.IPMask, net.IP, error) {
	p.mu.Lock()
	defer p.mu.Unlock()
	ip := strings.TrimPrefix(poolID, "pool-")
	if h, ok := p.holder[ip]; ok && h != s.ID {
		return nil, nil, nil, fmt.Errorf("pool %s exhausted", poolID)
	}
	for k, h := range p.holder {
		if h == s.ID && k != ip {
			delete(p.holder, k)
		}
	}
	p.holder[ip] = s.ID
	return net.ParseIP(ip).To4(), net.CIDRMask(24, 32), net.ParseIP("10.0.0.254").To4(), nil
}
func (p *oneAddrAllocator) AllocateIPv6(context.Context, *subscriber.Session, string) (net.IP, *net.IPNet, error) {
	return nil, nil, fmt.Errorf("no IPv6 pool")
}
func (p *oneAddrAllocator) ReleaseIPv4(_ context.Context, ip net.IP) error {
	p.mu.Lock()
	defer p.mu.Unlock()
	delete(p.holder, ip.String())
	return nil
}
func (p *oneAddrAllocator) ReleaseIPv6(context.Context, net.IP) error { return nil }

type mgrAd struct{ m *subscriber.Manager }

func newMgrAd(idle time.Duration) *mgrAd {
	cfg := subscriber.DefaultManagerConfig()
	cfg.CleanupInterval = 10 * time.Second
	cfg.DefaultIdleTimeout = idle
	cfg.DefaultSessionTimeout = 0
	return &mgrAd{subscriber.NewManager(cfg, nil, &oneAddrAllocator{holder: map[string]string{}}, nop)}
}
func (a *mgrAd) name() string        { return "subscriber_manager" }
func (a *mgrAd) indexes() []string   { return []string{"ip", "mac"} }
func (a *mgrAd) refuses(string) bool { return true }
func (a *mgrAd) component(op, idx string) string {
	switch {
	case op == "get" && idx == "ip":
		return "subscriber.Manager.GetSessionByIP"
	case op == "get" && idx == "mac":
		return "subscriber.Manager.GetSessionByMAC"
	case op == "get":
		return "subscriber.Manager.GetSession"
	case op == "cleanup":
		return "subscriber.Manager.cleanupExpiredSessions"
	}
	return "subscriber.Manager." + map[string]string{"create": "CreateSession", "update": "AssignAddress", "delete": "TerminateSession"}[op]
}
func (a *mgrAd) create(k map[string]string, _ time.Duration) (string, error) {
	s, err := a.m.CreateSession(context.Background(), &subscriber.SessionRequest{MAC: parseMAC(k["mac"]), Type: subscriber.SessionTypeIPoE})
	if err != nil {
		return "", err
	}
	if k["ip"] != "" {
		if err := a.m.AssignAddress(context.Background(), s.ID, "pool-"+k["ip"], ""); err != nil {
			a.m.TerminateSession(context.Background(), s.ID, subscriber.TerminateAdminReset)
			return "", err
		}
	}
	return s.ID, nil
}
func (a *mgrAd) update(id string, old, k map[string]string, _ time.Duration) (bool, error) {
	if old["mac"] != k["mac"] || k["ip"] == "" {
		return false, nil // a session's MAC cannot be changed; an address cannot be taken away
	}
	return true, a.m.AssignAddress(context.Background(), id, "pool-"+k["ip"], "")
}
func (a *mgrAd) remove(id string) error {
	return a.m.TerminateSession(context.Background(), id, subscriber.TerminateAdminReset)
}
func (a *mgrAd) res(s *subscriber.Session, ok bool) lookupRes {
	if !ok {
		return lookupRes{}
	}
	if s == nil {
		return lookupRes{found: true, nilObj: true}
	}
	return lookupRes{found: true, id: s.ID, own: map[string]string{"ip": ipStr(s.IPv4), "mac": macStr(s.MAC)}}
}
func (a *mgrAd) byID(id string) lookupRes { return a.res(a.m.GetSession(id)) }
func (a *mgrAd) byKey(idx, k string) lookupRes {
	if idx == "ip" {
		return a.res(a.m.GetSessionByIP(parseIP(k)))
	}
	return a.res(a.m.GetSessionByMAC(parseMAC(k)))
}
func (a *mgrAd) expiryAfterUpdate(old time.Time, _ time.Duration) time.Time { return old }
func (a *mgrAd) start()                                                     { a.m.Start() }
func (a *mgrAd) stop()                                                      { a.m.Stop() }

// ---------------------------------------------------------------------------

var (
	idxIPs  = []string{"10.0.0.1", "10.0.0.2"}
	idxMACs = []string{"02:00:00:00:00:01", "02:00:00:00:00:02"}
)

type idxSym struct {
	kind  int // 0 create, 1 update, 2 delete
	ip    string
	mac   string
	slot  int
	index string
	key   string
}

func idxAlphabet(nteKeys bool) ([]idxSym, map[string][]string) {
	ips, aName := idxIPs, "ip"
	if nteKeys {
		ips, aName = []string{"nte-1", "nte-2"}, "nte"
	}
	var out []idxSym
	for _, ip := range append([]string{""}, ips...) {
		for _, mac := range idxMACs {
			if ip == "" && mac == idxMACs[1] {
				continue
			}
			out = append(out, idxSym{kind: 0, index: aName, ip: ip, mac: mac})
		}
	}
	for slot := 0; slot < 2; slot++ {
		for _, ip := range ips {
			out = append(out, idxSym{kind: 1, slot: slot, index: aName, key: ip})
		}
		for _, mac := range idxMACs {
			out = append(out, idxSym{kind: 1, slot: slot, index: "mac", key: mac})
		}
	}
	for slot := 0; slot < 3; slot++ {
		out = append(out, idxSym{kind: 2, slot: slot})
	}
	return out, map[string][]string{aName: ips, "mac": idxMACs}
}

func (r *idxRun) applySym(s idxSym, ttl time.Duration) {
	switch s.kind {
	case 0:
		r.create(map[string]string{s.index: s.ip, "mac": s.mac}, ttl)
	case 1:
		r.update(s.slot, s.index, s.key, ttl)
	case 2:
		r.remove(s.slot)
	}
}

func idxAdapters() []func() idxAdapter {
	return []func() idxAdapter{
		func() idxAdapter { return &leaseAd{state.NewStore(storeCfg(), nop)} },
		func() idxAdapter { return &sessAd{state.NewStore(storeCfg(), nop)} },
		func() idxAdapter { return &subAd{state.NewStore(storeCfg(), nop)} },
		func() idxAdapter { return newMgrAd(0) },
	}
}

func TestIndexStoresExhaustive(t *testing.T) {
	for ai, mk := range idxAdapters() {
		mk := mk
		name := mk().name()
		alpha, univ := idxAlphabet(name == "state_subscribers")
		depth := run.Pick(4, 6)
		if ai == 0 {
			depth = run.Pick(5, 6)
		}
		var sampled atomic.Bool
		enumerate(len(alpha), depth, nil, func() (histRunner, func()) {
			lc := newLocal()
			return func(h []int) bool {
				r := newIdxRun(mk(), univ, lc)
				for _, x := range h {
					nb := len(r.hist)
					r.applySym(alpha[x], 0)
					if r.bad {
						break
					}
					if len(r.hist) == nb {
						return false // the symbol was not applicable here (no such slot): not a history of its own
					}
					r.check()
				}
				r.record(histKey(h))
				lc.count(name+"_exhaustive_histories", 1)
				if len(h) == depth && r.shared && r.reuse && sampled.CompareAndSwap(false, true) {
					run.Sample(map[string]any{"component": name, "kind": "exhaustive", "history": fmtLog(r.hist)})
				}
				return !r.bad
			}, lc.flush
		})
		run.Extra("index_exhaustive_depth_"+name, depth)
	}
}

// TestIndexStoresTimedWalks runs the background cleanup loops of the stores under virtual time.
func TestIndexStoresTimedWalks(t *testing.T) {
	walks := run.Pick(40, 400)
	lc := newLocal()
	mks := []func() idxAdapter{
		func() idxAdapter { return &leaseAd{state.NewStore(storeCfg(), nop)} },
		func() idxAdapter { return &sessAd{state.NewStore(storeCfg(), nop)} },
	}
	ttls := []time.Duration{0, 15 * time.Second, 35 * time.Second, 90 * time.Second}
	for ai, mk := range mks {
		alpha, univ := idxAlphabet(false)
		for w := 0; w < walks; w++ {
			rng := run.SubRand(fmt.Sprintf("idx-timed-%d", ai), w)
			synctest.Test(t, func(t *testing.T) {
				a := mk()
				a.start()
				defer a.stop()
				r := newIdxRun(a, univ, lc)
				n := 40 + rng.IntN(40)
				for i := 0; i < n && !r.bad; i++ {
					if rng.IntN(5) == 0 {
						d := []time.Duration{5 * time.Second, 11 * time.Second, 21 * time.Second, 40 * time.Second}[rng.IntN(4)]
						time.Sleep(d)
						synctest.Wait()
						r.logf("sleep(%s)", d)
						lc.count(a.name()+"_op_sleep", 1)
						r.sweep("cleanup")
					} else {
						r.applySym(alpha[rng.IntN(len(alpha))], ttls[rng.IntN(len(ttls))])
					}
					r.check()
				}
				run.Count(a.name()+"_timed_walks", 1)
				run.Count(a.name()+"_timed_walk_ops", len(r.hist))
				r.record(fmt.Sprintf("timed-%d-%d", ai, w))
				if w == 0 {
					h := fmtLog(r.hist)
					if len(h) > 25 {
						h = h[:25]
					}
					run.Sample(map[string]any{"component": a.name(), "kind": "timed walk (first 25 ops)", "history": h})
				}
			})
		}
	}
	// subscriber.Manager: idle timeout 30 s, cleanup every 10 s
	alpha, univ := idxAlphabet(false)
	for w := 0; w < walks; w++ {
		rng := run.SubRand("idx-timed-mgr", w)
		synctest.Test(t, func(t *testing.T) {
			a := newMgrAd(30 * time.Second)
			a.start()
			defer a.stop()
			r := newIdxRun(a, univ, lc)
			n := 40 + rng.IntN(40)
			for i := 0; i < n && !r.bad; i++ {
				switch x := rng.IntN(10); {
				case x < 2:
					d := []time.Duration{5 * time.Second, 11 * time.Second, 21 * time.Second, 45 * time.Second}[rng.IntN(4)]
					time.Sleep(d)
					synctest.Wait()
					r.logf("sleep(%s)", d)
					lc.count(a.name()+"_op_sleep", 1)
					r.sweep("cleanup")
				case x < 4:
					if len(r.objs) > 0 {
						o := r.objs[rng.IntN(len(r.objs))]
						if o.live {
							a.m.UpdateActivity(o.id, 1, 1, 1, 1)
							o.expires = time.Now().Add(30 * time.Second)
							r.logf("UpdateActivity(%s)", short(o.id))
						}
					}
				default:
					before := len(r.objs)
					r.applySym(alpha[rng.IntN(len(alpha))], 0)
					if len(r.objs) > before {
						r.objs[len(r.objs)-1].expires = time.Now().Add(30 * time.Second)
					}
				}
				r.check()
			}
			run.Count(a.name()+"_timed_walks", 1)
			run.Count(a.name()+"_timed_walk_ops", len(r.hist))
			r.record(fmt.Sprintf("timed-mgr-%d", w))
		})
	}
	lc.flush()
}
