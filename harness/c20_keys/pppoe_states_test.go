package c20

import (
	"context"
	"crypto/md5"
	"encoding/binary"
	"errors"
	"fmt"
	"net"
	"strings"
	"sync/atomic"
	"testing"
	"testing/synctest"
	"time"

	"github.com/codelaboratoryltd/bng/pkg/pppoe"
	"github.com/codelaboratoryltd/bng/pkg/radius"
	"go.uber.org/zap"
)

// ---------------------------------------------------------------------------
// Session *states* as a dimension of the PPPoE id histories.
//
// A session stays in the manager's table from CreateSession until RemoveSession / the idle sweep, whatever
// its state: the server leaves sessions behind in LCP negotiation, Authentication, IPCP negotiation,
// Established, Closed (failed PAP: handlePAP sets StateClosed and leaves the entry for the sweep) and
// Terminating (teardown whose fast-path update failed keeps the entry). The oracle is the one of
// pppoe_test.go, unchanged: an id that is in the table identifies one session object (GetSession(id) keeps
// returning it), CreateSession never issues it to somebody else, the MAC index agrees, and removing one
// session leaves every other one where it was - none of which depends on the state of the holder.

var allStates = []pppoe.SessionState{
	pppoe.StateDiscovery, pppoe.StateLCPNegotiation, pppoe.StateAuthentication, pppoe.StateIPCPNegotiation,
	pppoe.StateEstablished, pppoe.StateTerminating, pppoe.StateClosed,
}

func stateName(s pppoe.SessionState) string { return strings.ReplaceAll(s.String(), " ", "") }

var errNoVerdict = errors.New("no verdict")

// noteScan records which occupied ids the free-id search of one CreateSession had to pass over, by the
// state of their holders (counter value before the call -> id issued). Evidence only.
func (r *pppoeRun) noteScan(before, issued uint16) {
	x := before
	for step := 0; step < 24; step++ {
		if x == 0 {
			x = 1
		}
		if x == issued {
			if step > 0 {
				r.lc.count("pppoe_creates_whose_search_passed_over_occupied_ids", 1)
			}
			return
		}
		for _, o := range r.created {
			if o.live && o.id == x {
				r.lc.count("pppoe_search_met_id_held_in_state_"+stateName(o.ptr.GetState()), 1)
				if r.wrapped || issued < before {
					r.lc.count("pppoe_search_after_wrap_met_id_held_in_state_"+stateName(o.ptr.GetState()), 1)
				}
			}
		}
		x++
	}
}

// setState puts a live session into a state through the exported setter (what the server's handlers call).
func (r *pppoeRun) setState(slot int, st pppoe.SessionState) {
	r.last, r.lastRm = "set-state", nil
	if slot >= len(r.created) || !r.created[slot].live {
		r.last = "set-state-none"
		return
	}
	s := r.created[slot]
	s.ptr.SetState(st)
	r.states = true
	r.lc.count("pppoe_op_set_state_"+stateName(st), 1)
	r.logf("session %d.SetState(%s)", s.id, st)
}

func (r *pppoeRun) recordStates(key string) {
	r.record(key)
	for _, s := range r.liveSet() {
		r.lc.count("pppoe_sessions_in_table_at_end_in_state_"+stateName(s.ptr.GetState()), 1)
	}
	if r.states {
		r.lc.count("pppoe_histories_with_state_changes", 1)
		if r.wrapped {
			r.lc.count("pppoe_histories_with_state_changes_and_wrap", 1)
			r.lc.nontrivial("pppoe-states|" + r.tag + "|" + key)
		}
	}
}

// TestPPPoEStateExhaustive: per state S, every history over create(m0..m2), remove(slot 0..3),
// SetState(slot 0..2, S) from setups whose id counter is about to wrap onto ids that are in the table.
func TestPPPoEStateExhaustive(t *testing.T) {
	type setup struct {
		start uint16
		pre   int
	}
	setups := []setup{{65534, 2}, {65535, 1}, {65533, 3}}
	depth := run.Pick(4, 5)
	const nSym = 10
	for _, st := range allStates {
		for _, su := range setups {
			st, su := st, su
			var sampled atomic.Bool
			n := enumerate(nSym, depth, nil, func() (histRunner, func()) {
				lc := newLocal()
				return func(h []int) bool {
					r := newPppoeRun(su.start, su.pre, lc)
					r.tag += ",state=" + stateName(st)
					for _, x := range h {
						switch {
						case x < 3:
							r.create(x)
						case x < 7:
							r.remove(x - 3)
						default:
							r.setState(x-7, st)
						}
						if r.bad {
							break
						}
						r.check()
					}
					r.recordStates(histKey(h))
					if len(h) == depth && r.states && r.wrapped && len(r.liveSet()) >= 3 && sampled.CompareAndSwap(false, true) {
						run.Sample(map[string]any{"component": pppoeComp, "kind": "states, exhaustive", "setup": r.tag, "history": fmtLog(r.hist)})
					}
					return !r.bad
				}, lc.flush
			})
			run.Count("pppoe_state_exhaustive_histories", int(n))
		}
	}
	run.Extra("pppoe_state_exhaustive_depth", depth)
}

// TestPPPoEStateWalks: seeded walks under virtual time mixing create / remove / SetState(any state) /
// teardown through pppoe.SessionTeardown (a failing fast-path update leaves the entry in the table in state
// Terminating, a succeeding one sets Closed and removes it) / UpdateActivity / sleep / CleanupExpired /
// moving the id counter to just below an id that is in the table (the state reached after the ids in
// between were issued and given back by other stations).
func TestPPPoEStateWalks(t *testing.T) {
	walks := run.Pick(400, 4000)
	lc := newLocal()
	const timeout = 60 * time.Second
	deltas := []time.Duration{time.Second, 30 * time.Second, 31 * time.Second, 61 * time.Second}
	for w := 0; w < walks; w++ {
		rng := run.SubRand("pppoe-state-walk", w)
		starts := []uint16{0, 65530, 65533, 65535}
		start := starts[rng.IntN(len(starts))]
		synctest.Test(t, func(t *testing.T) {
			r := newPppoeRun(start, rng.IntN(4), lc)
			r.tag += ",states"
			tdFail := pppoe.NewSessionTeardown(pppoe.DefaultTeardownConfig(), zap.NewNop())
			tdFail.SetSessionManager(r.m)
			tdFail.SetUpdateEBPFMaps(func(*pppoe.Session, bool) error { return errors.New("fast path unavailable") })
			tdOK := pppoe.NewSessionTeardown(pppoe.DefaultTeardownConfig(), zap.NewNop())
			tdOK.SetSessionManager(r.m)
			n := 60 + rng.IntN(60)
			for i := 0; i < n && !r.bad; i++ {
				live := r.liveSet()
				switch x := rng.IntN(100); {
				case x < 25:
					r.create(rng.IntN(3))
				case x < 37:
					r.remove(rng.IntN(len(r.created) + 1))
				case x < 57:
					if len(live) > 0 {
						s := live[rng.IntN(len(live))]
						r.setState(s.seq, allStates[rng.IntN(len(allStates))])
					}
				case x < 63:
					if len(live) > 0 {
						s := live[rng.IntN(len(live))]
						r.last, r.lastRm = "teardown-kept", nil
						err := tdFail.TerminateSession(s.ptr, pppoe.TerminateCauseAdminReset, "")
						r.states = true
						r.logf("teardown(%d) with failing fast path = %v, state %s", s.id, err, s.ptr.GetState())
						lc.count("pppoe_op_teardown_kept_in_table", 1)
					}
				case x < 68:
					if len(live) > 0 {
						s := live[rng.IntN(len(live))]
						r.last, r.lastRm = "teardown", s
						s.live = false
						err := tdOK.TerminateSession(s.ptr, pppoe.TerminateCauseAdminReset, "")
						r.logf("teardown(%d) = %v", s.id, err)
						lc.count("pppoe_op_teardown_removed", 1)
					}
				case x < 80:
					// the counter comes round to an id that is in the table
					if len(live) > 0 {
						s := live[rng.IntN(len(live))]
						v := s.id - uint16(rng.IntN(3))
						r.m.VerifC20SetNextID(v)
						r.wrapped = true
						r.last, r.lastRm = "counter-comes-round", nil
						r.logf("nextID:=%d (next to session %d, state %s)", v, s.id, s.ptr.GetState())
						lc.count("pppoe_op_counter_comes_round_to_state_"+stateName(s.ptr.GetState()), 1)
					}
				case x < 86:
					if len(live) > 0 {
						s := live[rng.IntN(len(live))]
						s.ptr.UpdateActivity()
						s.touch = time.Now()
						r.last, r.lastRm = "touch", nil
						r.logf("UpdateActivity(%d)", s.id)
					}
				case x < 95:
					d := deltas[rng.IntN(len(deltas))]
					time.Sleep(d)
					synctest.Wait()
					r.last, r.lastRm = "sleep", nil
					r.logf("sleep(%s)", d)
				default:
					r.last, r.lastRm = "cleanup-expired", nil
					now := time.Now()
					removed := r.m.CleanupExpired(timeout)
					r.logf("CleanupExpired(%s)=%d", timeout, removed)
					for _, s := range r.liveSet() {
						if r.m.GetSession(s.id) != s.ptr {
							if now.Sub(s.touch) <= timeout {
								r.fail(pppoeComp+".CleanupExpired", "no-other-mapping-disturbed", "active-session-removed",
									fmt.Sprintf("CleanupExpired(%s) removed session %d (state %s) which was active %s ago", timeout, s.id, s.ptr.GetState(), now.Sub(s.touch)), true)
							}
							lc.count("pppoe_sessions_expired_in_state_"+stateName(s.ptr.GetState()), 1)
							s.live = false
							r.lastRm = s
						}
					}
				}
				r.check()
			}
			run.Count("pppoe_state_walks", 1)
			run.Count("pppoe_state_walk_ops", len(r.hist))
			r.recordStates(fmt.Sprintf("state-walk-%d", w))
			if w == 0 {
				h := fmtLog(r.hist)
				if len(h) > 40 {
					h = h[:40]
				}
				run.Sample(map[string]any{"component": pppoeComp, "kind": "state walk (first 40 ops)", "history": h})
			}
		})
	}
	lc.flush()
}

// ---------------------------------------------------------------------------
// the same histories through the real server: the states are the ones its handlers leave behind

const (
	stRadSecret = "c20-secret"
	stGoodPw    = "right"
)

// stRadSrv is a minimal RFC 2865 server: Access-Accept for the good password, Access-Reject otherwise.
type stRadSrv struct {
	conn *net.UDPConn
	port int
}

func newStRadSrv() (*stRadSrv, error) {
	c, err := net.ListenUDP("udp4", &net.UDPAddr{IP: net.IPv4(127, 0, 0, 1)})
	if err != nil {
		return nil, err
	}
	_ = c.SetReadBuffer(1 << 20)
	s := &stRadSrv{conn: c, port: c.LocalAddr().(*net.UDPAddr).Port}
	go s.loop()
	return s, nil
}

func (s *stRadSrv) loop() {
	buf := make([]byte, 4096)
	for {
		n, addr, err := s.conn.ReadFromUDP(buf)
		if err != nil {
			return
		}
		if n < 20 || buf[0] != 1 {
			continue
		}
		l := int(binary.BigEndian.Uint16(buf[2:4]))
		if l < 20 || l > n {
			continue
		}
		reqAuth := append([]byte(nil), buf[4:20]...)
		var pwEnc []byte
		for i := 20; i+2 <= l; {
			al := int(buf[i+1])
			if al < 2 || i+al > l {
				break
			}
			if buf[i] == 2 {
				pwEnc = append([]byte(nil), buf[i+2:i+al]...)
			}
			i += al
		}
		var pw []byte
		prev := reqAuth
		for i := 0; i+16 <= len(pwEnc); i += 16 {
			h := md5.Sum(append([]byte(stRadSecret), prev...))
			for j := 0; j < 16; j++ {
				pw = append(pw, pwEnc[i+j]^h[j])
			}
			prev = pwEnc[i : i+16]
		}
		code := byte(3)
		if strings.TrimRight(string(pw), "\x00") == stGoodPw {
			code = 2
		}
		resp := []byte{code, buf[1], 0, 20}
		h := md5.New()
		h.Write(resp)
		h.Write(reqAuth)
		h.Write([]byte(stRadSecret))
		resp = append(resp, h.Sum(nil)...)
		_, _ = s.conn.WriteToUDP(resp, addr)
	}
}

func stU16(v uint16) []byte { return []byte{byte(v >> 8), byte(v)} }

func stEth(src net.HardwareAddr, et uint16, code byte, sid uint16, payload []byte) []byte {
	f := append(append(append([]byte{}, pppoeServerMAC...), src...), stU16(et)...)
	f = append(f, 0x11, code)
	f = append(f, stU16(sid)...)
	f = append(f, stU16(uint16(len(payload)))...)
	return append(f, payload...)
}

func stTag(t uint16, v []byte) []byte {
	return append(append(stU16(t), stU16(uint16(len(v)))...), v...)
}

func stPPP(proto uint16, code, id byte, data []byte) []byte {
	b := append(stU16(proto), code, id)
	b = append(b, stU16(uint16(4+len(data)))...)
	return append(b, data...)
}

type stServer struct {
	srv    *pppoe.Server
	sock   *pppoe.VerifC04Socket
	cancel context.CancelFunc
	nFrame int
}

func newStServer(radPort int) (*stServer, error) {
	srv, err := pppoe.NewServerWithInterface(pppoe.ServerConfig{
		Interface: "verif0", ACName: "c20-ac", ServiceName: "internet", ServerIP: "10.20.0.1",
		ClientPool: "10.20.0.0/24", PoolGateway: "10.20.0.1", AuthType: "pap", SessionTimeout: time.Hour,
	}, zap.NewNop(), &net.Interface{Index: 7, Name: "verif0", HardwareAddr: pppoeServerMAC, MTU: 1500})
	if err != nil {
		return nil, err
	}
	rc, err := radius.NewClient(radius.ClientConfig{
		Servers: []radius.ServerConfig{{Host: "127.0.0.1", Port: radPort, Secret: stRadSecret}},
		NASID:   "c20-nas", Timeout: 5 * time.Second, Retries: 1,
		RateLimit: radius.RateLimitConfig{RequestsPerSecond: 1e6, BurstSize: 100000},
	}, zap.NewNop())
	if err != nil {
		return nil, err
	}
	srv.SetRADIUSClient(rc)
	s := &stServer{srv: srv, sock: pppoe.VerifC04NewSocket(0)}
	srv.VerifC04SetSocket(s.sock)
	ctx, cancel := context.WithCancel(context.Background())
	s.cancel = cancel
	go srv.VerifC04ReceiveLoop(ctx)
	return s, nil
}

// deliver hands one frame to the real receive loop and returns when its handler has returned (the socket is
// unbuffered: the following runt frame is only taken after the handler of the first one is done).
func (s *stServer) deliver(f []byte) [][]byte {
	s.nFrame++
	s.sock.Inject(f)
	s.sock.Inject([]byte{0})
	return s.sock.Drain()
}

func (s *stServer) stop() {
	s.cancel()
	s.sock.Close()
}

// TestPPPoEServerStates: stations bring sessions up through the real receive loop as far as a randomly chosen
// stage (PADR only -> LCP negotiation; LCP Configure-Ack -> Authentication; PAP with a wrong password ->
// Closed and left in the table; PAP accepted -> IPCP negotiation; IPCP Configure-Ack -> Established), end
// them (PADT / LCP Terminate-Request from the owner), the id counter comes round to the ids in the table
// (VerifC09SetNextSessionID) and further stations send PADR. Judged after every frame by the same clauses on
// the server's own session manager.
func TestPPPoEServerStates(t *testing.T) {
	cases := run.Pick(150, 1500)
	rad, err := newStRadSrv()
	if err != nil {
		run.Inconclusive("pppoe-server-states", "no loopback RADIUS server: "+err.Error())
		return
	}
	defer rad.conn.Close()
	lc := newLocal()
	for c := 0; c < cases; c++ {
		rng := run.SubRand("pppoe-server-states", c)
		sv, err := newStServer(rad.port)
		if err != nil {
			t.Fatal(err)
		}
		sm := sv.srv.VerifC04Sessions()
		r := &pppoeRun{m: sm, dirty: map[int]bool{}, lc: lc, tag: "server"}
		stage := map[*psess]int{} // frames of the bring-up the station has sent after PADR
		r.createFn = func(mac int) (*pppoe.Session, error) {
			tags := append(stTag(0x0101, nil), stTag(0x0104, []byte("cookie"))...)
			tags = append(tags, stTag(0x0103, []byte{byte(sv.nFrame), byte(mac)})...)
			out := sv.deliver(stEth(pppoeMACs[mac], 0x8863, 0x19, 0, tags))
			lc.count("pppoe_server_frames_padr", 1)
			for _, f := range out {
				if len(f) >= 20 && f[12] == 0x88 && f[13] == 0x63 && f[15] == 0x65 {
					id := binary.BigEndian.Uint16(f[16:18])
					s := sm.GetSession(id)
					if s == nil {
						return nil, fmt.Errorf("PADS names id %d which is not in the table", id)
					}
					return s, nil
				}
			}
			return nil, errors.New("PADR not answered with PADS")
		}
		r.removeFn = func(s *psess, id uint16) {
			if s == nil {
				return
			}
			if rng.IntN(2) == 0 {
				sv.deliver(stEth(pppoeMACs[s.mac], 0x8863, 0xa7, id, nil))
				lc.count("pppoe_server_frames_padt", 1)
			} else {
				sv.deliver(stEth(pppoeMACs[s.mac], 0x8864, 0, id, stPPP(0xc021, 5, 9, nil)))
				lc.count("pppoe_server_frames_lcp_term_request", 1)
			}
		}
		advance := func(s *psess) {
			r.last, r.lastRm = "station-frame", nil
			mac := pppoeMACs[s.mac]
			switch stage[s] {
			case 0:
				sv.deliver(stEth(mac, 0x8864, 0, s.id, stPPP(0xc021, 2, 1, nil)))
				r.logf("m%d: LCP Configure-Ack(sid %d) -> %s", s.mac, s.id, s.ptr.GetState())
			case 1:
				pw := stGoodPw
				if rng.IntN(2) == 0 {
					pw = "wrong"
				}
				user := fmt.Sprintf("u%d", s.seq)
				d := append([]byte{byte(len(user))}, user...)
				d = append(append(d, byte(len(pw))), pw...)
				sv.deliver(stEth(mac, 0x8864, 0, s.id, stPPP(0xc023, 1, 2, d)))
				r.logf("m%d: PAP(sid %d, %s) -> %s", s.mac, s.id, pw, s.ptr.GetState())
				if s.ptr.GetState() == pppoe.StateClosed {
					lc.count("pppoe_server_failed_pap_left_closed_session_in_table", 1)
				}
			default:
				sv.deliver(stEth(mac, 0x8864, 0, s.id, stPPP(0x8021, 2, 3, nil)))
				r.logf("m%d: IPCP Configure-Ack(sid %d) -> %s", s.mac, s.id, s.ptr.GetState())
			}
			stage[s]++
			r.states = true
			lc.count("pppoe_server_frames_bring_up", 1)
		}
		if pre := rng.IntN(3); pre == 1 {
			sv.srv.VerifC09SetNextSessionID(uint16(65533 + rng.IntN(3)))
			r.logf("nextID:=%d", sm.VerifC20NextID())
		}
		n := 25 + rng.IntN(25)
		for i := 0; i < n && !r.bad; i++ {
			live := r.liveSet()
			switch x := rng.IntN(100); {
			case x < 28:
				r.create(rng.IntN(3))
			case x < 68:
				if len(live) > 0 {
					advance(live[rng.IntN(len(live))])
				}
			case x < 78:
				if len(live) > 0 {
					r.remove(live[rng.IntN(len(live))].seq)
				}
			default:
				if len(live) > 0 {
					s := live[rng.IntN(len(live))]
					v := s.id - uint16(rng.IntN(3))
					sv.srv.VerifC09SetNextSessionID(v)
					r.wrapped = true
					r.last, r.lastRm = "counter-comes-round", nil
					r.logf("nextID:=%d (next to session %d, state %s)", v, s.id, s.ptr.GetState())
					lc.count("pppoe_server_counter_comes_round_to_state_"+stateName(s.ptr.GetState()), 1)
				}
			}
			r.check()
		}
		sv.stop()
		run.Count("pppoe_server_state_cases", 1)
		r.recordStates(fmt.Sprintf("server-%d", c))
		if c == 0 {
			run.Sample(map[string]any{"component": pppoeComp, "kind": "through pppoe.Server", "history": fmtLog(r.hist)})
		}
	}
	lc.flush()
}
