package c20

import (
	"fmt"
	"runtime"
	"sync"
	"sync/atomic"
	"testing"

	"github.com/codelaboratoryltd/bng/pkg/nexus"
)

// TestVLANConcurrentSameKey: the allocator is called from concurrent provisioning paths (its methods take a lock).
// Several callers asking for the same and for different NTEs at once: afterwards every caller of one NTE was told
// the same pair, Get agrees with what was told, no pair is told to two NTEs, and releasing every NTE returns the
// allocator to empty (no pair stays reserved for nobody).
func TestVLANConcurrentSameKey(t *testing.T) {
	rounds := run.Pick(6000, 30000)
	rng := run.Rand("vlan-conc")
	for r := 0; r < rounds; r++ {
		v := nexus.NewVLANAllocator(nexus.VLANAllocatorConfig{
			STagRange: nexus.VLANRange{Start: 100, End: 101},
			CTagRange: nexus.VLANRange{Start: 10, End: 13},
		})
		nNTE := 1 + rng.IntN(3)
		callers := 2 + rng.IntN(7)
		type told struct {
			nte  string
			s, c uint16
			err  error
		}
		res := make([]told, callers)
		var done sync.WaitGroup
		var ready, goFlag atomic.Int32 // spin barrier: all callers leave together
		for i := 0; i < callers; i++ {
			nte := fmt.Sprintf("nte-%d", i%nNTE)
			i := i
			done.Add(1)
			go func() {
				defer done.Done()
				ready.Add(1)
				for goFlag.Load() == 0 {
				}
				a, err := v.Allocate(nte)
				res[i] = told{nte: nte, err: err}
				if err == nil && a != nil {
					res[i].s, res[i].c = a.STag, a.CTag
				}
			}()
		}
		for int(ready.Load()) < callers {
			runtime.Gosched()
		}
		goFlag.Store(1)
		done.Wait()
		run.Eval()
		run.Count("vlan_concurrent_rounds", 1)
		if callers > nNTE {
			run.Nontrivial(fmt.Sprintf("vlanconc|%d|%d", nNTE, callers))
			run.Count("vlan_concurrent_rounds_with_callers_sharing_an_nte", 1)
		}
		byNTE := map[string][2]uint16{}
		byPair := map[[2]uint16]string{}
		var desc []string
		for _, x := range res {
			desc = append(desc, fmt.Sprintf("Allocate(%s)=%d.%d,%v", x.nte, x.s, x.c, x.err))
		}
		bad := func(rule, cls, msg string) {
			run.Violation("nexus.VLANAllocator.Allocate", rule, cls+"/concurrent-callers", msg, map[string]any{"calls": desc})
		}
		for _, x := range res {
			if x.err != nil {
				continue
			}
			p := [2]uint16{x.s, x.c}
			if q, ok := byNTE[x.nte]; ok && q != p {
				bad("lookup-agrees", "same-nte-told-two-pairs", fmt.Sprintf("%s was told %d.%d and %d.%d by concurrent calls", x.nte, q[0], q[1], p[0], p[1]))
			}
			byNTE[x.nte] = p
			if o, ok := byPair[p]; ok && o != x.nte {
				bad("at-most-one-holder", "pair-told-to-two-ntes", fmt.Sprintf("pair %d.%d told to %s and %s", p[0], p[1], o, x.nte))
			}
			byPair[p] = x.nte
		}
		for nte, p := range byNTE {
			if a, ok := v.Get(nte); !ok || a.STag != p[0] || a.CTag != p[1] {
				bad("lookup-agrees", "get-differs-from-what-a-caller-was-told", fmt.Sprintf("Get(%s)=%v,%v but a caller was told %d.%d", nte, a, ok, p[0], p[1]))
			}
		}
		for i := 0; i < nNTE; i++ {
			v.Release(fmt.Sprintf("nte-%d", i))
		}
		// releasing everything must make every pair obtainable again: 2 x 4 = 8 pairs
		got := 0
		for i := 0; i < 9; i++ {
			if _, err := v.Allocate(fmt.Sprintf("fresh-%d", i)); err == nil {
				got++
			}
		}
		if got != 8 {
			bad("release-makes-reusable", fmt.Sprintf("pairs-lost-%d", 8-got), fmt.Sprintf("after every NTE was released only %d of 8 pairs can be allocated", got))
		}
	}
	run.Floor("vlan_concurrent_rounds_with_callers_sharing_an_nte", 1000)
}
