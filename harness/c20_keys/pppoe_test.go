package c20

import (
	"fmt"
	"net"
	"sort"
	"strings"
	"sync/atomic"
	"testing"
	"testing/synctest"
	"time"

	"github.com/codelaboratoryltd/bng/pkg/pppoe"
)

// ---------------------------------------------------------------------------
// pppoe.SessionManager: session id -> session, MAC -> session

const pppoeComp = "pppoe.SessionManager"

var (
	pppoeServerMAC = net.HardwareAddr{2, 0, 0, 0, 0, 0xfe}
	pppoeMACs      = []net.HardwareAddr{{2, 0, 0, 0, 0, 1}, {2, 0, 0, 0, 0, 2}, {2, 0, 0, 0, 0, 3}}
)

type psess struct {
	ptr   *pppoe.Session
	id    uint16
	mac   int
	live  bool
	seq   int
	touch time.Time
}

type pppoeRun struct {
	m       *pppoe.SessionManager
	start   uint16
	created []*psess
	hist    []logEntry
	last    string
	lastRm  *psess // session removed by the last op
	wrapped bool
	shared  bool
	dirty   map[int]bool
	bad     bool
	lc      *localCounts
	tag     string
	// states extension (pppoe_states_test.go): sessions created / removed through another entry point
	// (a PPPoE server fed frames); nil = the manager's own CreateSession / RemoveSession
	createFn func(mac int) (*pppoe.Session, error)
	removeFn func(s *psess, id uint16)
	states   bool // the history changed the state of a session
}

func newPppoeRun(start uint16, pre int, lc *localCounts) *pppoeRun {
	r := &pppoeRun{m: pppoe.NewSessionManager(), start: start, dirty: map[int]bool{}, lc: lc, tag: fmt.Sprintf("start=%d,pre=%d", start, pre)}
	// pre live sessions with ids 1..pre (MAC m2), then the counter is preset
	for i := 0; i < pre; i++ {
		r.create(2)
	}
	if start != 0 {
		r.m.VerifC20SetNextID(start)
		r.logf("nextID:=%d", start)
	}
	return r
}

func (r *pppoeRun) logf(f string, a ...any) { r.hist = append(r.hist, logEntry{f, a}) }

func (r *pppoeRun) fail(component, rule, class, what string, fatal bool) {
	if fatal {
		r.bad = true
	}
	violate(component, rule, class, what, fmtLog(r.hist), map[string]any{"setup": r.tag})
}

func (r *pppoeRun) liveSet() []*psess {
	var out []*psess
	for _, s := range r.created {
		if s.live {
			out = append(out, s)
		}
	}
	return out
}

func (r *pppoeRun) create(mac int) {
	r.last, r.lastRm = "create", nil
	r.lc.count("pppoe_op_create", 1)
	before := r.m.VerifC20NextID()
	var s *pppoe.Session
	var err error
	if r.createFn != nil {
		s, err = r.createFn(mac)
	} else {
		s, err = r.m.CreateSession(pppoeMACs[mac], pppoeServerMAC)
	}
	if err == errNoVerdict {
		return
	}
	if err != nil {
		r.logf("CreateSession(m%d)=err(%v)", mac, err)
		r.fail(pppoeComp+".CreateSession", "released-key-reusable", "create-failed", fmt.Sprintf("CreateSession failed with %d live sessions: %v", len(r.liveSet()), err), true)
		return
	}
	r.logf("CreateSession(m%d)=id %d", mac, s.ID)
	if s.ID < before || r.m.VerifC20NextID() < before {
		r.wrapped = true
		r.lc.count("pppoe_id_wraps", 1)
	}
	if s.ID == 0 {
		cl := "zero-id-without-wrap"
		if r.wrapped {
			cl = "zero-id-after-wrap"
		}
		r.fail(pppoeComp+".CreateSession", "id-nonzero", cl, fmt.Sprintf("CreateSession issued the reserved session id 0 (counter before the call: %d)", before), false)
	}
	r.noteScan(before, s.ID)
	for _, o := range r.liveSet() {
		if o.id == s.ID {
			cl, st := "live-id-reissued", o.ptr.GetState()
			if st != pppoe.StateDiscovery {
				cl += "-holder-in-state-" + stateName(st)
			}
			r.fail(pppoeComp+".CreateSession", "id-unique", cl, fmt.Sprintf("CreateSession issued id %d which a session of m%d (state %s) holds in the table", s.ID, o.mac, st), true)
			return
		}
		if o.mac == mac {
			r.shared = true
		}
	}
	if s.ClientMAC.String() != pppoeMACs[mac].String() {
		r.fail(pppoeComp+".CreateSession", "forward-lookup-agrees", "wrong-mac", fmt.Sprintf("session %d created for m%d carries MAC %s", s.ID, mac, s.ClientMAC), true)
		return
	}
	r.created = append(r.created, &psess{ptr: s, id: s.ID, mac: mac, live: true, seq: len(r.created), touch: time.Now()})
}

func (r *pppoeRun) remove(slot int) {
	r.last, r.lastRm = "remove", nil
	r.lc.count("pppoe_op_remove", 1)
	if slot >= len(r.created) {
		id := uint16(40000 + slot)
		r.last = "remove-unknown"
		if r.removeFn != nil {
			r.removeFn(nil, id)
		} else {
			r.m.RemoveSession(id)
		}
		r.logf("RemoveSession(%d) (never issued)", id)
		return
	}
	s := r.created[slot]
	if !s.live {
		// removing an id twice; if the id was reissued meanwhile the newer session is the one removed
		r.last = "remove-again"
		for _, o := range r.liveSet() {
			if o.id == s.id {
				o.live = false
				r.lastRm = o
				r.last = "remove"
			}
		}
	} else {
		s.live = false
		r.lastRm = s
	}
	if r.removeFn != nil {
		r.removeFn(r.lastRm, s.id)
	} else {
		r.m.RemoveSession(s.id)
	}
	r.logf("RemoveSession(%d)", s.id)
}

func (r *pppoeRun) macClass(holder *psess) string {
	switch {
	case r.last == "cleanup-expired":
		return "cleanup-expired-hides-live-session-of-same-mac"
	case r.lastRm != nil && r.lastRm.mac == holder.mac && r.lastRm.seq > holder.seq:
		return r.last + "-of-newer-session-hides-older-one"
	case r.lastRm != nil && r.lastRm.mac == holder.mac:
		return r.last + "-of-older-session-hides-newer-one"
	default:
		return "after-" + r.last
	}
}

func (r *pppoeRun) check() {
	if r.bad {
		return
	}
	live := r.liveSet()
	byID := map[uint16]*psess{}
	for _, s := range live {
		byID[s.id] = s
	}
	for _, s := range r.created {
		got := r.m.GetSession(s.id)
		want := byID[s.id]
		switch {
		case want == nil && got != nil:
			r.fail(pppoeComp+".GetSession", "lookup-never-returns-removed", "after-"+r.last, fmt.Sprintf("GetSession(%d) returns a session although id %d was removed", s.id, s.id), true)
			return
		case want != nil && got != want.ptr:
			r.fail(pppoeComp+".GetSession", "forward-lookup-agrees", "after-"+r.last, fmt.Sprintf("GetSession(%d) = %v, the live session with that id is not returned", s.id, got != nil), true)
			return
		case got != nil && got.ID != s.id:
			r.fail(pppoeComp+".GetSession", "lookup-returns-own-key", "after-"+r.last, fmt.Sprintf("GetSession(%d) returned session %d", s.id, got.ID), true)
			return
		}
	}
	if n := r.m.Count(); n != len(live) {
		r.fail(pppoeComp+".Count", "forward-lookup-agrees", "after-"+r.last, fmt.Sprintf("Count()=%d with %d live sessions", n, len(live)), true)
		return
	}
	all := r.m.GetAllSessions()
	inAll := map[*pppoe.Session]bool{}
	for _, s := range all {
		inAll[s] = true
	}
	for _, s := range live {
		if !inAll[s.ptr] {
			r.fail(pppoeComp+".GetAllSessions", "forward-lookup-agrees", "after-"+r.last, fmt.Sprintf("live session %d missing from GetAllSessions", s.id), true)
			return
		}
	}
	for mi, mac := range pppoeMACs {
		var holders []*psess
		for _, s := range live {
			if s.mac == mi {
				holders = append(holders, s)
			}
		}
		got := r.m.GetSessionByMAC(mac)
		problem, rule, class := "", "", ""
		if got != nil {
			var who *psess
			for _, s := range live {
				if s.ptr == got {
					who = s
				}
			}
			switch {
			case who == nil:
				problem, rule, class = fmt.Sprintf("GetSessionByMAC(m%d) returns session %d which was removed", mi, got.ID), "lookup-never-returns-removed", "after-"+r.last
			case got.ClientMAC.String() != mac.String():
				problem, rule, class = fmt.Sprintf("GetSessionByMAC(m%d) returns session %d whose MAC is %s", mi, got.ID, got.ClientMAC), "lookup-returns-own-key", "after-"+r.last
			}
		}
		if problem == "" && len(holders) == 1 && (got == nil || got != holders[0].ptr) {
			problem = fmt.Sprintf("session %d is the only live session of m%d but GetSessionByMAC(m%d) returns %v", holders[0].id, mi, mi, describeSess(got))
			rule, class = "sole-holder-found", r.macClass(holders[0])
		}
		if problem == "" {
			delete(r.dirty, mi)
			continue
		}
		if r.dirty[mi] {
			continue // same inconsistency as reported earlier in this history
		}
		r.dirty[mi] = true
		r.fail(pppoeComp+".GetSessionByMAC", rule, class, problem, false)
	}
}

func describeSess(s *pppoe.Session) string {
	if s == nil {
		return "nil"
	}
	return fmt.Sprintf("session %d", s.ID)
}

func (r *pppoeRun) stateKey() string {
	var parts []string
	for _, s := range r.liveSet() {
		if st := s.ptr.GetState(); st != pppoe.StateDiscovery {
			parts = append(parts, fmt.Sprintf("%d:m%d:s%d", s.id, s.mac, int(st)))
		} else {
			parts = append(parts, fmt.Sprintf("%d:m%d", s.id, s.mac))
		}
	}
	sort.Strings(parts)
	return r.tag + "|" + strings.Join(parts, ",")
}

func (r *pppoeRun) record(key string) {
	r.lc.evals++
	r.lc.distinct("pppoe_states", r.stateKey())
	if r.shared {
		r.lc.count("pppoe_histories_two_sessions_one_mac", 1)
	}
	if r.wrapped {
		r.lc.count("pppoe_histories_with_wrap", 1)
	}
	if r.shared || r.wrapped {
		r.lc.nontrivial("pppoe|" + r.tag + "|" + key)
	}
}

func TestPPPoEExhaustive(t *testing.T) {
	type setup struct {
		start uint16
		pre   int
		depth int
	}
	setups := []setup{
		{0, 0, run.Pick(6, 8)},     // fresh manager
		{65534, 2, run.Pick(6, 7)}, // ids 1,2 live, counter about to wrap
		{65535, 0, run.Pick(5, 7)},
	}
	// alphabet: create(m0..m2), remove(slot 0..3)
	const nSym = 7
	for _, su := range setups {
		su := su
		var sampled atomic.Bool
		n := enumerate(nSym, su.depth, nil, func() (histRunner, func()) {
			lc := newLocal()
			return func(h []int) bool {
				r := newPppoeRun(su.start, su.pre, lc)
				for _, x := range h {
					if x < 3 {
						r.create(x)
					} else {
						r.remove(su.pre + x - 3)
					}
					if r.bad {
						break
					}
					r.check() // cheap, and the MAC clause needs the op that broke it
				}
				r.record(histKey(h))
				if len(h) == su.depth && r.shared && r.wrapped && sampled.CompareAndSwap(false, true) {
					run.Sample(map[string]any{"component": pppoeComp, "kind": "exhaustive", "setup": r.tag, "history": fmtLog(r.hist)})
				}
				return !r.bad
			}, lc.flush
		})
		run.Count("pppoe_exhaustive_histories", int(n))
		run.Extra(fmt.Sprintf("pppoe_exhaustive_depth_start%d_pre%d", su.start, su.pre), su.depth)
	}
}

// TestPPPoERealWrap reaches the wrap-around through the real counter (no preset): 65 5xx create/remove
// pairs, then the same create/remove mix; confirms that the preset hook shows nothing the real path does not.
func TestPPPoERealWrap(t *testing.T) {
	cases := run.Pick(3, 12)
	lc := newLocal()
	for c := 0; c < cases; c++ {
		rng := run.SubRand("pppoe-realwrap", c)
		r := newPppoeRun(0, 0, lc)
		r.tag = "real-preroll"
		// two long-lived sessions on low ids, then churn up to the top of the id space
		r.create(0)
		r.create(1)
		churn := 65533 - 2 - rng.IntN(4)
		for i := 0; i < churn; i++ {
			s, err := r.m.CreateSession(pppoeMACs[2], pppoeServerMAC)
			if err != nil {
				t.Fatal(err)
			}
			r.m.RemoveSession(s.ID)
		}
		r.logf("(%d x create+remove of m2; counter now %d)", churn, r.m.VerifC20NextID())
		run.Count("pppoe_real_preroll_creates", churn)
		for i := 0; i < 40 && !r.bad; i++ {
			if rng.IntN(3) > 0 {
				r.create(rng.IntN(3))
			} else {
				r.remove(rng.IntN(len(r.created) + 1))
			}
			r.check()
		}
		r.record(fmt.Sprintf("realwrap-%d", c))
		run.Count("pppoe_real_wrap_cases", 1)
		if c == 0 {
			run.Sample(map[string]any{"component": pppoeComp, "kind": "real wrap-around", "history": fmtLog(r.hist)})
		}
	}
	lc.flush()
}

// TestPPPoETimedWalks adds CleanupExpired under virtual time.
func TestPPPoETimedWalks(t *testing.T) {
	walks := run.Pick(150, 1500)
	lc := newLocal()
	const timeout = 60 * time.Second
	deltas := []time.Duration{time.Second, 29 * time.Second, 30 * time.Second, 31 * time.Second, 59 * time.Second, 61 * time.Second}
	for w := 0; w < walks; w++ {
		rng := run.SubRand("pppoe-timed", w)
		starts := []uint16{0, 65530, 65533, 65535}
		start := starts[rng.IntN(len(starts))]
		synctest.Test(t, func(t *testing.T) {
			r := newPppoeRun(start, rng.IntN(3), lc)
			n := 60 + rng.IntN(60)
			for i := 0; i < n && !r.bad; i++ {
				switch x := rng.IntN(100); {
				case x < 35:
					r.create(rng.IntN(3))
				case x < 55:
					r.remove(rng.IntN(len(r.created) + 1))
				case x < 70:
					if live := r.liveSet(); len(live) > 0 {
						s := live[rng.IntN(len(live))]
						s.ptr.UpdateActivity()
						s.touch = time.Now()
						r.last, r.lastRm = "touch", nil
						r.logf("UpdateActivity(%d)", s.id)
						lc.count("pppoe_op_touch", 1)
					}
				case x < 88:
					d := deltas[rng.IntN(len(deltas))]
					time.Sleep(d)
					synctest.Wait()
					r.last, r.lastRm = "sleep", nil
					r.logf("sleep(%s)", d)
					lc.count("pppoe_op_sleep", 1)
				default:
					r.last, r.lastRm = "cleanup-expired", nil
					now := time.Now()
					removed := r.m.CleanupExpired(timeout)
					r.logf("CleanupExpired(%s)=%d", timeout, removed)
					lc.count("pppoe_op_cleanup", 1)
					gone := 0
					for _, s := range r.liveSet() {
						if r.m.GetSession(s.id) != s.ptr {
							if now.Sub(s.touch) <= timeout {
								r.fail(pppoeComp+".CleanupExpired", "no-other-mapping-disturbed", "active-session-removed",
									fmt.Sprintf("CleanupExpired(%s) removed session %d which was active %s ago", timeout, s.id, now.Sub(s.touch)), true)
							}
							s.live = false
							r.lastRm = s
							gone++
						}
					}
					lc.count("pppoe_sessions_expired", gone)
					if gone != removed && !r.bad {
						r.fail(pppoeComp+".CleanupExpired", "forward-lookup-agrees", "removed-count", fmt.Sprintf("CleanupExpired returned %d, %d sessions disappeared", removed, gone), true)
					}
				}
				r.check()
			}
			run.Count("pppoe_timed_walks", 1)
			run.Count("pppoe_timed_walk_ops", len(r.hist))
			r.record(fmt.Sprintf("timed-%d", w))
			if w == 0 {
				h := fmtLog(r.hist)
				if len(h) > 40 {
					h = h[:40]
				}
				run.Sample(map[string]any{"component": pppoeComp, "kind": "timed walk (first 40 ops)", "history": h})
			}
		})
	}
	lc.flush()
}
