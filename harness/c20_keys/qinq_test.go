package c20

import (
	"fmt"
	"sort"
	"strings"
	"sync/atomic"
	"testing"

	"github.com/codelaboratoryltd/bng/pkg/qinq"
)

// ---------------------------------------------------------------------------
// qinq.Mapper: bijection subscriber <-> VLAN pair

const qinqComp = "qinq.Mapper"

type qop struct {
	kind int // 0 register, 1 unregister(pair), 2 unregister(subscriber)
	p    qinq.VLANPair
	sub  int
}

type qinqCfg struct {
	name string
	cfg  qinq.Config
}

func (c qinqCfg) valid(p qinq.VLANPair) bool {
	if p.STag > 0 {
		ok := false
		for _, r := range c.cfg.STagRanges {
			if p.STag >= r.Start && p.STag <= r.End {
				ok = true
			}
		}
		if !ok {
			return false
		}
	}
	if p.CTag > 0 && (p.CTag < c.cfg.CTagRange.Start || p.CTag > c.cfg.CTagRange.End) {
		return false
	}
	return true
}

type qinqRun struct {
	c      qinqCfg
	subs   []string
	univ   []qinq.VLANPair
	m      *qinq.Mapper
	fwd    map[string]qinq.VLANPair // model: subscriber -> pair
	hist   []logEntry
	last   string
	bad    bool
	quiet  bool
	reuse  bool
	everBy map[qinq.VLANPair]string
	lc     *localCounts
}

func newQinqRun(c qinqCfg, subs []string, univ []qinq.VLANPair, lc *localCounts) *qinqRun {
	return &qinqRun{c: c, subs: subs, univ: univ, m: qinq.NewMapper(c.cfg), fwd: map[string]qinq.VLANPair{}, everBy: map[qinq.VLANPair]string{}, lc: lc}
}

func (r *qinqRun) logf(f string, a ...any) { r.hist = append(r.hist, logEntry{f, a}) }
func (r *qinqRun) fail(component, rule, what string) {
	r.bad = true
	if r.quiet {
		return
	}
	violate(component, rule, "after-"+r.last, what, fmtLog(r.hist), map[string]any{"config": r.c.name})
}

func (r *qinqRun) holder(p qinq.VLANPair) (string, bool) {
	for _, s := range r.subs {
		if q, ok := r.fwd[s]; ok && q == p {
			return s, true
		}
	}
	return "", false
}

var qKind = [...]string{"register", "unregister-pair", "unregister-subscriber"}

func (r *qinqRun) apply(o qop) {
	sub := r.subs[o.sub]
	switch o.kind {
	case 0:
		err := r.m.Register(o.p, sub)
		r.logf("Register(%s,%s)=%v", o.p, sub, err)
		other, held := r.holder(o.p)
		old, had := r.fwd[sub]
		switch {
		case !r.c.valid(o.p):
			r.last = "register-out-of-range"
			if err == nil {
				r.fail(qinqComp+".Register", "in-range", fmt.Sprintf("Register(%s,%s) accepted a pair outside the configured ranges (%s)", o.p, sub, r.c.name))
			}
		case held && other != sub:
			r.last = "register-held-pair"
			if err == nil {
				// the statement allows refusing or moving the pair; it never allows two holders. Adopt "moved".
				delete(r.fwd, other)
				r.fwd[sub] = o.p
			}
		default:
			r.last = "register"
			if had && old != o.p {
				r.last = "register-move"
			}
			if err != nil {
				r.fail(qinqComp+".Register", "released-key-reusable", fmt.Sprintf("Register(%s,%s) refused (%v) although nobody else holds the pair and it is in range", o.p, sub, err))
				return
			}
			r.fwd[sub] = o.p
			if prev, ok := r.everBy[o.p]; ok && prev != sub {
				r.reuse = true
			}
			r.everBy[o.p] = sub
		}
	case 1:
		r.last = qKind[1]
		r.m.Unregister(o.p)
		r.logf("Unregister(%s)", o.p)
		if s, ok := r.holder(o.p); ok {
			delete(r.fwd, s)
		}
	case 2:
		r.last = qKind[2]
		r.m.UnregisterSubscriber(sub)
		r.logf("UnregisterSubscriber(%s)", sub)
		delete(r.fwd, sub)
	}
	r.lc.count("qinq_op_"+r.last, 1)
}

func (r *qinqRun) check() {
	if r.bad {
		return
	}
	// at most one holder per pair, judged on the observed forward lookups alone
	seen := map[qinq.VLANPair]string{}
	for _, s := range r.subs {
		if got, ok := r.m.GetVLAN(s); ok {
			if o2, dup := seen[got]; dup {
				r.fail(qinqComp, "at-most-one-holder", fmt.Sprintf("pair %s is mapped to %s and to %s", got, o2, s))
				return
			}
			seen[got] = s
		}
	}
	// forward
	for _, s := range r.subs {
		got, ok := r.m.GetVLAN(s)
		want, held := r.fwd[s]
		if ok != held || (ok && got != want) {
			r.fail(qinqComp+".GetVLAN", "forward-lookup-agrees", fmt.Sprintf("GetVLAN(%s) = %s,%v; the history says %s,%v", s, got, ok, want, held))
			return
		}
		if ok {
			back, ok2 := r.m.GetSubscriber(got)
			if !ok2 || back != s {
				r.fail(qinqComp+".GetSubscriber", "reverse-lookup-agrees", fmt.Sprintf("GetVLAN(%s)=%s but GetSubscriber(%s)=%q,%v", s, got, got, back, ok2))
				return
			}
			if !r.c.valid(got) {
				r.fail(qinqComp, "in-range", fmt.Sprintf("%s holds %s outside the configured ranges", s, got))
				return
			}
		}
	}
	// reverse
	n := 0
	for _, p := range r.univ {
		got, ok := r.m.GetSubscriber(p)
		want, held := r.holder(p)
		if ok != held || (ok && got != want) {
			r.fail(qinqComp+".GetSubscriber", "reverse-lookup-agrees", fmt.Sprintf("GetSubscriber(%s) = %q,%v; the history says %q,%v", p, got, ok, want, held))
			return
		}
		if ok {
			n++
			if fw, ok2 := r.m.GetVLAN(got); !ok2 || fw != p {
				r.fail(qinqComp+".GetVLAN", "forward-lookup-agrees", fmt.Sprintf("GetSubscriber(%s)=%s but GetVLAN(%s)=%s,%v", p, got, got, fw, ok2))
				return
			}
		}
	}
	if st := r.m.Stats(); st.TotalMappings != len(r.fwd) {
		r.fail(qinqComp+".Stats", "reverse-lookup-agrees", fmt.Sprintf("Stats.TotalMappings=%d with %d subscribers mapped", st.TotalMappings, len(r.fwd)))
	}
}

// drain: every valid pair nobody holds must be registrable by a fresh subscriber.
func (r *qinqRun) drain() {
	if r.bad {
		return
	}
	r.last = "drain(" + r.last + ")"
	i := 0
	for _, p := range r.univ {
		if !r.c.valid(p) {
			continue
		}
		if _, held := r.holder(p); held {
			continue
		}
		s := fmt.Sprintf("drain%d", i)
		i++
		if err := r.m.Register(p, s); err != nil {
			r.logf("Register(%s,%s)=%v", p, s, err)
			r.fail(qinqComp+".Register", "released-key-reusable", fmt.Sprintf("pair %s is held by nobody but Register(%s,%s) is refused: %v", p, p, s, err))
			return
		}
		if got, ok := r.m.GetSubscriber(p); !ok || got != s {
			r.fail(qinqComp+".GetSubscriber", "reverse-lookup-agrees", fmt.Sprintf("after Register(%s,%s) GetSubscriber gives %q,%v", p, s, got, ok))
			return
		}
	}
	r.lc.count("qinq_drained_pairs", i)
	// nothing else moved
	for _, s := range r.subs {
		got, ok := r.m.GetVLAN(s)
		want, held := r.fwd[s]
		if ok != held || (ok && got != want) {
			r.fail(qinqComp+".GetVLAN", "forward-lookup-agrees", fmt.Sprintf("after registering the free pairs GetVLAN(%s) = %s,%v; the history says %s,%v", s, got, ok, want, held))
			return
		}
	}
}

func (r *qinqRun) stateKey() string {
	var parts []string
	for s, p := range r.fwd {
		parts = append(parts, s+":"+p.String())
	}
	sort.Strings(parts)
	return r.c.name + "|" + strings.Join(parts, ",")
}

func (r *qinqRun) record(key string) {
	r.lc.evals++
	r.lc.distinct("qinq_states", r.stateKey())
	if r.reuse {
		r.lc.count("qinq_histories_with_reuse", 1)
		r.lc.nontrivial("qinq|" + r.c.name + "|" + key)
	}
}

func qinqConfigs() []qinqCfg {
	return []qinqCfg{
		{"S10-11/C20-21", qinq.Config{Enabled: true, STagRanges: []qinq.VLANRange{{Start: 10, End: 11}}, CTagRange: qinq.VLANRange{Start: 20, End: 21}}},
		{"S10,S12/C20-21", qinq.Config{Enabled: true, STagRanges: []qinq.VLANRange{{Start: 10, End: 10}, {Start: 12, End: 12}}, CTagRange: qinq.VLANRange{Start: 20, End: 21}}},
	}
}

func qinqAlphabet() ([]qop, []qinq.VLANPair) {
	in := []qinq.VLANPair{{STag: 10, CTag: 20}, {STag: 10, CTag: 21}, {STag: 12, CTag: 20}}
	single := qinq.VLANPair{STag: 0, CTag: 20}
	outS := qinq.VLANPair{STag: 13, CTag: 20}
	outC := qinq.VLANPair{STag: 10, CTag: 22}
	var ops []qop
	for _, p := range in {
		for s := 0; s < 3; s++ {
			ops = append(ops, qop{0, p, s})
		}
	}
	for s := 0; s < 3; s++ {
		ops = append(ops, qop{0, single, s}, qop{0, outS, s}, qop{0, outC, s})
	}
	for _, p := range append(in, single) {
		ops = append(ops, qop{1, p, 0})
	}
	for s := 0; s < 3; s++ {
		ops = append(ops, qop{2, qinq.VLANPair{}, s})
	}
	univ := append(append([]qinq.VLANPair{}, in...), single, outS, outC,
		qinq.VLANPair{STag: 11, CTag: 20}, qinq.VLANPair{STag: 11, CTag: 21}, qinq.VLANPair{STag: 12, CTag: 21}, qinq.VLANPair{STag: 0, CTag: 21})
	return ops, univ
}

func TestQinQExhaustive(t *testing.T) {
	alpha, univ := qinqAlphabet()
	subs := []string{"a", "b", "c"}
	canon := func(h []int) bool {
		next := 0
		for _, x := range h {
			if alpha[x].kind == 1 {
				continue
			}
			n := alpha[x].sub
			if n > next {
				return false
			}
			if n == next {
				next++
			}
		}
		return true
	}
	for ci, c := range qinqConfigs() {
		depth := run.Pick(5, 6)
		if ci > 0 {
			depth = run.Pick(4, 5)
		}
		c := c
		var sampled atomic.Bool
		n := enumerate(len(alpha), depth, canon, func() (histRunner, func()) {
			lc := newLocal()
			return func(h []int) bool {
				r := newQinqRun(c, subs, univ, lc)
				for _, x := range h {
					if r.apply(alpha[x]); r.bad {
						break
					}
				}
				r.check()
				r.drain()
				r.record(histKey(h))
				if len(h) == depth && r.reuse && !r.bad && sampled.CompareAndSwap(false, true) {
					run.Sample(map[string]any{"component": qinqComp, "kind": "exhaustive", "config": c.name, "history": fmtLog(r.hist)})
				}
				return !r.bad
			}, lc.flush
		})
		run.Count("qinq_exhaustive_histories", int(n))
		run.Extra("qinq_exhaustive_depth_"+c.name, depth)
	}
}

func TestQinQRandomWalks(t *testing.T) {
	c := qinqCfg{"S100-103,S200-201/C100-107", qinq.Config{Enabled: true,
		STagRanges: []qinq.VLANRange{{Start: 100, End: 103}, {Start: 200, End: 201}}, CTagRange: qinq.VLANRange{Start: 100, End: 107}}}
	var univ []qinq.VLANPair
	for _, s := range []uint16{0, 99, 100, 101, 103, 104, 200, 201, 202} {
		for _, ct := range []uint16{0, 99, 100, 103, 107, 108} {
			univ = append(univ, qinq.VLANPair{STag: s, CTag: ct})
		}
	}
	var subs []string
	for i := 0; i < 12; i++ {
		subs = append(subs, fmt.Sprintf("s%d", i))
	}
	walks := run.Pick(60, 600)
	lc := newLocal()
	for w := 0; w < walks; w++ {
		rng := run.SubRand("qinq-walk", w)
		r := newQinqRun(c, subs, univ, lc)
		for i := 0; i < 1000 && !r.bad; i++ {
			var o qop
			switch x := rng.IntN(10); {
			case x < 6:
				o = qop{0, univ[rng.IntN(len(univ))], rng.IntN(len(subs))}
			case x < 8:
				o = qop{1, univ[rng.IntN(len(univ))], 0}
			default:
				o = qop{2, qinq.VLANPair{}, rng.IntN(len(subs))}
			}
			r.apply(o)
			r.check()
		}
		r.drain()
		run.Count("qinq_random_walks", 1)
		run.Count("qinq_random_walk_ops", len(r.hist))
		r.record(fmt.Sprintf("walk-%d", w))
	}
	lc.flush()
}
