package c20

import (
	"bytes"
	"fmt"
	"math/rand/v2"
	"testing"

	cebpf "github.com/cilium/ebpf"
	"github.com/cilium/ebpf/rlimit"
	"go.uber.org/zap"

	bngebpf "github.com/codelaboratoryltd/bng/pkg/ebpf"
)

// ---------------------------------------------------------------------------
// circuit-id keys: distinct circuit-ids in use => distinct map keys

// collisionClass normalises a pair of distinct circuit-ids that received the same key.
func collisionClass(a, b []byte) string {
	ta, tb := bytes.TrimRight(a, "\x00"), bytes.TrimRight(b, "\x00")
	switch {
	case len(a) <= bngebpf.CircuitIDKeyLen && len(b) <= bngebpf.CircuitIDKeyLen && bytes.Equal(ta, tb):
		return "ids-differ-only-in-trailing-nul-bytes"
	case (len(a) > bngebpf.CircuitIDKeyLen || len(b) > bngebpf.CircuitIDKeyLen) && len(a) >= bngebpf.CircuitIDKeyLen && len(b) >= bngebpf.CircuitIDKeyLen &&
		bytes.Equal(a[:bngebpf.CircuitIDKeyLen], b[:bngebpf.CircuitIDKeyLen]):
		return "ids-share-first-32-bytes"
	case len(a) > bngebpf.CircuitIDKeyLen || len(b) > bngebpf.CircuitIDKeyLen:
		return "long-id-collides-after-truncation-and-padding"
	default:
		return "short-ids-collide"
	}
}

type cidFamily struct {
	name string
	ids  [][]byte
}

func cidFamilies(rng *rand.Rand, nRandom int) []cidFamily {
	var fams []cidFamily
	base := []byte("OLT-7/slot-3/port-12/onu-045:vlan-100.2000/acme-access-node-eu-west-1a")[:64]
	// prefix chain: every prefix of one 64-byte id (lengths 1..64)
	{
		var ids [][]byte
		for l := 1; l <= 64; l++ {
			ids = append(ids, append([]byte(nil), base[:l]...))
		}
		fams = append(fams, cidFamily{"prefix-chain-1..64", ids})
	}
	// ids that share a 32-byte prefix and differ afterwards
	{
		var ids [][]byte
		for i := 0; i < 24; i++ {
			id := append([]byte(nil), base[:32]...)
			id = append(id, []byte(fmt.Sprintf(":%02d", i))...)
			ids = append(ids, id)
		}
		ids = append(ids, append([]byte(nil), base[:32]...))
		fams = append(fams, cidFamily{"shared-32-byte-prefix", ids})
	}
	// trailing-NUL variants of short ids (binary circuit-ids are legal: RFC 3046 treats them as opaque)
	{
		var ids [][]byte
		for _, s := range [][]byte{{}, {1}, {0x00, 0x04, 0x00, 0x10}, []byte("eth 0/1/1:100")} {
			for z := 0; z <= 3; z++ {
				ids = append(ids, append(append([]byte(nil), s...), make([]byte, z)...))
			}
		}
		fams = append(fams, cidFamily{"trailing-nul-variants", ids})
	}
	// single-byte differences at every position of ids of length 8, 31, 32 (must all get different keys)
	for _, l := range []int{8, 31, 32} {
		var ids [][]byte
		ref := append([]byte(nil), base[:l]...)
		ids = append(ids, ref)
		for pos := 0; pos < l; pos++ {
			for _, x := range []byte{0x01, 0x80, 0xff} {
				id := append([]byte(nil), ref...)
				id[pos] ^= x
				if id[pos] == 0 && pos == l-1 {
					continue // would be a trailing-NUL variant, covered by its own family
				}
				ids = append(ids, id)
			}
		}
		fams = append(fams, cidFamily{fmt.Sprintf("single-byte-differences-len-%d", l), ids})
	}
	// single-byte differences at positions 0..63 of a 64-byte id
	{
		var ids [][]byte
		ids = append(ids, append([]byte(nil), base...))
		for pos := 0; pos < 64; pos++ {
			id := append([]byte(nil), base...)
			id[pos] ^= 0x55
			ids = append(ids, id)
		}
		fams = append(fams, cidFamily{"single-byte-differences-len-64", ids})
	}
	// structured OLT-style ids as deployed (all <= 32 bytes, printable)
	{
		var ids [][]byte
		for sh := 0; sh < 2; sh++ {
			for sl := 0; sl < 4; sl++ {
				for po := 0; po < 8; po++ {
					for _, v := range []int{100, 101, 2000} {
						ids = append(ids, []byte(fmt.Sprintf("eth %d/%d/%d:%d.%d", sh, sl, po, v, v+1)))
					}
				}
			}
		}
		fams = append(fams, cidFamily{"structured-olt-ids", ids})
	}
	// permutations / repeated bytes (catch order-insensitive or length-insensitive key derivations)
	{
		ids := [][]byte{[]byte("ab"), []byte("ba"), []byte("aab"), []byte("aba"), []byte("baa"), []byte("a"), []byte("aa"), []byte("aaa"), []byte("b"), []byte("bb"), []byte("abab"), []byte("baba")}
		fams = append(fams, cidFamily{"permutations", ids})
	}
	// random ids over small alphabets, lengths 1..64, no trailing NUL
	for f := 0; f < nRandom; f++ {
		var ids [][]byte
		seen := map[string]bool{}
		alpha := []byte{'a', 'b', 0x00, 0xff}
		n := 40 + rng.IntN(60)
		for len(ids) < n {
			l := 1 + rng.IntN(64)
			if rng.IntN(3) == 0 {
				l = 28 + rng.IntN(10)
			}
			id := make([]byte, l)
			for i := range id {
				if rng.IntN(4) == 0 {
					id[i] = byte(rng.IntN(256))
				} else {
					id[i] = alpha[rng.IntN(len(alpha))]
				}
			}
			if id[l-1] == 0 {
				id[l-1] = 'z'
			}
			if !seen[string(id)] {
				seen[string(id)] = true
				ids = append(ids, id)
			}
		}
		fams = append(fams, cidFamily{fmt.Sprintf("random-%d", f), ids})
	}
	return fams
}

func TestCircuitIDKeysInjective(t *testing.T) {
	fams := cidFamilies(run.Rand("cid-families"), run.Pick(40, 400))
	for _, f := range fams {
		byKey := map[bngebpf.CircuitIDKey][]byte{}
		byHash := map[uint64][]byte{}
		pairs := 0
		for _, id := range f.ids {
			run.Count("cid_ids_keyed", 1)
			run.Distinct("cid_lengths", fmt.Sprint(len(id)))
			k := bngebpf.MakeCircuitIDKey(id)
			if other, dup := byKey[k]; dup && !bytes.Equal(other, id) {
				cl := collisionClass(other, id)
				violate("ebpf.MakeCircuitIDKey", "distinct-ids-distinct-keys", cl,
					fmt.Sprintf("circuit-ids %q (len %d) and %q (len %d) receive the same circuit_id_subscribers key %x", other, len(other), id, len(id), k[:]),
					[]string{fmt.Sprintf("MakeCircuitIDKey(%q)", other), fmt.Sprintf("MakeCircuitIDKey(%q)", id)}, map[string]any{"family": f.name})
				run.Count("cid_key_collisions_"+cl, 1)
			} else {
				byKey[k] = id
			}
			h := bngebpf.HashCircuitID(id)
			if other, dup := byHash[h]; dup && !bytes.Equal(other, id) {
				violate("ebpf.HashCircuitID", "distinct-ids-distinct-keys", collisionClass(other, id),
					fmt.Sprintf("circuit-ids %q and %q receive the same circuit_id_map key %#x", other, id, h),
					[]string{fmt.Sprintf("HashCircuitID(%q)", other), fmt.Sprintf("HashCircuitID(%q)", id)}, map[string]any{"family": f.name})
			} else {
				byHash[h] = id
			}
			pairs += len(byKey) - 1
		}
		run.Eval()
		run.Count("cid_families", 1)
		run.Count("cid_pairs_compared", len(f.ids)*(len(f.ids)-1)/2)
		if len(f.ids) >= 2 {
			run.Nontrivial("cid|" + f.name + "|" + fmt.Sprint(len(f.ids)) + "|" + string(f.ids[len(f.ids)-1]))
		}
	}
	run.Sample(map[string]any{"component": "ebpf.MakeCircuitIDKey", "kind": "family", "name": fams[1].name, "ids": []string{fmt.Sprintf("%q", fams[1].ids[0]), fmt.Sprintf("%q", fams[1].ids[1]), fmt.Sprintf("%q", fams[1].ids[24])}})
}

// ---------------------------------------------------------------------------
// the same through the real loader API on real kernel hash maps

func newCircuitLoader(t *testing.T) (*bngebpf.Loader, func(), error) {
	_ = rlimit.RemoveMemlock()
	subs, err := cebpf.NewMap(&cebpf.MapSpec{Name: "c20_cid_subs", Type: cebpf.Hash, KeySize: bngebpf.CircuitIDKeyLen, ValueSize: 25, MaxEntries: 4096})
	if err != nil {
		return nil, nil, err
	}
	hm, err := cebpf.NewMap(&cebpf.MapSpec{Name: "c20_cid_map", Type: cebpf.Hash, KeySize: 8, ValueSize: 8, MaxEntries: 4096})
	if err != nil {
		subs.Close()
		return nil, nil, err
	}
	l, err := bngebpf.NewLoader("lo", zap.NewNop())
	if err != nil {
		subs.Close()
		hm.Close()
		return nil, nil, err
	}
	l.VerifC20SetCircuitMaps(hm, subs)
	return l, func() { subs.Close(); hm.Close() }, nil
}

func TestCircuitIDMapHistories(t *testing.T) {
	l, closeMaps, err := newCircuitLoader(t)
	if err != nil {
		run.Inconclusive("circuit-id-real-maps", "cannot create BPF hash maps in this sandbox: "+err.Error())
		return
	}
	closeMaps()
	_ = l
	base := []byte("OLT-7/slot-3/port-12/onu-045:vlan-100.2000/acme-access-node")
	universes := [][][]byte{
		{[]byte("eth 0/1/1:100"), []byte("eth 0/1/1:101"), []byte("eth 0/1/2:100"), []byte("a")},
		{base[:32], base[:40], base[:31], []byte("eth 0/1/1:100")},
		{[]byte("ab"), []byte("ab\x00"), []byte("abc"), {0x00, 0x04, 0x00, 0x10}},
		{base[:33], base[:34], base[:20], base[:21]},
	}
	walks := run.Pick(40, 400)
	lc := newLocal()
	for ui, univ := range universes {
		for w := 0; w < walks; w++ {
			rng := run.SubRand(fmt.Sprintf("cid-map-%d", ui), w)
			l, closeMaps, err := newCircuitLoader(t)
			if err != nil {
				run.Inconclusive("circuit-id-real-maps", err.Error())
				return
			}
			model := map[int]uint32{}  // circuit-id index -> AllocatedIP of its assignment
			modelH := map[int]uint64{} // circuit-id index -> MAC in the hash-keyed map
			dirty := map[string]bool{}
			var hist []logEntry
			logf := func(f string, a ...any) { hist = append(hist, logEntry{f, a}) }
			last := ""
			shared := false
			n := 30 + rng.IntN(30)
			for i := 0; i < n; i++ {
				c := rng.IntN(len(univ))
				switch x := rng.IntN(10); {
				case x < 4:
					ip := uint32(0x0a000000 + rng.IntN(250) + 1 + 256*c)
					err := l.AddCircuitIDSubscriber(univ[c], &bngebpf.PoolAssignment{PoolID: uint32(c + 1), AllocatedIP: ip})
					logf("AddCircuitIDSubscriber(%q, ip %#x)=%v", univ[c], ip, err)
					last = "add-subscriber"
					if err == nil {
						model[c] = ip
					}
				case x < 6:
					err := l.RemoveCircuitIDSubscriber(univ[c])
					logf("RemoveCircuitIDSubscriber(%q)=%v", univ[c], err)
					last = "remove-subscriber"
					delete(model, c)
				case x < 8:
					mac := uint64(0x020000000000 + uint64(c)*16 + uint64(rng.IntN(3)))
					// the documented slow-path protocol: check, then add
					coll, err := l.CheckCircuitIDCollision(univ[c], mac)
					old, had := modelH[c]
					logf("CheckCircuitIDCollision(%q, %#x)=%v,%v", univ[c], mac, coll, err)
					if want := had && old != mac; err == nil && coll != want {
						violate("ebpf.Loader.CheckCircuitIDCollision", "collision-detector-agrees", "after-"+last,
							fmt.Sprintf("CheckCircuitIDCollision(%q,%#x) = %v; entry present=%v with MAC %#x", univ[c], mac, coll, had, old), fmtLog(hist), nil)
					}
					err = l.AddCircuitIDMapping(univ[c], mac)
					logf("AddCircuitIDMapping(%q, %#x)=%v", univ[c], mac, err)
					last = "add-mapping"
					if err == nil {
						modelH[c] = mac
					}
				default:
					err := l.RemoveCircuitIDMapping(univ[c])
					logf("RemoveCircuitIDMapping(%q)=%v", univ[c], err)
					last = "remove-mapping"
					delete(modelH, c)
				}
				lc.count("cid_map_op_"+last, 1)
				if len(model) >= 2 {
					shared = true
				}
				// every circuit-id in use must find its own subscriber; every one not in use must find nothing
				for j, id := range univ {
					got, err := l.GetCircuitIDSubscriber(id)
					want, held := model[j]
					key := fmt.Sprintf("s%d", j)
					problem, rule := "", ""
					switch {
					case held && (err != nil || got.AllocatedIP != want):
						problem, rule = fmt.Sprintf("circuit-id %q is in use with assignment ip %#x but GetCircuitIDSubscriber returns %v (err %v)", id, want, describePA(got), err), "lookup-returns-own-subscriber"
					case !held && err == nil:
						// an id that is not in use may alias the key of one that is (the statement only speaks of ids in use)
						explained := false
						for k, ip := range model {
							if k != j && ip == got.AllocatedIP {
								explained = true
							}
						}
						if !explained {
							problem, rule = fmt.Sprintf("circuit-id %q is not in use but GetCircuitIDSubscriber returns %v", id, describePA(got)), "lookup-never-returns-removed"
						}
					}
					judgeCID(dirty, key, problem, rule, "ebpf.Loader.GetCircuitIDSubscriber", univ, j, false, hist)
					gm, err := l.GetCircuitIDMapping(id)
					wm, heldm := modelH[j]
					key = fmt.Sprintf("h%d", j)
					problem, rule = "", ""
					switch {
					case heldm && (err != nil || gm != wm):
						problem, rule = fmt.Sprintf("circuit-id %q maps to MAC %#x but GetCircuitIDMapping returns %#x (err %v)", id, wm, gm, err), "lookup-returns-own-subscriber"
					case !heldm && err == nil:
						explained := false
						for k, m := range modelH {
							if k != j && m == gm {
								explained = true
							}
						}
						if !explained {
							problem, rule = fmt.Sprintf("circuit-id %q has no mapping but GetCircuitIDMapping returns %#x", id, gm), "lookup-never-returns-removed"
						}
					}
					judgeCID(dirty, key, problem, rule, "ebpf.Loader.GetCircuitIDMapping", univ, j, true, hist)
				}
			}
			closeMaps()
			lc.evals++
			run.Count("cid_map_walks", 1)
			run.Count("cid_map_walk_ops", len(hist))
			if shared {
				lc.nontrivial(fmt.Sprintf("cidmap|%d|%d", ui, w))
			}
			if w == 0 && ui == 0 {
				h := fmtLog(hist)
				if len(h) > 12 {
					h = h[:12]
				}
				run.Sample(map[string]any{"component": "ebpf.Loader circuit-id maps (real kernel hash maps)", "kind": "random walk (first 12 ops)", "history": h})
			}
		}
	}
	lc.flush()
}

func describePA(p *bngebpf.PoolAssignment) string {
	if p == nil {
		return "nothing"
	}
	return fmt.Sprintf("assignment{pool %d ip %#x}", p.PoolID, p.AllocatedIP)
}

// judgeCID reports an inconsistent lookup once per history and key; the class names the relation between
// the circuit-id asked for and the other id of the universe that produces the same key (if any).
func judgeCID(dirty map[string]bool, key, problem, rule, comp string, univ [][]byte, j int, hashed bool, hist []logEntry) {
	if problem == "" {
		delete(dirty, key)
		return
	}
	if dirty[key] {
		return
	}
	dirty[key] = true
	class := "no-colliding-id-in-universe"
	for k, other := range univ {
		same := bngebpf.MakeCircuitIDKey(other) == bngebpf.MakeCircuitIDKey(univ[j])
		if hashed {
			same = bngebpf.HashCircuitID(other) == bngebpf.HashCircuitID(univ[j])
		}
		if k != j && same {
			class = collisionClass(other, univ[j])
		}
	}
	violate(comp, rule, class, problem, fmtLog(hist), nil)
}
