package pools

import (
	"fmt"
	"math/rand/v2"
)

// SmallSpecs are the ≤ 16-unit geometries enumerated exhaustively.
func SmallSpecs() []*Spec {
	return []*Spec{
		Bitmap("10.0.0.0/29", 32),
		Bitmap("10.0.0.0/30", 32),
		Bitmap("10.0.0.8/29", 31),
		Bitmap("10.0.0.128/25", 28),
		Bitmap("10.0.0.4/32", 32),
		Bitmap("2001:db8::/125", 128),
		Bitmap("2001:db8:0:8000::/53", 56),
		Bitmap("2001:db8::/126", 127),
		Epoch("10.0.0.0/29", 32, 1),
		Epoch("10.0.0.0/29", 32, 2),
		Epoch("10.0.0.0/30", 32, 1),
		Epoch("10.0.0.248/29", 32, 1),
		Epoch("10.0.1.0/28", 32, 1),
		Epoch("10.0.0.0/28", 30, 1),
		Distributed("10.0.0.0/29", 32, false, 0),
		Distributed("2001:db8::/126", 128, false, 0),
		Distributed("10.0.0.0/29", 32, true, 1),
		Distributed("10.0.0.0/29", 32, true, 2),
		DistributedMAC("10.0.0.0/29", 32, false, 0),
		DistributedMAC("10.0.0.0/29", 32, true, 1),
		PoolAlloc("10.0.0.0/29", 32),
		PoolAlloc("2001:db8::/62", 64),
		Local("10.0.0.0/30", 32),
		DHCP4("10.0.0.0/29", "10.0.0.1", 0, 0),
		DHCP4("10.0.0.0/28", "10.0.0.14", 2, 1),
		DHCP4("192.168.1.8/29", "192.168.1.9", 0, 0),
		DHCP4("10.0.0.0/29", "10.0.0.100", 0, 0),
		DHCP6Addr("2001:db8::/125"),
		DHCP6Addr("2001:db8::/126"),
		DHCP6PD("2001:db8::/53", 56),
		DHCP6PD("2001:db8:0:8000::/49", 51),
		DHCP6PD("2001:db8::/60", 62),
		DHCP6PD("2001:db8:0:1::/64", 67),
		DHCP6PD("2001:db8:0:1:8000::/66", 68),
		DHCP6PD("2001:db8::1:0/125", 128),
		PPPoE("10.0.0.0/29", "10.0.0.1"),
		PPPoE("10.0.0.8/30", "10.0.0.9"),
		Peer("10.0.0.0/29", "10.0.0.1"),
		Peer("10.0.0.0/28", "10.0.0.14"),
	}
}

// LargeSpecs are driven by random walks only.
func LargeSpecs() []*Spec {
	return []*Spec{
		Bitmap("10.0.0.0/20", 32),
		Bitmap("10.0.0.0/23", 32),
		Bitmap("2001:db8::/52", 64),
		Bitmap("2001:db8::/44", 56),
		Bitmap("2001:db8::/64", 128),
		Epoch("10.0.0.0/22", 32, 1),
		Epoch("10.0.0.128/25", 32, 2),
		Distributed("10.1.0.0/24", 32, false, 0),
		Distributed("10.1.0.0/24", 32, true, 1),
		DistributedMAC("10.1.0.0/24", 32, false, 0),
		DistributedMAC("10.1.0.0/25", 32, true, 2),
		PoolAlloc("10.2.0.0/24", 32),
		DHCP4("10.3.0.0/23", "10.3.0.1", 10, 5),
		DHCP6Addr("2001:db8::/64"),
		DHCP6PD("2001:db8::/48", 56),
		DHCP6PD("2001:db8::/40", 56),
		PPPoE("10.4.0.0/24", "10.4.0.1"),
		Peer("10.5.0.0/24", "10.5.0.1"),
		PeerCluster("10.7.0.0/26", 28),
		PeerCluster("10.7.1.0/24", 26),
		Nexus("10.6.0.0/28"),
		Nexus("10.6.0.0/24"),
		Nexus("10.6.0.0/20"),
	}
}

// TickerSpecs are the lease-mode distributed pools whose epochs are advanced by the allocator's own
// ticker goroutine (epoch advance + store cleanup + store change echo); they run inside synctest bubbles.
func TickerSpecs() []*Spec {
	return []*Spec{
		DistributedTicker("10.0.0.0/29", 32, 1, false),
		DistributedTicker("10.0.0.0/29", 32, 2, false),
		DistributedTicker("10.0.0.0/29", 32, 1, true),
		DistributedTicker("10.0.0.0/28", 32, 2, true),
	}
}

// ScaleSpecs are pools of 500–4000 units driven through fill / mass-expiry (or mass-release) / refill
// scenarios: batch limits, per-call sweep caps and generation wrap only show at this size.
func ScaleSpecs() []*Spec {
	return []*Spec{
		Epoch("10.8.0.0/22", 32, 1),
		Epoch("10.8.0.0/21", 32, 1),
		Epoch("10.8.0.0/21", 32, 2),
		Epoch("10.8.0.0/20", 32, 1),
		Epoch("10.8.0.0/20", 30, 1),
		Bitmap("10.8.0.0/22", 32),
		Bitmap("2001:db8::/52", 64),
		Distributed("10.8.0.0/22", 32, true, 1),
		DistributedMAC("10.8.0.0/21", 32, true, 2),
		Distributed("10.8.0.0/23", 32, false, 0),
		PoolAlloc("10.8.0.0/23", 32),
		DHCP4("10.8.0.0/22", "10.8.0.1", 0, 0),
		DHCP4("10.8.4.0/22", "10.8.7.254", 0, 0), // gateway beyond the first 256 addresses
		DHCP4("10.8.8.0/23", "10.8.9.1", 3, 2),
		DHCP6PD("2001:db8::/46", 56),
		PPPoE("10.8.0.0/23", "10.8.0.1"),
		Peer("10.8.0.0/23", "10.8.0.1"),
	}
}

// ScaleHistory: fill the pool to exhaustion, let every lease lapse at once (or release everything),
// refill with new subscribers interleaved with returning old ones, run past the generation wrap, refill again.
func ScaleHistory(s *Spec, c Caps, rng *rand.Rand) []Op {
	u := s.Usable
	if u <= 0 {
		return nil
	}
	var h []Op
	old := func(i int) string { return fmt.Sprintf("o%d", i) }
	for i := 0; i < u; i++ {
		h = append(h, Op{K: "alloc", Sub: old(i)})
	}
	h = append(h, Op{K: "alloc", Sub: "overflow-1"})
	expire := c.Epoch && s.Grace > 0
	kept := map[int]bool{}
	if expire {
		// a few subscribers keep renewing through the mass expiry
		var keep []int
		if c.Renew {
			for k := 0; k < 5; k++ {
				i := rng.IntN(u)
				if !kept[i] {
					kept[i] = true
					keep = append(keep, i)
				}
			}
		}
		for e := 0; e < s.Grace+1; e++ {
			h = append(h, Op{K: "epoch"})
			for _, i := range keep {
				h = append(h, Op{K: "renew", Sub: old(i)})
			}
		}
	} else {
		for _, i := range rng.Perm(u) {
			if rng.IntN(50) == 0 {
				kept[i] = true
				continue
			}
			h = append(h, Op{K: "release", Sub: old(i)})
		}
	}
	// refill: new subscribers interleaved with returning old ones
	for i := 0; i < u/2; i++ {
		h = append(h, Op{K: "alloc", Sub: fmt.Sprintf("n%d", i)})
		if rng.IntN(3) == 0 {
			h = append(h, Op{K: "alloc", Sub: old(rng.IntN(u))})
		}
		if rng.IntN(40) == 0 {
			h = append(h, Op{K: "release", Sub: fmt.Sprintf("n%d", rng.IntN(i+1))})
		}
	}
	if expire {
		for e := 4 + rng.IntN(4); e > 0; e-- {
			h = append(h, Op{K: "epoch"})
			if rng.IntN(2) == 0 {
				h = append(h, Op{K: "alloc", Sub: fmt.Sprintf("w%d", e)})
			}
		}
	}
	for i := 0; i < u/3; i++ {
		h = append(h, Op{K: "alloc", Sub: fmt.Sprintf("m%d", i)})
	}
	return h
}

// Caps probes which optional operations a spec's pool supports.
type Caps struct{ Renew, Epoch, Specific, RelVal, Reload, Reapply, Fault, Move bool }

func ProbeCaps(s *Spec) Caps {
	if s.Caps != nil {
		return *s.Caps
	}
	p, err := s.New()
	if err != nil {
		return Caps{}
	}
	defer Close(p)
	var c Caps
	_, c.Renew = p.(Renewer)
	_, c.Epoch = p.(Epocher)
	_, c.Specific = p.(Specific)
	_, c.RelVal = p.(ValueReleaser)
	_, c.Reload = p.(Reloader)
	_, c.Reapply = p.(Resetter)
	_, c.Fault = p.(FaultInjectable)
	_, c.Move = p.(Mover)
	return c
}

var subNames = []string{"a", "b", "c", "d", "e", "f", "g", "h"}

// Alphabet returns the op alphabet for nsubs subscribers; ops for subscriber i
// are tagged so the enumerator can apply symmetry reduction.
type Sym struct {
	Op  Op
	Sub int // -1 for global ops
}

func Alphabet(c Caps, nsubs int, faults bool) []Sym {
	var out []Sym
	for i := 0; i < nsubs; i++ {
		out = append(out, Sym{Op{K: "alloc", Sub: subNames[i]}, i}, Sym{Op{K: "release", Sub: subNames[i]}, i})
		if c.Renew {
			out = append(out, Sym{Op{K: "renew", Sub: subNames[i]}, i})
		}
	}
	if c.Specific {
		out = append(out, Sym{Op{K: "specific", Sub: subNames[0], V: "0"}, 0}, Sym{Op{K: "specific", Sub: subNames[1], V: "0"}, 1}, Sym{Op{K: "specific", Sub: subNames[0], V: "1"}, 0}, Sym{Op{K: "specific", Sub: subNames[0], V: "past"}, 0})
	}
	if c.RelVal {
		out = append(out, Sym{Op{K: "relval", V: "0"}, -1}, Sym{Op{K: "relval", V: "2"}, -1})
	}
	if c.Epoch {
		out = append(out, Sym{Op{K: "epoch"}, -1})
	}
	if c.Reload {
		out = append(out, Sym{Op{K: "reload"}, -1})
	}
	if c.Reapply {
		out = append(out, Sym{Op{K: "reapply", Sub: subNames[0]}, 0})
	}
	if c.Move {
		out = append(out, Sym{Op{K: "move", Sub: subNames[0], V: "-1"}, 0}, Sym{Op{K: "move", Sub: subNames[1], V: "0"}, 1}, Sym{Op{K: "move", Sub: subNames[1], V: "past"}, 1})
	}
	if faults && c.Fault {
		out = append(out, Sym{Op{K: "fail", V: "1"}, -1})
	}
	return out
}

// Enumerate calls visit for every history of exactly depth ops over alpha,
// up to renaming of subscribers (a subscriber index may be used only if all
// smaller indexes were used before). Returns the number of histories.
func Enumerate(alpha []Sym, depth int, visit func(h []Op)) int {
	n := 0
	h := make([]Op, 0, depth)
	var rec func(d, maxSub int)
	rec = func(d, maxSub int) {
		if d == depth {
			n++
			visit(h)
			return
		}
		for _, s := range alpha {
			if s.Sub > maxSub+1 {
				continue
			}
			nm := maxSub
			if s.Sub > nm {
				nm = s.Sub
			}
			h = append(h, s.Op)
			rec(d+1, nm)
			h = h[:len(h)-1]
		}
	}
	rec(0, -1)
	return n
}

// RunHistory runs one history on a fresh pool, optionally draining at the end.
func RunHistory(s *Spec, h []Op, drain bool, rep Report) (*Runner, error) {
	r, err := NewRunner(s, rep)
	if err != nil {
		return nil, err
	}
	if len(h) > 2000 {
		r.SweepEvery = 97
	}
	for _, op := range h {
		r.Do(op)
	}
	if drain {
		r.Drain("z")
	}
	Close(r.pool)
	return r, nil
}

// RandomHistory draws a biased random history.
func RandomHistory(s *Spec, c Caps, rng *rand.Rand, n int, faults bool) []Op {
	nsubs := 6
	if s.Usable > 0 && s.Usable < 64 {
		nsubs = s.Usable + 2
	} else {
		nsubs = 40 + rng.IntN(200)
	}
	sub := func(i int) string { return SubName(i) }
	var recent []int
	out := make([]Op, 0, n)
	for len(out) < n {
		x := rng.IntN(100)
		pick := func() int {
			if len(recent) > 1 && rng.IntN(100) < 40 {
				return recent[len(recent)-2] // most-recently-used-but-one
			}
			return rng.IntN(nsubs)
		}
		switch {
		case x < 45:
			i := rng.IntN(nsubs)
			recent = append(recent, i)
			if len(recent) > 8 {
				recent = recent[1:]
			}
			out = append(out, Op{K: "alloc", Sub: sub(i)})
		case x < 70:
			out = append(out, Op{K: "release", Sub: sub(pick())})
		case x < 78 && c.Renew:
			out = append(out, Op{K: "renew", Sub: sub(pick())})
		case x < 86 && c.Epoch:
			out = append(out, Op{K: "epoch"})
		case x < 89 && c.Specific:
			v := fmt.Sprint(rng.IntN(64))
			if y := rng.IntN(12); y == 0 {
				v = "past"
			} else if y == 1 {
				v = "before"
			}
			out = append(out, Op{K: "specific", Sub: sub(rng.IntN(nsubs)), V: v})
		case x < 91 && c.RelVal:
			out = append(out, Op{K: "relval", V: fmt.Sprint(rng.IntN(64))})
		case x < 93 && c.Reload:
			out = append(out, Op{K: "reload"})
		case x < 95 && c.Reapply:
			out = append(out, Op{K: "reapply", Sub: sub(pick())})
		case x < 96 && c.Move:
			v := fmt.Sprint(rng.IntN(64) - 8)
			if y := rng.IntN(10); y == 0 {
				v = "past"
			} else if y == 1 {
				v = "before"
			}
			out = append(out, Op{K: "move", Sub: sub(pick()), V: v})
		case x < 98 && faults && c.Fault:
			out = append(out, Op{K: "fail", V: "1"})
		default:
			out = append(out, Op{K: "alloc", Sub: sub(pick())})
		}
	}
	return out
}

// SubName is the i-th subscriber identifier of random histories: mostly plain, but every few are of the
// shapes real identifiers take (access-line ids with blanks, slashes and colons, realm users with '+' and
// '@', MAC and hex forms, percent signs, non-ASCII): identifiers travel through URLs, store keys and hashes.
func SubName(i int) string {
	switch i % 13 {
	case 3:
		return fmt.Sprintf("olt-%d eth 1/1/%d:100", i/13, i)
	case 5:
		return fmt.Sprintf("user+%d@realm.example", i)
	case 7:
		return fmt.Sprintf("02:00:5e:00:%02x:%02x", i/256%256, i%256)
	case 9:
		return fmt.Sprintf("cust%%20%d&x=1", i)
	case 11:
		return fmt.Sprintf("kundé-%d#b?c", i)
	}
	return fmt.Sprintf("s%d", i)
}

// Shrink reduces history h (ddmin-style single-op and chunk removal) while some rule accepted by keep is still reported.
func Shrink(s *Spec, h []Op, drain bool, keep func(prop, rule, class string) bool) []Op {
	fails := func(x []Op) bool {
		hit := false
		r, err := RunHistory(s, x, drain, func(prop, rule, class, desc string) {
			if keep(prop, rule, class) {
				hit = true
			}
		})
		_ = r
		return err == nil && hit
	}
	if !fails(h) {
		return nil
	}
	cur := append([]Op(nil), h...)
	for chunk := len(cur) / 2; chunk >= 1; {
		removed := false
		for i := 0; i+chunk <= len(cur); {
			cand := append(append([]Op(nil), cur[:i]...), cur[i+chunk:]...)
			if fails(cand) {
				cur = cand
				removed = true
			} else {
				i += chunk
			}
		}
		if !removed || chunk > 1 {
			chunk /= 2
		}
		if chunk == 0 {
			break
		}
	}
	return cur
}
