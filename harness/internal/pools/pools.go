// Package pools adapts every address/prefix pool implementation of bng to one
// interface and runs operation histories against them under a shadow-model
// monitor. The monitor's rules are tagged with the property they belong to
// (C01 uniqueness/range/idempotence, C05 conservation/counting); the C01 and
// C05 checks share the engine and each reports only its own rules.
package pools

import (
	"errors"
	"fmt"
	"net"
	"net/netip"
	"sort"
	"strings"
)

// ErrExhausted is what adapters return when the implementation reported exhaustion.
var ErrExhausted = errors.New("exhausted")

// ErrInjected is returned by fault-injecting stores.
var ErrInjected = errors.New("injected store fault")

// Pool is the adapter interface. Values are canonical netip.Prefix (address pools use /32 or /128).
type Pool interface {
	Alloc(sub string) (netip.Prefix, error)
	Release(sub string) error
	// Lookup returns the value the implementation reports for sub. ok2=false if the implementation offers no forward lookup.
	Lookup(sub string) (v netip.Prefix, found bool, supported bool)
	// Reverse returns the holder of v.
	Reverse(v netip.Prefix) (sub string, found bool, supported bool)
	// List returns all allocations if the implementation can enumerate them.
	List() (map[string]netip.Prefix, bool)
	// Stats returns (allocated, total) if reported.
	Stats() (allocated, total int, supported bool)
}

// Optional capabilities.
type Renewer interface{ Renew(sub string) error }
type Epocher interface{ AdvanceEpoch() }
type Specific interface {
	AllocSpecific(sub string, v netip.Prefix) error
}
type ValueReleaser interface{ ReleaseValue(v netip.Prefix) error }

// Mover re-assigns a subscriber to a given value the way a replayed or remote record does
// (IPAllocator.SetAllocation, DistributedAllocator.handleRemoteChange).
type Mover interface {
	Move(sub string, v netip.Prefix) error
}
type Reloader interface {
	// Reload serialises and restores (or restarts from the backing store) and returns the new instance.
	Reload() (Pool, error)
}
type Resetter interface {
	// Reapply re-applies sub's current record (SetAllocation / loadAllocations style).
	Reapply(sub string) error
}
type FaultInjectable interface {
	// FailNext makes the next n-th store write (1 = next) fail; 0 disarms.
	FailNext(n int)
	// FaultPending reports whether an armed fault has not fired yet.
	FaultPending() bool
	// StoreHas reports whether the backing store has a record for sub and its value.
	StoreHas(sub string) (netip.Prefix, bool)
}

// Spec describes one implementation + geometry.
type Spec struct {
	Impl       string // implementation name (component in findings)
	Geom       string // human-readable geometry
	New        func() (Pool, error)
	Range      netip.Prefix // configured range
	UnitBits   int          // prefix length of each unit
	Usable     int          // number of usable units per the implementation's documentation; -1 = unknown/huge
	Excluded   []netip.Addr // addresses that must never be handed out (gateway/network/broadcast) when documented
	Grace      int          // epochs of grace (lease pools); 0 = no expiry
	Concurrent bool         // implementation is called concurrently in production
	StatsKind  string       // "percent", "fraction" or ""
	Caps       *Caps        // capabilities, when they cannot be probed outside a bubble
	Bubble     bool         // pool runs timers of its own: histories must run inside a testing/synctest bubble
}

// Op is one operation of a history.
type Op struct {
	K   string `json:"k"`           // alloc release lookup renew epoch specific relval reload reapply fail
	Sub string `json:"s,omitempty"` // subscriber
	V   string `json:"v,omitempty"` // value for specific/relval (index into unit list as string) or n for fail
}

func (o Op) String() string {
	s := o.K
	if o.Sub != "" {
		s += "(" + o.Sub
		if o.V != "" {
			s += "," + o.V
		}
		s += ")"
	} else if o.V != "" {
		s += "(" + o.V + ")"
	}
	return s
}

// Report receives rule violations: prop = "C01" or "C05".
type Report func(prop, rule, class, desc string)

// Obs receives observation counters.
type Obs struct {
	Ops        map[string]int
	Reuse      bool // some value was held by two different subscribers at different times
	Expired    int
	Exhausted  int
	Drained    int
	StateHash  uint64
	OwnerMoves int
}

type holder struct {
	v         netip.Prefix
	lastRenew int
}

// Model is the shadow model built from the property text.
type Model struct {
	spec   *Spec
	owner  map[string]*holder
	byVal  map[netip.Prefix]string
	epoch  int
	everBy map[netip.Prefix]string // last holder ever seen for each value
	obs    *Obs
}

func newModel(s *Spec, o *Obs) *Model {
	return &Model{spec: s, owner: map[string]*holder{}, byVal: map[netip.Prefix]string{}, everBy: map[netip.Prefix]string{}, obs: o}
}

func (m *Model) held(sub string) (netip.Prefix, bool) {
	h, ok := m.owner[sub]
	if !ok {
		return netip.Prefix{}, false
	}
	return h.v, true
}

func (m *Model) set(sub string, v netip.Prefix) {
	if prev, ok := m.everBy[v]; ok && prev != sub {
		m.obs.Reuse = true
		m.obs.OwnerMoves++
	}
	m.everBy[v] = sub
	m.owner[sub] = &holder{v: v, lastRenew: m.epoch}
	m.byVal[v] = sub
}

func (m *Model) drop(sub string) {
	if h, ok := m.owner[sub]; ok {
		delete(m.byVal, h.v)
		delete(m.owner, sub)
	}
}

func (m *Model) advance() {
	m.epoch++
	if m.spec.Grace <= 0 {
		return
	}
	for s, h := range m.owner {
		if m.epoch-h.lastRenew > m.spec.Grace {
			m.drop(s)
			m.obs.Expired++
		}
	}
}

// Units enumerates the unit values of a small range (≤ 4096 units), in address order.
func Units(r netip.Prefix, unitBits int) []netip.Prefix {
	n := unitBits - r.Bits()
	if n < 0 || n > 12 {
		return nil
	}
	out := make([]netip.Prefix, 0, 1<<n)
	base := r.Masked().Addr()
	total := base.BitLen()
	for i := 0; i < 1<<n; i++ {
		b := base.AsSlice()
		// add i << (total-unitBits)
		shift := total - unitBits
		addShifted(b, uint64(i), shift)
		a, _ := netip.AddrFromSlice(b)
		out = append(out, netip.PrefixFrom(a, unitBits))
	}
	return out
}

func addShifted(b []byte, v uint64, shift int) {
	// add v<<shift to big-endian byte slice b
	carry := uint64(0)
	for bit := 0; bit < 64 && v>>uint(bit) != 0; bit++ {
		if v>>uint(bit)&1 == 0 {
			continue
		}
		pos := shift + bit // bit position from LSB
		idx := len(b) - 1 - pos/8
		if idx < 0 {
			break
		}
		add := uint64(1) << uint(pos%8)
		for j := idx; j >= 0; j-- {
			s := uint64(b[j]) + add + carry
			b[j] = byte(s)
			carry = 0
			add = s >> 8
			if add == 0 {
				break
			}
		}
	}
}

// inRange checks v against the configured range with net/netip only.
func inRange(s *Spec, v netip.Prefix) bool {
	if !v.IsValid() || v.Bits() != s.UnitBits {
		return false
	}
	if v.Masked() != v {
		return false
	}
	return s.Range.Contains(v.Addr()) && v.Bits() >= s.Range.Bits()
}

// FromIPNet converts *net.IPNet to netip.Prefix.
func FromIPNet(n *net.IPNet) netip.Prefix {
	if n == nil {
		return netip.Prefix{}
	}
	ones, _ := n.Mask.Size()
	ip := n.IP
	if ip4 := ip.To4(); ip4 != nil {
		ip = ip4
	}
	a, ok := netip.AddrFromSlice(ip)
	if !ok {
		return netip.Prefix{}
	}
	return netip.PrefixFrom(a, ones)
}

// FromIP converts net.IP to a host prefix.
func FromIP(ip net.IP) netip.Prefix {
	if ip == nil {
		return netip.Prefix{}
	}
	if ip4 := ip.To4(); ip4 != nil {
		ip = ip4
	}
	a, ok := netip.AddrFromSlice(ip)
	if !ok {
		return netip.Prefix{}
	}
	return netip.PrefixFrom(a, a.BitLen())
}

// ToIPNet converts back.
func ToIPNet(p netip.Prefix) *net.IPNet {
	return &net.IPNet{IP: net.IP(p.Addr().AsSlice()), Mask: net.CIDRMask(p.Bits(), p.Addr().BitLen())}
}

// Runner executes one history against a fresh pool.
type Runner struct {
	Spec   *Spec
	Report Report
	Obs    Obs
	pool   Pool
	model  *Model
	hist   []string
	subs   []string // all subscribers mentioned so far (sorted on demand)
	seen   map[string]bool
	// SweepEvery > 1 compares all lookups with the model only every n-th op (large-scale scenarios); Drain always sweeps.
	SweepEvery int
	nops       int
	dead       bool // the implementation panicked: no further ops are applied
	// faultArmed: set by Do for the current op iff an injected store fault fired during it
	faultArmed bool
}

// NewRunner builds the pool.
func NewRunner(s *Spec, rep Report) (*Runner, error) {
	p, err := s.New()
	if err != nil {
		return nil, err
	}
	r := &Runner{Spec: s, Report: rep, pool: p, seen: map[string]bool{}}
	r.Obs.Ops = map[string]int{}
	r.model = newModel(s, &r.Obs)
	return r, nil
}

func (r *Runner) note(sub string) {
	if !r.seen[sub] {
		r.seen[sub] = true
		r.subs = append(r.subs, sub)
	}
}

func (r *Runner) bad(prop, rule, class, format string, a ...any) {
	desc := fmt.Sprintf(format, a...)
	h := r.hist
	if len(h) > 60 {
		h = append([]string{"…"}, h[len(h)-60:]...)
	}
	r.Report(prop, rule, class, fmt.Sprintf("%s [%s %s] history: %s", desc, r.Spec.Impl, r.Spec.Geom, strings.Join(h, " ")))
}

// History returns the op trace so far.
func (r *Runner) History() []string { return r.hist }

// Held returns the number of live holders per the model.
func (r *Runner) Held() int { return len(r.model.owner) }

// Do applies one op to implementation and model, then checks. A panic of the implementation is a finding
// (after a reload: the restored pool does not answer as the original did), not the end of the run.
func (r *Runner) Do(op Op) {
	if r.dead {
		return
	}
	defer func() {
		if p := recover(); p != nil {
			r.dead = true
			msg := fmt.Sprint(p)
			if len(msg) > 80 {
				msg = msg[:80]
			}
			cls := "panic:" + strings.ReplaceAll(errClass(fmt.Errorf("%s", msg)), " ", "-")
			if r.Obs.Ops["reload"] > 0 {
				r.bad("C12", "serialise-restore", "restored-pool-"+cls, "%s panicked after a reload: %v", op.String(), p)
			}
			r.bad("C01", "operation-completes", cls, "%s panicked: %v", op.String(), p)
			r.bad("C05", "operation-completes", cls, "%s panicked: %v", op.String(), p)
		}
	}()
	r.do(op)
}

func (r *Runner) do(op Op) {
	r.hist = append(r.hist, op.String())
	r.Obs.Ops[op.K]++
	s := r.Spec
	fi, hasFI := r.pool.(FaultInjectable)
	armedBefore := hasFI && fi.FaultPending()
	fired := func() bool { return armedBefore && !fi.FaultPending() }
	// memory/store agreement is judged as a change: an op is blamed only if memory and store agreed
	// about this subscriber before it (a lapsed lease's record may linger in the store legitimately)
	agreedBefore := true
	if armedBefore && op.Sub != "" {
		sv, sok := fi.StoreHas(op.Sub)
		lv, lfound, lsup := r.pool.Lookup(op.Sub)
		agreedBefore = !lsup || (sok == lfound && (!sok || sv == lv))
	}
	// resync: after a failed call on a live lease holder the implementation may or may not have renewed
	// the local lease before the store write failed; a successful re-ask makes model and implementation agree again
	resync := func() {
		if s.Grace <= 0 {
			return
		}
		if _, had := r.model.held(op.Sub); !had {
			return
		}
		if v, err := r.pool.Alloc(op.Sub); err == nil {
			if mv, _ := r.model.held(op.Sub); mv == v {
				r.model.owner[op.Sub].lastRenew = r.model.epoch
			}
			r.hist = append(r.hist, "resync("+op.Sub+")")
		}
	}
	switch op.K {
	case "alloc":
		r.note(op.Sub)
		v, err := r.pool.Alloc(op.Sub)
		prev, had := r.model.held(op.Sub)
		if err != nil {
			if fired() {
				// failed persistence: the property wants the address back in circulation; memory is followed,
				// memory-vs-store agreement is reported for C12.
				sv, sok := fi.StoreHas(op.Sub)
				lv, lfound, lsup := r.pool.Lookup(op.Sub)
				if agreedBefore && lsup && (sok != lfound || (sok && sv != lv)) {
					r.bad("C12", "memory-store-agreement", "alloc-failed-write", "after failed store write during Alloc(%s): memory has (%v,%v) store has (%v,%v)", op.Sub, lv, lfound, sv, sok)
				}
				if lsup {
					switch {
					case !had && lfound:
						r.bad("C05", "failed-persistence-frees", "alloc-error-but-still-held", "Alloc(%s) returned an error (store write failed) but the subscriber still holds %v", op.Sub, lv)
						r.model.set(op.Sub, lv)
					case had && !lfound:
						// nothing released the holder and its lease has not lapsed: a failed (re-)persist that
						// makes the implementation forget the assignment hands the address to the next asker
						// while the subscriber is still using it
						r.bad("C01", "idempotent-reask", "holder-dropped-on-failed-store-write", "Alloc(%s) by the holder of %v failed on a store write and the implementation no longer knows the assignment", op.Sub, prev)
						r.model.drop(op.Sub)
					}
				}
				resync()
				break
			}
			if errors.Is(err, ErrExhausted) {
				r.Obs.Exhausted++
				if had {
					r.bad("C01", "idempotent-reask", "exhausted-while-holding", "Alloc(%s) reported exhaustion while the subscriber holds %v", op.Sub, prev)
				} else if s.Usable >= 0 && len(r.model.owner) < s.Usable {
					r.bad("C05", "exhaustion-only-when-full", fmt.Sprintf("held-%d-of-%d", min(len(r.model.owner), 9), min(s.Usable, 9)), "exhaustion reported with %d of %d usable units held by live subscribers", len(r.model.owner), s.Usable)
				}
			} else if !had && s.Usable >= 0 && len(r.model.owner) < s.Usable {
				r.bad("C05", "exhaustion-only-when-full", "error-"+errClass(err), "Alloc(%s) failed (%v) with %d of %d usable units held", op.Sub, err, len(r.model.owner), s.Usable)
			}
			break
		}
		if !inRange(s, v) {
			r.bad("C01", "in-range", rangeClass(s, v), "Alloc(%s) returned %v which is not a /%d unit inside %v", op.Sub, v, s.UnitBits, s.Range)
		}
		for _, x := range s.Excluded {
			if v.Addr() == x {
				r.bad("C01", "in-range", "excluded-address", "Alloc(%s) returned %v which is the gateway/network/broadcast address", op.Sub, v)
			}
		}
		if had {
			if v != prev {
				r.bad("C01", "idempotent-reask", "different-value", "Alloc(%s) returned %v while the subscriber already holds %v", op.Sub, v, prev)
				// follow the implementation: the old value is treated as still held by nobody-known; keep model at new value
				r.model.drop(op.Sub)
				if o, ok := r.model.byVal[v]; ok && o != op.Sub {
					r.bad("C01", "uniqueness", "alloc-returned-held-value", "Alloc(%s) returned %v which is held by %s", op.Sub, v, o)
				} else {
					r.model.set(op.Sub, v)
				}
			} else {
				r.model.owner[op.Sub].lastRenew = r.model.epoch // Allocate on a holder renews (documented for epoch allocator; harmless otherwise)
			}
		} else {
			if o, ok := r.model.byVal[v]; ok && o != op.Sub {
				r.bad("C01", "uniqueness", "alloc-returned-held-value", "Alloc(%s) returned %v which is held by %s", op.Sub, v, o)
			} else {
				// overlapping (not just equal) prefixes
				for hv, o := range r.model.byVal {
					if o != op.Sub && hv.Overlaps(v) {
						r.bad("C01", "uniqueness", "alloc-returned-overlapping-value", "Alloc(%s) returned %v which overlaps %v held by %s", op.Sub, v, hv, o)
					}
				}
				r.model.set(op.Sub, v)
			}
		}
	case "release":
		r.note(op.Sub)
		err := r.pool.Release(op.Sub)
		if fired() {
			sv, sok := fi.StoreHas(op.Sub)
			lv, lfound, lsup := r.pool.Lookup(op.Sub)
			if agreedBefore && lsup && (sok != lfound || (sok && sv != lv)) {
				r.bad("C12", "memory-store-agreement", "release-failed-delete", "after failed store delete during Release(%s) (err=%v): memory has (%v,%v) store has (%v,%v)", op.Sub, err, lv, lfound, sv, sok)
			}
			if pv, had := r.model.held(op.Sub); had && err != nil && lsup && !lfound && sok {
				// the caller was told the release failed and the store still records the assignment, yet the
				// implementation has forgotten it: the address is free to go to somebody else while its holder keeps it
				r.bad("C01", "idempotent-reask", "holder-dropped-on-failed-release", "Release(%s) by the holder of %v returned an error (%v) and the store keeps the record (%v), but the implementation no longer knows the assignment", op.Sub, pv, err, sv)
			}
			if lsup && !lfound {
				r.model.drop(op.Sub)
			}
			break
		}
		_ = err // releasing a non-holder may or may not be an error; not constrained
		r.model.drop(op.Sub)
	case "renew":
		r.note(op.Sub)
		if rn, ok := r.pool.(Renewer); ok {
			err := rn.Renew(op.Sub)
			if _, had := r.model.held(op.Sub); had {
				if err == nil {
					r.model.owner[op.Sub].lastRenew = r.model.epoch
				} else if !fired() {
					r.bad("C05", "renew-within-grace", "renew-failed-for-holder", "Renew(%s) failed (%v) for a live holder", op.Sub, err)
				} else {
					// the store write of the renewal failed: the lease itself must survive (memory and store agree,
					// nobody else may be given the address)
					sv, sok := fi.StoreHas(op.Sub)
					lv, lfound, lsup := r.pool.Lookup(op.Sub)
					if agreedBefore && lsup && (sok != lfound || (sok && sv != lv)) {
						r.bad("C12", "memory-store-agreement", "renew-failed-write", "after failed store write during Renew(%s): memory has (%v,%v) store has (%v,%v)", op.Sub, lv, lfound, sv, sok)
					}
					if lsup && !lfound {
						pv, _ := r.model.held(op.Sub)
						r.bad("C01", "idempotent-reask", "holder-dropped-on-failed-store-write", "Renew(%s) by the holder of %v failed on a store write and the implementation no longer knows the assignment", op.Sub, pv)
						r.model.drop(op.Sub)
					} else {
						resync()
					}
				}
			}
		}
	case "epoch":
		if ep, ok := r.pool.(Epocher); ok {
			ep.AdvanceEpoch()
			r.model.advance()
		}
	case "specific":
		r.note(op.Sub)
		sp, ok := r.pool.(Specific)
		if !ok {
			break
		}
		units := Units(s.Range, s.UnitBits)
		var idx int
		fmt.Sscanf(op.V, "%d", &idx)
		if len(units) == 0 {
			break
		}
		v := units[((idx%len(units))+len(units))%len(units)]
		if op.V == "past" || op.V == "before" {
			v = outside(s, units, op.V == "past")
			if !v.IsValid() {
				break
			}
			if err := sp.AllocSpecific(op.Sub, v); err == nil {
				r.bad("C01", "in-range", "specific-accepted-"+op.V+"-the-range", "AllocateSpecific(%s,%v) succeeded although %v lies outside %v", op.Sub, v, v, s.Range)
			}
			if got, found, sup := r.pool.Lookup(op.Sub); sup && found && got == v {
				r.model.drop(op.Sub) // follow the implementation so that later ops are judged on their own
				r.model.set(op.Sub, v)
			}
			break
		}
		err := sp.AllocSpecific(op.Sub, v)
		prev, had := r.model.held(op.Sub)
		o, taken := r.model.byVal[v]
		if err == nil {
			if taken && o != op.Sub {
				r.bad("C01", "uniqueness", "specific-accepted-held-value", "AllocateSpecific(%s,%v) succeeded although %v is held by %s", op.Sub, v, v, o)
			} else if had && prev != v {
				// implementation moved the subscriber; allowed only if old value is really released — follow it
				r.model.drop(op.Sub)
				r.model.set(op.Sub, v)
			} else if !had {
				r.model.set(op.Sub, v)
			}
		}
	case "relval":
		vr, ok := r.pool.(ValueReleaser)
		if !ok {
			break
		}
		units := Units(s.Range, s.UnitBits)
		var idx int
		fmt.Sscanf(op.V, "%d", &idx)
		if len(units) == 0 {
			break
		}
		v := units[idx%len(units)]
		err := vr.ReleaseValue(v)
		if o, ok := r.model.byVal[v]; ok && err == nil {
			r.model.drop(o)
		}
	case "move":
		r.note(op.Sub)
		mv, ok := r.pool.(Mover)
		units := Units(s.Range, s.UnitBits)
		if !ok || len(units) == 0 {
			break
		}
		var idx int
		fmt.Sscanf(op.V, "%d", &idx)
		if idx < 0 {
			idx = len(units) + idx
		}
		v := units[((idx%len(units))+len(units))%len(units)]
		if op.V == "past" || op.V == "before" {
			// a replayed / announced record naming the unit just outside the pool must not be adopted
			v = outside(s, units, op.V == "past")
			if !v.IsValid() {
				break
			}
			if _, storeBacked := r.pool.(FaultInjectable); storeBacked {
				if _, h := r.model.held(op.Sub); h {
					// the harness delivers an announcement by writing the shared store first: doing that for a
					// live holder would replace its good record by the bogus one and make a later restart from
					// the store lose the holder for a reason that is not the implementation's
					break
				}
			}
			_ = mv.Move(op.Sub, v)
			if got, found, sup := r.pool.Lookup(op.Sub); sup && found && got == v {
				r.bad("C01", "in-range", "record-adopted-"+op.V+"-the-range", "a record placing %s on %v was adopted although %v lies outside %v", op.Sub, v, v, s.Range)
				r.model.drop(op.Sub)
				r.model.set(op.Sub, v)
			}
			break
		}
		o, taken := r.model.byVal[v]
		if _, storeBacked := r.pool.(FaultInjectable); storeBacked && taken && o != op.Sub {
			// a remote announcement for an address another subscriber holds is a cluster-level conflict;
			// its handling (ignore, keep injectivity) is judged by C12 with a model of the shared store
			break
		}
		if pv, h := r.model.held(op.Sub); h && pv == v {
			// re-announcing the value the subscriber already holds: whether that counts as a renewal is
			// not something the property speaks of; Reapply covers the idempotence of such records
			break
		}
		_ = mv.Move(op.Sub, v)
		got, found, sup := r.pool.Lookup(op.Sub)
		if sup && found && got == v {
			if taken && o != op.Sub {
				r.bad("C01", "uniqueness", "move-onto-held-value", "re-assigning %s to %v succeeded although %s holds it", op.Sub, v, o)
			} else {
				r.model.drop(op.Sub)
				r.model.set(op.Sub, v)
			}
		}
	case "reapply":
		r.note(op.Sub)
		if rs, ok := r.pool.(Resetter); ok {
			if _, had := r.model.held(op.Sub); had {
				_ = rs.Reapply(op.Sub)
			}
		}
	case "reload":
		rl, ok := r.pool.(Reloader)
		if !ok {
			break
		}
		np, err := rl.Reload()
		if err != nil {
			r.bad("C12", "serialise-restore", "reload-error", "reload failed: %v", err)
			break
		}
		r.pool = np
	case "fail":
		if fi, ok := r.pool.(FaultInjectable); ok {
			n := 1
			fmt.Sscanf(op.V, "%d", &n)
			fi.FailNext(n)
		}
	}
	r.nops++
	if r.SweepEvery <= 1 || r.nops%r.SweepEvery == 0 {
		r.sweep()
	}
}

func errClass(err error) string {
	s := err.Error()
	if i := strings.IndexAny(s, ":("); i > 0 {
		s = s[:i]
	}
	s = strings.TrimSpace(s)
	if len(s) > 30 {
		s = s[:30]
	}
	return strings.ReplaceAll(s, " ", "-")
}

func rangeClass(s *Spec, v netip.Prefix) string {
	switch {
	case !v.IsValid():
		return "invalid-value"
	case v.Bits() != s.UnitBits:
		return "wrong-prefix-length"
	case v.Masked() != v:
		return "unaligned-unit"
	default:
		return "outside-configured-range"
	}
}

// sweep compares every observable lookup with the model.
func (r *Runner) sweep() {
	s := r.Spec
	subs := r.subs
	for _, sub := range subs {
		want, had := r.model.held(sub)
		got, found, sup := r.pool.Lookup(sub)
		if !sup {
			break
		}
		if found && !inRange(s, got) {
			r.bad("C01", "in-range", "lookup-shows-"+rangeClass(s, got), "Lookup(%s)=%v which is not a /%d unit inside %v", sub, got, s.UnitBits, s.Range)
		}
		switch {
		case had && !found:
			r.bad("C01", "lookup-agrees", "holder-not-found", "Lookup(%s) finds nothing but the subscriber holds %v", sub, want)
		case had && found && got != want:
			r.bad("C01", "lookup-agrees", "holder-different-value", "Lookup(%s)=%v but the subscriber was assigned %v", sub, got, want)
		case !had && found:
			if o, ok := r.model.byVal[got]; ok && o != sub {
				r.bad("C01", "uniqueness", "lookup-shows-two-holders", "Lookup(%s)=%v which is held by %s", sub, got, o)
			} else {
				r.bad("C05", "released-is-free", "stale-holder-after-release-or-expiry", "Lookup(%s)=%v although the subscriber released it or its lease lapsed", sub, got)
			}
		}
	}
	// reverse direction
	for v, o := range r.model.byVal {
		sub, found, sup := r.pool.Reverse(v)
		if !sup {
			break
		}
		if !found {
			r.bad("C01", "lookup-agrees", "reverse-not-found", "reverse lookup of %v finds nobody but %s holds it", v, o)
		} else if sub != o {
			r.bad("C01", "lookup-agrees", "reverse-different-holder", "reverse lookup of %v gives %s but %s holds it", v, sub, o)
		}
	}
	if l, ok := r.pool.List(); ok {
		seen := map[netip.Prefix]string{}
		for sub, v := range l {
			if o, dup := seen[v]; dup {
				r.bad("C01", "uniqueness", "list-not-injective", "ListAllocations shows %v for both %s and %s", v, o, sub)
			}
			seen[v] = sub
		}
		if len(l) != len(r.model.owner) {
			r.bad("C05", "counts-equal-truth", "list-size", "ListAllocations has %d entries, %d live holders", len(l), len(r.model.owner))
		}
	}
	if a, t, ok := r.pool.Stats(); ok {
		if a != len(r.model.owner) {
			r.bad("C05", "counts-equal-truth", cmpClass("allocated", a, len(r.model.owner)), "Stats reports %d allocated, true number of live holders is %d", a, len(r.model.owner))
		}
		if s.Usable >= 0 && t != s.Usable {
			r.bad("C05", "counts-equal-truth", "total", "Stats reports total %d, usable units are %d", t, s.Usable)
		}
	}
}

func cmpClass(what string, got, want int) string {
	if got > want {
		return what + "-overcount"
	}
	return what + "-undercount"
}

// Drain allocates fresh subscribers until exhaustion and judges conservation:
// usable = held + obtainable.
func (r *Runner) Drain(tag string) {
	s := r.Spec
	if s.Usable < 0 || s.Usable > 4096 || r.dead {
		return
	}
	defer func() {
		if p := recover(); p != nil {
			r.dead = true
			r.bad("C05", "operation-completes", "panic-during-drain", "allocation of a fresh subscriber panicked: %v", p)
			r.bad("C01", "operation-completes", "panic-during-drain", "allocation of a fresh subscriber panicked: %v", p)
			if r.Obs.Ops["reload"] > 0 {
				r.bad("C12", "serialise-restore", "restored-pool-panic-during-drain", "allocation of a fresh subscriber panicked after a reload: %v", p)
			}
		}
	}()
	held := len(r.model.owner)
	got := 0
	r.hist = append(r.hist, "drain")
	if fi, ok := r.pool.(FaultInjectable); ok {
		fi.FailNext(0)
	}
	for i := 0; i < s.Usable+2; i++ {
		sub := fmt.Sprintf("fresh-%s-%d", tag, i)
		v, err := r.pool.Alloc(sub)
		if err != nil {
			break
		}
		if o, ok := r.model.byVal[v]; ok {
			r.bad("C01", "uniqueness", "alloc-returned-held-value", "Alloc(%s) during drain returned %v held by %s", sub, v, o)
			break
		}
		if !inRange(s, v) {
			r.bad("C01", "in-range", rangeClass(s, v), "Alloc(%s) during drain returned %v outside %v", sub, v, s.Range)
		}
		r.model.set(sub, v)
		got++
	}
	r.Obs.Drained += got
	if held+got < s.Usable {
		r.bad("C05", "conservation", fmt.Sprintf("leaked-%s", bucket(s.Usable-held-got)), "usable=%d held=%d obtainable=%d: %d unit(s) are neither held nor obtainable", s.Usable, held, got, s.Usable-held-got)
	} else if held+got > s.Usable {
		r.bad("C05", "conservation", "more-than-usable", "usable=%d held=%d obtainable=%d", s.Usable, held, got)
	}
	r.sweep()
}

func bucket(n int) string {
	switch {
	case n == 1:
		return "1"
	case n <= 3:
		return "2-3"
	default:
		return "4+"
	}
}

// StateKey is an abstract-state fingerprint of the model.
func (r *Runner) StateKey() string {
	keys := make([]string, 0, len(r.model.owner))
	for s, h := range r.model.owner {
		keys = append(keys, fmt.Sprintf("%s=%v@%d", s, h.v, r.model.epoch-h.lastRenew))
	}
	sort.Strings(keys)
	return strings.Join(keys, ",")
}

func min(a, b int) int {
	if a < b {
		return a
	}
	return b
}

func yield() { runtimeGosched() }

// outside returns the unit directly after (past) or before the configured range, or the zero Prefix.
func outside(s *Spec, units []netip.Prefix, past bool) netip.Prefix {
	if len(units) == 0 {
		return netip.Prefix{}
	}
	if past {
		b := units[len(units)-1].Addr().AsSlice()
		addShifted(b, 1, units[0].Addr().BitLen()-s.UnitBits)
		a, ok := netip.AddrFromSlice(b)
		if !ok || s.Range.Contains(a) {
			return netip.Prefix{}
		}
		return netip.PrefixFrom(a, s.UnitBits)
	}
	// before: subtract one unit from the first
	b := units[0].Addr().AsSlice()
	shift := units[0].Addr().BitLen() - s.UnitBits
	idx := len(b) - 1 - shift/8
	sub := byte(1) << uint(shift%8)
	for j := idx; j >= 0; j-- {
		old := b[j]
		b[j] -= sub
		if old >= sub {
			break
		}
		sub = 1
	}
	a, ok := netip.AddrFromSlice(b)
	if !ok || s.Range.Contains(a) {
		return netip.Prefix{}
	}
	return netip.PrefixFrom(a, s.UnitBits)
}
