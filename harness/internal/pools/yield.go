package pools

import (
	"runtime"
	"time"
)

func runtimeGosched() { runtime.Gosched(); time.Sleep(50 * time.Microsecond) }
